"""C20 — trapezoid gradient designers meet area, amplitude and slew limits
(sigpy/mri/rf/trajgrad.py: trap_grad, min_trap_grad, spokes_grad)."""
import json
import math
import os
import subprocess
import sys
from fractions import Fraction as Fr

import numpy as np

from harness import common
from harness.translate import gen as G

PROPERTY = "C20"
LEAN_MODULES = ["SigpyVerif.Props.C20", "SigpyVerif.Props.C20Rat", "SigpyVerif.Props.C20Spokes"]
THEOREMS = ["SigpyVerif.C20." + t for t in [
    "sum_pulse", "pulse_ends", "pulse_range", "pulse_chain",
    "wave_sum", "wave_ends", "wave_range", "wave_chain", "design_meets_limits",
    "ramppts0_eq", "ramppts0_spec", "trap_triangle", "trap_trapezoid", "trap_ramppts_pos", "trap_sum", "trap_area",
    "trap_tri_limits", "trap_trapezoid_limits", "trap_meets_limits", "trap_slew_getElem",
    "min_design_ok", "min_trap_meets_limits", "min_trap_none_iff", "floor_flat_zero_iff", "min_trap_defined",
    "ceilSqrtDiv2Ok_iff", "floorDivSqrt2Ok_iff",
    "spokes_axis_limits", "spokes_gz_limits", "blip_kspace",
    # Props/C20Rat.lean: the Rat (driver) <-> ℝ (theorems) bridge and the ceiling-tie characterisation
    "ratCeil_eq", "ratCeilNat_cast", "ceil_perturb_iff", "ceil_stable", "natCeil_stable",
    "ceilSqrtDiv2Ok_cast", "floorDivSqrt2Ok_cast", "trapTriRamppts_cast", "minPts_cast", "rat_real_agree",
    "wave_cast", "trapGrad_cast", "minTrapGrad_cast",
    "trap_meets_limits_rat", "trap_area_rat", "min_trap_meets_limits_rat", "min_trap_defined_rat",
    # Props/C20Spokes.lean: the generated spokes_grad assembly
    "pySliceTo_append_zeros", "spokesStep_eq", "segOf_length", "loopState_eq", "spokes_closed_form", "spokesAxis_eq",
    "spokes_limits", "spokes_kspace", "spokes_kspace_y", "spokes_limits_designers", "spokes_kspace_designers",
]]

DOM = dict(area=(1e-6, 1.0), gmax=(0.1, 10.0), dgdt=(1e2, 1e5), dt=(1e-6, 1e-4))
RTOL = 1e-9          # the property's float slack
CTOL = 1e-10         # correspondence: float sample vs exact model value (observed ≤ 3e-14 for len ≤ 6000)


def translate(ctx):
    G.regenerate(ctx, ["TrapGrad", "Spokes"])


def tg():
    from sigpy.mri.rf import trajgrad
    return trajgrad


# ---- exact helpers ----------------------------------------------------------------------------
def fr(x):
    return Fr(*float(x).as_integer_ratio())


def rs(q):
    return "%d/%d" % (q.numerator, q.denominator) if q.denominator != 1 else str(q.numerator)


def typed(v, how):
    """the scalar types a caller hands to the designers: Python float ("py", default), numpy float64 ("np": what
    spokes_grad itself passes on), and — when the value is integral (gmax = 4, dgdt = 20000, tbw = 4, sl_thick = 5) —
    Python int ("int") / numpy int64 ("npint").  Same real number in every case, so the same demands."""
    if how in ("int", "npint") and float(v).is_integer():
        return int(v) if how == "int" else np.int64(int(v))
    if how in ("np", "npint"):
        return np.float64(v)
    return float(v)


def call_args(c):
    how = c.get("scalar", "py")
    return [typed(c[k], how) for k in ("area", "gmax", "dgdt", "dt")]


def floor_sqrt(q):
    """floor(sqrt(q)) for a Fraction q ≥ 0, exactly"""
    return math.isqrt(q.numerator * q.denominator) // q.denominator


def ceil_sqrt(q):
    r = floor_sqrt(q)
    return r if r * r == q else r + 1


def tie_dist(q):
    """relative distance of a positive Fraction to the nearest integer (0 at a tie)"""
    n = round(q)
    return float(abs(q - n) / max(abs(q), 1))


def exact_params(c):
    a, g, s, d = (fr(c[k]) for k in ("area", "gmax", "dgdt", "dt"))
    return a, g, s, d


def trap_hint(c):
    a, g, s, d = exact_params(c)
    return ceil_sqrt(a * s / (s * d) ** 2)


def min_hint(c):
    a, g, s, d = exact_params(c)
    return floor_sqrt(a * a / ((s * a / 2) * d * d))


def near_tie(c, fn):
    """is one of the ceilings / floors the float code takes within 1e-9 (relative) of an integer?  Then IEEE
    rounding may legitimately land on the other side and integer outputs are not compared."""
    a, g, s, d = exact_params(c)
    qs = []
    if fn == "trap":
        q0 = g / s / d
        r0 = math.ceil(q0)
        tam = r0 * d * g
        qs += [q0, a / tam]                       # regime switch is a tie when area == triareamax
        if tam > a:
            x = a * s / (s * d) ** 2
            r = ceil_sqrt(x)
            qs.append(Fr(r * r) / x if x else Fr(1))
            qs.append(Fr((r - 1) ** 2) / x if r > 1 else Fr(1, 2))
        else:
            qs.append((a - tam) / g / d / 2 if a > tam else Fr(1, 2))
    else:
        x = a * a / ((s * a / 2) * d * d)
        p = floor_sqrt(x)
        qs.append(Fr(p * p) / x if p else Fr(1, 2))
        qs.append(Fr((p + 1) ** 2) / x)
        n = max(p, 1)
        fv = a / n / d
        qs.append(fv / g)                         # gmax cap is a tie when fv == gmax
        if fv > g:
            n = math.ceil(a / g / d)
            qs.append(a / g / d)
            fv = a / n / d
        qs.append(fv / s / d)
    if c.get("kind") == "dyadic" and fn == "trap":
        # few-bit dyadic inputs: every float operation feeding trap_grad's integer outputs (gmax/dgdt/dt, ramppts*dt*gmax,
        # sqrt of a perfect square, (area-triareamax)/gmax/dt/2) is exact, so an exact tie is computed exactly and IS
        # compared; only inexact near-ties are excused.  (min_trap_grad divides by the flat length, which is inexact, so
        # its ties stay excused: e.g. gmax=.5, dgdt=128, dt=2^-16, area=0.00058418...: fv/dgdt/dt = 99 exactly, float 99+ulp.)
        return any(q > 0 and 0 < tie_dist(q) < 1e-9 for q in qs)
    return any(q > 0 and tie_dist(q) < 1e-9 for q in qs)


def pred_len(c):
    a, g, s, d = c["area"], c["gmax"], c["dgdt"], c["dt"]
    return 2 * (g / s / d + 2) + a / g / d + math.sqrt(a / s) / d


# ---- case generation ---------------------------------------------------------------------------
def logu(rng, lo, hi):
    return math.exp(rng.uniform(math.log(lo), math.log(hi)))


def in_dom(c):
    return all(DOM[k][0] <= c[k] <= DOM[k][1] for k in DOM)


def case_of(c):
    """what a replay needs of a designer case"""
    out = {k: c[k] for k in ("area", "gmax", "dgdt", "dt")}
    if c.get("scalar", "py") != "py":
        out["scalar"] = c["scalar"]
    return out


def rand_case(rng, maxlen):
    for _ in range(10000):
        c = {k: logu(rng, *DOM[k]) for k in DOM}
        if rng.random() < 0.3:   # round to few digits: exactly representable-ish, ties more likely
            c = {k: float("%.2g" % v) for k, v in c.items()}
        u = rng.random()
        if u < 0.15:             # integral hardware limits handed over as Python / numpy integers (gmax=4, dgdt=20000)
            c["gmax"] = float(rng.randint(1, 10))
            c["dgdt"] = float(rng.randint(1, 1000) * 100)
            c["scalar"] = rng.choice(["int", "npint"])
            c["kind"] = "int-hw"
        elif u < 0.4:            # numpy float64 scalars (what spokes_grad and array-indexing callers pass)
            c["scalar"] = "np"
        if in_dom(c) and pred_len(c) <= maxlen:
            return c
    raise RuntimeError("no case")


def boundary_cases(rng, maxlen, n):
    """regime boundary area = triareamax·(1±1e-12) and exact; ceiling/floor ties of every rounding."""
    out = []
    while len(out) < n:
        c = rand_case(rng, maxlen)
        g, s, d = c["gmax"], c["dgdt"], c["dt"]
        kind = rng.choice(["regime", "regime", "tie-r0", "tie-tri", "tie-nflat", "tie-minfloor", "tie-mincap", "dyadic"])
        if kind == "regime":
            r0 = int(np.ceil(g / s / d))
            c["area"] = r0 * d * g * rng.choice([1.0, 1 - 1e-12, 1 + 1e-12, 1 - 1e-9, 1 + 1e-9])
        elif kind == "tie-r0":
            m = rng.randint(1, 400)
            c["gmax"] = m * s * d
        elif kind == "tie-tri":
            m = rng.randint(1, 400)
            c["area"] = m * m * s * d * d
        elif kind == "tie-nflat":
            r0 = int(np.ceil(g / s / d))
            c["area"] = r0 * d * g + 2 * rng.randint(1, 300) * g * d
        elif kind == "tie-minfloor":
            m = rng.randint(1, 400)
            c["area"] = m * m * d * d * s / 2
        elif kind == "tie-mincap":
            m = rng.randint(1, 400)
            c["area"] = m * g * d
        else:  # all dyadic: every float operation of the designers is exact, ties are hit exactly
            c = dict(gmax=2.0 ** rng.randint(-3, 3), dgdt=2.0 ** rng.randint(7, 16), dt=2.0 ** -rng.randint(14, 19))
            m = rng.randint(1, 200)
            c["area"] = rng.choice([m * m * c["dgdt"] * c["dt"] ** 2, m * c["gmax"] * c["dt"],
                                    m * m * c["dt"] ** 2 * c["dgdt"] / 2])
        c["kind"] = kind
        if in_dom(c) and pred_len(c) <= maxlen:
            out.append(c)
    return out


def small_flat_cases(rng, n):
    """min_trap_grad with 0, 1, 2 flat points (area ≲ dgdt·dt²)"""
    out = []
    while len(out) < n:
        c = rand_case(rng, 1e9)
        c["area"] = c["dgdt"] * c["dt"] ** 2 / 2 * rng.choice([0.3, 0.9, 1.0, 1.1, 2.5, 4.0, 5.0, 9.5])
        c["kind"] = "small-flat"
        if in_dom(c) and pred_len(c) <= 20000:
            out.append(c)
    return out


# ---- model side --------------------------------------------------------------------------------
def pick_idx(rng, n, r):
    idx = {0, 1, n - 1, n - 2, r - 1, r, r + 1, r + 2, n - r - 2, n - r - 1, n // 2}
    idx |= {rng.randrange(n) for _ in range(6)}
    return sorted(i for i in idx if 0 <= i < n)


def parse(r):
    if not r.startswith("ok "):
        return r
    head, smp = r[3:].split(" | ")
    d = dict(t.split("=") for t in head.split())
    out = dict(r=int(d["r"]), nflat=int(d["nflat"]), len=int(d["len"]), scale=Fr(d["scale"]), sum=Fr(d["sum"]),
               flatsum=Fr(d["flatsum"]), exact=(int(d["xr"]), int(d["xnflat"]), int(d["xlen"])))
    out["smp"] = [] if smp == "-" else [Fr(v) for v in smp.split(",")]
    return out


class NpRec:
    """stands in for the module-global `np` of trajgrad.py while one designer runs: records, in call order, the
    doubles handed to np.ceil / np.floor / np.sqrt (np.ceil and np.floor are exact on doubles, so the integer the float
    code obtains at a site is exactly the ceiling / floor of the recorded double)"""

    def __init__(self):
        self.ev = []

    def __getattr__(self, n):
        return getattr(np, n)

    def ceil(self, x):
        self.ev.append(("ceil", float(x)))
        return np.ceil(x)

    def floor(self, x):
        self.ev.append(("floor", float(x)))
        return np.floor(x)

    def sqrt(self, x):
        self.ev.append(("sqrt", float(x)))
        return np.sqrt(x)


def float_path(fn, ev):
    """the float code's path through the numbered rounding sites of Gen/TrapGrad.lean -> protocol fields, or None when
    the sequence of rounding calls is not the one of the translated source"""
    kinds = [k for k, _ in ev]
    X = lambda v: rs(fr(v))  # noqa
    if fn == "trap":
        if kinds == ["ceil", "sqrt", "ceil"]:       # triangle
            return "hcf=%d cf=%s,x lf=1" % (max(int(math.ceil(ev[2][1])), 0), X(ev[0][1]))
        if kinds == ["ceil", "ceil"]:               # trapezoid
            return "cf=%s,%s lf=0" % (X(ev[0][1]), X(ev[1][1]))
        return None
    if kinds == ["sqrt", "floor", "ceil"]:          # not capped
        return "hff=%d cf=x,x,x,%s lf=x,0" % (max(int(math.floor(ev[1][1])), 0), X(ev[2][1]))
    if kinds == ["sqrt", "floor", "ceil", "ceil"]:  # capped at gmax
        return "hff=%d cf=x,x,%s,%s lf=x,1" % (max(int(math.floor(ev[1][1])), 0), X(ev[2][1]), X(ev[3][1]))
    return None


def run_real(fn, c, rec=None):
    T = tg()
    f = T.trap_grad if fn == "trap" else T.min_trap_grad
    old = T.np
    if rec is not None:
        T.np = rec
    try:
        w, r = f(*call_args(c))
    except ValueError:
        return "err value"
    except Exception as e:  # noqa
        return "err %s" % type(e).__name__
    finally:
        T.np = old
    w = np.asarray(w, dtype=float)
    if w.ndim != 2 or w.shape[0] != 1:
        return "err shape %s" % (w.shape,)
    return w[0], int(r)


def model_line(fn, c, idx, path=""):
    a, g, s, d = exact_params(c)
    if fn == "trap":
        return "C20 trap area=%s gmax=%s dgdt=%s dt=%s hc=%d %s idx=%s" % (rs(a), rs(g), rs(s), rs(d), trap_hint(c), path,
                                                                          ",".join(map(str, idx)) or "-")
    return "C20 mintrap area=%s gmax=%s dgdt=%s dt=%s hf=%d %s idx=%s" % (rs(a), rs(g), rs(s), rs(d), min_hint(c), path,
                                                                         ",".join(map(str, idx)) or "-")


def compare(ctx, stream, fn, cases):
    """real function vs Rat model.  The model is evaluated twice at the exact rational values of the float inputs:
    (x) with exact ceilings / comparisons — the design `trap_meets_limits_rat` & co. are about — and (f) along the float
    code's own path: at every numbered rounding site the ceiling is taken of the double the real code handed to np.ceil
    (recorded while it ran).  (f) must reproduce ramppts and the length EXACTLY and the samples, Σ, flat Σ at CTOL —
    always, ties included.  (x) may differ from (f) only if some rounding site is within 1e-9 of an integer (a rounding
    error of a few ulp crossed it: `ceil_perturb_iff`); that is counted, and anything else is a disagreement."""
    real, lines, idxs = [], [], []
    for c in cases:
        c.pop("second_call", None)
        if ctx.rng.random() < 0.12:
            # the compared call is the SECOND one with these arguments; the caller has negated the first result in place
            # (the model is a function of the arguments alone)
            pre = run_real(fn, c)
            if isinstance(pre, tuple) and pre[0].flags.writeable:
                pre[0][...] *= -1.0
            c["second_call"] = True      # (a disagreement on it is replayed by `search` as the two-call history it is)
            ctx.count("%s:second-call-after-caller-negated-first-result" % fn)
        rec = NpRec()
        rr = run_real(fn, c, rec)
        real.append(rr)
        if isinstance(rr, tuple):
            idx = pick_idx(ctx.rng, len(rr[0]), rr[1])
        else:
            idx = []
        idxs.append(idx)
        path = float_path(fn, rec.ev)
        if path is None and isinstance(rr, tuple):
            real[-1] = "err unexpected-rounding-calls %s" % [k for k, _ in rec.ev]
        lines.append(model_line(fn, c, idx, path or ""))
    replies = ctx.driver(lines)
    bad = 0
    for c, rr, idx, ln, rep in zip(cases, real, idxs, lines, replies):
        m = parse(rep)
        ctx.case((fn, ln), nontrivial=True, sample=dict(line=ln[:200], reply=rep[:160]) if ctx.evaluations % 41 == 0 else None)
        ctx.count("%s:%s" % (fn, c.get("kind", "random")))
        ctx.count("%s:scalar-type:%s" % (fn, c.get("scalar", "py")))
        if isinstance(m, str) or isinstance(rr, str):
            if m != rr:
                bad += 1
                ctx.disagree(stream, dict(fn=fn, case=c), rr if isinstance(rr, str) else "waveform", m if isinstance(m, str) else "design")
            continue
        w, r = rr
        ints_real = (r, len(w))
        ints_model = (m["r"], m["len"])
        if ints_real != ints_model:
            bad += 1
            ctx.disagree(stream, dict(fn=fn, case=c), ints_real, ints_model)
            continue
        if m["exact"] != (m["r"], m["nflat"], m["len"]):
            # the float code rounded across an integer somewhere: legitimate only at a (near-)tie of a rounding site
            ctx.count("%s:float-path-differs-from-exact-path" % fn)
            ctx.floatpath = getattr(ctx, "floatpath", 0) + 1
            if not near_tie(c, fn):
                bad += 1
                ctx.disagree(stream, dict(fn=fn, case=c), "integer outputs %s (r, nflat, len) away from any tie" % ((m["r"], m["nflat"], m["len"]),),
                             "exact %s" % (m["exact"],))
                continue
        elif near_tie(c, fn):
            ctx.count("%s:near-tie-compared-exactly" % fn)
        ctx.count("%s:shape:%s" % (fn, "with-flat" if m["nflat"] else "triangle"))
        sc = float(m["scale"])
        errs = [abs(w[i] - float(v)) for i, v in zip(idx, m["smp"])]
        e_sum = abs(float(np.sum(w)) - float(m["sum"])) / float(m["sum"])
        nf = m["nflat"]
        flat = w[r + 1: r + 1 + nf]
        e_flat = abs(float(np.sum(flat)) - float(m["flatsum"])) / max(float(m["flatsum"]), sc) if nf else 0.0
        worst = max([e / sc for e in errs] + [e_sum, e_flat])
        ctx.maxerr = max(getattr(ctx, "maxerr", 0.0), worst)
        if worst > CTOL:
            bad += 1
            ctx.disagree(stream, dict(fn=fn, case=c), "rel.err %.3g (samples %s)" % (worst, [float(w[i]) for i in idx][:6]),
                         [float(v) for v in m["smp"]][:6])
    return bad


# ---- spokes assembly: real spokes_grad on labelled sub-waveforms vs the GENERATED assembly (Gen/Spokes.lean) ------
def spokes_labelled(rng, outside):
    """run the real spokes_grad with min_trap_grad / trap_grad replaced by table functions area -> labelled waveform
    (the same area gets the same waveform); `outside`: some blips are longer than the slice-select lobe.
    Returns (protocol line, real result or 'err value', is some blip longer than the lobe)."""
    T = tg()
    n = rng.randint(1, 6)
    kc = dict(k=[[rng.choice([0, 0, 1, 2, -1, 3, 5]), rng.choice([0, 0, 1, -2, 2, -4])] for _ in range(n)],
              dtype=rng.choice(["float64", "float64", "float64", "int64", "int32", "int16", "float32"]),
              layout=rng.choice(LAYOUTS))
    k = make_k(kc)                       # the array handed to the real code (integer grid: every dtype holds it exactly)
    hw = rng.choice(["py", "py", "np", "int", "npint"])
    nsub = rng.randint(3, 9)
    sub = np.arange(1, nsub + 1, dtype=float)
    tbw, sl_thick, gts = rng.choice([2, 4, 8]), rng.choice([5.0, 3.0, 10.0, 7.5]), rng.choice([4e-6, 1e-5, 2e-6])
    label = [100]
    mtab, ttab = {}, {}

    def fake_min(area, gmax, dgdt, dt):
        if (gmax, dgdt, dt) != (4.0, 2e4, gts):
            raise AssertionError("designer arguments")
        mtab.setdefault(float(area), sub.copy())
        return mtab[float(area)][None, :].copy(), 2

    def fake_trap(area, gmax, dgdt, dt, *a):
        if (gmax, dgdt, dt) != (4.0, 2e4, gts) or a:
            raise AssertionError("designer arguments")
        if float(area) not in ttab:
            ln = rng.randint(nsub + 1, 2 * nsub + 2) if (outside and rng.random() < 0.5) else rng.randint(2, nsub)
            ttab[float(area)] = np.arange(label[0], label[0] + ln, dtype=float)
            label[0] += 100
        return ttab[float(area)][None, :].copy(), 1

    old = T.min_trap_grad, T.trap_grad
    T.min_trap_grad, T.trap_grad = fake_min, fake_trap
    try:
        g = T.spokes_grad(k, typed(tbw, hw), typed(sl_thick, hw), typed(4.0, hw), typed(2e4, hw), typed(gts, hw))
        real = [[Fr(float(v)) for v in row] for row in np.asarray(g, dtype=float)]
    except ValueError:
        real = "err value"
    finally:
        T.min_trap_grad, T.trap_grad = old
    k = np.array(kc["k"], dtype=float)   # the spoke locations as real numbers (what the model is told)
    L = lambda v: ",".join(rs(fr(x)) for x in v) or "-"  # noqa
    W = lambda tab: ";".join(L(w) for w in tab.values()) or "-"  # noqa
    line = "C20 spokes n=%d kx=%s ky=%s tbw=%s slthick=%s gts=%s mk=%s mw=%s tk=%s tw=%s" % (
        n, L(k[:, 0]), L(k[:, 1]), rs(fr(tbw)), rs(fr(sl_thick)), rs(fr(gts)), L(mtab.keys()), W(mtab), L(ttab.keys()), W(ttab))
    # blips actually placed (the rewinder's table entry is the last one created)
    dk = [np.diff(np.concatenate((k[:, a], [0.0]))) / 4257 for a in (0, 1)]
    longer = any(abs(float(v)) in ttab and len(ttab[abs(float(v))]) > nsub for a in dk for v in a if v != 0)
    return line, real, longer, dict(k=kc["k"], dtype=kc["dtype"], layout=kc["layout"], scalar=hw, nsub=nsub, tbw=tbw,
                                    sl_thick=sl_thick, gts=gts)


def spokes_stream(ctx):
    rng = ctx.rng
    quick = ctx.tier == "quick"
    bad = 0
    lines, reals, metas, longs = [], [], [], []
    for i in range(60 if quick else 400):
        try:
            line, real, longer, meta = spokes_labelled(rng, outside=(i % 3 == 2))
        except Exception as e:  # noqa  (the real assembly raised something else / called the designers differently)
            bad += 1
            ctx.disagree("spokes", dict(stage="assembly"), "err %s %s" % (type(e).__name__, e), "waveforms")
            continue
        lines.append(line); reals.append(real); metas.append(meta); longs.append(longer)
    reps = ctx.driver(lines)
    for line, real, meta, longer, rep in zip(lines, reals, metas, longs, reps):
        ctx.case(("spokes", line), sample=dict(line=line[:200], reply=rep[:120]) if ctx.evaluations % 23 == 0 else None)
        if rep.startswith("ok "):
            model = [[Fr(v) for v in part.split(",")] if part != "-" else [] for part in rep[3:].split(" | ")]
        else:
            model = rep
        ctx.count("spokes:k-dtype:%s" % meta["dtype"])
        ctx.count("spokes:k-layout:%s" % meta["layout"])
        if not longer:
            ctx.count("spokes:inside-domain:n=%d" % len(meta["k"]))
        elif real == "err value":
            # OBSERVATION (not a violation: outside the property's domain): a blip longer than everything assembled so
            # far makes `gx[: len(gx) - len(blip)]` a negative slice; the rows get different lengths and np.vstack raises
            ctx.count("spokes:outside-domain:vstack-raises")
        else:
            # OBSERVATION: a blip longer than one lobe but not longer than the assembled axis silently overwrites the
            # tail of the previous spoke's segment
            ctx.count("spokes:outside-domain:overwrites-previous-spoke")
        if model != real:
            bad += 1
            ctx.disagree("spokes", meta, "err value" if isinstance(real, str) else [[float(v) for v in r][:12] for r in real],
                         rep[:300])
    return bad


def correspond(ctx):
    ctx.rule = ("trap/mintrap: (area, gmax, dgdt, dt) floats passed to the model as their exact rational values; "
                "log-uniform over the property's domain (30 % rounded to 2 digits), regime boundary, ceiling/floor ties "
                "(ALL compared exactly: the model follows the float code through the doubles it rounded at each numbered site), "
                "small flat tops; scalars handed over as Python float / numpy float64 / Python int / numpy int64 (integral "
                "hardware limits); 12 % of the compared calls are the SECOND call with the same arguments after the caller "
                "negated the first result in place; distinct by protocol line; spokes: real spokes_grad with table designers "
                "(labelled sub-waveforms, 1/3 of the runs with blips longer than the slice-select lobe; k as float64 / float32 / "
                "int64 / int32 / int16, C / Fortran / strided view / reversed view / read-only; scalar types as above) vs the "
                "generated assembly.  search: the same designer classes; spokes_grad on float and integer-grid location sets in "
                "all those dtypes / layouts, each designer call made by the assembly held against the designer's demands where it "
                "is returned; call histories (repeats, area sweeps with 1-ulp neighbours, spokes A-B-A, the assembly's component "
                "designs re-done stand-alone, caller-side in-place edits of returned arrays, kept results re-examined at the end), "
                "a failing history being decided and reproduced in fresh interpreters")
    quick = ctx.tier == "quick"
    rng = ctx.rng
    maxlen = 3000 if quick else 6000
    n = 300 if quick else 1500
    for fn in ("trap", "mintrap"):
        cases = [rand_case(rng, maxlen) for _ in range(n)] + boundary_cases(rng, maxlen, n)
        if fn == "mintrap":
            cases += small_flat_cases(rng, n // 2)
        bad = compare(ctx, fn, fn, cases)
        ctx.oblige("correspondence:C20." + fn, "correspondence", bad == 0, "%d disagreements" % bad)
    bad = spokes_stream(ctx)
    ctx.oblige("correspondence:C20.spokes-assembly", "correspondence", bad == 0, "%d disagreements" % bad)
    ctx.notes.append("max relative deviation real vs exact model: %.3g (tolerance %g)" % (getattr(ctx, "maxerr", 0.0), CTOL))
    d = ctx.counts
    ctx.notes.append("ceiling ties: %d cases where a rounding of the float code crossed an integer (float path != exact path; all at a "
                     "rounding site within 1e-9 of an integer), %d near-tie cases where it did not; every one of them compared exactly"
                     % (getattr(ctx, "floatpath", 0), sum(v for k, v in d.items() if k.endswith("near-tie-compared-exactly"))))
    ctx.notes.append("spokes_grad outside its domain (a blip longer than one slice-select lobe) — observed on the real code, reproduced "
                     "by the generated model, NOT a violation: np.vstack raises ValueError in %d runs, the blip silently overwrites "
                     "the tail of the previous spoke's segment in %d runs" % (d.get("spokes:outside-domain:vstack-raises", 0),
                                                                              d.get("spokes:outside-domain:overwrites-previous-spoke", 0)))
    ctx.assumptions += [
        "IEEE rounding of the float evaluation is not modelled as such: the model is exact rational arithmetic on the exact values "
        "of the float inputs; where the float code's ceiling / comparison lands on the other side of an integer (only possible "
        "within a few ulp of a tie: ceil_perturb_iff / ceil_stable) the correspondence feeds the model the recorded double of that "
        "site and compares exactly; the `_rat` theorems are about the exact path, the property's 1e-9 slack absorbs the other one",
        "numpy linspace/concatenate/ones/sum/vstack and Python's sum / list slicing are trusted to implement their specification",
        "spokes_grad: the designers are abstract in the generated assembly; tying them to min_trap_grad / trap_grad is "
        "spokes_limits_designers (proved) + the two designer correspondence streams",
    ]
    ctx.traces = ctx.evaluations


# ---- the property's oracle on the real code -----------------------------------------------------
NAME = dict(trap="trap_grad", mintrap="min_trap_grad")


def unpack(ret):
    """(waveform, ramppts) as returned by a designer -> (private 1-d float copy of the samples, ramppts)"""
    w, r = ret
    w = np.array(w, dtype=float)
    if w.ndim != 2 or w.shape[0] != 1 or w.shape[1] < 3:
        raise ValueError("bad shape %s" % (w.shape,))
    return w[0], r


def wave_checks(fn, w, r, area, gmax, dgdt, dt):
    """the property's demands on ONE designer result -> list of (what, observed, expected); empty = holds"""
    if not np.all(np.isfinite(w)):
        return [("finite", "non-finite samples", "finite waveform")]
    out = []
    if w[0] != 0 or w[-1] != 0:
        out.append(("ends-zero", (float(w[0]), float(w[-1])), (0.0, 0.0)))
    if fn == "trap":
        tot = float(np.sum(w)) * dt
    else:
        r = int(r)
        tot = float(np.sum(w[r + 1: len(w) - r - 1])) * dt
        if r < 1 or len(w) - 2 * (r + 1) < 1:
            out.append(("layout", (r, len(w)), "ramps and a non-empty flat top"))
    if abs(tot - area) > RTOL * area:
        out.append(("area", tot, area))
    pk = float(np.max(np.abs(w)))
    if pk > gmax * (1 + RTOL):
        out.append(("gmax", pk, gmax))
    sl = float(np.max(np.abs(np.diff(w)))) / dt
    if sl > dgdt * (1 + RTOL):
        out.append(("slew", sl, dgdt))
    return out


def raise_key(fn, c):
    key = "C20:%s:raises" % NAME[fn]
    if fn == "mintrap":
        p = max(min_hint(c), 0)
        a_, g_, s_, d_ = exact_params(c)
        nfl = p
        if p > 0 and a_ / p / d_ > g_:
            nfl = math.ceil(a_ / g_ / d_)
        if nfl == 0:
            key = "C20:min_trap_grad:zero-flat-points"
        elif nfl == 1:
            key = "C20:min_trap_grad:one-flat-point"
    return key


def oracle_one(ctx, fn, c, origin):
    area, gmax, dgdt, dt = (float(c[k]) for k in ("area", "gmax", "dgdt", "dt"))
    case = dict(fn=fn, case=case_of(c))
    f = tg().trap_grad if fn == "trap" else tg().min_trap_grad
    name = NAME[fn]
    try:
        w, r = unpack(f(*call_args(c)))
    except Exception as e:  # a positive request must be served
        ctx.fail(raise_key(fn, c), "%s raised %s for positive inputs" % (name, type(e).__name__), case, observed=repr(e),
                 expected="a waveform", origin=origin)
        return False
    bad = wave_checks(fn, w, r, area, gmax, dgdt, dt)
    for what, obs, exp in bad:
        ctx.fail("C20:%s:%s" % (name, what), "%s violates: %s" % (name, what), case, observed=obs, expected=exp, origin=origin)
    return not bad


# ---- spoke location sets: values, dtypes, memory layouts ------------------------------------------------------
LAYOUTS = ["C", "C", "F", "strided", "reversed", "readonly"]
K_DTYPES = ["float64"] * 6 + ["int64", "int64", "int32", "int16", "uint8", "float32", "float32"]


def make_k(c):
    """the [Nspokes, 2] array handed to spokes_grad: c["k"] (exactly representable in c["dtype"]) with the dtype and the
    memory layout of the case.  The property quantifies over spoke LOCATION sets: the same locations stored as float64,
    float32 or integers (a 1/cm grid), C- or Fortran-ordered, as a strided / reversed view of a larger array or read-only,
    request the same k-space moves."""
    dt_ = np.dtype(c.get("dtype", "float64"))
    k = np.array(c["k"], dtype=dt_).reshape(-1, 2)
    lay = c.get("layout", "C")
    if lay == "F":
        k = np.asfortranarray(k)
    elif lay == "strided":       # every other row / two inner columns of a larger array filled with a sentinel
        big = np.full((2 * len(k) + 1, 5), 7, dtype=dt_)
        big[1::2, 1:3] = k
        k = big[1::2, 1:3]
    elif lay == "reversed":      # negative row stride
        k = k[::-1].copy()[::-1]
    elif lay == "readonly":
        k.setflags(write=False)
    return k


def spokes_params(rng):
    n = rng.randint(1, 8)
    dtype = rng.choice(K_DTYPES)
    tbw = rng.choice([2, 4, 6, 8])
    how = rng.choice(["py", "py", "py", "np", "int", "npint"])
    gmax, sl_thick, dgdt = rng.uniform(1, 8), rng.uniform(2, 10), logu(rng, 4e3, 2e4)
    if how in ("int", "npint") or rng.random() < 0.15:      # integral hardware values (gmax=4, dgdt=18000, sl_thick=5)
        gmax, dgdt = float(rng.randint(1, 8)), float(rng.randint(40, 200) * 100)
        if rng.random() < 0.6:
            sl_thick = float(rng.randint(2, 10))
    if "int" in dtype:
        # spoke locations on an integer (1/cm) grid; the slice is kept thin enough that most steps still fit into one
        # slice-select lobe (the rest is outside the domain and only observed)
        grid = rng.choice([1, 1, 2, 3])
        lo = 0 if dtype.startswith("u") else -grid
        k = [[rng.randint(lo, grid), rng.randint(lo, grid)] for _ in range(n)]
        sl_thick = min(sl_thick, max(2.0, float(int(4 * tbw / grid)))) if rng.random() < 0.8 else sl_thick
    else:
        kmax = logu(rng, 0.02, 1.5)
        k = np.array([[rng.uniform(-kmax, kmax), rng.uniform(-kmax, kmax)] for _ in range(n)])
        if rng.random() < 0.4:
            k[0] = 0
        if n > 1 and rng.random() < 0.4:   # repeated coordinate -> no blip on that axis
            j = rng.randrange(1, n)
            k[j, rng.randrange(2)] = k[j - 1, rng.randrange(2)] if rng.random() < 0.5 else k[j - 1, 0]
            k[j, 0] = k[j - 1, 0]
        if n > 1 and rng.random() < 0.2:   # there and back / very small step
            j = rng.randrange(1, n)
            k[j] = -k[j - 1] if rng.random() < 0.5 else k[j - 1] * (1 + 1e-6)
        if rng.random() < 0.15:            # a few-digit grid in 1/cm (0.25 steps)
            k = np.round(k * 4) / 4
        k = k.astype(dtype).astype(float).tolist()           # exactly representable in the case's dtype
    c = dict(k=k, tbw=tbw, sl_thick=sl_thick, gmax=gmax, dgdt=dgdt, dt=rng.choice([2e-6, 4e-6, 1e-5]))
    if dtype != "float64":
        c["dtype"] = dtype
    lay = rng.choice(LAYOUTS)
    if lay != "C":
        c["layout"] = lay
    if how != "py":
        c["scalar"] = how
    return c


class Tap:
    """pass-through observers on trajgrad.min_trap_grad / trap_grad while spokes_grad runs: every designer call made by
    the assembly is recorded (arguments) and its result is held against the designer's own part of the property at the
    moment it is returned (`spokes_limits_designers` needs exactly that of each call)."""

    def __init__(self, T):
        self.T, self.calls, self.viol = T, [], []

    def wrap(self, fn, f):
        def g(area, gmax, dgdt, dt, *a):
            ret = f(area, gmax, dgdt, dt, *a)
            try:
                args = [float(area), float(gmax), float(dgdt), float(dt)]
                self.calls.append((fn, args))
                if not a and min(args) > 0:
                    w, r = unpack(ret)
                    for what, obs, exp in wave_checks(fn, w, r, *args):
                        self.viol.append((NAME[fn], what, dict(designer_call=args, observed=obs), exp))
            except Exception as e:  # noqa
                self.viol.append((NAME[fn], "raises", dict(designer_call=repr((area, gmax, dgdt, dt)), observed=repr(e)),
                                  "a waveform"))
            return ret
        return g

    def __enter__(self):
        self.old = self.T.min_trap_grad, self.T.trap_grad
        self.T.min_trap_grad, self.T.trap_grad = self.wrap("mintrap", self.old[0]), self.wrap("trap", self.old[1])
        return self

    def __exit__(self, *a):
        self.T.min_trap_grad, self.T.trap_grad = self.old


def spokes_eval(c):
    """one spokes_grad call held against the property -> (status, violations, designer calls made by the assembly);
    violation = (function name, what, observed, expected)"""
    T = tg()
    k = make_k(c)                                             # what the real code gets
    kf = np.array(c["k"], dtype=float).reshape(-1, 2)         # the locations as real numbers
    how = c.get("scalar", "py")
    tbw, sl_thick = typed(c["tbw"], how), typed(c["sl_thick"], how)
    gmax, dgdt, dt = float(c["gmax"]), float(c["dgdt"]), float(c["dt"])
    hw = (typed(gmax, how), typed(dgdt, how), typed(dt, how))
    area = c["tbw"] / (c["sl_thick"] / 10) / 4257
    try:
        sub, _ = T.min_trap_grad(area, gmax, dgdt, dt)
        nsub = np.size(sub)
        dk = np.stack([np.diff(np.concatenate((kf[:, a], [0.0]))) for a in (0, 1)])
        for v in np.abs(dk).ravel():
            if v > 0 and np.size(T.trap_grad(v / 4257, gmax, dgdt, dt)[0]) > nsub:
                # outside the domain (a blip is played during one slice-select lobe): nothing is demanded; what the real
                # code does there is recorded as an observation
                try:
                    T.spokes_grad(k, tbw, sl_thick, *hw)
                    return "outside-domain:returns-with-overwritten-samples", [], []
                except ValueError:
                    return "outside-domain:vstack-raises-ValueError", [], []
                except Exception as e:  # noqa
                    return "outside-domain:raises-%s" % type(e).__name__, [], []
    except Exception:
        return "designer-failed", [], []   # sub-designer failures are reported by their own oracle
    tap = Tap(T)
    try:
        with tap:
            g = np.asarray(T.spokes_grad(k, tbw, sl_thick, *hw), dtype=float)
    except Exception as e:
        return "checked", [("spokes_grad", "raises", repr(e), "waveforms")], tap.calls
    if g.ndim != 2 or g.shape[0] != 3 or g.shape[1] < len(kf) * nsub:
        return "checked", [("spokes_grad", "shape", g.shape, "(3, Nt)")], tap.calls
    out = []
    for ax in range(3):
        w = g[ax]
        if w[0] != 0 or w[-1] != 0:
            out.append(("spokes_grad", "ends-zero", (ax, float(w[0]), float(w[-1])), 0.0))
        pk = float(np.max(np.abs(w)))
        if pk > gmax * (1 + RTOL):
            out.append(("spokes_grad", "gmax", (ax, pk), gmax))
        sl = float(np.max(np.abs(np.diff(w)))) / dt
        if sl > dgdt * (1 + RTOL):
            out.append(("spokes_grad", "slew", (ax, sl), dgdt))
    scale = max(float(np.max(np.abs(kf))), float(np.max(np.abs(dk))), 1e-12)
    for ax in range(2):
        for i in range(len(kf)):
            inc = 4257 * float(np.sum(g[ax, i * nsub:(i + 1) * nsub])) * dt
            if abs(inc - dk[ax, i]) > RTOL * scale:
                out.append(("spokes_grad", "kspace-increment", (ax, i, inc), float(dk[ax, i])))
        tail = 4257 * float(np.sum(g[ax, len(kf) * nsub:])) * dt
        if abs(tail) > RTOL * scale:
            out.append(("spokes_grad", "kspace-increment", (ax, "rephaser", tail), 0.0))
    # the designs the assembly asked for, each held against the designer's own demands where it was returned
    out += tap.viol
    return "checked", out, tap.calls


def spokes_key(name, what):
    return "C20:spokes_grad:%s" % what if name == "spokes_grad" else "C20:spokes_grad:designer-call:%s:%s" % (name, what)


def oracle_spokes(ctx, c, origin):
    status, viol, _ = spokes_eval(c)
    if status != "checked":
        if status.startswith("outside"):
            ctx.count("oracle:spokes:" + status)
        return True
    ctx.count("oracle:spokes:inside-domain:k-dtype:%s" % c.get("dtype", "float64"))
    for name, what, obs, exp in viol:
        ctx.fail(spokes_key(name, what), "spokes_grad violates: %s%s" % (what, "" if name == "spokes_grad" else " (in its %s call)" % name),
                 c, observed=obs, expected=exp, origin=origin)
    return not viol


# ---- call histories ------------------------------------------------------------------------------------------------
# The property is about EVERY call: "for every positive area ... trap_grad returns a waveform that ...".  Nothing in it
# depends on what was designed before, on what the caller did with an earlier result, or on whether two results are
# alive at the same time.  A history is a list of steps run in order in one process:
#   {"op": "design", "fn": "trap"|"mintrap", "case": {...}, "after": None|"negate"|"scale"|"fill"}
#         one designer call, checked; then the CALLER edits the returned array in place (as spokes_grad's callers and
#         users building their own waveforms do) — or keeps it, in which case it is checked again at the end
#   {"op": "spokes", "p": {...}}          one spokes_grad call (incl. the oracle's own domain pre-designs), checked
#   {"op": "redesign", "of": i, "after": ...}   stand-alone designer calls with exactly the arguments the assembly of
#         step i used (sub-lobe, every blip, rewinder); resolved into explicit "design" steps when run
AFTER = [None, None, "negate", "negate", "scale", "fill"]


def run_session(steps):
    """-> (violations, resolved steps); violation = dict(step, name, what, observed, expected, stage)"""
    T = tg()
    resolved, viol, kept, rec = [], [], [], {}

    def design(st):
        i = len(resolved)
        resolved.append(st)
        fn, c = st["fn"], st["case"]
        args = [float(c[k]) for k in ("area", "gmax", "dgdt", "dt")]
        f = T.trap_grad if fn == "trap" else T.min_trap_grad
        try:
            ret = f(*call_args(c))
            w, r = unpack(ret)
        except Exception as e:
            viol.append(dict(step=i, name=NAME[fn], what="raises", observed=repr(e), expected="a waveform", stage="call"))
            return
        bad = wave_checks(fn, w, r, *args)
        for what, obs, exp in bad:
            viol.append(dict(step=i, name=NAME[fn], what=what, observed=obs, expected=exp, stage="call"))
        arr, after = ret[0], st.get("after")
        if after and isinstance(arr, np.ndarray) and arr.flags.writeable:
            if after == "negate":
                np.negative(arr, out=arr)
            elif after == "scale":
                arr *= 0.5
            else:
                arr[...] = 12345.0
        elif not after and not bad:
            kept.append((i, fn, args, ret))

    for j, st in enumerate(steps):
        if st["op"] == "design":
            design(dict(op="design", fn=st["fn"], case=st["case"], after=st.get("after")))
        elif st["op"] == "spokes":
            i = len(resolved)
            resolved.append(dict(op="spokes", p=st["p"]))
            status, bad, calls = spokes_eval(st["p"])
            rec[j] = calls
            for name, what, obs, exp in bad:
                viol.append(dict(step=i, name=name, what=what, observed=obs, expected=exp, stage="call"))
        else:
            seen = []
            for fn, args in rec.get(st["of"], []):
                if (fn, args) not in seen and min(args) > 0 and len(seen) < 12:
                    seen.append((fn, args))
                    design(dict(op="design", fn=fn, case=dict(area=args[0], gmax=args[1], dgdt=args[2], dt=args[3], scalar="np"),
                                after=st.get("after")))
    for i, fn, args, ret in kept:      # results the caller still holds must still be what was returned
        try:
            w, r = unpack(ret)
            bad = wave_checks(fn, w, r, *args)
        except Exception as e:  # noqa
            bad = [("raises", repr(e), "the waveform returned at step %d" % i)]
        for what, obs, exp in bad:
            viol.append(dict(step=i, name=NAME[fn], what=what, observed=obs, expected=exp, stage="recheck-after-later-calls"))
    return viol, resolved


def gen_session(rng):
    D = lambda fn, c, after=None: dict(op="design", fn=fn, case=case_of(c), after=after)  # noqa
    S = lambda p: dict(op="spokes", p=p)  # noqa
    kind = rng.choice(["designer-repeat", "designer-repeat", "sweep", "spokes-repeat", "spokes-repeat", "spokes-components",
                       "spokes-components"])
    if kind == "designer-repeat":       # same arguments again, possibly with another design in between
        fn = rng.choice(["trap", "mintrap"])
        c = rand_case(rng, 3000)
        steps = [D(fn, c, rng.choice(AFTER))]
        if rng.random() < 0.5:
            c2 = dict(c, area=min(1.0, max(1e-6, c["area"] * rng.choice([0.5, 2.0, 1 + 1e-7, 3.0]))))
            steps.append(D(rng.choice([fn, "trap", "mintrap"]), c2, rng.choice(AFTER)))
        if rng.random() < 0.3:          # the other designer with the very same arguments
            steps.append(D("mintrap" if fn == "trap" else "trap", c, rng.choice(AFTER)))
        steps.append(D(fn, c, rng.choice(AFTER)))
        if rng.random() < 0.3:
            steps.append(D(fn, c))
    elif kind == "sweep":               # an area sweep on one hardware set, forward and back; neighbours 1 ulp / 1e-7 apart
        fn = rng.choice(["trap", "mintrap"])
        c = rand_case(rng, 3000)
        a = c["area"]
        areas = [a, float(np.nextafter(a, 2.0)), a * (1 + 1e-7), a * 1.5, a * 0.5]
        rng.shuffle(areas)
        areas = [x for x in areas[:rng.randint(2, 5)] if DOM["area"][0] <= x <= DOM["area"][1]] or [a]
        steps = [D(fn, dict(c, area=x), rng.choice(AFTER)) for x in areas]
        steps += [D(fn, dict(c, area=x)) for x in reversed(areas)]
    else:
        p = spokes_params(rng)
        if kind == "spokes-repeat":     # the same spoke set again; or A, B, A with B on the same hardware
            steps = [S(p)]
            if rng.random() < 0.5:
                q = spokes_params(rng)
                q = dict(q, **{x: p[x] for x in ("tbw", "sl_thick", "gmax", "dgdt", "dt")})
                if rng.random() < 0.5:
                    q["k"] = [[-x, y] for x, y in p["k"]] if "uint" not in p.get("dtype", "") else p["k"]
                    for x in ("dtype", "layout"):
                        q.pop(x, None)
                        if x in p:
                            q[x] = p[x]
                steps.append(S(q))
            steps.append(S(p))
            if rng.random() < 0.3:
                steps.append(S(p))
        else:                           # spokes, then its components designed by hand, then spokes again
            steps = [S(p), dict(op="redesign", of=0, after=rng.choice(AFTER))]
            if rng.random() < 0.7:
                steps.append(S(p))
            if rng.random() < 0.4:
                steps.append(dict(op="redesign", of=0, after=None))
    return kind, steps


def fresh_run(steps):
    """run a history in a NEW interpreter (nothing designed before) -> its violations, or None (could not be run)"""
    code = ("import sys, json\nfrom harness.props import c20\nv, _ = c20.run_session(json.loads(sys.stdin.read()))\n"
            "print('RESULT ' + json.dumps(v, default=str))\n")
    env = dict(os.environ, PYTHONPATH=os.pathsep.join([common.REPO, common.VERIF]))
    env.setdefault("SIGPY_VERIF", "1")
    try:
        p = subprocess.run([sys.executable, "-c", code], input=json.dumps(steps), stdout=subprocess.PIPE, stderr=subprocess.PIPE,
                           text=True, timeout=600, cwd=common.VERIF, env=env)
        for ln in p.stdout.split("\n"):
            if ln.startswith("RESULT "):
                return json.loads(ln[7:])
    except Exception:  # noqa
        pass
    return None


def report_session(ctx, kind, viol, resolved):
    """a history on which some call violated the property: decide in fresh interpreters whether the failing call fails on
    its own (then it is an ordinary failing input) or only after the earlier calls, and report it with everything
    needed to re-run it"""
    v = viol[0]
    i = v["step"]
    st = resolved[i]
    alone = None
    if v["stage"] == "call":
        alone = fresh_run([dict(st, after=None) if st["op"] == "design" else st])
    if alone:
        a = alone[0]
        if st["op"] == "design":
            key = raise_key(st["fn"], st["case"]) if a["what"] == "raises" else "C20:%s:%s" % (a["name"], a["what"])
            case = dict(fn=st["fn"], case=st["case"])
        else:
            key, case = spokes_key(a["name"], a["what"]), st["p"]
        ctx.fail(key, "%s violates: %s" % (a["name"], a["what"]), case, observed=a["observed"], expected=a["expected"],
                 origin="history-step-alone")
        return
    same = lambda x: any(y["name"] == v["name"] and y["what"] == v["what"] for y in x or [])  # noqa
    hist = resolved if v["stage"] != "call" else resolved[:i + 1]
    again = fresh_run(hist)
    if not same(again) and len(hist) < len(resolved):
        # (the interpreter of this run may already have been in the state the first steps produce: try the whole history)
        whole = fresh_run(resolved)
        if same(whole):
            hist, again = resolved, whole
    if same(again):
        v = next(x for x in again if x["name"] == v["name"] and x["what"] == v["what"])   # as seen in the fresh interpreter
        i = v["step"]
        if v["stage"] == "call":
            hist = hist[:i + 1]
        st = hist[i]
        if len(hist) > 2 and st["op"] == "design" and v["stage"] == "call":
            # one attempt at a shorter history: drop the stand-alone designs with other arguments than the failing call's
            sig = lambda x: (x["fn"],) + tuple(float(x["case"][q]) for q in ("area", "gmax", "dgdt", "dt"))  # noqa
            short = [x for x in hist[:-1] if x["op"] != "design" or sig(x) == sig(st)] + [st]
            sv = fresh_run(short) if len(short) < len(hist) else None
            if same(sv):
                hist = short
                v = next(x for x in sv if x["name"] == v["name"] and x["what"] == v["what"])
                i = v["step"]
    repro = "could not be re-run" if again is None else (
        "reproduced" if same(again) else
        "NOT reproduced (depends on calls made earlier in this run: same seed and tier needed)")
    ctx.fail("C20:%s:%s:call-history" % (v["name"], v["what"]),
             "%s violates '%s' %s (history kind %s; the call alone, in a fresh interpreter, %s)" % (
                 v["name"], v["what"], "at step %d of a call history" % i if v["stage"] == "call" else
                 "on the result returned at step %d, re-examined after the later calls" % i, kind,
                 "holds" if alone is not None else "was not run"),
             dict(history=hist), observed=dict(step=i, observed=v["observed"], stage=v["stage"], fresh_interpreter=repro),
             expected=v["expected"], origin="history")


def history_search(ctx, n):
    rng = ctx.rng
    confirmed = 0
    for _ in range(n):
        kind, steps = gen_session(rng)
        ctx.case(("oracle", "history", json.dumps(steps, sort_keys=True, default=str)))
        ctx.count("oracle:history:%s" % kind)
        viol, resolved = run_session(steps)
        ctx.count("oracle:history:calls", len(resolved))
        if viol:
            ctx.count("oracle:history:failing")
            if confirmed < 3:           # each report costs two fresh interpreters
                confirmed += 1
                report_session(ctx, kind, viol, resolved)


def search(ctx, budget):
    rng = ctx.rng
    second = 0
    for d in ctx.disagreements[:100]:
        cc = d["case"]
        if "fn" in cc and cc["case"].get("second_call"):
            # the compared call was the second one with these arguments (the caller had negated the first result in
            # place): replayed as that two-call history, decided in fresh interpreters
            steps = [dict(op="design", fn=cc["fn"], case=case_of(cc["case"]), after="negate"),
                     dict(op="design", fn=cc["fn"], case=case_of(cc["case"]), after=None)]
            viol, resolved = run_session(steps)
            if viol and second < 2:
                second += 1
                report_session(ctx, "second-call(disagreement)", viol, resolved)
        elif "fn" in cc:
            oracle_one(ctx, cc["fn"], cc["case"], "disagreement")
        elif "k" in cc and "gts" in cc:
            # a spokes-assembly disagreement: the same spoke set (dtype, layout, scalar types) with the real designers
            c = dict(k=cc["k"], tbw=cc["tbw"], sl_thick=cc["sl_thick"], gmax=4.0, dgdt=2e4, dt=cc["gts"])
            c.update({x: cc[x] for x in ("dtype", "layout", "scalar") if cc.get(x) not in (None, "float64", "C", "py")})
            oracle_spokes(ctx, c, "disagreement")
    # the recorded defect class of the pinned commit stays in the domain
    for c in [dict(area=1e-6, gmax=4.0, dgdt=1e4, dt=1e-4), dict(area=3e-6, gmax=4.0, dgdt=1e4, dt=1e-4),
              dict(area=1e-6, gmax=0.1, dgdt=1e5, dt=1e-5)]:
        ctx.case(("oracle", "mintrap", tuple(c.values())))
        oracle_one(ctx, "mintrap", c, "regression")
    n = int(500 * budget)
    maxlen = 2e5 if budget <= 1 else 3e6
    for fn in ("trap", "mintrap"):
        cases = [rand_case(rng, maxlen) for _ in range(n)] + boundary_cases(rng, maxlen, n)
        if fn == "mintrap":
            cases += small_flat_cases(rng, n // 2)
        for c in cases:
            ctx.case(("oracle", fn, c["area"], c["gmax"], c["dgdt"], c["dt"], c.get("scalar", "py")))
            ctx.count("oracle:%s:%s" % (fn, c.get("kind", "random")))
            oracle_one(ctx, fn, c, "search")
    if budget > 1:   # a few very long waveforms
        for _ in range(int(budget)):
            c = rand_case(rng, 2e7)
            ctx.count("oracle:trap:long")
            oracle_one(ctx, "trap", c, "search-long")
    for _ in range(int(150 * budget)):
        c = spokes_params(rng)
        ctx.case(("oracle", "spokes", json.dumps(c, sort_keys=True)))
        ctx.count("oracle:spokes")
        ctx.count("oracle:spokes:k-layout:%s" % c.get("layout", "C"))
        oracle_spokes(ctx, c, "search")
    history_search(ctx, int(120 * budget))


def replay(path):
    r = json.load(open(path))
    print(json.dumps(r, indent=1)[:3000])
    if r.get("kind") != "failing-input":
        return 0
    ctx = common.Ctx(PROPERTY, "quick", 0)
    cc = r["case"]
    if "history" in cc:
        # this interpreter has designed nothing yet: the history is run from the start
        viol, _ = run_session(cc["history"])
        for v in viol:
            print("  step %d %s: %s observed %s expected %s (%s)" % (v["step"], v["name"], v["what"], v["observed"], v["expected"], v["stage"]))
        ok = not viol
    elif "fn" in cc:
        ok = oracle_one(ctx, cc["fn"], cc["case"], "replay")
        if all(cc["case"][k] > 0 for k in ("area", "gmax", "dgdt", "dt")):
            print("model:", ctx.driver([model_line(cc["fn"], cc["case"], [0, 1, 2])])[0][:300])
    else:
        ok = oracle_spokes(ctx, cc, "replay")
    for f in ctx.failures:
        print("  ", f["key"], f["what"], "observed", f["observed"], "expected", f["expected"])
    print("replay:", "property holds on this input" if ok else "property FAILS on this input")
    return 0 if ok else 1
