"""C13 — GradientMethod (ISTA/FISTA) and PrimalDualHybridGradient behave as their theory guarantees.

correspond: the REAL classes of sigpy/alg.py, executed update by update
  * over exact rationals (dtype=object arrays of the exact scalar class `Q`; the only inexact operation,
    `** 0.5`, is computed in float by `Q.__pow__` exactly like the code would and logged; the model looks the
    value up by its own argument and the driver checks every logged value against the defining inequality of
    the square root) — compared for EQUALITY with the Lean model after every update;
  * over float64 / complex128 (l1 prox, complex data through the real embedding) — compared at 1e-9 with the
    model run on the same (exactly converted) inputs, square roots by the model's own 1e-20 Newton root;
  plus identity of the caller's arrays (`alg.x is x`, `alg.u is u`) after every update.
search: oracles written from the property statement, on the real code in floats (see `ORACLES`): descent and
  rates, saddle points stay fixed, Fejér monotonicity for scalar AND array steps (the hypotheses of
  `pdhg_fejer_diag_monotone` — positive steps, |Sigma^(1/2) A T^(1/2)| <= 1 — are checked on every instance it
  runs on, and exactly, via `metricPSD_scalar` / `metricPSD_abs_sums`, on every PDHG case of the correspondence),
  the one-step inequality D_k + R_(k-1) <= D_(k-1) of `pdhg_fejer_run_diag`, convergence.
Both parts run on the caller's arrays in every shape (1-3 axes) and memory layout (C, Fortran, transposed, strided,
reversed views; operators handing back C / Fortran / reused-buffer results; prox objects or in-place prox functions):
the operators act on the row-major flattening, which is the vector the model and the theorems talk about.  The
search also starts GradientMethod where grad f is exactly zero but f + g is not minimal (`search_zero_grad`) and
PDHG from exact zeros, and sweeps all layouts deterministically (`search_layouts`).
The callbacks are the CALLER's too: a gradient / operator may hand back memory it does not own — its argument
(f = ½|x|²: grad f(x) = x as `lambda v: v`, a view `v[...]`, `sigpy.linop.Identity`; for PDHG also a reshaped view /
`sigpy.linop.Reshape`), or a persistent array of problem data (f = Re<c,x>, L = 0: grad f = c, writable or read-only).
Such instances are in both correspondence streams (A = I, b = 0) and swept deterministically over every layout in
`search_alias`; the oracles also run with a second LIVE solver object interleaved that shares the callbacks
(`shadow`), and on data of very small / very large magnitude (all data scaled by a power of two, tolerances scaled
along: floating-point arithmetic is scale invariant, so the guarantees are demanded exactly as at unit scale).
"""
import json
import math
import sys
from fractions import Fraction as F

import numpy as np

from harness import common
from harness.translate import gen as G

if hasattr(sys, "set_int_max_str_digits"):
    sys.set_int_max_str_digits(0)

PROPERTY = "C13"
LEAN_MODULES = ["SigpyVerif.Props.C13", "SigpyVerif.Props.C13Conv", "SigpyVerif.Props.C13Accel"]
THEOREMS = ["SigpyVerif.C13." + t for t in [
    "gmStep_x_isProx", "ista_step_ineq", "ista_descent", "ista_rate", "t_rule_ok", "t_rule_growth",
    "fista_lyapunov", "fista_invariants", "fista_rate", "pdhg_fixed_point_iff_saddle", "pdhg_fejer",
    "pdhg_fejer_monotone", "pdhg_accel_steps_primal", "pdhg_accel_steps_dual", "pdhg_accel_run_primal",
    # array-valued (diagonal) steps and the 1/N residual rate
    "StepOp.scalar_pos", "StepOp.Pos.smul", "StepOp.Pos.div", "StepOp.diag_pos", "isProxW_scalar", "isProxW_unique",
    "metricPSD_scalar", "metricPSD_pock_chambolle", "metricPSD_abs_sums", "matOp_adjoint",
    "pdhg_fixed_point_iff_saddle_diag", "pdhg_fejer_diag", "pdhg_fejer_diag_monotone", "pdhg_fejer_run_diag",
    "pdhg_residual_rate_partial", "pdThetaP_eq", "pdThetaD_eq",
    # convergence of the iterates (finite dimension), ergodic gap, accelerated O(1/N^2) rate
    "opial_core", "isProx_nonexpansive", "grad_cocoercive", "grad_step_nonexpansive", "StepOp.Pos.coercive",
    "isProxW_lipschitz", "metric_range_le", "cpMap_lipschitz_metric", "strong_subgrad", "accel_core",
    "ista_step_nonexpansive", "ista_fixed_iff_minimiser", "ista_asymptotic_regularity", "ista_iterates_converge",
    "pdPair_succ", "cpMap_fixed_iff_saddle", "pdhg_iterates_converge", "pdhg_iterates_converge_scalar",
    "pdhg_gap_step_diag", "pdhg_gap_run_diag", "pdhg_ergodic_gap",
    "pdhg_accel_lyapunov", "pdhg_accel_energy_run", "pdhg_accel_tau_decay", "pdhg_accel_dist_tau", "pdhg_accel_rate",
    "accel_core_dual", "pdhg_accel_lyapunov_dual", "pdhg_accel_run_dual", "pdhg_accel_energy_run_dual",
    "pdhg_accel_sigma_decay", "pdhg_accel_rate_dual",
]]


def translate(ctx):
    G.regenerate(ctx, ["C13"])


# ------------------------------------------------------------------------------------------------
# exact scalar class
# ------------------------------------------------------------------------------------------------
SQLOG = []


class Q:
    """exact rational scalar for dtype=object arrays.  Floats met in arithmetic are taken at their exact
    binary value.  `** 0.5` is the float square root (as the code would compute it), logged."""
    __slots__ = ("v",)

    def __init__(self, v):
        self.v = v.v if isinstance(v, Q) else F(v)

    @staticmethod
    def c(o):
        if isinstance(o, Q):
            return o.v
        if isinstance(o, (bool, np.bool_)):
            return None
        if isinstance(o, (int, F, float, np.floating, np.integer)):
            return F(o)
        return None

    def _b(self, o, f):
        w = Q.c(o)
        return NotImplemented if w is None else Q(f(self.v, w))

    def __add__(s, o): return s._b(o, lambda a, b: a + b)
    __radd__ = __add__
    def __sub__(s, o): return s._b(o, lambda a, b: a - b)
    def __rsub__(s, o): return s._b(o, lambda a, b: b - a)
    def __mul__(s, o): return s._b(o, lambda a, b: a * b)
    __rmul__ = __mul__
    def __truediv__(s, o): return s._b(o, lambda a, b: a / b)
    def __rtruediv__(s, o): return s._b(o, lambda a, b: b / a)
    def __neg__(s): return Q(-s.v)
    def __pos__(s): return s
    def __abs__(s): return Q(abs(s.v))

    def __pow__(s, e):
        if isinstance(e, float) and e == 0.5:
            r = F(math.sqrt(float(s.v)))
            SQLOG.append((s.v, r))
            return Q(r)
        if isinstance(e, int) and not isinstance(e, bool):
            return Q(s.v ** e)
        return NotImplemented

    def sqrt(s):  # np.sqrt on object arrays (np.linalg.norm): a float, as for float data
        return np.float64(math.sqrt(float(s.v)))

    def conjugate(s): return s
    def item(s): return s
    def __float__(s): return float(s.v)
    def __eq__(s, o):
        w = Q.c(o)
        return NotImplemented if w is None else s.v == w
    def __lt__(s, o): return s.v < Q.c(o)
    def __le__(s, o): return s.v <= Q.c(o)
    def __gt__(s, o): return s.v > Q.c(o)
    def __ge__(s, o): return s.v >= Q.c(o)
    def __hash__(s): return hash(s.v)
    def __repr__(s): return "Q(%s)" % s.v


def qa(l):
    a = np.empty(len(l), dtype=object)
    for i, v in enumerate(l):
        a[i] = Q(v)
    return a


def qm(rows):
    a = np.empty((len(rows), len(rows[0])), dtype=object)
    for i, r in enumerate(rows):
        for j, v in enumerate(r):
            a[i, j] = Q(v)
    return a


def fr(s):
    return F(s)


def fs(x):
    x = F(x)
    return str(x.numerator) if x.denominator == 1 else "%d/%d" % (x.numerator, x.denominator)


def RL(l):
    l = list(l)
    return ",".join(fs(v) for v in l) if l else "-"


def val(o):
    """exact value of an impl scalar (Q / int / float)"""
    return o.v if isinstance(o, Q) else F(o)


# ------------------------------------------------------------------------------------------------
# building the real objects from a case
# ------------------------------------------------------------------------------------------------
# case fields (all numbers as strings "p/q" so that a case is JSON):
#   kind gm|pd, mode exact|float|complex, m, n, A (row-major list), b, x0, [u0], k
#   gm: alpha, prox (spec list), accel
#   pd: tau, sigma (["s", r] | ["a", [r..]]), proxg spec, gp, gd     (proxfc is L2Reg(1, y=-b): f = ½‖·-b‖²)
# prox spec: ["none"] | ["noop"] | ["l2", lam] | ["box", lo, hi] | ["l1", lam]

def conv(mode):
    if mode == "exact":
        return Q, qa
    return (lambda v: float(F(v))), (lambda l: np.array([float(F(v)) for v in l], dtype=np.float64))


def build_matrix(c):
    m, n = c["m"], c["n"]
    if c["mode"] == "complex":
        re = np.array([float(F(v)) for v in c["A"]]).reshape(m, n)
        im = np.array([float(F(v)) for v in c["Ai"]]).reshape(m, n)
        return re + 1j * im
    rows = [[F(v) for v in c["A"][i * n:(i + 1) * n]] for i in range(m)]
    if c["mode"] == "exact":
        return qm(rows)
    return np.array([[float(v) for v in r] for r in rows], dtype=np.float64)


def build_vec(c, name):
    if c["mode"] == "complex":
        return np.array([float(F(v)) for v in c[name]]) + 1j * np.array([float(F(v)) for v in c[name + "i"]])
    return conv(c["mode"])[1](c[name])


# ---- variables of any shape, held in memory in any way -----------------------------------------
# The property quantifies over the caller's ARRAYS, not over 1-D C-contiguous buffers: a variable is an n-d
# array whose logical (row-major) flattening is the vector of the theory, whatever its strides are.
LAYOUTS = ("C", "F", "T", "strided", "rev")   # memory layout of a caller's array
OUTS = ("C", "F", "buf")                      # what an operator hands back: fresh C / fresh Fortran / one reused buffer
PROXK = ("obj", "inplace")                    # sigpy.prox object / plain function that works in place and returns its input


def shapes_of(n):
    """all shapes with <= 3 axes and n entries"""
    out = [(n,)]
    for a in range(1, n + 1):
        if n % a == 0:
            out.append((a, n // a))
            for b in range(1, n // a + 1):
                if (n // a) % b == 0:
                    out.append((a, b, n // a // b))
    return out


def pick_shape(rng, n):
    sh = shapes_of(n)
    full = [t for t in sh if sum(1 for d in t if d > 1) >= 2]
    return tuple(rng.choice(full)) if full and rng.random() < 0.7 else tuple(rng.choice(sh))


def lay(flat, shape, layout):
    """a NEW array of `shape` whose row-major flattening is `flat`, stored as `layout`:
    C / F contiguous, the transpose of a C array, a step-2 view into a larger buffer, a reversed view"""
    a = np.asarray(flat).reshape(shape)
    if layout == "C":
        return np.array(a, order="C", copy=True)
    if layout == "F":
        return np.array(a, order="F", copy=True)
    if layout == "T":
        return np.array(a.T, order="C", copy=True).T
    if layout == "strided":
        big = np.zeros(tuple(2 * d for d in a.shape), dtype=a.dtype)
        v = big[tuple(slice(0, None, 2) for _ in a.shape)]
        v[...] = a
        return v
    if layout == "rev":
        sl = tuple(slice(None, None, -1) for _ in a.shape)
        return np.array(a[sl], order="C", copy=True)[sl]
    raise ValueError(layout)


def flat(a):
    """the vector of the theory: row-major flattening (a copy)"""
    return np.array(a).reshape(-1)


def wrap_op(fn, oshape, out="C"):
    """operator on arrays from a map on flat vectors; `out`: how the result is handed back"""
    st = {}

    def op(V):
        r = fn(np.asarray(V).reshape(-1)).reshape(oshape)
        if out == "F":
            return np.array(r, order="F", copy=True)
        if out == "buf":
            if "b" not in st:
                st["b"] = np.empty_like(r)
            st["b"][...] = r
            return st["b"]
        return r
    return op


# A callback may hand back memory it does not own.  GRADK: the gradient / operator is the identity map and returns
# its ARGUMENT (the object itself, a view of it, or through sigpy.linop.Identity which returns its input);
# CONSTK: the gradient of a linear f is one persistent array of problem data (writable / read-only).
GRADK = ("arg", "view", "linop")
CONSTK = ("const", "const-ro")
IDENTK = ("lambda", "linop", "view", "reshape", "linop-reshape")   # PDHG: A = AH = identity, see identity_ops


def alias_op(kind, shape):
    """the identity map as a callback that does not allocate: returns its argument / a view of it"""
    if kind == "arg":
        return lambda v: v
    if kind == "view":
        return lambda v: v[...]
    if kind == "linop":
        import sigpy as sp
        return sp.linop.Identity(list(shape))
    raise ValueError(kind)


def identity_ops(kind, xsh, ush):
    """(A, AH) for A = identity between variables of shape xsh and ush (same number of entries, row-major)"""
    import sigpy as sp
    xsh, ush = tuple(xsh), tuple(ush)
    if kind == "reshape":          # a view for contiguous arguments, a copy otherwise: both are legal
        return (lambda v: v.reshape(ush)), (lambda w: w.reshape(xsh))
    if kind == "linop-reshape":
        R = sp.linop.Reshape(list(ush), list(xsh))
        return R, R.H
    if xsh != ush:
        raise ValueError("identity kind %s needs equal shapes" % kind)
    op = alias_op({"lambda": "arg"}.get(kind, kind), xsh)
    return op, op


def wrap_prox(p, kind):
    if p is None or kind == "obj":
        return p

    def f(alpha, v):  # a plain function that overwrites its input and returns it (the solvers accept functions)
        v[...] = p(alpha, v)
        return v
    return f


def build_prox(spec, shape, mode):
    from sigpy import prox
    shape = tuple(shape) if isinstance(shape, (tuple, list)) else (shape,)
    sc = conv("exact" if mode == "exact" else "float")[0]
    k = spec[0]
    if k == "none":
        return None
    if k == "noop":
        return prox.NoOp(shape)
    if k == "l2":
        return prox.L2Reg(shape, sc(spec[1]))
    if k == "box":
        return prox.BoxConstraint(shape, sc(spec[1]), sc(spec[2]))
    if k == "l1":
        return prox.L1Reg(shape, sc(spec[1]))
    raise ValueError(spec)


def build_step(st, mode, shape=None, layout="C"):
    sc, ar = conv("exact" if mode == "exact" else "float")
    if st[0] == "s":
        return sc(st[1])
    return ar(st[1]) if shape is None else lay(ar(st[1]), shape, layout)


def herm(A):
    return A.T if A.dtype == object else A.conj().T


def make_alg(c):
    """the real sigpy object for case c, plus the caller's arrays"""
    from sigpy import alg, prox
    A = build_matrix(c)
    AH = herm(A)
    b = build_vec(c, "b")
    xsh, ush = tuple(c.get("xshape") or (c["n"],)), tuple(c.get("ushape") or (c["m"],))
    olay, pk = c.get("olay", "C"), c.get("proxk", "obj")
    x = lay(build_vec(c, "x0"), xsh, c.get("xlay", "C"))
    sc = conv("exact" if c["mode"] == "exact" else "float")[0]
    if olay in GRADK and not is_alias_case(c):
        raise ValueError("olay=%s needs A = I, b = 0" % olay)
    if c["kind"] == "gm":
        # A = I, b = 0: grad f(x) = x, handed back as the argument itself / a view of it / by linop.Identity
        gradf = alias_op(olay, xsh) if olay in GRADK else wrap_op(lambda v: AH @ (A @ v - b), xsh, olay)
        a = alg.GradientMethod(gradf, x, sc(c["alpha"]), proxg=wrap_prox(build_prox(c["prox"], xsh, c["mode"]), pk),
                               accelerate=bool(c["accel"]), max_iter=10 ** 9)
        if c["mode"] == "exact" and c["accel"]:
            a.t = Q(a.t)  # representation only: the int the constructor stored, as an exact scalar
        return a, x, None
    u = lay(build_vec(c, "u0"), ush, c.get("ulay", "C"))
    proxfc = wrap_prox(prox.L2Reg(ush, sc("1"), y=(-b).reshape(ush)), pk)
    proxg = wrap_prox(build_prox(c["proxg"], xsh, c["mode"]), pk)
    if olay in GRADK:
        Aop, AHop = identity_ops({"arg": "lambda"}.get(olay, olay), xsh, ush)
    else:
        Aop, AHop = wrap_op(lambda v: A @ v, ush, olay), wrap_op(lambda w: AH @ w, xsh, olay)
    a = alg.PrimalDualHybridGradient(proxfc, proxg, Aop, AHop, x, u,
                                     build_step(c["tau"], c["mode"], xsh, c.get("tlay", "C")),
                                     build_step(c["sigma"], c["mode"], ush, c.get("tlay", "C")),
                                     gamma_primal=sc(c["gp"]) if F(c["gp"]) != 0 else 0,
                                     gamma_dual=sc(c["gd"]) if F(c["gd"]) != 0 else 0, max_iter=10 ** 9)
    return a, x, u


def is_alias_case(c):
    """A = I (and, for the gradient method, b = 0): the operator / gradient is the identity map"""
    m, n = c["m"], c["n"]
    if m != n or any(F(v) != (1 if i // n == i % n else 0) for i, v in enumerate(c["A"])):
        return False
    if c["mode"] == "complex" and any(F(v) != 0 for v in c["Ai"]):
        return False
    if c["kind"] == "gm":
        return all(F(v) == 0 for v in c["b"]) and all(F(v) == 0 for v in c.get("bi", []))
    return tuple(c.get("xshape") or (n,)) == tuple(c.get("ushape") or (m,))


def exact_list(a):
    return [val(v) for v in np.asarray(a).ravel()]


def step_val(t):
    if isinstance(t, np.ndarray):
        return ["a", [val(v) for v in t.ravel()]]
    return ["s", val(t)]


def run_impl(c):
    """states after each update as dicts of exact values (exact mode) or floats"""
    del SQLOG[:]
    a, x, u = make_alg(c)
    out = []
    for _ in range(c["k"]):
        a.update()
        st = dict(inplace_x=a.x is x)
        if c["mode"] == "exact":
            st["x"] = exact_list(a.x)
        else:
            st["x"] = np.array(a.x).ravel().copy()
            st["caller_x"] = np.array(x).ravel().copy()
        st["resid"] = float(a.resid)
        if c["kind"] == "gm":
            if c["accel"]:
                st["z"] = exact_list(a.z) if c["mode"] == "exact" else np.array(a.z).ravel().copy()
                st["t"] = val(a.t) if c["mode"] == "exact" else float(a.t)
        else:
            st["inplace_u"] = a.u is u
            if c["mode"] == "exact":
                st["u"], st["xe"] = exact_list(a.u), exact_list(a.x_ext)
                st["tau"], st["sigma"] = step_val(a.tau), step_val(a.sigma)
            else:
                st["u"], st["xe"] = np.array(a.u).ravel().copy(), np.array(a.x_ext).ravel().copy()
                st["tau"] = np.atleast_1d(np.array(a.tau, dtype=float)).reshape(-1).copy()
                st["sigma"] = np.atleast_1d(np.array(a.sigma, dtype=float)).reshape(-1).copy()
        out.append(st)
    return out, list(SQLOG)


# ------------------------------------------------------------------------------------------------
# protocol
# ------------------------------------------------------------------------------------------------
def prox_tok(spec):
    return ":".join([spec[0]] + [fs(F(v)) for v in spec[1:]])


def step_tok(st, dup=1):
    if st[0] == "s":
        return "s:" + fs(F(st[1]))
    return "a:" + RL([F(v) for v in st[1]] * dup)


def embed(c):
    """real embedding of a complex case: A~ = [[Ar,-Ai],[Ai,Ar]], v~ = [vr; vi]"""
    m, n = c["m"], c["n"]
    Ar = [[F(v) for v in c["A"][i * n:(i + 1) * n]] for i in range(m)]
    Ai = [[F(v) for v in c["Ai"][i * n:(i + 1) * n]] for i in range(m)]
    rows = [Ar[i] + [-v for v in Ai[i]] for i in range(m)] + [Ai[i] + Ar[i] for i in range(m)]
    flat = [v for r in rows for v in r]
    d = dict(m=2 * m, n=2 * n, A=flat)
    for nme in ("b", "x0", "u0"):
        if nme in c:
            d[nme] = [F(v) for v in c[nme]] + [F(v) for v in c[nme + "i"]]
    return d


def line(c, sqlog):
    if c["mode"] == "complex":
        e = embed(c)
        dup = 2
    else:
        e = dict(m=c["m"], n=c["n"], A=[F(v) for v in c["A"]])
        for nme in ("b", "x0", "u0"):
            if nme in c:
                e[nme] = [F(v) for v in c[nme]]
        dup = 1
    if c["mode"] == "exact":
        tab = {}
        for a, s in sqlog:
            tab[a] = s
        sq = ";".join("%s:%s" % (fs(a), fs(s)) for a, s in tab.items()) or "-"
    else:
        sq = "newton"
    if c["kind"] == "gm":
        return "C13 gm m=%d n=%d A=%s b=%s x0=%s alpha=%s prox=%s accel=%d k=%d sq=%s" % (
            e["m"], e["n"], RL(e["A"]), RL(e["b"]), RL(e["x0"]), fs(F(c["alpha"])), prox_tok(c["prox"]),
            int(c["accel"]), c["k"], sq)
    yb = ["l2y", "1"]
    return "C13 pd m=%d n=%d A=%s x0=%s u0=%s tau=%s sigma=%s proxfc=%s proxg=%s gp=%s gd=%s theta=1 k=%d sq=%s" % (
        e["m"], e["n"], RL(e["A"]), RL(e["x0"]), RL(e["u0"]), step_tok(c["tau"], dup), step_tok(c["sigma"], dup),
        "l2y:1:" + RL([-v for v in e["b"]]), prox_tok(c["proxg"]), fs(F(c["gp"])), fs(F(c["gd"])), c["k"], sq)


def parse_reply(r):
    if not r.startswith("ok "):
        return r
    out = []
    for blk in r[3:].split(" | "):
        d = {}
        for tok in blk.split():
            k, v = tok.split("=")
            if k in ("x", "z", "u", "xe"):
                d[k] = [] if v == "-" else [F(t) for t in v.split(",")]
            elif k in ("t", "r2"):
                d[k] = F(v)
            else:
                kind, body = v.split(":")
                d[k] = [kind, F(body)] if kind == "s" else [kind, [F(t) for t in body.split(",")]]
        out.append(d)
    return out


TOL = 1e-9


def close(a, b):
    return abs(a - b) <= TOL * (1 + abs(b))


def compare(c, impl, model):
    """None when the trajectories agree, else a short description of the first difference"""
    if isinstance(model, str):
        return "model: " + model
    if len(impl) != len(model):
        return "length"
    for i, (s, m) in enumerate(zip(impl, model)):
        if not s["inplace_x"]:
            return "update %d: alg.x is no longer the caller's array" % (i + 1)
        if c["kind"] == "pd" and not s["inplace_u"]:
            return "update %d: alg.u is no longer the caller's array" % (i + 1)
        names = ["x"] + (["z"] if c["kind"] == "gm" and c["accel"] else []) + (["u", "xe"] if c["kind"] == "pd" else [])
        for nme in names:
            if c["mode"] == "exact":
                if s[nme] != m[nme]:
                    return "update %d: %s differs" % (i + 1, nme)
            else:
                mv = np.array([float(v) for v in m[nme]])
                if c["mode"] == "complex":
                    h = len(mv) // 2
                    mv = mv[:h] + 1j * mv[h:]
                if mv.shape != s[nme].shape or not all(close(a, b) for a, b in zip(s[nme], mv)):
                    return "update %d: %s differs" % (i + 1, nme)
                if nme == "x" and not np.array_equal(s["caller_x"], s["x"]):
                    return "update %d: caller's x does not hold the iterate" % (i + 1)
        if c["kind"] == "gm" and c["accel"]:
            if (s["t"] != m["t"]) if c["mode"] == "exact" else not close(s["t"], float(m["t"])):
                return "update %d: t differs" % (i + 1)
        if c["kind"] == "pd":
            for nme in ("tau", "sigma"):
                if c["mode"] == "exact":
                    if s[nme] != m[nme]:
                        return "update %d: %s differs" % (i + 1, nme)
                else:
                    mv = np.atleast_1d(np.array([float(v) for v in (m[nme][1] if m[nme][0] == "a" else [m[nme][1]])]))
                    sv = s[nme]
                    if c["mode"] == "complex" and m[nme][0] == "a":
                        mv = mv[:len(mv) // 2]
                    if mv.shape != sv.shape or not all(close(a, b) for a, b in zip(sv, mv)):
                        return "update %d: %s differs" % (i + 1, nme)
        r2 = float(m["r2"])
        if abs(s["resid"] ** 2 - r2) > 1e-7 * (1e-300 + abs(r2)) + 1e-18:
            return "update %d: resid differs (impl %.17g, model %.17g)" % (i + 1, s["resid"], r2 ** 0.5)
    return None


# ------------------------------------------------------------------------------------------------
# case generation for the correspondence
# ------------------------------------------------------------------------------------------------
def rfrac(rng, lo=-3, hi=3, dens=(1, 1, 2, 3, 4)):
    return F(rng.randint(lo * 4, hi * 4), 4 * rng.choice(dens))


def gen_matrix(rng, m, n):
    while True:
        rows = [[F(rng.randint(-3, 3), rng.choice((1, 1, 2))) for _ in range(n)] for _ in range(m)]
        if all(any(v != 0 for v in r) for r in rows) and all(any(rows[i][j] != 0 for i in range(m)) for j in range(n)):
            return rows


def frob2(rows):
    return sum(v * v for r in rows for v in r)


def gen_case(rng, mode, kind=None):
    kind = kind or rng.choice(["gm", "pd"])
    m, n = rng.randint(1, 4), rng.randint(1, 3)
    nd = rng.random() < 0.5
    if nd:  # enough entries for a variable with two non-trivial axes
        n, m = rng.choice((4, 4, 6)), rng.choice((2, 3, 4, 4, 6))
    def kmax(k):  # the model runs the float cases over exact rationals: keep the larger instances short
        return k if not nd else (10 if mode == "float" else 7)
    # a fifth of the cases: the identity map handed over as a callback that returns its ARGUMENT (or a view of it):
    # grad f(x) = x for f = ½|x|² (gm: A = I, b = 0), A = AH = identity (pd, denoising f(x) + g(x))
    ident = rng.random() < 0.2
    if ident:
        m = n
    rows = gen_matrix(rng, m, n) if not ident else [[F(int(i == j)) for j in range(n)] for i in range(n)]
    zero_b = ident and kind == "gm"
    c = dict(kind=kind, mode=mode, m=m, n=n, A=[fs(v) for r in rows for v in r],
             b=[fs(F(0) if zero_b else rfrac(rng)) for _ in range(m)], x0=[fs(rfrac(rng)) for _ in range(n)])
    if nd or ident or rng.random() < 0.3:
        # the caller's arrays: any shape with these many entries, any memory layout; operators act on the
        # row-major flattening and hand their result back C-ordered, Fortran-ordered or in a reused buffer
        c.update(xshape=list(pick_shape(rng, n)), xlay=rng.choice(LAYOUTS), olay=rng.choice(GRADK if ident else OUTS),
                 proxk=rng.choice(PROXK))
        if kind == "pd":
            c.update(ushape=c["xshape"] if ident else list(pick_shape(rng, m)), ulay=rng.choice(LAYOUTS),
                     tlay=rng.choice(("C", "F")))
    nrm = frob2(rows)
    if mode == "complex":
        rows_i = gen_matrix(rng, m, n) if not ident else [[F(0)] * n for _ in range(n)]
        c["Ai"] = [fs(v) for r in rows_i for v in r]
        c["bi"] = [fs(F(0) if zero_b else rfrac(rng)) for _ in range(m)]
        c["x0i"] = [fs(rfrac(rng)) for _ in range(n)]
        nrm += frob2(rows_i)
    if mode == "exact":
        proxes = [["none"], ["noop"], ["l2", fs(F(rng.randint(1, 8), 4))],
                  ["box", fs(F(-rng.randint(0, 4), 4)), fs(F(rng.randint(0, 6), 4))]]
    elif mode == "float":
        proxes = [["l1", fs(F(rng.randint(1, 12), 8))]] * 3 + [["box", "-1/2", "3/4"], ["l2", "1/2"]]
    else:
        proxes = [["none"], ["noop"], ["l2", fs(F(rng.randint(1, 8), 4))]]
    if kind == "gm":
        c["alpha"] = fs(F(rng.choice((1, 1, 1, 2, 3)), rng.choice((1, 2, 3))) / nrm)
        c["prox"] = rng.choice(proxes)
        c["accel"] = rng.random() < 0.6
        c["k"] = rng.randint(2, 6 if mode == "exact" else kmax(25))
        return c
    c["u0"] = [fs(rfrac(rng)) for _ in range(m)]
    if mode == "complex":
        c["u0i"] = [fs(rfrac(rng)) for _ in range(m)]
    c["proxg"] = rng.choice([p for p in proxes if p[0] != "none"])
    arr = rng.random() < 0.5
    if arr and mode != "complex":
        # Pock–Chambolle diagonal steps: tau_j = 1/sum_i |A_ij|, sigma_i = 1/sum_j |A_ij|
        c["tau"] = ["a", [fs(1 / sum(abs(rows[i][j]) for i in range(m))) for j in range(n)]]
        c["sigma"] = ["a", [fs(1 / sum(abs(rows[i][j]) for j in range(n))) for i in range(m)]]
        if rng.random() < 0.3:  # mixed: scalar on one side
            c["sigma"] = ["s", fs(min(F(v) for v in c["sigma"][1]))]
    else:
        ratio = F(rng.choice((1, 2, 3, 5)), rng.choice((1, 2, 4)))
        c["tau"] = ["s", fs(ratio / nrm * F(rng.choice((1, 1, 2)), 2))]
        c["sigma"] = ["s", fs(1 / ratio)]
    acc = rng.choice(["none", "none", "primal", "dual"])
    c["gp"], c["gd"] = "0", "0"
    if acc == "primal":
        if c["proxg"][0] != "l2":
            c["proxg"] = ["l2", fs(F(rng.randint(1, 8), 4))]
        c["gp"] = c["proxg"][1] if rng.random() < 0.7 else fs(F(c["proxg"][1]) / 2)
    elif acc == "dual":
        c["gd"] = rng.choice(["1", "1/2", "3/4"])
    c["k"] = rng.randint(2, 5 if mode == "exact" else kmax(20))
    return c


def canon(c):
    return json.dumps(c, sort_keys=True)


# hypotheses of pdhg_fejer_diag_monotone / pdhg_residual_rate_partial on the instances this check uses:
# every step entry positive (StepOp.Pos for StepOp.diag / StepOp.scalar) and the metric condition (MetricPSD)
HYP = dict(checked=0, bad=[])


def hyp_exact(c):
    """correspondence case, exact rationals.  scalar/scalar: tau*sigma*|A|_F^2 <= 1 (metricPSD_scalar with
    L = |A|_F); an array on either side: tau_j * sum_i |A_ij| <= 1 and sigma_i * sum_j |A_ij| <= 1
    (metricPSD_abs_sums; a scalar is the constant array)."""
    m, n = c["m"], c["n"]
    A = [[F(v) for v in c["A"][i * n:(i + 1) * n]] for i in range(m)]
    tau = [F(c["tau"][1])] * n if c["tau"][0] == "s" else [F(v) for v in c["tau"][1]]
    sig = [F(c["sigma"][1])] * m if c["sigma"][0] == "s" else [F(v) for v in c["sigma"][1]]
    if len(tau) != n or len(sig) != m or not all(v > 0 for v in tau + sig):
        return False
    if c["tau"][0] == "s" and c["sigma"][0] == "s":
        nrm = frob2(A)
        if c["mode"] == "complex":
            nrm += sum(F(v) ** 2 for v in c["Ai"])
        return tau[0] * sig[0] * nrm <= 1
    if c["mode"] == "complex":
        return False
    return all(tau[j] * sum(abs(A[i][j]) for i in range(m)) <= 1 for j in range(n)) and \
        all(sig[i] * sum(abs(A[i][j]) for j in range(n)) <= 1 for i in range(m))


def hyp_float(A, tw, sw):
    """oracle instance (floats): positivity and |Sigma^(1/2) A T^(1/2)|_2 <= 1 (+1e-9 rounding)"""
    if not (np.all(tw > 0) and np.all(sw > 0)):
        return False
    return float(np.linalg.norm(np.sqrt(sw)[:, None] * A * np.sqrt(tw)[None, :], 2)) <= 1 + 1e-9


def hyp_note(ok, what):
    HYP["checked"] += 1
    if not ok and len(HYP["bad"]) < 5:
        HYP["bad"].append(what)


def _stream(ctx, cases, stream):
    impls, lines = [], []
    for c in cases:
        try:
            impl, sqlog = run_impl(c)
        except Exception as e:  # noqa
            impl, sqlog = "err %s: %s" % (type(e).__name__, e), []
        impls.append(impl)
        lines.append(line(c, sqlog))
    replies = ctx.driver(lines)
    bad = 0
    for c, impl, ln, r in zip(cases, impls, lines, replies):
        model = parse_reply(r)
        tag = "%s:%s:%s" % (c["kind"], c["mode"], ("accel" if c.get("accel") else "plain") if c["kind"] == "gm"
                             else ("gp" if F(c["gp"]) > 0 else "gd" if F(c["gd"]) > 0 else "const") + ":" + c["tau"][0] + c["sigma"][0])
        ctx.count(tag)
        ctx.count("layout:x=%s%s" % (c.get("xlay", "C"), ":nd" if sum(1 for d in c.get("xshape", ()) if d > 1) >= 2 else ""))
        ctx.count("callback:%s:%s" % (c["kind"], c.get("olay", "C")))
        if c["kind"] == "pd":
            hyp_note(hyp_exact(c), canon(c)[:300])
        ctx.case(canon(c), sample=dict(line=ln[:240], reply=r[:160]) if ctx.evaluations % 23 == 0 else None)
        diff = impl if isinstance(impl, str) else compare(c, impl, model)
        if diff is not None:
            bad += 1
            ctx.disagree(stream, c, diff, r[:300])
    return bad


def correspond(ctx):
    warm_up()
    ctx.rule = ("case = (solver, m×n rational matrix A, b, x0[, u0], step(s) scalar or array, prox kind ∈ "
                "{None, NoOp, L2Reg, BoxConstraint, L1Reg} as object or in-place function, accelerate / gamma_primal / "
                "gamma_dual, number of updates, shape (1–3 axes) and memory layout (C, Fortran, transposed, strided, "
                "reversed view) of the caller's x / u / step arrays, what the caller's callbacks hand back: a fresh C / Fortran "
                "array, a reused buffer, or — for A = I (b = 0) in a fifth of the cases — their ARGUMENT, a view of it, or "
                "through sigpy.linop.Identity); "
                "distinct by the full JSON case; every case runs ≥ 2 updates of the real class and compares the whole "
                "state (x, z, t | x, u, x_ext, tau, sigma; resid) after each")
    ctx.assumptions += [
        "numpy object-array arithmetic (+,-,*,/,@, clip, copyto) applies the scalar operations elementwise",
        "the statement order of the two _update bodies and the if/elif/else conditions of the step-size block are "
        "pinned by the translator plugin and validated by the correspondence, not proved",
        "proved in finite dimension: convergence of the ISTA and of the non-accelerated PDHG iterates (scalar or array steps, "
        "tau sigma |A|^2 <= 1 incl. equality), the ergodic gap bound, and for gamma_primal > 0 with scalar steps the O(1/N^2) "
        "rate (gamma_dual > 0: under tau sigma |A|^2 < 1); validated by the search oracle only: the accelerated variants with array-valued steps, "
        "convergence of the FISTA iterates",
        "strong convexity of g (resp. f*) enters pdhg_accel_* as Mathlib's StrongConvexOn univ gamma; the oracle instances use "
        "g = lam/2 |x|^2 with gamma_primal <= lam and f* = 1/2 |u|^2 + <u,b> with gamma_dual <= 1",
        "array steps enter the theorems as the operator they act as (StepOp: v -> tau*v elementwise, v -> v/tau) and "
        "the prox with an array step through its characterisation in the tau^-1-weighted inner product (IsProxW); that "
        "sigpy.prox maps called with an array step satisfy it is C11's subject / the correspondence's",
    ]
    nq = dict(quick=(60, 40, 24), thorough=(500, 300, 200))[ctx.tier]
    for mode, n in zip(("exact", "float", "complex"), nq):
        cases = [gen_case(ctx.rng, mode) for _ in range(n)]
        bad = _stream(ctx, cases, mode)
        ctx.oblige("correspondence:C13." + mode, "correspondence", bad == 0, "%d disagreements" % bad)
    ctx.oblige("hypotheses:C13.pdhg_fejer_diag.correspondence", "correspondence", not HYP["bad"],
               "step positivity (StepOp.Pos) and the metric condition (MetricPSD: metricPSD_scalar / metricPSD_abs_sums) "
               "hold exactly on %d PDHG cases of the correspondence; failing: %s" % (HYP["checked"], HYP["bad"]))
    ctx.traces = ctx.evaluations


# ------------------------------------------------------------------------------------------------
# search: oracles from the property statement, on the real code (floats)
# ------------------------------------------------------------------------------------------------
def g_value(spec, x):
    k = spec[0]
    if k in ("none", "noop"):
        return 0.0
    if k == "l2":
        return float(F(spec[1])) / 2 * float(np.vdot(x, x).real)
    if k == "l1":
        return float(F(spec[1])) * float(np.sum(np.abs(x)))
    if k == "box":
        lo, hi = float(F(spec[1])), float(F(spec[2]))
        t = 1e-12 * max(abs(lo), abs(hi))      # relative: the data may be of any magnitude (the clip is exact anyway)
        return 0.0 if np.all(x.real >= lo - t) and np.all(x.real <= hi + t) else np.inf
    raise ValueError(spec)


def planted(rng, m, n, gspec, cplx, cond=3.0, structured=None, xreal=False):
    """instance with a known minimiser x* / saddle point (x*, u*) of ½‖Ax-b‖² + g(x):
    choose x*, a subgradient s of g at x*, u* with Aᴴu* = -s, and b = A x* - u*.
    xreal (with cplx): complex A, b but a REAL unknown held in a real-dtype array (real image, complex data): the
    operator is the real-linear map x -> Ax from R^n to C^m, its adjoint w -> Re(Aᴴw); u* with Re(Aᴴu*) = -s."""
    nr = np.random.RandomState(rng.randint(0, 2 ** 31 - 1))
    xreal = bool(xreal and cplx)

    def rnd(*sh):
        return nr.randn(*sh) + 1j * nr.randn(*sh) if cplx else nr.randn(*sh)
    if structured == "identity":
        m = n
        A = np.eye(n, dtype=complex if cplx else float)
    elif structured == "nesterov":
        A = np.zeros((n + 1, n))
        for i in range(n):
            A[i, i] = 1
            A[i + 1, i] = -1
        m = n + 1
        A = A.astype(complex) if cplx else A
    else:
        U, _ = np.linalg.qr(rnd(m, m))
        V, _ = np.linalg.qr(rnd(n, n))
        r = min(m, n)
        sv = np.geomspace(1.0, 1.0 / cond, r) * (0.5 + 2 * nr.rand())
        S = np.zeros((m, n))
        S[:r, :r] = np.diag(sv)
        A = U @ S @ V.conj().T
    k = gspec[0]
    xs = nr.randn(n) if xreal else rnd(n)
    xdt = float if xreal else A.dtype
    if k in ("none", "noop"):
        s = np.zeros(n, dtype=xdt)
    elif k == "l2":
        s = float(F(gspec[1])) * xs
    elif k == "l1":
        lam = float(F(gspec[1]))
        supp = nr.rand(n) < 0.6
        xs = np.where(supp, xs, 0)
        mag = np.abs(xs)
        s = np.where(supp, lam * xs / np.where(mag == 0, 1, mag), lam * 0.7 * (2 * nr.rand(n) - 1))
    else:
        lo, hi = float(F(gspec[1])), float(F(gspec[2]))
        which = nr.randint(0, 3, size=n)
        xs = np.where(which == 0, lo, np.where(which == 1, hi, lo + (hi - lo) * nr.rand(n)))
        s = np.where(which == 0, -nr.rand(n), np.where(which == 1, nr.rand(n), 0.0))
        xs = xs.astype(xdt)
    # u* with Aᴴ u* = -s  (needs full column rank; else only s in range(Aᴴ): project)
    AH = A.conj().T
    if xreal:   # Re(Aᴴ(ur + i ui)) = Arᵀ ur + Aiᵀ ui
        sol = -np.linalg.lstsq(np.hstack([A.real.T, A.imag.T]), s.astype(float), rcond=None)[0]
        us = sol[:m] + 1j * sol[m:]
        if np.linalg.norm((AH @ us).real + s) > 1e-12 * (1 + np.linalg.norm(s)):
            return None
        return dict(A=A, b=A @ xs - us, xs=xs.astype(float), us=us, gspec=gspec, structured=structured, xreal=True)
    us = -np.linalg.lstsq(AH, s.astype(A.dtype), rcond=None)[0]
    if np.linalg.norm(AH @ us + s) > 1e-12 * (1 + np.linalg.norm(s)):
        return None
    b = A @ xs - us
    return dict(A=A, b=b, xs=xs.astype(A.dtype), us=us, gspec=gspec, structured=structured)


def warm_up():
    """sigpy.thresh._soft_thresh is a lazily typed numba ufunc: when its first call in a process has complex
    input, later real input is resolved to the complex loop and comes back complex128 (a thresh/L1Reg dtype
    issue outside C13, reported to the integrator).  Compiling the real loop first keeps real data real here."""
    from sigpy import thresh
    thresh.soft_thresh(0.5, np.zeros(2))
    thresh.soft_thresh(np.full(2, 0.5), np.zeros(2))


def real_prox(gspec, n):
    return build_prox(gspec, n, "float")


def objective(P, x):
    """½|Ax-b|² [+ Re<c,x>] + g(x)"""
    x = flat(x)
    r = P["A"] @ x - P["b"]
    lin = float(np.vdot(P["c"], x).real) if P.get("c") is not None else 0.0
    return 0.5 * float(np.vdot(r, r).real) + lin + g_value(P["gspec"], x)


def alias_instance(n, gspec, cplx):
    """f = ½|x|² (A = I, b = 0): grad f(x) = x, so a caller's gradf may simply return its argument (GRADK);
    the minimiser of f + g is prox_g(0), in closed form"""
    dt = complex if cplx else float
    xs = np_prox(gspec, 1.0, np.zeros(n, dtype=dt)).astype(dt)
    return dict(A=np.eye(n, dtype=dt), b=np.zeros(n, dtype=dt), xs=xs, us=xs.copy(), gspec=gspec, structured="alias",
                exact_xs=True)


def linear_instance(rng, n, gspec, cplx):
    """f = Re<c,x> (the degenerate quadratic A = 0; L = 0, so every alpha > 0 is admissible): grad f is the constant
    c, so a caller's gradf may return one persistent array of problem data (CONSTK).  Minimiser of f + g in closed
    form: l2: -c/lam;  box: lo where c > 0, hi where c < 0 (c != 0);  l1 with |c_i| < lam: 0."""
    nr = np.random.RandomState(rng.randint(0, 2 ** 31 - 1))
    dt = complex if cplx else float
    c = (nr.randn(n) + (1j * nr.randn(n) if cplx else 0)).astype(dt)
    k = gspec[0]
    if k == "l2":
        xs = -c / float(F(gspec[1]))
    elif k == "l1":
        c = (float(F(gspec[1])) * 0.9 * c / np.maximum(1.0, np.abs(c).max())).astype(dt)
        xs = np.zeros(n, dtype=dt)
    elif k == "box" and not cplx:
        c = np.where(np.abs(c) < 0.1, 0.1, c)
        xs = np.where(c > 0, float(F(gspec[1])), float(F(gspec[2])))
    else:
        raise ValueError("f + g unbounded below: %r" % (gspec,))
    return dict(A=np.zeros((1, n), dtype=dt), b=np.zeros(1, dtype=dt), c=c, xs=xs.astype(dt), us=np.zeros(1, dtype=dt),
                gspec=gspec, structured="linear", exact_xs=True)


MAGS = (-40, -13, 17, 33)


def rescale(P, k, *vecs):
    """the same problem with all data multiplied by s = 2**k (x, b, c, x*, u*, the box, the l1 weight; A, the l2 weight
    and the steps are unchanged): f + g is multiplied by s², every guarantee scales along and floating-point
    arithmetic commutes with the scaling (no rounding in a multiplication by a power of two), so the oracles demand on
    tiny / huge data exactly what they demand at unit scale — with every tolerance floor scaled by s resp. s²."""
    s = 2.0 ** k
    g = list(P["gspec"])
    if g[0] == "l1":
        g = ["l1", fs(F(g[1]) * F(2) ** k)]
    elif g[0] == "box":
        g = ["box", fs(F(g[1]) * F(2) ** k), fs(F(g[2]) * F(2) ** k)]
    Q_ = dict(P, b=P["b"] * s, xs=P["xs"] * s, us=P["us"] * s, gspec=g, mag=s * P.get("mag", 1.0))
    if P.get("c") is not None:
        Q_["c"] = P["c"] * s
    return [Q_] + [None if v is None else v * s for v in vecs]


def np_prox(gspec, alpha, v):
    """prox of alpha*g in plain numpy, from the definitions (used only to compute comparison points)"""
    k = gspec[0]
    if k in ("none", "noop"):
        return v
    if k == "l2":
        return v / (1 + float(F(gspec[1])) * alpha)
    if k == "l1":
        t = float(F(gspec[1])) * alpha
        mag = np.abs(v)
        return np.where(mag > t, (1 - t / np.where(mag > t, mag, 1.0)) * v, 0).astype(v.dtype)
    if k == "box":
        return np.clip(v.real, float(F(gspec[1])), float(F(gspec[2]))).astype(v.dtype)
    raise ValueError(gspec)


def reference_point(A, b, gspec, iters=3000):
    """a comparison point w with small F(w): plain-numpy FISTA.  The rate theorems hold against EVERY w with
    finite F(w), so its accuracy only affects how sharp the demanded bound is, never its validity."""
    AH = A.conj().T
    L = max(float(np.linalg.eigvalsh(AH @ A)[-1]), 1e-12)
    x = np_prox(gspec, 1 / L, np.zeros(A.shape[1], dtype=A.dtype))
    z, t = x.copy(), 1.0
    for _ in range(iters):
        xn = np_prox(gspec, 1 / L, z - (AH @ (A @ z - b)) / L)
        tn = (1 + math.sqrt(1 + 4 * t * t)) / 2
        z = xn + (t - 1) / tn * (xn - x)
        x, t = xn, tn
    return x


def dyadic(nr, cplx, *sh):
    """entries k/4, |k| <= 6: products and short sums of them are exact in binary floating point"""
    a = nr.randint(-6, 7, size=sh) / 4.0
    return a + 1j * (nr.randint(-6, 7, size=sh) / 4.0) if cplx else a


def zero_grad_instance(rng, fam, gspec, cplx):
    """(P, x0) with grad f(x0) = Aᴴ(A x0 - b) EXACTLY zero in floating point although x0 is (in general) not a
    minimiser of f + g — a warm start at the minimiser of the smooth part:
      denoise  A = I, x0 = b                      (½|x-b|² + g, started at the data; x* = prox_g(b) in closed form)
      homog    b = 0, x0 = 0                      (½|Ax|² + g; for a box that excludes 0 the start is infeasible)
      dyadic   A, x0 with entries k/4, b = A x0   (computed without rounding)"""
    nr = np.random.RandomState(rng.randint(0, 2 ** 31 - 1))
    n = rng.randint(2, 6)
    dt = complex if cplx else float
    if fam == "denoise":
        A = np.eye(n, dtype=dt)
        b = (nr.randn(n) + (1j * nr.randn(n) if cplx else 0)).astype(dt) * rng.choice((0.3, 1.0, 3.0))
        x0 = b.copy()
        xs = np_prox(gspec, 1.0, b)
    else:
        m = n + rng.randint(0, 2)
        if fam == "homog":
            A = (nr.randn(m, n) + (1j * nr.randn(m, n) if cplx else 0)).astype(dt)
            x0, b = np.zeros(n, dtype=dt), np.zeros(m, dtype=dt)
        else:
            A = dyadic(nr, cplx, m, n).astype(dt)
            if np.linalg.matrix_rank(A) < n:
                A[:n, :n] += 2 * np.eye(n)
            x0 = dyadic(nr, cplx, n).astype(dt)
            b = A @ x0
        xs = reference_point(A, b, gspec)
    if np.any(A.conj().T @ (A @ x0 - b)):
        return None
    return dict(A=A, b=b, xs=xs.astype(dt), us=(A @ xs - b).astype(dt), gspec=gspec, structured="zero-grad:" + fam,
                exact_xs=(fam == "denoise")), x0


def case_of(P, extra):
    """JSON-able description for the replay (floats by hex would be exact; repr round-trips float64)"""
    if "spec" in P:
        d = dict(spec=P["spec"])
        d.update(extra)
        return d
    d = dict(A_re=P["A"].real.tolist(), A_im=P["A"].imag.tolist() if np.iscomplexobj(P["A"]) else None,
             b_re=P["b"].real.tolist(), b_im=P["b"].imag.tolist() if np.iscomplexobj(P["b"]) else None,
             xs_re=P["xs"].real.tolist(), xs_im=P["xs"].imag.tolist() if np.iscomplexobj(P["xs"]) else None,
             us_re=P["us"].real.tolist(), us_im=P["us"].imag.tolist() if np.iscomplexobj(P["us"]) else None,
             gspec=P["gspec"], structured=P.get("structured"), identity_kind=P.get("identity_kind"),
             exact_xs=P.get("exact_xs", True), mag=P.get("mag", 1.0), xreal=bool(P.get("xreal")))
    if P.get("c") is not None:
        d.update(c_re=P["c"].real.tolist(), c_im=P["c"].imag.tolist() if np.iscomplexobj(P["c"]) else None)
    d.update(extra)
    return d


def gm_layout(rng, n, shape=None):
    return dict(xshape=list(shape or pick_shape(rng, n)), x=rng.choice(LAYOUTS), out=rng.choice(OUTS), prox=rng.choice(PROXK))


def _rand_like(nrs, v, mag):
    return (nrs.randn(len(v)) + (1j * nrs.randn(len(v)) if np.iscomplexobj(v) else 0)) * mag


def gm_shadow(rng, nrs, x0, P):
    """a second live GradientMethod object (own array, own start, own accelerate flag, a step <= the main one) that
    shares gradf and proxg with the observed one"""
    z = _rand_like(nrs, x0, float(P.get("mag") or 1.0))
    if P["gspec"][0] == "box":
        z = np_prox(P["gspec"], 1.0, z)
    return dict(x0_re=z.real.tolist(), x0_im=z.imag.tolist() if np.iscomplexobj(x0) else None, accel=rng.random() < 0.5,
                x=rng.choice(LAYOUTS), c=rng.choice((1.0, 0.5)))


def pd_shadow(rng, nrs, x0, u0, P):
    mag = float(P.get("mag") or 1.0)
    z, w = _rand_like(nrs, x0, mag), _rand_like(nrs, u0, mag)
    return dict(x0_re=z.real.tolist(), x0_im=z.imag.tolist() if np.iscomplexobj(x0) else None,
                u0_re=w.real.tolist(), u0_im=w.imag.tolist() if np.iscomplexobj(u0) else None,
                x=rng.choice(LAYOUTS), u=rng.choice(LAYOUTS))


def pd_layout(rng, n, m, same_shape=False):
    xsh = pick_shape(rng, n)
    return dict(xshape=list(xsh), ushape=list(xsh if same_shape else pick_shape(rng, m)), x=rng.choice(LAYOUTS),
                u=rng.choice(LAYOUTS), out=rng.choice(OUTS), steps=rng.choice(("C", "F")), prox=rng.choice(PROXK))


def nesterov_instance(n):
    A = np.zeros((n + 1, n))
    for i in range(n):
        A[i, i], A[i + 1, i] = 1.0, -1.0
    b = np.zeros(n + 1)
    b[0] = 1.0
    xs = np.linalg.solve(A.T @ A, A.T @ b)
    return dict(A=A, b=b, xs=xs, us=A @ xs - b, gspec=["none"], spec=["nesterov", n])


def P_of(d):
    if "spec" in d:
        return nesterov_instance(d["spec"][1])
    def cv(re, im):
        re = np.array(re, dtype=float)
        return re + 1j * np.array(im, dtype=float) if im is not None else re
    return dict(A=cv(d["A_re"], d["A_im"]), b=cv(d["b_re"], d["b_im"]), xs=cv(d["xs_re"], d["xs_im"]),
                us=cv(d["us_re"], d["us_im"]), gspec=d["gspec"], structured=d.get("structured"),
                identity_kind=d.get("identity_kind") or "lambda", exact_xs=d.get("exact_xs", True),
                mag=d.get("mag") or 1.0, c=cv(d["c_re"], d.get("c_im")) if d.get("c_re") is not None else None,
                xreal=bool(d.get("xreal")))


def cvec(re, im, dt):
    re = np.array(re, dtype=float)
    return (re + 1j * np.array(im, dtype=float) if im is not None else re).astype(dt)


def gm_gradf(P, lo, xsh):
    """the caller's gradient callback for problem P: a freshly computed array handed back C / Fortran ordered or in a
    reused buffer (OUTS), the argument itself / a view of it (GRADK; f = ½|x|² only), or one persistent array of
    problem data (CONSTK; linear f only).  Returns (callback, the persistent array or None)."""
    A, b, out = P["A"], P["b"], lo["out"]
    AH = A.conj().T
    if out in GRADK:
        if not (A.shape[0] == A.shape[1] and np.array_equal(A, np.eye(A.shape[0])) and not np.any(b) and P.get("c") is None):
            raise ValueError("gradient kind %s needs f = ½|x|²" % out)
        return alias_op(out, xsh), None
    if out in CONSTK:
        if np.any(A) or P.get("c") is None:
            raise ValueError("gradient kind %s needs a linear f" % out)
        data = lay(P["c"], xsh, lo.get("clay", "C"))
        if out == "const-ro":
            data.flags.writeable = False
        return (lambda v: data), data
    if P.get("c") is not None:
        c = P["c"]
        return wrap_op(lambda v: AH @ (A @ v - b) + c, xsh, out), None
    return wrap_op(lambda v: AH @ (A @ v - b), xsh, out), None


def oracle_gm(ctx, P, x0, c_alpha, accel, K, origin, w_extra=None, lo=None):
    """monotone objective (not accelerated) and the rate bounds against every comparison point w
    (the theorems hold for every w, in particular the planted minimiser).
    x0: the start as a flat vector; lo: shape / memory layout of the caller's array, what the caller's gradf hands back
    (see LAYOUTS, OUTS, GRADK, CONSTK), kind of prox (PROXK), and optionally a `shadow`: a second live GradientMethod
    object on its own array that shares the callbacks and is updated in between — none of which the guarantees depend on.
    alpha = c_alpha/L, L the largest eigenvalue of AᴴA (for a linear f, L = 0, alpha = c_alpha).
    The objective is evaluated on the CALLER's array, with the harness's own copy of the problem data."""
    from sigpy import alg
    A = P["A"]
    AH = A.conj().T
    L = float(np.linalg.eigvalsh(AH @ A)[-1])
    alpha = c_alpha / L if L > 0 else float(c_alpha)
    if isinstance(c_alpha, int) and L in (0.0, 1.0):
        alpha = c_alpha            # handed over as a Python int (alpha = 1 = 1/L for f = ½|x|²)
    mag = float(P.get("mag") or 1.0)
    lo = lo or dict(xshape=[len(x0)], x="C", out="C", prox="obj")
    xsh = tuple(lo["xshape"])
    x = lay(x0, xsh, lo["x"])
    xc = x
    gradf, _data = gm_gradf(P, lo, xsh)
    proxg = wrap_prox(real_prox(P["gspec"], xsh), lo["prox"]) if P["gspec"][0] != "none" else None
    a = alg.GradientMethod(gradf, x, alpha, proxg=proxg, accelerate=accel, max_iter=K)
    sh, a2 = lo.get("shadow"), None
    if sh:
        x2 = lay(cvec(sh["x0_re"], sh.get("x0_im"), x0.dtype), xsh, sh.get("x", lo["x"]))
        a2 = alg.GradientMethod(gradf, x2, alpha * sh.get("c", 1.0), proxg=proxg, accelerate=bool(sh["accel"]), max_iter=2 * K)
    ws = [P["xs"]] + ([w_extra] if w_extra is not None else [])
    Fw = [objective(P, w) for w in ws]
    d0 = [float(np.linalg.norm(x0 - w)) ** 2 for w in ws]
    Fprev = objective(P, x0)
    scale = mag ** 2 + (abs(Fprev) if np.isfinite(Fprev) else 0.0) + max(abs(v) for v in Fw)
    case = case_of(P, dict(oracle="gm", x0_re=x0.real.tolist(), x0_im=x0.imag.tolist() if np.iscomplexobj(x0) else None,
                           c_alpha=c_alpha, accel=accel, K=K, layout=lo,
                           w_extra_re=w_extra.real.tolist() if w_extra is not None else None,
                           w_extra_im=w_extra.imag.tolist() if w_extra is not None and np.iscomplexobj(w_extra) else None))
    ok = True
    # ista_step_nonexpansive + ista_fixed_iff_minimiser: without acceleration the distance to EVERY minimiser never
    # increases (the planted x* is a minimiser up to the accuracy of its construction; reference points are not)
    dist_prev = float(np.linalg.norm(x0 - P["xs"])) if (not accel and P.get("exact_xs", True)) else None
    for k in range(1, K + 1):
        try:
            if a2 is not None and k % 2 == 1:
                a2.update()
            a.update()
            if a2 is not None and k % 2 == 0:
                a2.update()
                a2.update()
        except Exception as e:  # noqa  -- a valid problem must run
            ctx.fail("C13:gm:raises", "GradientMethod.update raised on a valid problem", case,
                     observed="update %d: %s: %s" % (k, type(e).__name__, e), expected="an update", origin=origin)
            return False
        if a.x is not xc:
            ctx.fail("C13:gm:inplace", "GradientMethod no longer updates the caller's array in place", case,
                     observed="alg.x is not x after update %d" % k, expected="alg.x is x", origin=origin)
            return False
        Fk = objective(P, xc)
        if not accel and Fk > Fprev + 1e-10 * scale:
            ctx.fail("C13:gm:descent", "composite objective increased in a non-accelerated update with alpha <= 1/L",
                     case, observed="F(x_%d)=%.17g > F(x_%d)=%.17g" % (k, Fk, k - 1, Fprev), expected="non-increasing",
                     origin=origin)
            return False
        Fprev = Fk
        if dist_prev is not None:
            dk = float(np.linalg.norm(flat(xc) - P["xs"]))
            if k == 1:
                ctx.count("oracle:gm:fejer:runs")
            if dk > dist_prev + 1e-8 * (mag + math.sqrt(d0[0])):
                ctx.fail("C13:gm:fejer", "distance to a minimiser increased in a non-accelerated update with alpha <= 1/L",
                         case, observed="|x_%d - x*|=%.17g > |x_%d - x*|=%.17g" % (k, dk, k - 1, dist_prev),
                         expected="non-increasing (ista_step_nonexpansive)", origin=origin)
                return False
            dist_prev = dk
        for Fwi, d in zip(Fw, d0):
            bound = 2 * d / (alpha * (k + 1) ** 2) if accel else d / (2 * alpha * k)
            if not Fk - Fwi <= bound * (1 + 1e-9) + 1e-10 * scale:
                ctx.fail("C13:gm:accel-rate" if accel else "C13:gm:rate",
                         "objective gap after k updates exceeds the %s bound" % ("2L|x0-w|^2/(k+1)^2" if accel else "L|x0-w|^2/(2k)"),
                         case, observed="k=%d gap=%.17g" % (k, Fk - Fwi), expected="<= %.17g" % bound, origin=origin)
                return False
    return ok


def weighted(d, w):
    return float(np.sum(np.abs(d) ** 2 / w))


def oracle_pd(ctx, P, x0, u0, tau, sigma, gp, gd, K, what, origin, lo=None):
    """what: 'saddle' start at the saddle point, must stay; 'fejer' constant steps: coupled distance on
    (x before the primal step, u after the dual step) never increases; 'converge' distance to the saddle
    point after K updates.
    x0, u0, tau, sigma: flat vectors (or scalars); lo: shapes / memory layouts of the caller's x, u and step arrays,
    layout of the operator outputs, kind of prox.  Everything is measured on the CALLER's arrays."""
    from sigpy import alg, prox
    A, b, xs, us = P["A"], P["b"], P["xs"], P["us"]
    AH = A.conj().T
    n, m = len(xs), len(us)
    lo = lo or dict(xshape=[n], ushape=[m], x="C", u="C", out="C", steps="C", prox="obj")
    xsh, ush = tuple(lo["xshape"]), tuple(lo["ushape"])
    x, u = lay(x0, xsh, lo["x"]), lay(u0, ush, lo["u"])
    xc, uc = x, u
    # scalar steps are handed over as given: Python floats, or Python ints (tau = sigma = 1 for |A| <= 1)
    tau0 = np.array(tau, dtype=float).reshape(-1).copy() if isinstance(tau, np.ndarray) else (tau if isinstance(tau, int) else float(tau))
    sig0 = np.array(sigma, dtype=float).reshape(-1).copy() if isinstance(sigma, np.ndarray) else (sigma if isinstance(sigma, int) else float(sigma))
    Aop, AHop = wrap_op(lambda v: A @ v, ush, lo["out"]), wrap_op(lambda w: AH @ w, xsh, lo["out"])
    if P.get("xreal"):   # real unknown, complex data: the adjoint of the real-linear map x -> Ax is w -> Re(Aᴴw)
        if np.iscomplexobj(x0) or P.get("structured") == "identity":
            raise ValueError("xreal: the primal start must be real and A a general matrix")
        AHop = wrap_op(lambda w: (AH @ w).real, xsh, lo["out"])
    if P.get("structured") == "identity":
        # operators that return their ARGUMENT or a (reshaped) view of it (sigpy.linop.Identity / Reshape, lambda v: v,
        # v[...], v.reshape(...)): legal, and the only way to see whether the update scales or accumulates into the
        # operator's output in place
        Aop, AHop = identity_ops(P.get("identity_kind") or "lambda", xsh, ush)
    proxfc = wrap_prox(prox.L2Reg(ush, 1.0, y=(-b).reshape(ush)), lo["prox"])
    proxg = wrap_prox(real_prox(P["gspec"], xsh), lo["prox"])

    def steps(t0, shp):
        return lay(t0, shp, lo["steps"]) if isinstance(t0, np.ndarray) else t0
    a = alg.PrimalDualHybridGradient(proxfc, proxg, Aop, AHop, x, u, steps(tau0, xsh), steps(sig0, ush),
                                     gamma_primal=gp, gamma_dual=gd, max_iter=K)
    sh, a2 = lo.get("shadow"), None
    if sh:
        # a second live object on its own arrays (and its own step arrays: they are rescaled in place when accelerating)
        # that shares the operators and the prox objects, updated in between
        x2 = lay(cvec(sh["x0_re"], sh.get("x0_im"), x0.dtype), xsh, sh.get("x", lo["x"]))
        u2 = lay(cvec(sh["u0_re"], sh.get("u0_im"), u0.dtype), ush, sh.get("u", lo["u"]))
        a2 = alg.PrimalDualHybridGradient(proxfc, proxg, Aop, AHop, x2, u2, steps(tau0.copy() if isinstance(tau0, np.ndarray) else tau0, xsh),
                                          steps(sig0.copy() if isinstance(sig0, np.ndarray) else sig0, ush),
                                          gamma_primal=gp, gamma_dual=gd, max_iter=2 * K)
    case = case_of(P, dict(oracle="pd", what=what, x0_re=x0.real.tolist(), x0_im=x0.imag.tolist() if np.iscomplexobj(x0) else None,
                           u0_re=u0.real.tolist(), u0_im=u0.imag.tolist() if np.iscomplexobj(u0) else None,
                           tau=tau0.tolist() if isinstance(tau0, np.ndarray) else tau0,
                           sigma=sig0.tolist() if isinstance(sig0, np.ndarray) else sig0, gp=gp, gd=gd, K=K, layout=lo,
                           conv_tol=P.get("conv_tol")))
    mag = float(P.get("mag") or 1.0)
    scale = mag + float(np.linalg.norm(xs)) + float(np.linalg.norm(us))
    Dprev = None
    tw = tau0 if isinstance(tau0, np.ndarray) else np.full(n, tau0)
    sw = sig0 if isinstance(sig0, np.ndarray) else np.full(m, sig0)
    if what == "fejer":
        # the domain of pdhg_fejer_diag_monotone: positive steps, PSD metric — checked on this very instance
        okh = hyp_float(A, tw, sw)
        hyp_note(okh, "oracle fejer: tau=%s sigma=%s" % (tw.tolist(), sw.tolist()))
        ctx.count("oracle:pd:fejer:hypotheses-%s" % ("hold" if okh else "FAIL"))
        if not okh:
            return True
    tmin, smin = float(np.min(tw)), float(np.min(sw))
    nx0, nu0 = float(np.linalg.norm(x0 - xs)) ** 2, float(np.linalg.norm(u0 - us)) ** 2
    e0 = nx0 / tmin ** 2 + nu0 / (tmin * smin)      # |x0-x*|²/τ0² + |u0-u*|²/(τ0σ0)
    f0 = nu0 / smin ** 2 + nx0 / (tmin * smin)
    # pdhg_ergodic_gap: comparison pairs (w, v) with finite g(w): the saddle point and a second, generic pair
    scalar_steps = not isinstance(tau0, np.ndarray) and not isinstance(sig0, np.ndarray)
    pairs = [(xs, us), (np_prox(P["gspec"], 1.0, 0.5 * (xs + x0)).astype(A.dtype), (0.5 * (us + u0)).astype(A.dtype))]
    sumX, sumU, u1 = np.zeros(n, dtype=A.dtype), np.zeros(m, dtype=A.dtype), None

    def lagr(xx, uu):
        return g_value(P["gspec"], xx) + float(np.vdot(uu, A @ xx).real) - (0.5 * float(np.vdot(uu, uu).real) + float(np.vdot(uu, b).real))
    psi_prev = e0 / 2 if (what == "converge" and gp > 0 and gd == 0 and scalar_steps) else None   # Psi(s_0), x_ext = x
    psid_prev = f0 / 2 if (what == "converge" and gd > 0 and gp == 0 and scalar_steps) else None  # Psi_d(s_0)
    for k in range(1, K + 1):
        x_before = flat(xc)
        try:
            if a2 is not None and k % 2 == 1:
                a2.update()
            a.update()
            if a2 is not None and k % 2 == 0:
                a2.update()
                a2.update()
        except Exception as e:  # noqa  -- a valid problem must run
            ctx.fail("C13:pd:raises", "PrimalDualHybridGradient.update raised on a valid problem", case,
                     observed="update %d: %s: %s" % (k, type(e).__name__, e), expected="an update", origin=origin)
            return False
        if a.x is not xc or a.u is not uc:
            ctx.fail("C13:pd:inplace", "PrimalDualHybridGradient no longer updates the caller's arrays in place", case,
                     observed="alg.x is x: %s, alg.u is u: %s after update %d" % (a.x is xc, a.u is uc, k),
                     expected="both identical", origin=origin)
            return False
        xk, uk = flat(xc), flat(uc)
        if what == "saddle":
            dev = max(float(np.max(np.abs(xk - xs))), float(np.max(np.abs(uk - us))))
            if not dev <= 1e-10 * scale:
                ctx.fail("C13:pd:saddle-fixed", "iterates started at a saddle point move away from it", case,
                         observed="update %d: max deviation %.3g" % (k, dev), expected="<= 1e-10 (fixed point)", origin=origin)
                return False
        if what == "converge" and gp > 0 and gd == 0 and scalar_steps and psi_prev is not None:
            # pdhg_accel_lyapunov on the state the object holds: Psi = (|x-x*|²/(2τ) + |u-u*|²/(2σ))/τ + |x_ext-x|²/(2τ²)
            # + Re<A(x_ext-x), u-u*>/τ never increases.  Evaluated while the iterate is far from the planted saddle point
            # compared with the accuracy (1e-12 relative) to which that point is a saddle point.
            if float(np.linalg.norm(xk - xs)) >= 1e-6 * scale:
                tk, sk = float(a.tau), float(a.sigma)
                ek = flat(a.x_ext) - xk
                psi = ((float(np.linalg.norm(xk - xs)) ** 2 / (2 * tk) + float(np.linalg.norm(uk - us)) ** 2 / (2 * sk)) / tk
                       + float(np.linalg.norm(ek)) ** 2 / (2 * tk ** 2) + float(np.vdot(uk - us, A @ ek).real) / tk)
                ctx.count("oracle:pd:accel-lyapunov:evaluated")
                if not psi <= psi_prev * (1 + 1e-9) + 1e-12 * (mag ** 2 + e0):
                    ctx.fail("C13:pd:accel-lyapunov", "accelerated PDHG (gamma_primal > 0, scalar steps): the Lyapunov function of "
                             "Chambolle-Pock Alg. 2 increased in one update", case,
                             observed="k=%d Psi=%.17g > previous %.17g" % (k, psi, psi_prev), expected="non-increasing",
                             origin=origin)
                    return False
                psi_prev = psi
            else:
                psi_prev = None
        if what == "converge" and gd > 0 and gp == 0 and scalar_steps:
            # the mirrored statements for gamma_dual > 0: pdhg_accel_run_dual / pdhg_accel_sigma_decay on the steps,
            # pdhg_accel_lyapunov_dual on Psi_d = (|x-x*|²/(2τ) + |u-u*|²/(2σ))/σ + Re<A(x_ext-x), u-u*>/σ + |x_ext-x|²/(2τσ)
            tk, sk = float(a.tau), float(a.sigma)
            if k <= 3 or k in (20, 100, 500) or k == K:
                ctx.count("oracle:pd:accel-steps-dual:evaluated")
                if not (abs(tk * sk - tmin * smin) <= 1e-9 * tmin * smin and sk > 0
                        and 1 / sk >= (1 / smin + k * gd / (1 + gd * smin)) * (1 - 1e-9)):
                    ctx.fail("C13:pd:accel-steps-dual", "accelerated PDHG (gamma_dual > 0, scalar steps): the rescaled steps leave the "
                             "guaranteed range (tau*sigma invariant, 1/sigma_k >= 1/sigma_0 + k*gamma/(1+gamma*sigma_0))", case,
                             observed="k=%d tau=%.17g sigma=%.17g" % (k, tk, sk),
                             expected="tau*sigma=%.17g, 1/sigma >= %.17g" % (tmin * smin, 1 / smin + k * gd / (1 + gd * smin)),
                             origin=origin)
                    return False
            if psid_prev is not None and float(np.linalg.norm(uk - us)) >= 1e-6 * scale:
                ek = flat(a.x_ext) - xk
                psid = ((float(np.linalg.norm(xk - xs)) ** 2 / (2 * tk) + float(np.linalg.norm(uk - us)) ** 2 / (2 * sk)) / sk
                        + float(np.vdot(uk - us, A @ ek).real) / sk + float(np.linalg.norm(ek)) ** 2 / (2 * tk * sk))
                ctx.count("oracle:pd:accel-lyapunov-dual:evaluated")
                if not psid <= psid_prev * (1 + 1e-9) + 1e-12 * (mag ** 2 + f0):
                    ctx.fail("C13:pd:accel-lyapunov-dual", "accelerated PDHG (gamma_dual > 0, scalar steps): the Lyapunov function "
                             "Psi_d increased in one update", case,
                             observed="k=%d Psi_d=%.17g > previous %.17g" % (k, psid, psid_prev), expected="non-increasing",
                             origin=origin)
                    return False
                psid_prev = psid
            else:
                psid_prev = None
        if what == "converge" and gp > 0 and gd == 0 and scalar_steps and (k <= 3 or k in (20, 100, 500) or k == K):
            # pdhg_accel_run_primal / pdhg_accel_tau_decay on the steps the object holds after k updates:
            # tau*sigma is invariant and 1/tau_k >= 1/tau_0 + k*gamma/(1+gamma*tau_0)
            tk, sk = float(a.tau), float(a.sigma)
            ctx.count("oracle:pd:accel-steps:evaluated")
            if not (abs(tk * sk - tmin * smin) <= 1e-9 * tmin * smin and tk > 0
                    and 1 / tk >= (1 / tmin + k * gp / (1 + gp * tmin)) * (1 - 1e-9)):
                ctx.fail("C13:pd:accel-steps", "accelerated PDHG (gamma_primal > 0, scalar steps): the rescaled steps leave the "
                         "guaranteed range (tau*sigma invariant, 1/tau_k >= 1/tau_0 + k*gamma/(1+gamma*tau_0))", case,
                         observed="k=%d tau=%.17g sigma=%.17g" % (k, tk, sk),
                         expected="tau*sigma=%.17g, 1/tau >= %.17g" % (tmin * smin, 1 / tmin + k * gp / (1 + gp * tmin)),
                         origin=origin)
                return False
        if what == "converge" and (gp > 0 or gd > 0) and (k in (20, 100, 500) or k == K):
            # Chambolle–Pock Alg. 2 (Thm 2 and its proof): |x_N - x*| <= tau_N * sqrt(|x0-x*|²/tau0² + |u0-u*|²/(tau0 sigma0));
            # mirrored for the dual variant.  Observed on the unchanged code: ratio <= 0.9; demanded: <= 2.
            if gp > 0:
                err, lim, key = float(np.linalg.norm(xk - xs)), 2 * float(np.max(np.abs(a.tau))) * math.sqrt(e0), "C13:pd:converge-accel-primal"
            else:
                err, lim, key = float(np.linalg.norm(uk - us)), 2 * float(np.max(np.abs(a.sigma))) * math.sqrt(f0), "C13:pd:converge-accel-dual"
            if not err <= lim + 1e-9 * scale:
                ctx.fail(key, "accelerated PDHG: distance to the minimiser after N updates exceeds the O(step_N) guarantee", case,
                         observed="N=%d error %.6g" % (k, err), expected="<= %.6g" % lim, origin=origin)
                return False
            if gp > 0 and scalar_steps:
                # proved for scalar steps (pdhg_accel_dist_tau, pdhg_accel_rate): no slack factor
                lim1 = float(a.tau) * math.sqrt(e0)
                ctx.count("oracle:pd:accel-rate-exact:evaluated")
                lim2 = math.sqrt(e0) / (1 / tmin + k * gp / (1 + gp * tmin))
                if not (err <= lim1 * (1 + 1e-9) + 1e-9 * scale and err <= lim2 * (1 + 1e-9) + 1e-9 * scale):
                    ctx.fail("C13:pd:accel-rate", "accelerated PDHG (gamma_primal > 0, scalar steps): |x_N - x*| exceeds the "
                             "Chambolle-Pock Thm 2 bound tau_N*sqrt(C) resp. sqrt(C)/(1/tau0 + N*gamma/(1+gamma*tau0))", case,
                             observed="N=%d error %.17g tau_N=%.17g" % (k, err, float(a.tau)),
                             expected="<= min(%.17g, %.17g)" % (lim1, lim2), origin=origin)
                    return False
        if what == "fejer":
            if k == 1:
                u1 = uk
            else:
                sumX, sumU = sumX + x_before, sumU + uk          # pairs (x_j, u_(j+1)), j = 1..N with N = k-1
                N = k - 1
                if N in (1, 2, 5, 10, 20, 50, 100) or k == K:
                    XN, UN = sumX / N, sumU / N
                    ctx.count("oracle:pd:ergodic-gap:evaluated")
                    for (w_, v_) in pairs:
                        D0 = weighted(x0 - w_, tw) - 2 * float(np.vdot(u1 - v_, A @ (x0 - w_)).real) + weighted(u1 - v_, sw)
                        l1_, l2_ = lagr(XN, v_), lagr(w_, UN)
                        if not l1_ - l2_ <= D0 / (2 * N) + 1e-9 * (mag ** 2 + abs(D0) + abs(l1_) + abs(l2_)):
                            ctx.fail("C13:pd:ergodic-gap", "ergodic primal-dual gap L(X_N, v) - L(w, U_N) exceeds D_0(w,v)/(2N) "
                                     "(constant steps, PSD metric)", case,
                                     observed="N=%d gap=%.17g" % (N, l1_ - l2_), expected="<= %.17g" % (D0 / (2 * N)),
                                     origin=origin)
                            return False
            dx, du = x_before - xs, uk - us
            D = weighted(dx, tw) - 2 * float(np.vdot(du, A @ dx).real) + weighted(du, sw)
            if Dprev is not None and D > Dprev + 1e-10 * (mag ** 2 + abs(Dprev)):
                ctx.fail("C13:pd:fejer", "coupled step-size-weighted distance to a saddle point increased (constant steps)",
                         case, observed="update %d: D=%.17g > previous %.17g" % (k, D, Dprev), expected="non-increasing",
                         origin=origin)
                return False
            if Dprev is not None:
                # pdhg_fejer_run_diag: D_k + R_{k-1} <= D_{k-1}, R the size of the previous update in the same metric
                mx, mu = x_before - xprev, uk - uprev
                R = weighted(mx, tw) - 2 * float(np.vdot(mu, A @ mx).real) + weighted(mu, sw)
                if D + R > Dprev + 1e-10 * (mag ** 2 + abs(Dprev)):
                    ctx.fail("C13:pd:fejer-step", "one-step Fejér inequality D_k + R_(k-1) <= D_(k-1) violated (constant steps)",
                             case, observed="update %d: D=%.17g R=%.17g previous D=%.17g" % (k, D, R, Dprev),
                             expected="D + R <= previous D", origin=origin)
                    return False
            Dprev, xprev, uprev = D, x_before, uk
    if what == "converge" and gp == 0 and gd == 0:
        err = max(float(np.linalg.norm(flat(xc) - xs)), float(np.linalg.norm(flat(uc) - us)))
        if not err <= P["conv_tol"] * scale:
            ctx.fail("C13:pd:converge", "distance to the minimiser / saddle point after %d updates exceeds the guaranteed level" % K,
                     case, observed="error %.6g" % err, expected="<= %.6g" % (P["conv_tol"] * scale), origin=origin)
            return False
    return True


def pd_steps(rng, P, arr):
    A = P["A"]
    m, n = A.shape
    if arr:
        ab = np.abs(A)
        a_ = rng.choice((0.5, 1.0, 1.5))
        tau = 1.0 / np.maximum(np.sum(ab ** (2 - a_), axis=0), 1e-12)
        sigma = 1.0 / np.maximum(np.sum(ab ** a_, axis=1), 1e-12)
        return tau, sigma
    L = float(np.linalg.norm(A, 2))
    ratio = rng.choice((0.3, 1.0, 3.0))
    c = rng.choice((1.0, 0.8))
    return c * ratio / L, 1.0 / (ratio * L)


def search_once(ctx, rng, origin, heavy):
    cplx = rng.random() < 0.35
    nrs = np.random.RandomState(rng.randint(0, 2 ** 31 - 1))
    # ---- gradient method
    gk = rng.choice([["none"], ["noop"], ["l2", fs(F(rng.randint(1, 12), 8))], ["l1", fs(F(rng.randint(1, 12), 8))]]
                    + ([] if cplx else [["box", "-1/2", "3/4"]]))
    structured = rng.choice([None, None, "nesterov", "illcond"])
    n = rng.randint(2, 12 if structured == "nesterov" else 6)
    m = n + rng.randint(0, 3)
    P = planted(rng, m, n, gk, cplx, cond=1e3 if structured == "illcond" else rng.choice((2.0, 10.0)),
                structured="nesterov" if structured == "nesterov" else None)
    if P is not None:
        x0 = (nrs.randn(n) + (1j * nrs.randn(n) if cplx else 0)) * rng.choice((0.0, 1.0, 5.0))
        x0 = x0.astype(P["A"].dtype)
        if gk[0] == "box":
            x0 = np.clip(x0.real, -0.5, 0.75).astype(P["A"].dtype)
        w_extra = (P["xs"] + 0.3 * nrs.randn(n)).astype(P["A"].dtype)
        if gk[0] == "box":
            w_extra = np.clip(w_extra.real, -0.5, 0.75).astype(P["A"].dtype)
        if rng.random() < 0.3:   # tiny / huge data
            P, x0, w_extra = rescale(P, rng.choice(MAGS), x0, w_extra)
            ctx.count("oracle:gm:magnitude:%g" % P["mag"])
        for accel in (False, True):
            lo = gm_layout(rng, n)
            if rng.random() < 0.3:
                lo["shadow"] = gm_shadow(rng, nrs, x0, P)
                ctx.count("oracle:gm:shadow")
            ctx.case(("oracle-gm", n, m, tuple(gk), cplx, structured, accel, canon(lo)))
            ctx.count("oracle:gm:%s:%s" % ("accel" if accel else "plain", gk[0]))
            ctx.count("oracle:gm:layout:%s" % lo["x"])
            oracle_gm(ctx, P, x0, rng.choice((1.0, 1.0, 0.7, 0.25)), accel, 120 if not heavy else 400, origin, w_extra, lo)
    search_zero_grad(ctx, rng, origin, 0)
    search_alias(ctx, rng, origin, sweep=False)
    # ---- PDHG
    gk = rng.choice([["noop"], ["l2", fs(F(rng.randint(2, 12), 8))], ["l1", fs(F(rng.randint(1, 12), 8))]]
                    + ([] if cplx else [["box", "-1/2", "3/4"]]))
    n = rng.randint(1, 5)
    m = n + rng.randint(0, 3)
    ident = rng.random() < 0.3
    xreal = cplx and not ident and rng.random() < 0.4      # real unknown in a real-dtype array, complex operator and data
    if xreal and rng.random() < 0.35:
        gk = ["box", "-1/2", "3/4"]
    P = planted(rng, m, n, gk, cplx, cond=rng.choice((1.5, 3.0)), structured="identity" if ident else None, xreal=xreal)
    if P is None:
        return
    if xreal:
        ctx.count("oracle:pd:real-x-complex-A")
    if ident:
        m = n
        P["identity_kind"] = rng.choice(IDENTK)
        ctx.count("oracle:pd:identity:" + P["identity_kind"])
    P["conv_tol"] = 1e-6
    arr = rng.random() < 0.5
    tau, sigma = pd_steps(rng, P, arr)
    if ident and not arr and rng.random() < 0.4:
        tau, sigma = 1, 1     # Python ints: tau*sigma*|A|^2 = 1 for A = I
        ctx.count("oracle:pd:int-steps")
    # starts: generic, or exactly zero on either side (A x_ext = 0 / Aᴴu = 0 exactly in the first update)
    x0 = ((nrs.randn(n) + (1j * nrs.randn(n) if cplx and not xreal else 0)) * rng.choice((1.0, 1.0, 0.0))).astype(P["xs"].dtype)
    u0 = ((nrs.randn(m) + (1j * nrs.randn(m) if cplx else 0)) * rng.choice((1.0, 1.0, 0.0))).astype(P["A"].dtype)
    if rng.random() < 0.3:   # tiny / huge data
        conv_tol = P["conv_tol"]
        P, x0, u0 = rescale(P, rng.choice(MAGS), x0, u0)
        P["conv_tol"] = conv_tol
        ctx.count("oracle:pd:magnitude:%g" % P["mag"])
    tagarr = "arr" if arr else "sc"
    lo = pd_layout(rng, n, m, same_shape=ident and "reshape" not in P["identity_kind"])
    if rng.random() < 0.3:
        lo["shadow"] = pd_shadow(rng, nrs, x0, u0, P)
        ctx.count("oracle:pd:shadow")
    ctx.case(("oracle-pd", n, m, tuple(gk), cplx, arr, canon(lo)))
    ctx.count("oracle:pd:layout:x=%s,u=%s" % (lo["x"], lo["u"]))
    ctx.count("oracle:pd:saddle:" + tagarr)
    oracle_pd(ctx, P, P["xs"].copy(), P["us"].copy(), tau, sigma, 0, 0, 60, "saddle", origin, lo)
    ctx.count("oracle:pd:fejer:" + tagarr)
    oracle_pd(ctx, P, x0, u0, tau, sigma, 0, 0, 150, "fejer", origin, lo)
    ctx.count("oracle:pd:converge:" + tagarr)
    oracle_pd(ctx, P, x0, u0, tau, sigma, 0, 0, 6000 if not heavy else 20000, "converge", origin, lo)
    # strong-convexity acceleration: g = lam/2|x|² (gamma_primal <= lam), f* = ½|u|²+<u,b> (gamma_dual <= 1)
    for j in range(3):
        gk2 = ["l2", fs(F(rng.randint(2, 12), 8))]
        n2 = rng.randint(1, 5)
        m2 = n2 + rng.randint(0, 3)
        c2 = rng.random() < 0.3
        P2 = planted(rng, m2, n2, gk2, c2, cond=rng.choice((1.5, 3.0)), xreal=rng.random() < 0.4)
        if P2 is None:
            continue
        if P2.get("xreal"):
            ctx.count("oracle:pd:real-x-complex-A")
        arr2 = rng.random() < 0.5
        t2, s2 = pd_steps(rng, P2, arr2)
        x2 = (nrs.randn(n2) + (1j * nrs.randn(n2) if c2 and not P2.get("xreal") else 0)).astype(P2["xs"].dtype)
        u2 = (nrs.randn(m2) + (1j * nrs.randn(m2) if c2 else 0)).astype(P2["A"].dtype)
        lam = float(F(gk2[1]))
        lo2 = pd_layout(rng, n2, m2)
        ctx.case(("oracle-pd-accel-primal", n2, m2, gk2[1], c2, arr2, canon(lo2)))
        ctx.count("oracle:pd:accel-primal:" + ("arr" if arr2 else "sc"))
        if j == 0:
            oracle_pd(ctx, P2, P2["xs"].copy(), P2["us"].copy(), t2, s2, lam, 0, 40, "saddle", origin, lo2)
        oracle_pd(ctx, P2, x2, u2, t2, s2, lam * rng.choice((1.0, 0.5)), 0, 3000, "converge", origin, lo2)
    ctx.count("oracle:pd:accel-dual:" + tagarr)
    oracle_pd(ctx, P, P["xs"].copy(), P["us"].copy(), tau, sigma, 0, 1.0, 40, "saddle", origin, lo)
    oracle_pd(ctx, P, x0, u0, tau, sigma, 0, rng.choice((1.0, 0.5)), 3000, "converge", origin, lo)


ZG_SPECS = [["l1", "1/2"], ["l2", "3/4"], ["box", "-1/2", "3/4"], ["box", "1/2", "3/2"], ["box", "-2", "-1/4"]]


def search_zero_grad(ctx, rng, origin, reps):
    """GradientMethod started where grad f is EXACTLY zero but f + g is not minimal (warm start at the minimiser
    of the smooth part, x0 = 0 for homogeneous data, an infeasible start for a box): the prox step must still
    be taken — descent and both rate bounds from the first update on, for every g, real and complex."""
    todo = [(fam, gk) for fam in ("denoise", "homog", "dyadic") for gk in ZG_SPECS] * reps if reps else \
        [(rng.choice(("denoise", "homog", "dyadic")), rng.choice(ZG_SPECS))]
    for fam, gk in todo:
        cplx = gk[0] != "box" and rng.random() < 0.4
        gk = [gk[0]] + ([fs(F(rng.randint(1, 12), 8))] if gk[0] in ("l1", "l2") else gk[1:])
        r = zero_grad_instance(rng, fam, gk, cplx)
        if r is None:
            ctx.count("oracle:gm:zero-grad:inexact-skipped")
            continue
        P, x0 = r
        w_extra = np_prox(gk, 1.0, P["xs"] * 0.5)   # another feasible comparison point
        for accel in (False, True):
            lo = gm_layout(rng, len(x0))
            ctx.case(("oracle-gm-zero-grad", fam, tuple(gk), cplx, accel, len(x0), canon(lo)))
            ctx.count("oracle:gm:zero-grad:%s:%s:%s" % (fam, gk[0], "accel" if accel else "plain"))
            oracle_gm(ctx, P, x0, rng.choice((1.0, 1.0, 0.5)), accel, 80, origin, w_extra, lo)


ALIAS_G = [["none"], ["noop"], ["l2", "3/4"], ["l1", "1/2"], ["box", "-1/2", "3/4"], ["box", "1/2", "3/2"], ["box", "-2", "-1/4"]]
LINEAR_G = [["l2", "3/4"], ["l1", "1/2"], ["box", "-1/2", "3/4"], ["box", "1/2", "3/2"]]


def search_alias(ctx, rng, origin, sweep=True):
    """GradientMethod with a gradient callback that does not allocate its result:
      f = ½|x|²   + g, g in {0, l1, l2², box with / without 0 inside}: gradf returns its argument, a view of it, or is
                       sigpy.linop.Identity (GRADK);
      f = Re<c,x> + g, g in {l2², l1 with |c| < lam, box}: gradf returns the persistent data array c, writable or
                       read-only (CONSTK) — L = 0, every alpha admissible.
    Minimisers in closed form; descent, Fejér and both rate bounds from the first update on; real and complex; every
    layout of the caller's array; plain and accelerated; some with a second live object sharing the callbacks, some on
    tiny / huge data.  sweep: the full product layouts × callback kinds × accelerate (g rotating), else one random pick."""
    nrs = np.random.RandomState(rng.randint(0, 2 ** 31 - 1))
    todo = [(xl, kind, accel) for xl in LAYOUTS for kind in GRADK + CONSTK for accel in (False, True)] if sweep else \
        [(rng.choice(LAYOUTS), rng.choice(GRADK + CONSTK), rng.random() < 0.5)]
    gi = rng.randint(0, 100)
    for xl, kind, accel in todo:
        gi += 1
        lin = kind in CONSTK
        gk = list((LINEAR_G if lin else ALIAS_G)[gi % len(LINEAR_G if lin else ALIAS_G)])
        if gk[0] in ("l1", "l2") and rng.random() < 0.5:
            gk[1] = fs(F(rng.randint(1, 12), 8))
        cplx = gk[0] != "box" and rng.random() < 0.35
        xsh = pick_shape(rng, rng.choice((2, 3, 4, 6, 8)))
        n = int(np.prod(xsh))
        P = linear_instance(rng, n, gk, cplx) if lin else alias_instance(n, gk, cplx)
        x0 = _rand_like(nrs, P["xs"], rng.choice((0.3, 1.0, 5.0))).astype(P["A"].dtype)
        if gk[0] == "box" and rng.random() < 0.7:   # else: an infeasible start (F(x0) = inf; feasible after one update)
            x0 = np_prox(gk, 1.0, x0)
        w_extra = np_prox(gk, 1.0, P["xs"] + 0.3 * _rand_like(nrs, P["xs"], 1.0)).astype(P["A"].dtype)
        if rng.random() < 0.25:
            P, x0, w_extra = rescale(P, rng.choice(MAGS), x0, w_extra)
            ctx.count("oracle:gm:magnitude:%g" % P["mag"])
        lo = dict(xshape=list(xsh), x=xl, out=kind, prox=rng.choice(PROXK))
        if lin:
            lo["clay"] = rng.choice(LAYOUTS)
        if rng.random() < 0.25:
            lo["shadow"] = gm_shadow(rng, nrs, x0, P)
            ctx.count("oracle:gm:shadow")
        ctx.case(("oracle-gm-alias", tuple(xsh), tuple(gk), cplx, accel, xl, kind, P.get("mag", 1.0), "shadow" in lo))
        ctx.count("oracle:gm:callback:%s:%s" % (kind, "accel" if accel else "plain"))
        ctx.count("oracle:gm:callback-g:%s:%s" % ("linear" if lin else "half-sq", gk[0]))
        c_alpha = rng.choice((1.0, 1.0, 0.7, 0.5, 0.25)) * (rng.choice((1.0, 3.0)) if lin else 1.0)
        if rng.random() < 0.15:
            c_alpha = 1            # a Python int
            ctx.count("oracle:gm:int-alpha")
        oracle_gm(ctx, P, x0, c_alpha, accel, 60, origin, w_extra, lo)


def search_layouts(ctx, rng, origin):
    """every memory layout of the caller's arrays × every way an operator hands back its result, on small planted
    instances with variables that have two non-trivial axes: GradientMethod (± accelerate) and PDHG (scalar and
    array steps; saddle point fixed, Fejér monotone, accelerated variants)."""
    nrs = np.random.RandomState(rng.randint(0, 2 ** 31 - 1))
    # ---- gradient method
    for cplx in (False, True):
        xsh = rng.choice([(2, 3), (3, 2), (2, 2), (2, 1, 3), (2, 2, 2)])
        n = int(np.prod(xsh))
        gk = rng.choice([["none"], ["l2", "1/2"], ["l1", "3/8"]] + ([] if cplx else [["box", "-1/2", "3/4"]]))
        P = planted(rng, n + rng.randint(0, 2), n, gk, cplx, cond=rng.choice((2.0, 10.0)))
        if P is None:
            continue
        x0 = (nrs.randn(n) + (1j * nrs.randn(n) if cplx else 0)).astype(P["A"].dtype)
        for xl in LAYOUTS:
            for out in OUTS:
                for accel in (False, True):
                    lo = dict(xshape=list(xsh), x=xl, out=out, prox=rng.choice(PROXK))
                    if rng.random() < 0.15:
                        lo["shadow"] = gm_shadow(rng, nrs, x0, P)
                        ctx.count("oracle:gm:shadow")
                    ctx.case(("oracle-gm-layout", tuple(xsh), tuple(gk), cplx, accel, xl, out))
                    ctx.count("oracle:gm:layout-sweep:%s/%s" % (xl, out))
                    oracle_gm(ctx, P, x0, 1.0, accel, 40, origin, None, lo)
    # ---- PDHG
    for cplx, ident in ((False, False), (True, False), (False, True)):
        xsh = tuple(rng.choice([(2, 2), (2, 3), (3, 2)]))
        ush = xsh if ident else tuple(rng.choice([(2, 3), (3, 2), (2, 2, 2), (3, 3)]))
        n, m = int(np.prod(xsh)), int(np.prod(ush))
        if m < n:
            xsh, ush, n, m = ush, xsh, m, n
        gk = rng.choice([["noop"], ["l2", "1/2"], ["l1", "3/8"]] + ([] if cplx else [["box", "-1/2", "3/4"]]))
        xreal = cplx and rng.random() < 0.5     # real unknown in a real-dtype array, complex operator and data
        if xreal and rng.random() < 0.35:
            gk = ["box", "-1/2", "3/4"]
        P = planted(rng, m, n, gk, cplx, cond=rng.choice((1.5, 3.0)), structured="identity" if ident else None, xreal=xreal)
        if P is None:
            continue
        if xreal:
            ctx.count("oracle:pd:real-x-complex-A")
        P["conv_tol"] = 1e-6
        x0 = (nrs.randn(n) + (1j * nrs.randn(n) if cplx and not xreal else 0)).astype(P["xs"].dtype)
        u0 = (nrs.randn(m) + (1j * nrs.randn(m) if cplx else 0)).astype(P["A"].dtype)
        P2 = None if ident else planted(rng, m, n, ["l2", "3/4"], cplx, cond=2.0, xreal=xreal)
        for xl in LAYOUTS:
            for ul in LAYOUTS:
                for arr in (False, True):
                    if ident:   # every way of handing back the argument; the reshaping ones between different shapes
                        P["identity_kind"] = rng.choice(IDENTK)
                        ush = xsh if "reshape" not in P["identity_kind"] else tuple(rng.choice([t for t in shapes_of(n) if len(t) > 1]))
                        ctx.count("oracle:pd:identity:" + P["identity_kind"])
                    tau, sigma = pd_steps(rng, P, arr)
                    if ident and not arr and rng.random() < 0.4:
                        tau, sigma = 1, 1     # Python ints: tau*sigma*|A|^2 = 1 for A = I
                        ctx.count("oracle:pd:int-steps")
                    lo = dict(xshape=list(xsh), ushape=list(ush), x=xl, u=ul, out=rng.choice(OUTS),
                              steps=rng.choice(("C", "F")), prox=rng.choice(PROXK))
                    if rng.random() < 0.15:
                        lo["shadow"] = pd_shadow(rng, nrs, x0, u0, P)
                        ctx.count("oracle:pd:shadow")
                    ctx.case(("oracle-pd-layout", xsh, ush, tuple(gk), cplx, ident, xl, ul, arr))
                    ctx.count("oracle:pd:layout-sweep:x=%s,u=%s:%s" % (xl, ul, "arr" if arr else "sc"))
                    oracle_pd(ctx, P, P["xs"].copy(), P["us"].copy(), tau, sigma, 0, 0, 15, "saddle", origin, lo)
                    oracle_pd(ctx, P, x0, u0, tau, sigma, 0, 0, 50, "fejer", origin, lo)
                    if P2 is not None and xl != ul:
                        # strong-convexity acceleration (the step arrays are rescaled in place every update)
                        t2, s2 = pd_steps(rng, P2, arr)
                        if rng.random() < 0.5:
                            oracle_pd(ctx, P2, x0, u0, t2, s2, 0.75, 0, 400, "converge", origin, lo)
                        else:
                            oracle_pd(ctx, P2, x0, u0, t2, s2, 0, 1.0, 400, "converge", origin, lo)


def search_worstcase(ctx, rng, origin):
    """Nesterov's worst-case quadratic ½‖Dx - e1‖² (D = first differences, DᵀD = tridiag(-1,2,-1)), large n,
    many updates: the instance on which a wrong momentum shows in the objective gap."""
    n = rng.choice((150, 200, 250))
    P = nesterov_instance(n)
    for accel in (True, False):
        ctx.case(("oracle-gm-nesterov", n, accel))
        ctx.count("oracle:gm:nesterov-large:%s" % ("accel" if accel else "plain"))
        oracle_gm(ctx, P, np.zeros(n), 1.0, accel, 2000, origin)


def oracle_on_case(ctx, c, origin):
    """replay of a disagreeing correspondence case through the property's own oracles: same A, b, prox,
    with admissible steps, from the case's starting point (floats)."""
    cc = dict(c, mode="complex" if c["mode"] == "complex" else "float")
    A = np.array(build_matrix(cc), dtype=complex if cc["mode"] == "complex" else float)
    gk = c["prox"] if c["kind"] == "gm" else c["proxg"]
    rng = ctx.rng
    P = planted(rng, c["m"], c["n"], gk, cc["mode"] == "complex")
    if P is None:
        return
    # keep the case's matrix when it has full column rank (the planted construction needs it)
    try:
        s = -(P["A"].conj().T @ P["us"])
        us = -np.linalg.lstsq(A.conj().T, s, rcond=None)[0]
        if np.linalg.norm(A.conj().T @ us + s) <= 1e-12 * (1 + np.linalg.norm(s)):
            P = dict(A=A, b=A @ P["xs"] - us, xs=P["xs"], us=us, gspec=gk)
    except Exception:  # noqa
        pass
    P["conv_tol"] = 1e-5
    x0 = np.array(build_vec(cc, "x0"), dtype=P["A"].dtype)
    if gk[0] == "box":
        x0 = np.clip(x0.real, float(F(gk[1])), float(F(gk[2]))).astype(P["A"].dtype)
    xsh, ush = list(c.get("xshape") or [c["n"]]), list(c.get("ushape") or [c["m"]])
    alias = c.get("olay") in GRADK
    if c["kind"] == "gm":
        if alias:   # the case's own problem: f = ½|x|², gradf hands back its argument
            P = alias_instance(c["n"], gk, cc["mode"] == "complex")
        lo = dict(xshape=xsh, x=c.get("xlay", "C"), out=c.get("olay", "C"), prox=c.get("proxk", "obj"))
        oracle_gm(ctx, P, x0, rng.choice((1.0, 0.7, 0.5)) if alias else 1.0, bool(c["accel"]), 300, origin, None, lo)
        return
    if alias:       # A = AH = identity handed back as the argument
        P = planted(rng, c["n"], c["n"], gk, cc["mode"] == "complex", structured="identity")
        if P is None:
            return
        P["identity_kind"] = {"arg": "lambda"}.get(c["olay"], c["olay"])
        P["conv_tol"] = 1e-5
    lo = dict(xshape=xsh, ushape=ush, x=c.get("xlay", "C"), u=c.get("ulay", "C"), out="C" if alias else c.get("olay", "C"),
              steps=c.get("tlay", "C"), prox=c.get("proxk", "obj"))
    u0 = np.array(build_vec(cc, "u0"), dtype=P["A"].dtype)
    arr = c["tau"][0] == "a"
    tau, sigma = pd_steps(rng, P, arr)
    gp, gd = float(F(c["gp"])), float(F(c["gd"]))
    if gp > 0 and gk[0] == "l2":
        gp = min(gp, float(F(gk[1])))
    elif gp > 0:
        gp = 0
    oracle_pd(ctx, P, P["xs"].copy(), P["us"].copy(), tau, sigma, gp, gd, 40, "saddle", origin, lo)
    if gp == 0 and gd == 0:
        oracle_pd(ctx, P, x0, u0, tau, sigma, 0, 0, 150, "fejer", origin, lo)
    oracle_pd(ctx, P, x0, u0, tau, sigma, gp, gd, 3000, "converge", origin, lo)


def search(ctx, budget):
    warm_up()
    rng = ctx.rng
    del HYP["bad"][:]
    HYP["checked"] = 0
    try:
        _search(ctx, budget, rng)
    finally:
        ctx.oblige("hypotheses:C13.pdhg_fejer_diag.oracle", "search", not HYP["bad"],
                   "step positivity and |Sigma^(1/2) A T^(1/2)| <= 1 hold on the %d instances the Fejér oracle ran on; "
                   "failing: %s" % (HYP["checked"], HYP["bad"]))


def _search(ctx, budget, rng):
    for d in ctx.disagreements[:40]:
        for _ in range(3):
            oracle_on_case(ctx, d["case"], "disagreement")
    search_alias(ctx, rng, "search")
    search_layouts(ctx, rng, "search")
    search_zero_grad(ctx, rng, "search", 1 if budget <= 1 else 3)
    search_worstcase(ctx, rng, "search")
    n = int(10 * budget)
    for i in range(n):
        search_once(ctx, rng, "search", heavy=(budget > 1 and i % 4 == 0))


def replay(path):
    r = json.load(open(path))
    print(json.dumps(r, indent=1)[:3000])
    if r.get("kind") != "failing-input":
        return 0
    d = r["case"]
    ctx = common.Ctx(PROPERTY, "quick", 0)
    warm_up()
    P = P_of(d)
    P["conv_tol"] = d.get("conv_tol") or 1e-6

    def cv(re, im):
        re = np.array(re, dtype=float)
        return (re + 1j * np.array(im, dtype=float)) if im is not None else re.astype(P["A"].dtype)
    x0 = cv(d["x0_re"], d["x0_im"]).astype(float if P.get("xreal") else P["A"].dtype)
    if d["oracle"] == "gm":
        w_extra = cv(d["w_extra_re"], d.get("w_extra_im")).astype(P["A"].dtype) if d.get("w_extra_re") is not None else None
        ok = oracle_gm(ctx, P, x0, d["c_alpha"], d["accel"], d["K"], "replay", w_extra, d.get("layout"))
    else:
        u0 = cv(d["u0_re"], d["u0_im"]).astype(P["A"].dtype)
        tau = np.array(d["tau"]) if isinstance(d["tau"], list) else d["tau"]
        sigma = np.array(d["sigma"]) if isinstance(d["sigma"], list) else d["sigma"]
        ok = oracle_pd(ctx, P, x0, u0, tau, sigma, d["gp"], d["gd"], d["K"], d["what"], "replay", d.get("layout"))
    for f in ctx.failures:
        print("observed:", f["observed"], "expected:", f["expected"])
    print("replay:", "property holds on this input" if ok else "property FAILS on this input")
    return 0 if ok else 1
