"""C19 — Bloch simulators are unitary, keep beta = 0 for a zero pulse, compose; inverse SLR (ab2rf/b2rf/dzrf)
is inverted by hard-pulse simulation.  (sigpy/mri/rf/sim.py, optcont.py, slr.py)"""
import json
import math
import warnings
from fractions import Fraction as Fr

import numpy as np

from harness import common
from harness.translate import gen as G

PROPERTY = "C19"
LEAN_MODULES = ["SigpyVerif.Props.C19", "SigpyVerif.Props.C19Slr"]
THEOREMS = ["SigpyVerif.C19." + t for t in [
    "su2_step_norm", "hpStep_eq", "bsStep_eq", "ptxStep_eq", "ck_step_unitary", "hp_step_unitary", "bs_step_unitary",
    "ptx_step_unitary", "ptxOut_norm", "finalPhase_norm", "ck_params_valid", "hp_params_valid", "ptx_params_valid",
    "sim_norm_invariant", "sim_unitary_abrm", "sim_unitary_hp", "sim_unitary_blochsim", "sim_unitary_ptx",
    "zero_rf_abrm", "zero_rf_hp", "zero_rf_blochsim", "zero_rf_ptx", "sim_append", "ck_assoc", "ck_sim_linear",
    "sim_compose_abrm", "sim_compose_ptx", "hp_sim_linear", "sim_compose_hp",
    "ckStep_def", "abrmNdStep_eq", "hpStep_def", "bsStep_def", "ptxStep_def", "ptxOut_def", "finalPhase_def",
    "blochsimFinal_eq", "peelS_def", "bs_sim_linear", "sim_compose_blochsim",
    "ckParams_valid", "ndParams_valid", "hpParams_valid", "bsParams_valid", "ptxParams_valid", "abrm_balanced_norm",
    "abrmSim_eq", "abrmNdSim_eq", "abrmHpSim_eq", "blochsimSim_eq", "abrmPtxSim_eq",
    "gen_unitary_abrm", "gen_unitary_abrm_balanced", "gen_unitary_abrm_nd", "gen_unitary_abrm_hp", "gen_unitary_blochsim", "gen_unitary_abrm_ptx",
    "gen_zero_rf_abrm", "gen_zero_rf_abrm_nd", "gen_zero_rf_abrm_hp", "gen_zero_rf_blochsim", "gen_zero_rf_abrm_ptx",
    "gen_compose_abrm", "gen_compose_abrm_nd", "gen_compose_abrm_hp", "gen_compose_blochsim", "gen_compose_abrm_ptx",
    "zprod_hpParams", "zprod_bsParams", "hp_frame_exponents", "bs_frame_exponents", "exp_frame", "normSq_exp_of_re_zero",
    "hp_frame_factor", "bs_frame_factor", "zfHp_append", "zfBs_append", "gen_compose_abrm_hp_code", "gen_compose_blochsim_code",
    "peel_cs_unit", "peel_norm", "peel_bt_last_zero", "peel_at_first_zero", "peel_step_partial",
    "peel_def", "zipWith_zipWith_same", "zipWith_fst", "zipWith_snd", "peel_fwdStep", "fwdStep_last", "fwdRev_inv",
    "peelS_fwd", "ab2rf_inverts_forward", "ab2rf_cj_formula", "rot_of_real", "RotR.rot", "ab2rf_code_cj",
    "ab2rf_inverts_forward_code", "forall_mem_map",
    # Props/C19Slr.lean: hard-pulse simulation = forward SLR recursion; ab2rf is its two-sided inverse
    "peval_append_singleton", "peval_append_zero", "peval_zipWith_lin", "hpPolyStep_length", "hpPolyStep_inv",
    "hpPolyStep_eval", "hpPoly_fold", "hpPoly_eval", "hpPoly_length", "bs_hp_shift", "blochsim_hpPoly_eval",
    "hpPoly_setZ", "hpPoly_unit_circle", "zipWith_map_both", "toSlr_hpPolyStep", "hpPoly_snoc", "toSlr_hpPoly",
    "HpPulseOk.rot", "slrRot_eq", "slrRot_RotR", "ab2rf_hp_roundtrip",
    "eval_ofL", "coeff_zero_ofL", "peval_pc", "circle_infinite", "circle_id_poly", "hpPoly_paraconj_identity",
    "circle_corner", "list_head_zero", "list_last_zero", "peel_inverts", "forward_ab2rf", "toSlr_toSlr",
    "forward_ab2rf_sim", "ab2rf_sample_rf", "hpPoly_eval_code",
]]


def translate(ctx):
    G.regenerate(ctx, ["Sim"])


SIMS = ["abrm", "abrm_nd", "abrm_hp", "blochsim", "abrm_ptx"]
UTOL = 1e-9        # the property's unitarity / composition tolerance
CTOL = 1e-12       # correspondence: real code vs exact fold of the same float parameters (observed ≤ 1e-14)
GAM = 267.522 * 1e6 / 1000
EPS = 1e-16


def mods():
    from sigpy.mri.rf import sim, optcont, slr
    return sim, optcont, slr


# ---- exact helpers ----------------------------------------------------------------------------
def fr(x):
    return Fr(*float(x).as_integer_ratio())


def rs(q):
    q = Fr(q)
    return "%d/%d" % (q.numerator, q.denominator) if q.denominator != 1 else str(q.numerator)


def cs(z):
    if isinstance(z, tuple):
        return "%s;%s" % (rs(z[0]), rs(z[1]))
    z = complex(z)
    return "%s;%s" % (rs(fr(z.real)), rs(fr(z.imag)))


def parse_c(t):
    re, im = t.split(";")
    return complex(float(Fr(re)), float(Fr(im)))


# ---- inputs -----------------------------------------------------------------------------------
# The property quantifies over every RF / gradient waveform, every position set and every simulator option; nothing in
# it restricts the *structure* of a waveform (exactly-zero samples: RF-off / gradient-off dead time, blips, constant
# gradients), its magnitude (tiny to many turns per sample), the dtype of real-valued data (float / integer arrays hold
# real waveforms and grid positions exactly), or the memory layout of the ndarray that holds it.  The case dict keeps
# every array in canonical form (complex128 rf/b1/sens, float64 x/g/fmap, C order); c["how"][arg] says how the array
# handed to the simulator is materialised from it (`materialise`), so a case replays from its JSON form.
ARGS = {"abrm": ["rf", "x"], "abrm_nd": ["rf", "x", "g"], "abrm_hp": ["rf", "g", "x"], "blochsim": ["rf", "x", "g"],
        "abrm_ptx": ["b1", "x", "g", "fmap", "sens"]}
JUNK = 7.25        # filler of the gaps of a strided buffer: reading a wrong element changes the result visibly


def _intvalued(v):
    return (not np.any(np.imag(v))) and bool(np.all(np.abs(np.real(v)) < 2 ** 31)) and bool(np.all(np.real(v) == np.round(np.real(v))))


def materialise(v, how):
    """the ndarray object handed to the simulator: same VALUES as v (checked), other dtype / strides / flags.
    A layout that cannot hold v's values (e.g. 'int' after abrm's position rescaling) falls back to a plain copy."""
    if v is None:
        return None
    v = np.asarray(v)
    out = None
    if how == "f":
        out = np.array(v, order="F")
    elif how == "strided":                     # every other element of a twice larger buffer, along every axis
        big = np.full(tuple(2 * n for n in v.shape), JUNK, dtype=v.dtype)
        out = big[tuple(slice(None, None, 2) for _ in v.shape)]
        out[...] = v
    elif how == "rev":                         # negative stride along the first axis
        out = np.array(v[::-1])[::-1]
    elif how == "ro":                          # read-only buffer (memory map, broadcast result, ...)
        out = np.array(v)
        out.setflags(write=False)
    elif how == "int" and _intvalued(v):
        out = np.real(v).astype(np.int64)
    elif how == "real" and not np.any(np.imag(v)):
        out = np.array(np.real(v), dtype=np.float64)
    elif how == "bcast" and v.shape[0] >= 1 and bool(np.all(v == v[:1])):   # stride-0 (constant waveform), read-only
        out = np.broadcast_to(np.array(v[0]), v.shape)
    if out is None or out.shape != v.shape or not np.array_equal(out, v):
        out = np.array(v)
    return out


def pick_how(rng, v):
    if v is None or rng.random() < 0.45:
        return "c"
    opts = ["strided", "rev", "ro"]
    if v.ndim > 1:
        opts += ["f", "f"]
    if np.iscomplexobj(v) and not np.any(np.imag(v)):
        opts += ["real", "real"]
    if _intvalued(v):
        opts += ["int", "int", "int"]
    if v.shape[0] > 1 and bool(np.all(v == v[:1])):
        opts += ["bcast", "bcast"]
    return rng.choice(opts)


def rand_amp(rng, exact=False):
    """RF amplitude (radians per sample): small-tip to > pi; sometimes far smaller (down to where |rf|^2 underflows)
    or many turns per sample.  `exact`: the case goes through the exact rational fold of the model, whose cost grows with
    the binary exponents (1e-300 is a 1000-bit denominator per atom): the stream stops at 1e-30"""
    if rng.random() < 0.1:
        return rng.choice([1e-30, 1e-9, 40.0, 1e3] if exact else [1e-300, 1e-160, 1e-30, 1e-9, 40.0, 1e3])
    return math.exp(rng.uniform(math.log(1e-3), math.log(8.0)))


def shape_rf(rng, r, rf):
    """structure of an RF waveform (last axis = time): complex / real / integer-valued, RF-off samples"""
    kind = "complex"
    u = rng.random()
    if u < 0.18:
        rf, kind = rf.real + 0j, "real"
    elif u < 0.26:
        rf, kind = r.integers(-3, 4, size=rf.shape).astype(complex), "int"
    u = rng.random()
    nt = rf.shape[-1]
    if u < 0.08:                      # RF switched off for a stretch (zero padding, dead time)
        i = rng.randrange(nt)
        rf = rf.copy()
        rf[..., i:rng.randint(i + 1, nt)] = 0
        kind += "+off"
    elif u < 0.14:                    # single RF-off samples
        rf = rf.copy()
        rf[..., r.random(nt) < 0.4] = 0
        kind += "+off"
    return rf, kind


def shape_g(rng, r, g):
    """structure of a gradient waveform g[t] / g[t, d]: random, blipped (gradient exactly off on every other sample),
    dead time (exactly off for a stretch), constant (slice select), integer-valued (includes exact zeros), one axis off"""
    nt = g.shape[0]
    u = rng.random()
    kind = "rand"
    if u < 0.12:
        g = g.copy()
        g[rng.randrange(2)::2] = 0
        kind = "blip"
    elif u < 0.24:
        g = g.copy()
        i = rng.randrange(nt)
        g[i:rng.randint(i + 1, nt)] = 0
        kind = "dead"
    elif u < 0.34:
        g = np.repeat(g[:1], nt, axis=0)
        kind = "const"
    elif u < 0.44:
        g = r.integers(-2, 3, size=g.shape).astype(float)
        kind = "int"
    if g.ndim == 2 and g.shape[1] > 1 and rng.random() < 0.12:
        g = g.copy()
        g[:, rng.randrange(g.shape[1])] = 0
        kind += "+axis-off"
    return g, kind


def bound_phase(x, g, lim=300.0):
    """halve the positions until the gradient phase accumulated over any prefix / suffix of the waveform stays below `lim`
    rad at every position: the float rounding of an accumulated phase P (np.sum over <= 256 samples, x * sum) is ~1e-14 x P,
    which for P >> 300 rad would come within 1e3 of the 1e-9 tolerance.  Powers of two keep zeros and the structure."""
    G = np.reshape(g, (g.shape[0], -1))
    pre = np.cumsum(G, axis=0)
    acc = max(float(np.max(np.linalg.norm(pre, axis=1))), float(np.max(np.linalg.norm(pre[-1] - pre, axis=1))))
    xm = float(np.max(np.linalg.norm(np.reshape(x, (x.shape[0], -1)), axis=1)))
    k = 0
    while xm * acc / 2.0 ** k > lim:
        k += 1
    return x / 2.0 ** k, k


def shape_x(rng, r, x, scales):
    """positions: scale from nanometres to far outside the field of view, integer grid, an exactly-zero position"""
    u = rng.random()
    if u < 0.12:
        return r.integers(-4, 5, size=x.shape).astype(float), "int"
    x = x * rng.choice(scales)
    if u < 0.27:
        x = x.copy()
        x[rng.randrange(x.shape[0])] = 0
        return x, "has-zero"
    return x, "rand"


XS = [1e-9, 0.1, 0.1, 3.0, 3.0, 30.0, 30.0, 300.0]
XS_EXACT = [1e-9, 0.1, 0.1, 3.0, 3.0, 30.0]     # exact stream: the 1e-12 comparison with the exact fold cannot absorb the
LIM_EXACT = 30.0                                # rounding of x @ g (evaluation order of the dot product) at 1000 rad per sample


def rand_inputs(rng, name, nt, zero_rf=False, zero_g=False, layouts=True, exact=False):
    """numpy inputs of one simulator call; amplitudes from small-tip to > pi per sample"""
    r = np.random.default_rng(rng.randrange(2 ** 32))
    amp = rand_amp(rng, exact)
    rf, rfk = shape_rf(rng, r, (r.normal(size=nt) + 1j * r.normal(size=nt)) * amp)
    if zero_rf:
        rf, rfk = np.zeros(nt, dtype=complex), "zero"
    c = dict(sim=name, nt=nt)
    gk = "-"
    if name == "abrm":
        ns = rng.randint(1, 5)
        x, xk = shape_x(rng, r, r.normal(size=ns), XS_EXACT if exact else XS)
        c.update(rf=rf, x=x, balanced=rng.random() < 0.3)
        if zero_g:
            c["x"] = np.zeros(ns)
    elif name in ("abrm_nd", "blochsim"):
        d = rng.randint(1, 3)
        ns = rng.randint(1, 5)
        g, gk = shape_g(rng, r, r.normal(size=(nt, d)) * rng.choice([0.01, 1.0]))
        if zero_g:
            g, gk = np.zeros((nt, d)), "zero"
        x, xk = shape_x(rng, r, r.normal(size=(ns, d)), XS_EXACT if exact else XS)
        x, k = bound_phase(x, g, LIM_EXACT if exact else 300.0)
        xk += "/2^k" if k else ""
        if name == "blochsim" and d == 1 and rng.random() < 0.5:
            x, g = x[:, 0], g[:, 0]
        c.update(rf=rf, x=x, g=g)
    elif name == "abrm_hp":
        ns = rng.randint(1, 5)
        g, gk = shape_g(rng, r, r.normal(size=nt) * rng.choice([0.01, 1.0]))
        if zero_g:
            g, gk = np.zeros(nt), "zero"
        x, xk = shape_x(rng, r, r.normal(size=ns), XS_EXACT if exact else XS)
        x, k = bound_phase(x, g, LIM_EXACT if exact else 300.0)
        xk += "/2^k" if k else ""
        # off-resonance phase per sample: independent of the gradient (pure off-resonance precession with the
        # gradient off is part of the domain); python float / int / numpy scalar
        u = rng.random()
        dom = 0 if u < 0.35 else float(r.normal() * 0.1) if u < 0.7 else rng.choice([1, -2, 2.5, -0.75]) if u < 0.85 \
            else np.float64(r.normal())
        c.update(rf=rf, g=g, x=x, dom0dt=dom)
    else:  # abrm_ptx: Ns must be a perfect square
        dim = rng.randint(1, 3)
        d = rng.randint(1, 3)
        nc = rng.randint(1, 3)
        dt = rng.choice([4e-6, 4e-6, 1e-5, 1e-6])
        if exact and amp > 100:     # sens @ b1 is a matrix product: its evaluation order moves a 1e3 rad angle by 1e-13
            amp = 40.0
        b1, rfk = shape_rf(rng, r, (r.normal(size=(nc, nt)) + 1j * r.normal(size=(nc, nt))) * amp / (GAM * dt) / nc)
        if zero_rf:
            b1, rfk = np.zeros((nc, nt), dtype=complex), "zero"
        g, gk = shape_g(rng, r, r.normal(size=(nt, d)))
        g = g * rng.choice([0.0, 1.0, 20.0]) / (GAM * dt) * 0.1
        if zero_g:
            g, gk = np.zeros((nt, d)), "zero"
        x, xk = shape_x(rng, r, r.normal(size=(dim * dim, d)), [0.1, 3.0])
        sens = None if rng.random() < 0.5 else (r.normal(size=(nc, dim, dim)) + 1j * r.normal(size=(nc, dim, dim)))
        if sens is not None and rng.random() < 0.3:       # real sensitivities / a coil that does not reach a position
            sens = sens.real + 0j
            sens[rng.randrange(nc), rng.randrange(dim), rng.randrange(dim)] = 0
        u = rng.random()
        fmap = None if u < 0.55 else np.zeros((dim, dim)) if u < 0.62 else r.normal(size=(dim, dim)) * 50
        if fmap is not None and u >= 0.62 and rng.random() < 0.3:
            fmap[rng.randrange(dim), rng.randrange(dim)] = 0          # on-resonance voxel in an off-resonance map
        c.update(b1=b1, x=x, g=g, dt=dt, sens=sens, fmap=fmap)
    c["cls"] = "rf=%s g=%s x=%s" % (rfk, gk, xk)
    if layouts:
        c["how"] = {k: pick_how(rng, c[k]) for k in ARGS[name]}
    return c


def call_sim(c, arrs):
    """one call of the real simulator on exactly the array objects in `arrs` (no copies)"""
    sim, optcont, _ = mods()
    n = c["sim"]
    with warnings.catch_warnings():
        warnings.simplefilter("ignore")
        if n == "abrm":
            a, b = sim.abrm(arrs["rf"], arrs["x"], balanced=bool(c.get("balanced", False)))
        elif n == "abrm_nd":
            a, b = sim.abrm_nd(arrs["rf"], arrs["x"], arrs["g"])
        elif n == "abrm_hp":
            a, b = sim.abrm_hp(arrs["rf"], arrs["g"], arrs["x"], c["dom0dt"])
        elif n == "blochsim":
            a, b = optcont.blochsim(arrs["rf"], arrs["x"], arrs["g"])
        else:
            a, b = sim.abrm_ptx(arrs["b1"], arrs["x"], arrs["g"], c["dt"], fmap=arrs["fmap"], sens=arrs["sens"])[:2]
    return np.array(a, dtype=complex).ravel(), np.array(b, dtype=complex).ravel()


def run_sim(c):
    how = c.get("how") or {}
    return call_sim(c, {k: materialise(c[k], how.get(k, "c")) for k in ARGS[c["sim"]]})


def split(c, k):
    """the two halves of a waveform (for the composition law) in each simulator's own convention"""
    n = c["sim"]
    c1, c2 = dict(c), dict(c)
    nt = c["nt"]
    c1["nt"], c2["nt"] = k, nt - k
    if n == "abrm_ptx":
        c1["b1"], c2["b1"] = c["b1"][:, :k], c["b1"][:, k:]
    else:
        c1["rf"], c2["rf"] = c["rf"][:k], c["rf"][k:]
    if n == "abrm":   # gradient is 2*pi/len(rf) per sample: same physical gradient <=> rescaled positions
        c1["x"], c2["x"] = c["x"] * k / nt, c["x"] * (nt - k) / nt
    else:
        c1["g"], c2["g"] = c["g"][:k], c["g"][k:]
    return c1, c2


def compose(s1, s2, ptx=False):
    a1, b1 = s1
    a2, b2 = s2
    if ptx:   # abrm_ptx returns (alpha, -conj(beta_state)): the same SU(2) product written in its outputs
        return a2 * a1 - b2 * np.conj(b1), b2 * np.conj(a1) + a2 * b1
    return a2 * a1 - np.conj(b2) * b1, b2 * a1 + np.conj(a2) * b1


# ---- per-sample atoms (transcribed from the documented physics, independently of the source), one position:
# cos / sin of the HALF rotation angle, the rotation axis, the unit phase factors.  The Lean side builds
# av/bv/S/alpha/beta from them with the formulas the translator extracted from the source and runs the generated
# state update. -------
def params(c, j):
    # |rf| is np.abs (numpy's hypot loop), not the builtin abs(): the two differ in the last bit for a third of all complex
    # values, and at many turns per sample (|rf|/2 ~ 1e3 rad) one ulp of |rf| moves cos/sin by 1e-13
    n = c["sim"]
    out, zf = [], None
    if n in ("abrm", "abrm_nd"):
        rf = c["rf"]
        for mm in range(len(rf)):
            if n == "abrm":
                om = c["x"][j] * (2 * np.pi / len(rf))
                phi = np.sqrt(np.abs(rf[mm]) ** 2 + om ** 2) + EPS
                den = phi
            else:
                om = c["x"][j] @ c["g"][mm, :]
                phi = np.sqrt(np.abs(rf[mm]) ** 2 + om ** 2)
                den = phi + EPS
            nx, ny, nz = rf[mm].real / den, rf[mm].imag / den, om / den
            out += [np.cos(phi / 2), np.sin(phi / 2), nx, ny, nz]
        kind = n
        if n == "abrm" and c.get("balanced"):      # the rewinder: a z-rotation by -pi * x
            om = c["x"][j] * (-2 * np.pi / 2)
            phi = abs(om) + EPS
            out += [np.cos(phi / 2), np.sin(phi / 2), 0.0, 0.0, om / phi]
            kind = "abrm_balanced"
    elif n in ("abrm_hp", "blochsim"):
        rf = c["rf"]
        acc = 0.0
        for mm in range(len(rf)):
            if n == "abrm_hp":
                ph = c["x"][j] * c["g"][mm] + c["dom0dt"]
            else:
                ph = c["x"][j] @ c["g"][mm, :] if c["g"].ndim > 1 else c["x"][j] * c["g"][mm]
            z = np.exp(-1j * ph)
            out += [np.cos(np.abs(rf[mm]) / 2), np.sin(np.abs(rf[mm]) / 2), np.exp(1j * np.angle(rf[mm])), z]
        if n == "abrm_hp":
            acc = c["x"][j] * np.sum(c["g"], axis=0) + len(rf) * c["dom0dt"]
        else:
            acc = c["x"][j] @ np.sum(c["g"], 0) if c["g"].ndim > 1 else c["x"][j] * np.sum(c["g"])
        zf = np.exp(1j / 2 * acc)
        kind = n
    else:
        b1, g, dt = c["b1"], c["g"], c["dt"]
        nc = b1.shape[0]
        dim = int(np.sqrt(c["x"].shape[0]))
        sens = np.ones((dim * dim, nc)) if c["sens"] is None else np.reshape(np.transpose(c["sens"]), (dim * dim, nc))
        bxy = sens[j] @ b1
        bz = c["x"][j] @ g.T
        if c["fmap"] is not None and np.sum(np.abs(c["fmap"])) != 0:
            bz = bz + c["fmap"].flatten()[j] / GAM * 2 * np.pi
        for mm in range(b1.shape[1]):
            phi = np.float64(dt * GAM * np.sqrt(np.abs(bxy[mm]) ** 2 + bz[mm] ** 2))
            with np.errstate(all="ignore"):
                nf = dt * GAM * (phi ** -1)
            nf = 0.0 if np.isinf(nf) else nf        # no field (or a field below 1/realmax): no rotation axis
            nxy, nz = nf * bxy[mm], nf * bz[mm]
            out += [np.cos(phi / 2), np.sin(phi / 2), nz, nxy]
        kind = n
    return kind, out, zf


def sim_line(kind, p, zf):
    ln = "C19 sim kind=%s p=%s" % (kind, ",".join(cs(v) for v in p) or "-")
    if zf is not None:
        ln += " zf=" + cs(zf)
    return ln


# ---- exact Cayley-Klein polynomial pairs (Pythagorean rotations) -------------------------------
def pyth(rng, den=None):
    """rational (cos, sin) with cos > 0; `den`: small rotations t = tan(theta/2) in [1/(2den), 4/den]"""
    while True:
        if den:
            t = Fr(rng.randint(1, 4), rng.randint(den, 2 * den))
        else:
            p, q = rng.randint(1, 12), rng.randint(1, 12)
            t = Fr(min(p, q), max(p, q) + 1)
        if 0 < t < 1:
            return (1 - t * t) / (1 + t * t), 2 * t / (1 + t * t)


def cmul(x, y):
    return (x[0] * y[0] - x[1] * y[1], x[0] * y[1] + x[1] * y[0])


def cadd(x, y):
    return (x[0] + y[0], x[1] + y[1])


def exact_pair(rng, n):
    """forward recursion matching ab2rf's peel:  a = c*(0::a') - s*(b'++[0]),  b = conj(s)*(0::a') + c*(b'++[0]).
    Up to 8 samples any flip per sample (up to ~170 degrees); longer pulses use small flips per sample (total flip
    still beyond pi): the backward recursion is ill-conditioned for long trains of near-pi hard pulses (the leading
    coefficient prod(c_j) underflows the rounding of the others), which is numerics, not the algebra under test."""
    cs_, ss_ = [], []
    for _ in range(n):
        c, s = pyth(rng, den=None if n <= 8 else 2 * n)
        uc, us = pyth(rng)
        u = rng.choice([(uc, us), (-uc, us), (us, -uc), (Fr(1), Fr(0)), (Fr(0), Fr(1)), (-us, -uc)])
        cs_.append(c)
        ss_.append((s * u[0], s * u[1]))
    Z = (Fr(0), Fr(0))
    a = [(cs_[0], Fr(0))]
    b = [(ss_[0][0], -ss_[0][1])]
    for j in range(1, n):
        c, s = (cs_[j], Fr(0)), ss_[j]
        sa, sb = [Z] + a, b + [Z]
        a, b = ([cadd(cmul(c, x), cmul((-s[0], -s[1]), y)) for x, y in zip(sa, sb)],
                [cadd(cmul((s[0], -s[1]), x), cmul(c, y)) for x, y in zip(sa, sb)])
    return cs_, ss_, a, b


def tof(z):
    return complex(float(z[0]), float(z[1]))


def rf_of(c, s):
    s = complex(s)
    return 2 * math.atan2(abs(s), float(c)) * np.exp(1j * np.angle(s))


# ---- correspondence ------------------------------------------------------------------------------
def correspond(ctx):
    ctx.rule = ("simulators: random (rf, gradient, positions, options) per simulator, short waveforms (1..14 samples), waveform "
                "classes drawn independently: rf complex / real / integer-valued, with RF-off samples, amplitude 1e-3..8 rad and 10% "
                "extremes (1e-300..1e3); gradient random / blipped / dead time / constant / integer-valued / one axis off / zero; "
                "positions scaled 1e-9..300, integer grid, with an exactly-zero position; abrm_hp dom0dt zero / float / int / numpy "
                "scalar independently of the gradient; abrm_ptx sens None / complex / real with a zero entry, fmap None / all-zero / "
                "with a zero entry, dt in {1,4,10} us; each array handed to the simulator as C copy, Fortran order, strided view, "
                "negative-stride view, read-only, stride-0 broadcast, float64 (real rf) or int64 (integer-valued data); the "
                "per-sample atoms of one position (cos/sin of the half angle, rotation axis, unit phases) are computed in "
                "float from the documented physics, passed as exact dyadic rationals to the whole-simulation definition "
                "the translator regenerated from the source (Gen.Sim.<simulator>Sim: parameter formulas, state update in "
                "program order, final rephasing) and its exact result is compared with the real simulator's output at 1e-12; ab2rf: exact Gaussian-rational Cayley-Klein polynomial pairs from Pythagorean rotations, "
                "the model's exact (cj, sj) per peel vs the real ab2rf at 1e-7; hard-pulse polynomials: random hard-pulse trains (1..12 "
                "samples, 70% with |rf| < pi), constant gradient, dyadic positions/off-resonance: the real abrm_hp / blochsim output at "
                "each position vs zf*(A(z), B(z)) [blochsim zf*(A(z), z*B(z))] evaluated exactly by the model from the coefficient "
                "lists hpPoly (proved = the generated simulation for every z) at the float phase factors z, zf passed as exact "
                "dyadics (1e-12), exactly n coefficients each, and the real ab2rf on the model's pair in ab2rf's convention vs the "
                "pulse (1e-6); all cases distinct by protocol line")
    rng = ctx.rng
    quick = ctx.tier == "quick"
    for name in SIMS:
        lines, meta, raised = [], [], set()
        for _ in range(120 if quick else 600):
            nt = rng.randint(1, 14)
            c = rand_inputs(rng, name, nt, zero_rf=rng.random() < 0.1, zero_g=rng.random() < 0.1, exact=True)
            try:
                a, b = run_sim(c)
            except Exception as e:   # the real code raises where the model has a value: replayed by the oracle (search)
                key = raise_key(c, e)
                ctx.case(("sim-raises", name, json.dumps(_ser(c), sort_keys=True, default=str)[:600]))
                ctx.disagree("sim-" + name, dict(sim=name, inputs=_ser(c)), repr(e), "(a, b)")
                raised.add(key)
                continue
            j = rng.randrange(len(a))
            kind, p, zf = params(c, j)
            lines.append(sim_line(kind, p, zf))
            meta.append((c, j, a[j], b[j]))
        reps = ctx.driver(lines)
        bad = 0
        for (c, j, a, b), ln, rep in zip(meta, lines, reps):
            ctx.case(ln, sample=dict(line=ln[:150], reply=rep[:100]) if ctx.evaluations % 29 == 0 else None)
            ctx.count("sim:%s:nt=%s" % (name, "1" if c["nt"] == 1 else "2-5" if c["nt"] <= 5 else "6-14"))
            if c.get("balanced"):
                ctx.count("sim:abrm:balanced")
            for t in c["cls"].split():
                ctx.count("sim:%s:%s" % (name, t))
            for k, h in c["how"].items():
                if h != "c":
                    ctx.count("sim:layout:%s=%s" % (k, h))
            if name == "abrm_hp" and c["dom0dt"] and not np.all(c["g"]):
                ctx.count("sim:abrm_hp:dom0dt!=0,gradient-off-samples")
            if not rep.startswith("ok "):
                bad += 1
                ctx.disagree("sim-" + name, dict(sim=name, line=ln[:300]), (a, b), rep)
                continue
            ma, mb = (parse_c(t) for t in rep[3:].split())
            err = max(abs(ma - a), abs(mb - b))
            ctx.maxerr = max(getattr(ctx, "maxerr", 0.0), err)
            if not err <= CTOL:
                bad += 1
                ctx.disagree("sim-" + name, dict(sim=name, j=j, inputs=_ser(c)), (complex(a), complex(b)), (ma, mb))
        ctx.oblige("correspondence:C19.sim-" + name, "correspondence", bad == 0 and not raised,
                   "%d disagreements" % bad + ("".join(" explained-by:" + k for k in sorted(raised)) if bad == 0 else
                                               "; real code raised: %s" % sorted(raised) if raised else ""))
    # composition written in the model (`compose`) vs numpy
    # ab2rf
    _, _, slr = mods()
    lines, meta = [], []
    for _ in range(120 if quick else 600):
        n = rng.randint(1, 10)
        cs_, ss_, a, b = exact_pair(rng, n)
        lines.append("C19 ab2rf a=%s b=%s c=%s" % (",".join(cs(z) for z in a), ",".join(cs(z) for z in b),
                                                 ",".join(rs(c) for c in reversed(cs_))))
        meta.append((cs_, ss_, a, b))
    reps = ctx.driver(lines)
    bad = 0
    for (cs_, ss_, a, b), ln, rep in zip(meta, lines, reps):
        ctx.case(ln)
        ctx.count("ab2rf:n=%d" % len(a))
        try:
            rf = slr.ab2rf(np.array([tof(z) for z in a]), np.array([tof(z) for z in b]))
        except Exception as e:  # noqa
            rf = "err %s" % type(e).__name__
        want_exact = ",".join("%s,%s" % (cs((c, Fr(0))), cs(s)) for c, s in zip(reversed(cs_), reversed(ss_)))
        if rep != "ok " + want_exact:     # the model peels the exact pair back to the generating rotations, exactly
            bad += 1
            ctx.disagree("ab2rf-model", dict(line=ln[:300]), want_exact[:200], rep[:200])
            continue
        want = np.array([rf_of(c, tof(s)) for c, s in zip(cs_, ss_)])
        if isinstance(rf, str) or rf.shape != want.shape or not np.max(np.abs(rf - want)) <= 1e-7:
            bad += 1
            ctx.disagree("ab2rf", dict(a=[cs(z) for z in a], b=[cs(z) for z in b]), str(rf)[:300], str(want)[:300])
    ctx.oblige("correspondence:C19.ab2rf", "correspondence", bad == 0, "%d disagreements" % bad)
    correspond_poly(ctx)
    ctx.notes.append("max |real - exact fold| over simulator cases: %.3g (tolerance %g)" % (getattr(ctx, "maxerr", 0.0), CTOL))
    ctx.assumptions += [
        "the per-sample rotation parameters (cos/sin/exp of float arguments, the +eps of abrm/abrm_nd) are computed in float; "
        "the theorems assume the constraints |av|^2+|bv|^2 = 1, C real with C^2+|S|^2 = 1, |z| = 1, which hold up to rounding",
        "numpy cos/sin/exp/sqrt/angle/matmul, sigpy.fft, scipy.signal firls/remez are trusted",
        "b2a/mag2mp (FFT-based minimum-phase factorisation) and dzrf's filter designs are numerical: oracle only",
        "hard-pulse polynomial theorems (Props/C19Slr) hold for every complex z; that the code's z = exp(-1j*(x*g+dom0dt)) is the same "
        "for all samples is the constant-gradient hypothesis (p.z = zeta for all samples); np.arctan2(y, x) is read as arg(x + iy), "
        "np.angle as arg, np.sqrt/np.abs as the real square root / modulus (ab2rf_sample_rf, codeCj)",
    ]
    ctx.trusted += ["harness/translate/gen_c19.py (statement-by-statement extraction of the five simulators' time loops, "
                    "parameter formulas, final rephasing and phase exponents, and of ab2rf's sj / peel / slices; the float atoms "
                    "fed to the generated definitions are computed in harness/props/c19.py from the documented physics)",
                    "harness/translate/gen_c19_norm.py (sound AST normalisation before matching: inlining of straight-line pure "
                    "same-file helpers and of single-assignment temporaries under checked side conditions, keyword -> positional "
                    "arguments, negated guards, integer-linear normal forms of loop headers / guards / slice bounds, symbolic "
                    "execution of the state statements; an unsound rewrite would surface as a correspondence disagreement because "
                    "the driver runs the generated definitions against the real code)"]
    ctx.traces = ctx.evaluations


def hp_atoms(rf):
    """per-sample atoms of a hard pulse, from the documented physics (z is a dummy: the polynomial does not read it)"""
    out = []
    for v in rf:
        out += [np.cos(np.abs(v) / 2), np.sin(np.abs(v) / 2), np.exp(1j * np.angle(v)), 1.0]
    return out


def dyadic(rng, lo, hi, bits=6):
    """a dyadic rational k / 2^bits in [lo, hi]"""
    return rng.randint(int(lo * 2 ** bits), int(hi * 2 ** bits)) / 2.0 ** bits


def parse_kv(rep):
    out = {}
    for t in rep.split()[1:]:
        k, v = t.split("=", 1)
        out[k] = [] if v == "-" else [parse_c(x) for x in v.split(",")]
    return out


def correspond_poly(ctx):
    """the real abrm_hp / blochsim with a constant gradient at dyadic frequencies vs the model's polynomial pair
    (`hpPoly`: proved in Props/C19Slr.lean to be what the generated simulation evaluates), and the real ab2rf on the
    model's pair in ab2rf's convention (`toSlr`) vs the pulse."""
    rng = ctx.rng
    quick = ctx.tier == "quick"
    sim, optcont, slr = mods()
    for name in ("abrm_hp", "blochsim"):
        lines, meta = [], []
        for _ in range(60 if quick else 300):
            n = rng.randint(1, 12)
            r = np.random.default_rng(rng.randrange(2 ** 32))
            small = rng.random() < 0.7        # |rf| < pi: ab2rf can recover the pulse
            mag = r.uniform(0.02, fwdinv_maxflip(n), size=n) if small else r.uniform(0.02, 7.0, size=n)
            if rng.random() < 0.15:
                mag[rng.randrange(n)] = 0.0
            rf = mag * np.exp(1j * r.uniform(-np.pi, np.pi, size=n))
            if rng.random() < 0.2:
                rf = (mag * r.choice([-1.0, 1.0], size=n)).astype(complex)
            gval = rng.choice([1.0, 1.0, 0.5, 2.0, -1.0, 0.0, 3.0])        # constant gradient (0: gradient off), exact in float
            d = 0.0 if (name == "blochsim" or rng.random() < (0.2 if gval == 0.0 else 0.5)) else dyadic(rng, -1, 1)
            xs = np.array(sorted({dyadic(rng, -3, 3) for _ in range(rng.randint(1, 5))}))    # dyadic frequencies
            with warnings.catch_warnings():
                warnings.simplefilter("ignore")
                if name == "abrm_hp":
                    a, b = sim.abrm_hp(rf.copy(), np.full(n, gval), xs.copy(), d)
                else:
                    a, b = optcont.blochsim(rf.copy(), xs.copy(), np.full(n, gval))
            # the phase factors as the code computes them (same float expressions), passed exactly
            if name == "abrm_hp":
                zs = np.exp(-1j * (xs * gval + d))
                zf = np.exp(1j / 2 * (xs * np.sum(np.full(n, gval), axis=0) + n * d))
            else:
                zs = np.exp(-1j * xs * gval)
                zf = np.exp(1j / 2 * xs * np.sum(np.full(n, gval)))
            q = []
            for z1, z2 in zip(zs, zf):
                q += [z1, z2]
            lines.append("C19 hppoly kind=%s p=%s q=%s" % (name, ",".join(cs(v) for v in hp_atoms(rf)), ",".join(cs(v) for v in q)))
            meta.append((rf, gval, d, xs, np.asarray(a, dtype=complex), np.asarray(b, dtype=complex), small))
        reps = ctx.driver(lines)
        bad = 0
        for (rf, gval, d, xs, a, b, small), ln, rep in zip(meta, lines, reps):
            ctx.case(ln, sample=dict(line=ln[:150], reply=rep[:120]) if ctx.evaluations % 23 == 0 else None)
            ctx.count("hppoly:%s:n=%s" % (name, "1" if len(rf) == 1 else "2-5" if len(rf) <= 5 else "6-12"))
            if gval == 0.0 or d != 0.0:
                ctx.count("hppoly:%s:%s%s" % (name, "g=0" if gval == 0.0 else "g!=0", ",dom0dt!=0" if d != 0.0 else ""))
            inputs = dict(sim=name, nt=len(rf), rf=rf, g=np.full(len(rf), gval), x=xs, dom0dt=d)
            if not rep.startswith("ok "):
                bad += 1
                ctx.disagree("hppoly-" + name, dict(sim=name, line=ln[:300], inputs=_ser(inputs)), "(a, b)", rep)
                continue
            kvs = parse_kv(rep)
            ev = np.array(kvs["ev"])
            if not (len(kvs["a"]) == len(rf) and len(kvs["b"]) == len(rf)):
                bad += 1
                ctx.disagree("hppoly-" + name, dict(sim=name, inputs=_ser(inputs)), "n coefficients", "%d, %d" % (len(kvs["a"]), len(kvs["b"])))
                continue
            err = max(float(np.max(np.abs(ev[0::2] - a))), float(np.max(np.abs(ev[1::2] - b))))
            ctx.polyerr = max(getattr(ctx, "polyerr", 0.0), err)
            if not err <= CTOL:
                bad += 1
                ctx.disagree("hppoly-" + name, dict(sim=name, inputs=_ser(inputs)), (a.tolist(), b.tolist()), ev.tolist())
                continue
            if small and name == "abrm_hp":
                # real ab2rf on the model's pair (ab2rf's convention) must give back the pulse
                try:
                    with warnings.catch_warnings():
                        warnings.simplefilter("ignore")
                        back = slr.ab2rf(np.array(kvs["sa"]), np.array(kvs["sb"]))
                    e2 = float(np.max(np.abs(back - rf)))
                except Exception as e:  # noqa
                    e2 = float("inf")
                ctx.count("hppoly:ab2rf-back")
                ctx.backerr = max(getattr(ctx, "backerr", 0.0), e2)
                if not e2 <= 1e-6:
                    bad += 1
                    ctx.disagree("hppoly-ab2rf", dict(kind="fwdinv", rf_re=rf.real.tolist(), rf_im=rf.imag.tolist()), "rf", e2)
        ctx.oblige("correspondence:C19.hppoly-" + name, "correspondence", bad == 0, "%d disagreements" % bad)
    ctx.notes.append("hard-pulse polynomial: max |real sim - zf*(A(z), B(z))| %.3g (tolerance %g); real ab2rf on the model's "
                     "pair vs the pulse: max %.3g (tolerance 1e-6)" % (getattr(ctx, "polyerr", 0.0), CTOL, getattr(ctx, "backerr", 0.0)))


def _ser(c):
    out = {}
    for k, v in c.items():
        if isinstance(v, np.ndarray):
            out[k] = dict(shape=list(v.shape), re=np.real(v).ravel().tolist(), im=np.imag(v).ravel().tolist())
        else:
            out[k] = v
    return out


def _deser(c):
    out = {}
    for k, v in c.items():
        if isinstance(v, dict) and "shape" in v:
            arr = np.array(v["re"]) + 1j * np.array(v["im"])
            if k in ("x", "g", "fmap"):
                arr = arr.real
            out[k] = arr.reshape(v["shape"])
        else:
            out[k] = v
    return out


# ---- oracle on the real code -----------------------------------------------------------------------
def resp(coef, w):
    k = np.arange(len(coef))
    return np.exp(-1j * np.outer(w, k)) @ coef


def raise_key(c, e):
    """key of an exception of the real simulator: the exception type plus exactly those non-default array
    representations (dtype / flags / strides in c["how"]) without which the same call does not raise"""
    need = []
    how = c.get("how") or {}
    for k in sorted(how):
        if how[k] != "c":
            c2 = dict(c, how=dict(how, **{k: "c"}))
            try:
                run_sim(c2)
                need.append("%s=%s" % (k, how[k]))
            except Exception:  # noqa
                pass
    return "C19:%s:raises:%s%s" % (c["sim"], type(e).__name__, (":" + ",".join(need)) if need else "")


def oracle_sim(ctx, c, origin):
    name = c["sim"]
    case = dict(kind="sim", inputs=_ser(c))
    try:
        a, b = run_sim(c)
    except Exception as e:
        ctx.fail(raise_key(c, e), "%s raised %s" % (name, type(e).__name__), case, observed=repr(e), expected="(a, b)", origin=origin)
        return False
    ok = True
    dev = float(np.max(np.abs(np.abs(a) ** 2 + np.abs(b) ** 2 - 1))) if len(a) else 0.0
    ctx.unimax = max(getattr(ctx, "unimax", 0.0), dev)
    if not dev <= UTOL:
        ok = False
        ctx.fail("C19:%s:unitarity" % name, "|alpha|^2+|beta|^2 != 1", case, observed=dev, expected="<= 1e-9", origin=origin)
    zero_rf = not np.any(c["b1"] if name == "abrm_ptx" else c["rf"])
    if zero_rf:
        zb = float(np.max(np.abs(b)))
        za = float(np.max(np.abs(np.abs(a) - 1)))
        if not (zb <= 1e-12 and za <= UTOL):
            ok = False
            ctx.fail("C19:%s:zero-pulse" % name, "zero RF must give beta = 0, |alpha| = 1", case, observed=(zb, za), expected=0, origin=origin)
        zero_g = (not np.any(c["x"])) if name == "abrm" else (not np.any(c["g"]) and not c.get("dom0dt")
                                                                   and (c.get("fmap") is None or not np.any(c["fmap"])))
        if zero_g and not float(np.max(np.abs(a - 1))) <= UTOL:
            ok = False
            ctx.fail("C19:%s:zero-pulse" % name, "zero RF and zero gradient must give the identity", case,
                     observed=float(np.max(np.abs(a - 1))), expected=0, origin=origin)
    if c["nt"] >= 2 and not c.get("balanced"):     # the rewinder of abrm(balanced=True) is not part of the waveform
        k = c.get("split") or max(1, c["nt"] // 3)
        c1, c2 = split(c, k)
        try:
            want = compose(run_sim(c1), run_sim(c2), ptx=name == "abrm_ptx")
            dev = float(max(np.max(np.abs(want[0] - a)), np.max(np.abs(want[1] - b))))
        except Exception as e:  # noqa
            dev = float("inf")
        ctx.compmax = max(getattr(ctx, "compmax", 0.0), dev)
        if not dev <= UTOL:
            ok = False
            ctx.fail("C19:%s:composition" % name, "simulating w1++w2 differs from the product of the two rotations", case,
                     observed=dev, expected="<= 1e-9", origin=origin)
    return ok


# ---- composition inside a call history ---------------------------------------------------------------
# "Simulating two waveforms back to back equals composing their rotations" is a statement about two simulator CALLS made
# one after the other.  How the caller holds the waveforms is not restricted: a pulse-design loop keeps one rf / gradient /
# position work buffer and refills it per segment (the same ndarray objects, or fresh views of the same memory, with other
# contents), scales a gradient in place, re-simulates with only the RF changed, or keeps two trajectories alive and
# alternates between them.  A history case is a list of rounds (full waveforms, same simulator and shapes); every round is
# cut into m equal segments which are simulated call after call through the buffer discipline in `policy`/`view`/`order`;
# the composition of a round's segment rotations must equal the simulation of the round's whole waveform (computed before
# the history starts, from fresh arrays), and every call must return a unitary pair.
def split_m(c, m):
    out, rest = [], c
    L = c["nt"] // m
    for _ in range(m - 1):
        c1, rest = split(rest, L)
        out.append(c1)
    return out + [rest]


def hist_case(rng, name):
    m = rng.choice([2, 2, 3])
    L = rng.randint(1, 6)
    base = rand_inputs(rng, name, m * L, zero_rf=rng.random() < 0.05, zero_g=rng.random() < 0.05, layouts=False)
    base["balanced"] = False
    del base["cls"]
    r = np.random.default_rng(rng.randrange(2 ** 32))
    rfk = "b1" if name == "abrm_ptx" else "rf"
    rounds = [base]
    for _ in range(rng.randint(0, 2)):
        c = dict(rounds[-1])
        for what in rng.sample(["rf", "g", "x", "gscale", "xscale"], rng.randint(1, 2)):
            if what == "rf":         # next design iterate: new RF on the same trajectory
                c[rfk] = (r.normal(size=c[rfk].shape) + 1j * r.normal(size=c[rfk].shape)) * (np.max(np.abs(c[rfk])) or 1.0)
            elif what in ("g", "gscale") and name != "abrm":
                c["g"] = c["g"] * rng.choice([-1.0, 0.5, 2.0]) if what == "gscale" else np.array(r.permutation(c["g"]))
            elif what == "x":
                c["x"] = np.array(r.permutation(c["x"].ravel()).reshape(c["x"].shape)) + (r.normal() if rng.random() < 0.5 else 0.0)
            elif what == "xscale":
                c["x"] = c["x"] * rng.choice([-1.0, 0.5, 3.0])
        rounds.append(c)
    return dict(kind="hist", sim=name, m=m, rounds=[_ser(c) for c in rounds],
                policy={k: ("buffer" if rng.random() < 0.75 else "fresh") for k in ARGS[name]},
                view=rng.choice(["object", "object", "view"]),
                order=rng.choice(["sequential", "sequential", "interleaved"]) if len(rounds) > 1 else "sequential")


def run_history(c):
    """-> per round: (reference (a, b) of the whole waveform, [segment results in call order])"""
    rounds = [_deser(x) for x in c["rounds"]]
    name, m = c["sim"], c["m"]
    refs = [run_sim(x) for x in rounds]                       # before the history, from fresh arrays
    segs = [split_m(x, m) for x in rounds]
    if c["order"] == "interleaved":                           # two (or three) live trajectories, each with its own buffers
        calls = [(ri, si) for si in range(m) for ri in range(len(rounds))]
    else:
        calls = [(ri, si) for ri in range(len(rounds)) for si in range(m)]
    bufs, wrote, res = {}, {}, {}
    for ri, si in calls:
        sc = segs[ri][si]
        arrs = {}
        for k in ARGS[name]:
            v = sc[k]
            if v is None:
                arrs[k] = None
            elif c["policy"].get(k) == "buffer":
                bk = (ri if c["order"] == "interleaved" else 0, k)
                if bk not in bufs:
                    bufs[bk] = np.array(v)
                elif not np.array_equal(wrote[bk], v):         # the caller only rewrites a buffer whose waveform changes
                    bufs[bk][...] = v                          # refilled in place: same object, same memory
                wrote[bk] = v
                arrs[k] = bufs[bk] if c["view"] == "object" else bufs[bk][...]
            else:
                arrs[k] = np.array(v)
        res[(ri, si)] = call_sim(sc, arrs)
    return [(refs[ri], [res[(ri, si)] for si in range(m)]) for ri in range(len(rounds))]


def oracle_hist(ctx, c, origin):
    name = c["sim"]
    try:
        out = run_history(c)
    except Exception as e:
        ctx.fail("C19:%s:history:raises" % name, "%s raised %s inside a call history" % (name, type(e).__name__), c,
                 observed=repr(e), expected="(a, b)", origin=origin)
        return False
    ok = True
    for ri, (ref, parts) in enumerate(out):
        dev = max(float(np.max(np.abs(np.abs(a) ** 2 + np.abs(b) ** 2 - 1))) for a, b in parts)
        if not dev <= UTOL:
            ok = False
            ctx.fail("C19:%s:history:unitarity" % name, "|alpha|^2+|beta|^2 != 1 for a call inside a history (round %d)" % ri, c,
                     observed=dev, expected="<= 1e-9", origin=origin)
        acc = parts[0]
        for nxt in parts[1:]:
            acc = compose(acc, nxt, ptx=name == "abrm_ptx")
        dev = float(max(np.max(np.abs(acc[0] - ref[0])), np.max(np.abs(acc[1] - ref[1]))))
        ctx.histmax = max(getattr(ctx, "histmax", 0.0), dev)
        if not dev <= UTOL:
            ok = False
            ctx.fail("C19:%s:history:composition" % name,
                     "segments simulated call after call through reused work buffers (round %d) do not compose to the "
                     "simulation of the whole waveform" % ri, c, observed=dev, expected="<= 1e-9", origin=origin)
    return ok


def simulate_hp(rf, w):
    sim, optcont, _ = mods()
    n = len(rf)
    out = []
    a, b = sim.abrm_hp(rf.copy(), np.ones(n), w.copy())
    out.append(("abrm_hp", a, b))
    a, b = optcont.blochsim(rf.copy(), w.copy(), np.ones(n))
    out.append(("blochsim", a, b))
    return out


def oracle_roundtrip(ctx, c, origin):
    """c: dict(kind='rt', mode='exact'|'b2rf'|'dzrf', ...)"""
    _, _, slr = mods()
    mode = c["mode"]
    w = np.linspace(-np.pi, np.pi, 97, endpoint=False)
    with warnings.catch_warnings():
        warnings.simplefilter("ignore")
        try:
            if mode == "exact":
                a = np.array(c["a_re"]) + 1j * np.array(c["a_im"])
                b = np.array(c["b_re"]) + 1j * np.array(c["b_im"])
                rf = slr.ab2rf(a.copy(), b.copy())
                tol = 1e-6
            elif mode == "b2rf":
                b = np.array(c["b_re"]) + 1j * np.array(c["b_im"])
                rf = slr.b2rf(b.copy())
                tol = 1e-3
            else:
                cap = {}
                orig = slr.b2rf

                def spy(bb, *args, **kw):
                    cap["b"] = np.array(bb, dtype=complex)
                    return orig(bb, *args, **kw)
                slr.b2rf = spy
                try:
                    rf = slr.dzrf(c["n"], c["tb"], c["ptype"], c["ftype"], c["d1"], c["d2"])
                finally:
                    slr.b2rf = orig
                b = cap.get("b")
                tol = 1e-3
                if b is None:
                    raise RuntimeError("dzrf did not call b2rf")
                fine = np.abs(np.fft.fft(b, 16 * len(b)))
                if not fine.max() < 1 - 1e-6:       # outside the statement's domain (response must stay below one)
                    ctx.count("oracle:rt:dzrf:skipped-maxB>=1")
                    return True
        except Exception as e:
            ctx.fail("C19:roundtrip:%s:raises" % mode, "design raised %s" % type(e).__name__, c, observed=repr(e), expected="rf", origin=origin)
            return False
        ok = True
        want = np.abs(resp(b, w))
        for name, al, be in simulate_hp(np.asarray(rf, dtype=complex), w):
            dev = float(np.max(np.abs(np.abs(be) - want)))
            if not dev <= tol:
                ok = False
                key = "C19:roundtrip:%s" % (mode if mode != "dzrf" else "dzrf:%s:%s" % (c["ptype"], c["ftype"]))
                ctx.fail(key, "hard-pulse simulation (%s) of the designed RF does not reproduce |B|" % name, c, observed=dev,
                         expected="<= %g" % tol, origin=origin)
            if not hasattr(ctx, "rtmax"):
                ctx.rtmax = {}
            ctx.rtmax[mode] = max(ctx.rtmax.get(mode, 0.0), dev)
    return ok


def fwdinv_maxflip(n):
    """largest |rf| per sample for which the float backward recursion is well conditioned: its leading coefficient
    is prod(cos(|rf|/2)); for long trains of near-pi pulses it underflows the rounding of the other coefficients
    (numerics of the float recursion, not the algebra under test)"""
    return 2.6 if n <= 6 else min(2.6, 9.0 / n)


def oracle_fwdinv(ctx, c, origin):
    """forward -> inverse on the REAL code only: simulate the hard-pulse train at 2n equispaced frequencies with unit
    gradient, undo the final rephasing, inverse DFT = the coefficients of (A, B) in the code's z = exp(-i w)
    (the upper n of the 2n must vanish: degree < n), write them as ab2rf's arrays and call ab2rf: the pulse must come back."""
    sim, optcont, slr = mods()
    rf = np.array(c["rf_re"]) + 1j * np.array(c["rf_im"])
    n = len(rf)
    N = 2 * n
    w = 2 * np.pi * np.arange(N) / N
    ok = True
    with warnings.catch_warnings():
        warnings.simplefilter("ignore")
        for name in ("abrm_hp", "blochsim"):
            try:
                if name == "abrm_hp":
                    a, b = sim.abrm_hp(rf.copy(), np.ones(n), w.copy())
                else:
                    a, b = optcont.blochsim(rf.copy(), w.copy(), np.ones(n))
                    b = b * np.exp(1j * w)            # blochsim's beta carries one more gradient phase factor
                zf = np.exp(1j / 2 * w * n)
                al = np.fft.ifft(np.asarray(a, dtype=complex) / zf)
                be = np.fft.ifft(np.asarray(b, dtype=complex) / zf)
                hi = float(max(np.max(np.abs(al[n:])), np.max(np.abs(be[n:]))))
                back = slr.ab2rf(np.conj(al[:n][::-1]), 1j * np.conj(be[:n][::-1]))
                dev = float(np.max(np.abs(back - rf)))
            except Exception as e:  # noqa
                ctx.fail("C19:fwdinv:%s:raises" % name, "forward/inverse round trip raised %s" % type(e).__name__, c,
                         observed=repr(e), expected="rf", origin=origin)
                ok = False
                continue
            ctx.fimax = max(getattr(ctx, "fimax", 0.0), dev)
            if not hi <= 1e-9:
                ok = False
                ctx.fail("C19:fwdinv:%s:degree" % name, "alpha/beta of an n-sample hard pulse are not polynomials of degree < n in exp(-i w)",
                         c, observed=hi, expected="<= 1e-9", origin=origin)
            if not dev <= 1e-6:
                ok = False
                ctx.fail("C19:fwdinv:%s" % name, "ab2rf of the simulated (A, B) polynomials does not give back the pulse", c,
                         observed=dev, expected="<= 1e-6", origin=origin)
    return ok


def fwdinv_cases(rng, k):
    out = []
    for _ in range(k):
        n = rng.randint(1, 16)
        r = np.random.default_rng(rng.randrange(2 ** 32))
        mag = r.uniform(0.0, fwdinv_maxflip(n), size=n)
        rf = mag * np.exp(1j * r.uniform(-np.pi, np.pi, size=n))
        if rng.random() < 0.25:
            rf = (mag * r.choice([-1.0, 1.0], size=n)).astype(complex)
        out.append(dict(kind="fwdinv", rf_re=rf.real.tolist(), rf_im=rf.imag.tolist()))
    return out


def rt_cases(rng, n_each):
    out = []
    for _ in range(n_each):
        n = rng.randint(1, 24)
        cs_, ss_, a, b = exact_pair(rng, n)
        out.append(dict(kind="rt", mode="exact", a_re=[float(z[0]) for z in a], a_im=[float(z[1]) for z in a],
                        b_re=[float(z[0]) for z in b], b_im=[float(z[1]) for z in b]))
    for _ in range(n_each):
        n = rng.randint(2, 64)
        r = np.random.default_rng(rng.randrange(2 ** 32))
        b = r.normal(size=n) + 1j * r.normal(size=n)
        if rng.random() < 0.3:
            b = b.real + 0j
        if rng.random() < 0.5:
            b = b * np.hamming(n) if n > 2 else b
        b = b / np.abs(np.fft.fft(b, 64 * n)).max() * rng.uniform(0.05, 0.95)
        out.append(dict(kind="rt", mode="b2rf", b_re=b.real.tolist(), b_im=b.imag.tolist()))
    return out


def dzrf_cases(rng, reps):
    out = []
    for _ in range(reps):
        for pt in ("ex", "se", "inv", "sat"):
            for ft in ("ms", "pm", "min", "max", "ls"):
                out.append(dict(kind="rt", mode="dzrf", n=rng.choice([32, 48, 64]), tb=rng.choice([4, 6, 8]), ptype=pt, ftype=ft,
                                d1=rng.choice([0.01, 0.001]), d2=rng.choice([0.01, 0.001])))
    return out


def search(ctx, budget):
    rng = ctx.rng
    for d in ctx.disagreements[:50]:
        cc = d["case"]
        if "inputs" in cc:
            oracle_sim(ctx, _deser(cc["inputs"]), "disagreement")
        elif cc.get("kind") == "fwdinv":
            oracle_fwdinv(ctx, cc, "disagreement")
    for c in fwdinv_cases(rng, int(60 * budget)):
        ctx.case(("oracle-fwdinv", json.dumps(c, sort_keys=True)[:400]))
        ctx.count("oracle:fwdinv")
        oracle_fwdinv(ctx, c, "search")
    ctx.notes.append("forward->inverse on the real code: max |ab2rf(polynomials of the simulation) - rf| = %.3g (tolerance 1e-6)"
                     % getattr(ctx, "fimax", 0.0))
    n = int(80 * budget)
    for name in SIMS:
        for i in range(n):
            nt = rng.choice([1, 2, 3, 5, 8, 16, 33, 64, 128, 256]) if i % 3 else rng.randint(1, 256)
            if name == "abrm_ptx" and nt > 64 and budget <= 1:
                nt = rng.randint(1, 64)
            c = rand_inputs(rng, name, nt, zero_rf=rng.random() < 0.15, zero_g=rng.random() < 0.1)
            if nt >= 2:
                c["split"] = rng.randint(1, nt - 1)
            ctx.case(("oracle", name, i, nt))
            ctx.count("oracle:%s" % name)
            oracle_sim(ctx, c, "search")
    for name in SIMS:
        for i in range(int(40 * budget)):
            c = hist_case(rng, name)
            ctx.case(("oracle-hist", name, json.dumps(c, sort_keys=True, default=str)[:600]))
            ctx.count("oracle:hist:%s" % name)
            ctx.count("oracle:hist:order=%s,view=%s,rounds=%d" % (c["order"], c["view"], len(c["rounds"])))
            oracle_hist(ctx, c, "search")
    ctx.notes.append("call histories: max |composition of the segment calls - whole-waveform simulation| = %.3g (tolerance %g)"
                     % (getattr(ctx, "histmax", 0.0), UTOL))
    ctx.notes.append("single calls over all waveform classes / layouts: max ||alpha|^2+|beta|^2 - 1| = %.3g, max composition "
                     "deviation = %.3g (tolerance %g)" % (getattr(ctx, "unimax", 0.0), getattr(ctx, "compmax", 0.0), UTOL))
    for c in rt_cases(rng, int(60 * budget)) + dzrf_cases(rng, 1 if budget <= 1 else 3):
        ctx.case(("oracle-rt", json.dumps(c, sort_keys=True)[:400]))
        ctx.count("oracle:rt:%s" % c["mode"])
        oracle_roundtrip(ctx, c, "search")
    ctx.notes.append("round trip: max ||beta| - |B|| per mode %s (tolerances: exact 1e-6, b2rf/dzrf 1e-3)" % (
        {k: float("%.3g" % v) for k, v in getattr(ctx, "rtmax", {}).items()},))


def replay(path):
    r = json.load(open(path))
    print(json.dumps(r, indent=1)[:2500])
    if r.get("kind") != "failing-input":
        return 0
    ctx = common.Ctx(PROPERTY, "quick", 0)
    cc = r["case"]
    if cc.get("kind") == "sim":
        ok = oracle_sim(ctx, _deser(cc["inputs"]), "replay")
    elif cc.get("kind") == "fwdinv":
        ok = oracle_fwdinv(ctx, cc, "replay")
    elif cc.get("kind") == "hist":
        ok = oracle_hist(ctx, cc, "replay")
    else:
        ok = oracle_roundtrip(ctx, cc, "replay")
    for f in ctx.failures:
        print("  ", f["key"], f["what"], "observed", f["observed"], "expected", f["expected"])
    print("replay:", "property holds on this input" if ok else "property FAILS on this input")
    return 0 if ok else 1
