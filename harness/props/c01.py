"""C01 — every linear operator's adjoint is its true adjoint (shared machinery with C04).

correspond: for every exactly representable operator class and for random expression trees
  (depth <= 4) the implementation's matrices of A, A.H (and A.N, used by C04) are extracted with
  basis vectors and compared with the matrices the Lean model computes for `denote e`,
  `denote (adj e)`, `denote (normal e)`; plus A(x) == M x on Gaussian-integer x.
proved (Lean): the adjoint algebra and, for every exactly representable leaf class (MatMul/RightMatMul included:
  Props/C01MatMul.lean), the leaf pairing itself for all valid symbolic parameters (`adj_denote_leaves`), so that for
  trees over those classes <A x, y> = <x, A.H y> is a theorem about the model without a leaf hypothesis; the adjoint
  rules of the model are proved equal to the translation of every `_adjoint_linop` of linop.py (Gen/LinopAdjoint.lean,
  Props/C01Gen.lean: `adj_denote_gen`); ConvolveData/Filter(+Adjoint) in 1-D and FFT/IFFT come in as `ext` leaves
  whose entries are taken from the C08 / C05 models through the generated pairing table (Props/C01Ext, C01Fft);
  FiniteDifference's tree is generated from the factory and compared with the real factory.
  Stream `histories`: operator PROGRAMS (a pool of live operators; operands drawn from the pool, so sub-expressions are
  shared, combinators nest in combinators of the same kind, the same object / the same list object is used twice,
  adjoints are taken before, between and after the uses): at the end every live object and its (possibly long cached)
  adjoint must still have the matrices the model gives for its expression.
search: the dot test <Ax,y> == <x,A.H y>, swapped shapes, A.H.H(x) == A(x) on the real objects,
  over all Linop classes, the MRI factories and random trees (exact on Gaussian integers where the
  arithmetic is exact, 1e-6 relative for FFT / NUFFT / wavelet / convolution leaves).  The vectors are handed over
  as real or complex, in C / Fortran / strided / negative-stride / component-view / offset layouts, as two interleaved
  pairs on the same live objects, and - where the arithmetic is exact - scaled by 2^+-200 / 2^+-500 or in single
  precision; parameter arrays (Multiply / MatMul / RightMatMul data, Interpolate / Gridding coordinates) also come in
  real, single-precision and integer dtypes; SCALAR multipliers (Multiply(shape, a), a * A, A * a - in the trees, the
  operator programs and a systematic type x route sweep) are handed over in every scalar type that holds the value
  exactly: Python int / float / complex / bool and the numpy scalar types (complex64 / 128, float16 / 32 / 64, int8 / 32 / 64, uint8 / 16, bool_).  The same test runs on every live object of the operator programs, at
  every "check" statement and at the end (keys C01:history:<class of the failing object>:<what>).
"""
import itertools
import json
import math
import warnings
from fractions import Fraction

import numpy as np

from harness import common
from harness.translate import gen as G

PROPERTY = "C01"
LEAN_MODULES = ["SigpyVerif.Props.C01", "SigpyVerif.Lemmas.C01Block", "SigpyVerif.Props.C09",
                "SigpyVerif.Lemmas.C01Index", "SigpyVerif.Props.C01Leaves", "SigpyVerif.Props.C01MatMul",
                "SigpyVerif.Props.C01LeavesGen", "SigpyVerif.Props.C01Gen", "SigpyVerif.Props.C01Ext",
                "SigpyVerif.Props.C01Fft", "SigpyVerif.Props.C01Wave"]
THEOREMS = ["SigpyVerif.C01." + t for t in [
    # algebra of entry lists (Props/C01.lean)
    "applyF_append", "applyF_compE", "applyF_conjE", "coo_adjoint", "isAdj_of_entries", "isAdj_comp", "isAdj_comp3",
    "isAdj_add", "isAdj_conj", "isAdj_swap_gather", "adj_denote", "adj_denote_shapes",
    "identity_leaf_adjoint", "reshape_leaf_adjoint", "slice_leaf_adjoint", "embed_leaf_adjoint", "resize_axis_adjoint",
    # generated loop nests (Lemmas/C01Block.lean)
    "grid1_eq_swap_interp1", "grid2_eq_swap_interp2", "grid3_eq_swap_interp3",
    "a2b2_mem", "b2a2_mem", "b2a2_transpose_a2b2", "a2b3_mem", "b2a3_mem", "b2a3_transpose_a2b3",
    "a2b1_nodup", "b2a1_nodup", "b2a1_perm_swap_a2b1", "b2a2_perm_swap_a2b2", "b2a3_perm_swap_a2b3",
    # index lemmas (Lemmas/C01Index.lean): allIdx enumerates the in-bounds multi-indices once, in row-major order;
    # gathers along mutually inverse index maps are transposes; bridge from the C09 array functions to gathers
    "mem_allIdx", "InB.length", "pyRange_nodup_idx", "nodup_flatMap_key_idx", "allIdx_nodup", "shapeProd_foldl",
    "shapeProd_nil", "shapeProd_cons", "ravel_acc", "ravel_nil", "ravel_cons", "ravel_bounds", "fl_lt", "fl_cons",
    "range_mul_flat", "pyRange0_eq", "allIdx_map_fl", "allIdx_length", "getD_map_allIdx", "allIdx_eq_nil",
    "mem_graphL", "graphL_nodup", "gatherE_eq_graph", "gatherE_perm_swap", "labels_getD",
    "labelE_eq_gatherE_nonneg", "labelE_eq_gatherE", "axmap_eq", "axmapFrom_nil", "axmapFrom_cons", "axmapFrom_inB",
    "axmapFrom_comp", "axmapFrom_congr", "axmapFrom_id", "axmap_mem", "axmap_inverse", "axmap_comp", "axmap_congr",
    "gatherE_axmap_perm", "getI_eq_getElem", "inB_iff_getI", "ext_getI", "permIdx_length", "getI_permIdx",
    "permIdx_step", "gatherE_permIdx_perm", "removeAxes_eq", "rmFrom_cons", "bcast_cons", "getI_cons_succ",
    "getI_cons_zero", "rm_bcast", "rm_prod", "bcast_self", "bshape_cons", "bshape_nil_iff", "bshape_spec",
    "bshape_idem", "filterMap_single", "flatMap_singleton_of", "compE_along", "fl_inj", "inRangeE_id",
    # leaf pairs proved at the entry level for all valid parameters (Props/C01Leaves.lean): Sum/Tile, Flip,
    # Circshift, Down/Upsample, Resize, Transpose, Multiply
    "applyF_perm", "isAdj_of_perm", "inRangeE_adjE", "isAdj_clip_of_perm", "adjE_adjE", "perm_adjE_symm",
    "adjOK_of_perm", "normAxes_idem", "gatherE_some", "adjE_of_ones", "sum_leaf_adjoint", "tile_leaf_adjoint",
    "flipφ_spec", "flip_entries", "flip_leaf_adjoint", "layAx_getD", "rollSrc_rollSrc", "rollSrc_zero",
    "totφ_range", "rollφ_range", "layAx_step", "circ_fold", "layAx_id", "neg_fold", "circshift_eval",
    "circshift_entries", "circshift_leaf_adjoint", "DSValid.lengths", "dsLen_nonneg", "sliceLens_eq",
    "down_then_up", "up_then_down", "downsample_entries", "upsample_entries", "down_up_perm",
    "downsample_leaf_adjoint", "upsample_leaf_adjoint", "resizeGo_cons", "resizeSrc_transpose", "resizeSrc1_inB",
    "resizeSrc_inB", "resize_gather_perm", "shapeProd_ones", "expandShapes_swap", "expandShapes_prod",
    "zipWith_default_swap", "default_shift_nonneg", "labelE_id", "resize_entries", "resize_leaf_adjoint",
    "AxValid.perm", "AxValid.mem", "AxValid.idx", "AxValid.get", "transpose_pair", "transposeSem_some",
    "transposeSem_valid", "revAx_valid", "getI_revAx", "revAx_K", "reverse_eq_revAx_map", "argsort_norm",
    "argsort_K", "argsort_valid", "transpose_leaf_adjoint", "applyF_idE", "isAdj_idE_comp", "bshape_eq_zip",
    "multiplySem_iff", "expand_pos", "expand_len", "expand_fst_of_len", "expand_snd_of_len", "multiplySumAxes_eq",
    "saOf_contains", "saOf_norm", "getI_pos", "saOf_rm", "mulE_inRange", "multiply_leaf_adjoint",
    # leaf pairs on the regenerated loop nests and the unconditional theorem (Props/C01LeavesGen.lean)
    "updToEnt_swap", "updToEnt_adj", "interpEntries_grid", "interp_leaf_adjoint", "gridding_leaf_adjoint",
    "a2b_b2a_entries", "b2a_a2b_entries", "numBlks_same", "updToEnt_perm", "a2b_leaf_adjoint", "b2a_leaf_adjoint",
    "ext_leaf_adjoint", "leafProved_adjOK", "adj_denote_leaves", "normal_gram_leaves",
    # MatMul / RightMatMul leaf pairs for all valid symbolic parameters (Props/C01MatMul.lean): loop interchange,
    # loop form of the model's entries, the Sum over the broadcast batch axes, the two leaf theorems
    "flatMap_swap_perm", "loop4_congr", "loop4_map", "loop4_perm_23", "loop4_perm_13", "allIdx_append", "allIdx_pair",
    "loopify", "len_sub2", "len_sub1", "take_app2", "getI_app2_0", "getI_app2_1", "getI_append_left",
    "swapLast2_app2", "split_last2", "matmulSem_eq_C", "bshape_length", "mem_allIdx_length", "matmulSem_iff",
    "mem_loop4", "compE_gather_perm", "inB_app2", "bcast_app2", "saOf_norm_le", "matmulSumAxes_eq", "mm_adj_cond",
    "mm_adj_PQT", "mmE_inRange", "loop4_eq_map", "adjE_loop4", "compE_gather_loop4", "matmul_core",
    "matmul_leaf_adjoint", "rmatmul_leaf_adjoint",
    # the model's adjoint rules are the translation of every `_adjoint_linop` in linop.py (Props/C01Gen.lean, about
    # Gen/LinopAdjoint.lean); FiniteDifference's generated tree has proved leaves only
    "multiplySumTest_spec", "matmulSumTest_spec", "multiplySumAxes_gen", "matmulSumAxes_gen", "oshOf_sum", "adjLeaf_multiply_gen", "adjLeaf_matmul_gen",
    "adjLeaf_rmatmul_gen", "adjLeaf_eq_gen", "adjLeaf_eq_gen_simple", "adj_eq_gen", "allLeaves_imp", "adj_denote_gen",
    "transposeSem_norm", "sumSem_norm", "leafSem0_eq_prim", "applyGen_covers",
    "allLeaves_vstackList", "finiteDifference_leaves", "finiteDifference_adjoint",
    # leaf classes imported from C08 through the generated pairing table (Props/C01Ext.lean)
    "matOf_congr", "matOf_isAdj", "sum_delta_right", "conv1Params_spec", "shapeProd_single", "conv_data_entries",
    "conv_filt_entries", "conv_leaf_proved", "adjOpaque_table", "conv_leaf_adjoint", "conv_tree_adjoint",
    # FFT / IFFT leaves over C imported from C05's N-d table (Props/C01Fft.lean)
    "idx_ofFn", "fft_entry_conj", "fftE_inv_eq", "ifftE_perm_adj", "fft_leaf_proved", "fft_tree_adjoint",
    # Wavelet / InverseWavelet leaves, 1-D, real scalars, imported from C10 (Props/C01Wave.lean; partial)
    "unitL_length", "dot_zeros", "zeros_dot", "dot_unit_right", "dot_unit_left", "wave_entry_transpose",
    "iwaveE_perm_adj", "shapeProd_natCast", "wave_leaf_proved_partial",
]] + ["SigpyVerif.C09." + t for t in ["resize_transpose", "roll_inverse", "up_down_index", "b2a1_transpose_a2b1"]]

MAXEL = 24  # largest input / output size of a generated operator


def translate(ctx):
    # LinopAdjoint: every `_adjoint_linop`, the sum-axes helpers and the FiniteDifference factory (gen_c01.py);
    # Conv*: imported (through Props/C08) by Props/C01Ext; Fourier / C10Formulas: imported (through Props/C05Nd, Props/C10) by Props/C01Fft, C01Wave
    G.regenerate(ctx, ["Block", "UtilFormulas", "LinopFormulas", "Interp", "LinopAdjoint",
                       "ConvFormulas", "ConvWiring", "ConvLinops", "ConvParams", "Fourier", "C10Formulas"])


# ---- protocol helpers -----------------------------------------------------------------------
def L(x):
    x = list(x)
    return ",".join(str(int(v)) for v in x) if x else "-"


def O(x):
    return "none" if x is None else L(x)


def Gs(z):
    """Gaussian integer/rational scalar [re, im] -> token"""
    re, im = z[0], z[1]   # z[2], when present, is the TYPE the scalar is handed over in (the value is the same)
    return "%s;%s" % (Fraction(re), Fraction(im)) if im != 0 else "%s" % Fraction(re)


def Gl(zs):
    return ",".join(Gs(z) for z in zs) if zs else "-"


def SL(idx):
    return ",".join(".".join("n" if v is None else str(v) for v in s) for s in idx) if idx else "-"


def cplx(z):
    return complex(z[0], z[1])


# ---- scalar multipliers: the TYPE a scalar is handed over in ----------------------------------------------
# "scalar *" of the property is whatever np.isscalar accepts as a number (linop.py: Linop.__mul__ / __rmul__ /
# Multiply.__init__ test np.isscalar): Python int / float / complex / bool and every numpy scalar type - e.g. an element
# or a sum taken from a single-precision array is a numpy.complex64, which is NOT a subclass of Python complex (only
# numpy.complex128 / float64 subclass the Python types).  A scalar is [re, im] or [re, im, tag]; the values are small
# Gaussian integers, exactly representable in every one of the types (real types only for im == 0, unsigned only for
# re >= 0, bool only for 0 / 1), so the operator - and the model's matrix - is the same whatever the tag.
# Not generated: numpy.longdouble / clongdouble scalars.  They turn every product into an extended-precision array, which
# the numba kernels behind ArrayToBlocks / Interpolate / Gridding reject exactly as they reject an extended-precision x
# (a limit of the supported array dtypes, not of the adjoint pairing); `scalar` still builds them for hand-written cases.
SCALAR_C = ("py", "c64", "c128")
SCALAR_R = ("pyfloat", "f64", "f32", "f16")
SCALAR_X = ("clong", "flong")
SCALAR_I = ("pyint", "i64", "i32", "i8")
SCALAR_U = ("u8", "u16")
SCALAR_B = ("bool", "npbool")
SCALAR_TAGS = SCALAR_C + SCALAR_R + SCALAR_I + SCALAR_U + SCALAR_B
_NP_SCALAR = dict(c64=np.complex64, c128=np.complex128, clong=np.clongdouble, f64=np.float64, f32=np.float32,
                  f16=np.float16, flong=np.longdouble, i64=np.int64, i32=np.int32, i8=np.int8, u8=np.uint8,
                  u16=np.uint16, npbool=np.bool_)


def scalar_tags(z):
    """the types that hold the value z = [re, im, ...] exactly"""
    t = list(SCALAR_C)
    if z[1] == 0 and z[0] == int(z[0]):
        t += list(SCALAR_R) + list(SCALAR_I)
        if z[0] >= 0:
            t += list(SCALAR_U)
        if z[0] in (0, 1):
            t += list(SCALAR_B)
    return t


def scalar(z):
    """the scalar object handed to the library for z = [re, im] (Python complex) or [re, im, tag]"""
    tag = z[2] if len(z) > 2 else None
    if tag in (None, "py"):
        return cplx(z)
    if tag not in scalar_tags(z) and not (tag == "clong" or (tag == "flong" and z[1] == 0)):
        raise ValueError("scalar %r is not representable as %s" % (z[:2], tag))
    if tag in SCALAR_C or tag == "clong":
        return _NP_SCALAR[tag](cplx(z))
    if tag == "pyfloat":
        return float(z[0])
    if tag == "pyint":
        return int(z[0])
    if tag == "bool":
        return bool(z[0])
    return _NP_SCALAR[tag](int(z[0]))


ARR_DTYPES = {"c128": np.complex128, "c64": np.complex64, "f64": np.float64, "f32": np.float32, "i64": np.int64,
              "i32": np.int32}


def carr(zs, shape, dt=None):
    """parameter array of an operator; `dt` (leaf parameter "dt") selects the dtype the user hands over: the values are
    small Gaussian integers, so every one of these dtypes holds them exactly (real dtypes only for real values)"""
    a = np.array([cplx(z) for z in zs], dtype=np.complex128).reshape(shape)
    if dt in (None, "c128"):
        return a
    if dt == "c64":
        return a.astype(np.complex64)
    if np.any(a.imag != 0):
        return a
    return a.real.astype(ARR_DTYPES[dt])


def rand_arr(rng, n, p):
    """n Gaussian integers for a parameter array; sets p["dt"] (dtype of the array handed to the constructor)"""
    r = rng.random()
    if r < 0.6:
        return [gint(rng) for _ in range(n)]
    if r < 0.7:
        p["dt"] = "c64"
        return [gint(rng) for _ in range(n)]
    p["dt"] = rng.choice(["f64", "f32", "i64", "i32"])
    return [[rng.randint(-3, 3), 0] for _ in range(n)]


# ---- spec -> RPN / sigpy object ------------------------------------------------------------------
# leaf spec: ["leaf", kind, {params}] ; opaque leaves (not in the Lean model) have kind in OPAQUE
OPAQUE = {"fft", "ifft", "nufft", "nufftadj", "wavelet", "iwavelet", "convdata", "convfilt", "convdataadj",
          "convfiltadj", "interpkb", "gridkb", "sense", "convsense", "convimage", "ptx", "findiff"}


def leaf_rpn(kind, p):
    if kind == "id":
        return "id:%s" % L(p["sh"])
    if kind == "reshape":
        return "reshape:%s:%s" % (L(p["osh"]), L(p["ish"]))
    if kind == "transpose":
        return "transpose:%s:%s" % (L(p["ish"]), O(p["axes"]))
    if kind == "resize":
        return "resize:%s:%s:%s:%s" % (L(p["osh"]), L(p["ish"]), O(p["ishift"]), O(p["oshift"]))
    if kind == "flip":
        return "flip:%s:%s" % (L(p["sh"]), O(p["axes"]))
    if kind == "circshift":
        return "circshift:%s:%s:%s" % (L(p["sh"]), L(p["shift"]), O(p["axes"]))
    if kind in ("down", "up"):
        sh = p["sh"]
        return "%s:%s:%s:%s" % (kind, L(sh), L(p["f"]), L(p["s"] if p["s"] is not None else [0] * len(sh)))
    if kind in ("sum", "tile"):
        return "%s:%s:%s" % (kind, L(p["sh"]), L(p["axes"]))
    if kind in ("slice", "embed"):
        return "%s:%s:%s" % (kind, L(p["sh"]), SL(p["idx"]))
    if kind == "mul":
        if p["msh"] is None:
            return "mul:%s:1:%s:%d" % (L(p["ish"]), Gs(p["mult"][0]), p["conj"])
        return "mul:%s:%s:%s:%d" % (L(p["ish"]), L(p["msh"]), Gl(p["mult"]), p["conj"])
    if kind in ("matmul", "rmatmul"):
        return "%s:%s:%s:%s:%d" % (kind, L(p["ish"]), L(p["msh"]), Gl(p["mat"]), p["adjoint"])
    if kind in ("a2b", "b2a"):
        return "%s:%s:%s:%s" % (kind, L(p["sh"]), L(p["blk"]), L(p["str"]))
    if kind in ("interp", "grid"):
        nd = len(p["coord"][0])
        flat = ",".join(str(Fraction(c)) for row in p["coord"] for c in row)
        return "%s:%s:%s:%d:%s:%s:%s" % (kind, L(p["sh"]), L(p["pts"]), nd, flat, Fraction(p["width"]), Fraction(p["param"]))
    raise ValueError(kind)


def pyslices(idx):
    t = tuple(slice(*s) for s in idx)
    return t


def leaf_build(kind, p):
    import sigpy as sp
    from sigpy import linop as lo
    if kind == "id":
        return lo.Identity(p["sh"])
    if kind == "reshape":
        return lo.Reshape(p["osh"], p["ish"])
    if kind == "transpose":
        return lo.Transpose(p["ish"], axes=None if p["axes"] is None else tuple(p["axes"]))
    if kind == "resize":
        return lo.Resize(p["osh"], p["ish"], ishift=p["ishift"], oshift=p["oshift"])
    if kind == "flip":
        return lo.Flip(p["sh"], axes=p["axes"])
    if kind == "circshift":
        return lo.Circshift(p["sh"], p["shift"], axes=p["axes"])
    if kind == "down":
        return lo.Downsample(p["sh"], p["f"], shift=p["s"])
    if kind == "up":
        return lo.Upsample(p["sh"], p["f"], shift=p["s"])
    if kind == "sum":
        return lo.Sum(p["sh"], p["axes"])
    if kind == "tile":
        return lo.Tile(p["sh"], p["axes"])
    if kind == "slice":
        idx = pyslices(p["idx"])
        return lo.Slice(p["sh"], idx[0] if len(idx) == 1 and p.get("bare") else idx)
    if kind == "embed":
        idx = pyslices(p["idx"])
        return lo.Embed(p["sh"], idx[0] if len(idx) == 1 and p.get("bare") else idx)
    if kind == "mul":
        if p["msh"] is None:
            z = p["mult"][0]
            if p.get("st"):   # type of the scalar (see `scalar`)
                m = scalar([z[0], z[1], p["st"]])
            else:
                m = int(z[0]) if (z[1] == 0 and p.get("intscalar")) else cplx(z)
            return lo.Multiply(p["ish"], m, conj=bool(p["conj"]))
        return lo.Multiply(p["ish"], carr(p["mult"], p["msh"], p.get("dt")), conj=bool(p["conj"]))
    if kind == "matmul":
        return lo.MatMul(p["ish"], carr(p["mat"], p["msh"], p.get("dt")), adjoint=bool(p["adjoint"]))
    if kind == "rmatmul":
        return lo.RightMatMul(p["ish"], carr(p["mat"], p["msh"], p.get("dt")), adjoint=bool(p["adjoint"]))
    if kind == "a2b":
        return lo.ArrayToBlocks(p["sh"], p["blk"], p["str"])
    if kind == "b2a":
        return lo.BlocksToArray(p["sh"], p["blk"], p["str"])
    if kind in ("interp", "grid", "interpkb", "gridkb"):
        nd = len(p["coord"][0])
        # "cdt": integer-valued coordinates handed over in an integer dtype (same points, same operator)
        coord = np.array(p["coord"], dtype=np.float64).reshape(list(p["pts"]) + [nd])
        if p.get("cdt") and np.all(coord == np.round(coord)):
            coord = coord.astype(ARR_DTYPES[p["cdt"]])
        kern = "kaiser_bessel" if kind.endswith("kb") else "spline"
        cls = lo.Interpolate if kind.startswith("interp") else lo.Gridding
        return cls(p["sh"], coord, kernel=kern, width=p["width"], param=p["param"])
    # ---- opaque leaves (search oracle only) ----
    if kind in ("fft", "ifft"):
        cls = lo.FFT if kind == "fft" else lo.IFFT
        return cls(p["sh"], axes=p["axes"], center=p["center"])
    if kind in ("nufft", "nufftadj"):
        coord = np.array(p["coord"], dtype=np.float64).reshape(list(p["pts"]) + [len(p["coord"][0])])
        if kind == "nufft":
            return lo.NUFFT(p["sh"], coord, oversamp=p["oversamp"], width=p["width"], toeplitz=p.get("toeplitz", False))
        return lo.NUFFTAdjoint(p["sh"], coord, oversamp=p["oversamp"], width=p["width"])
    if kind in ("wavelet", "iwavelet"):
        cls = lo.Wavelet if kind == "wavelet" else lo.InverseWavelet
        return cls(p["sh"], axes=p["axes"], wave_name=p["wave"], level=p["level"])
    if kind in ("convdata", "convdataadj"):
        cls = lo.ConvolveData if kind == "convdata" else lo.ConvolveDataAdjoint
        return cls(p["dsh"], carr(p["filt"], p["fsh"]), mode=p["mode"], strides=p["strides"], multi_channel=p["mc"])
    if kind in ("convfilt", "convfiltadj"):
        cls = lo.ConvolveFilter if kind == "convfilt" else lo.ConvolveFilterAdjoint
        return cls(p["fsh"], carr(p["data"], p["dsh"]), mode=p["mode"], strides=p["strides"], multi_channel=p["mc"])
    if kind == "findiff":
        return lo.FiniteDifference(p["sh"], axes=p["axes"])
    if kind == "sense":
        import sigpy.mri.linop as ml
        mps = carr(p["mps"], p["mpssh"])
        coord = None if p["coord"] is None else np.array(p["coord"], dtype=np.float64)
        w = None if p["weights"] is None else np.array(p["weights"], dtype=np.float64).reshape(p["wsh"])
        return ml.Sense(mps, coord=coord, weights=w, coil_batch_size=p["cbs"], transp_nufft=p.get("transp", False))
    if kind == "convsense":
        import sigpy.mri.linop as ml
        coord = None if p["coord"] is None else np.array(p["coord"], dtype=np.float64)
        w = None if p["weights"] is None else np.array(p["weights"], dtype=np.float64)
        return ml.ConvSense(p["iksh"], carr(p["mk"], p["mksh"]), coord=coord, weights=w, grd_shape=p["grd"])
    if kind == "convimage":
        import sigpy.mri.linop as ml
        coord = None if p["coord"] is None else np.array(p["coord"], dtype=np.float64)
        w = None if p["weights"] is None else np.array(p["weights"], dtype=np.float64)
        return ml.ConvImage(p["mksh"], carr(p["ik"], p["iksh"]), coord=coord, weights=w, grd_shape=p["grd"])
    if kind == "ptx":
        import sigpy.mri.rf.linop as rl
        sens = carr(p["sens"], p["senssh"])
        b0 = None if p["b0"] is None else np.array(p["b0"], dtype=np.float64).reshape(p["img"])
        return rl.PtxSpatialExplicit(sens, np.array(p["coord"], dtype=np.float64), p["dt"], tuple(p["img"]), b0=b0)
    raise ValueError(kind)


def rpn(spec):
    t = spec[0]
    if t == "leaf":
        return [leaf_rpn(spec[1], spec[2])]
    if t == "comp":
        return rpn(spec[1]) + rpn(spec[2]) + ["*"]
    if t == "add":
        return rpn(spec[1]) + rpn(spec[2]) + ["+"]
    if t == "sub":
        return rpn(spec[1]) + rpn(spec[2]) + ["-"]
    if t in ("neg", "conj", "H", "N"):
        return rpn(spec[1]) + [t]
    if t in ("scale", "rscale"):
        return rpn(spec[2]) + ["%s:%s" % (t, Gs(spec[1]))]
    if t in ("hstack", "vstack"):
        out = rpn(spec[2][0])
        for s in spec[2][1:]:
            out += rpn(s) + ["%s:%s" % (t, "none" if spec[1] is None else spec[1])]
        return out
    if t == "diag":
        out = rpn(spec[3][0])
        for s in spec[3][1:]:
            out += rpn(s) + ["diag:%s:%s" % ("none" if spec[1] is None else spec[1], "none" if spec[2] is None else spec[2])]
        return out
    raise ValueError(t)


def sc(z, p=None):
    return int(z[0]) if (z[1] == 0 and z[0] == int(z[0]) and (p or {}).get("int")) else cplx(z)


def build(spec):
    from sigpy import linop as lo
    t = spec[0]
    if t == "leaf":
        return leaf_build(spec[1], spec[2])
    if t == "comp":
        return build(spec[1]) * build(spec[2])
    if t == "add":
        return build(spec[1]) + build(spec[2])
    if t == "sub":
        return build(spec[1]) - build(spec[2])
    if t == "neg":
        return -build(spec[1])
    if t == "conj":
        return lo.Conj(build(spec[1]))
    if t == "H":
        return build(spec[1]).H
    if t == "N":
        return build(spec[1]).N
    if t == "scale":
        return scalar(spec[1]) * build(spec[2])
    if t == "rscale":
        return build(spec[2]) * scalar(spec[1])
    if t == "hstack":
        return lo.Hstack([build(s) for s in spec[2]], axis=spec[1])
    if t == "vstack":
        return lo.Vstack([build(s) for s in spec[2]], axis=spec[1])
    if t == "diag":
        return lo.Diag([build(s) for s in spec[3]], oaxis=spec[1], iaxis=spec[2])
    raise ValueError(t)


def leaves(spec):
    if spec[0] == "leaf":
        yield spec
    else:
        for s in spec[1:]:
            if isinstance(s, list) and s and isinstance(s[0], str) and s[0] in NODE_TAGS:
                yield from leaves(s)
            elif isinstance(s, list) and s and isinstance(s[0], list):
                for q in s:
                    if isinstance(q, list) and q and q[0] in NODE_TAGS:
                        yield from leaves(q)


NODE_TAGS = {"leaf", "comp", "add", "sub", "neg", "conj", "H", "N", "scale", "rscale", "hstack", "vstack", "diag"}


def node_tags(spec):
    out = [spec[0]] if spec[0] != "leaf" else []
    for s in spec[1:]:
        if isinstance(s, list) and s and isinstance(s[0], str) and s[0] in NODE_TAGS:
            out += node_tags(s)
        elif isinstance(s, list) and s and isinstance(s[0], list):
            for q in s:
                if isinstance(q, list) and q and q[0] in NODE_TAGS:
                    out += node_tags(q)
    return out


def is_exact(spec):
    """arithmetic of the implementation is exact in float64 on Gaussian-integer inputs"""
    for lf in leaves(spec):
        k, p = lf[1], lf[2]
        if k in OPAQUE and k != "findiff":
            return False
        if k in ("interp", "grid"):
            if p["width"] not in (2, 4) or p["param"] not in (0, 1):
                return False
    return True


def in_model(spec):
    return all(lf[1] not in OPAQUE for lf in leaves(spec))


# ---- random valid parameters ---------------------------------------------------------------------
def oshp(A):
    return [int(v) for v in A.oshape]


def ishp(A):
    return [int(v) for v in A.ishape]


_PROBES = {}


def probes():
    """parameter regions in which the pinned source had defects: included in the random trees of the
    correspondence only when the current source handles them (the search oracle always probes them)."""
    if _PROBES:
        return _PROBES
    from sigpy import linop as lo

    def ok(f):
        try:
            with warnings.catch_warnings():
                warnings.simplefilter("ignore")
                return bool(f())
        except Exception:
            return False

    def neg_stack():
        a, b = lo.Identity([2, 3]), lo.Identity([2, 3])
        h = lo.Hstack([a, b], axis=-1)
        v = lo.Vstack([a, b], axis=-2)
        d = lo.Diag([a, b], oaxis=-1, iaxis=-2)
        x = np.arange(12.0).reshape(2, 6)
        return (oshp(h), ishp(h), oshp(v), oshp(d), ishp(d)) == ([2, 3], [2, 6], [4, 3], [2, 6], [4, 3]) and \
            np.array_equal(h(x), x[:, :3] + x[:, 3:])

    def diag_mixed():
        d = lo.Diag([lo.Identity([2, 3]), lo.Identity([2, 3])], oaxis=0, iaxis=None)
        e = lo.Diag([lo.Identity([2, 3]), lo.Identity([2, 3])], oaxis=None, iaxis=1)
        x = np.arange(12.0)
        return np.array_equal(d(x).ravel(), x) and e(x.reshape(2, 6)).shape == (12,)

    def mul_allsum():
        a = lo.Multiply([1], np.array([1 + 1j, 2, 3]))
        return np.allclose(a.H(np.array([1, 1, 1 + 0j])), [6 - 1j])

    def transpose_neg():
        t = lo.Transpose([2, 3], axes=(-1, 0))
        return oshp(t.H) == [2, 3] and ishp(t.H) == [3, 2] and t.H(np.zeros((3, 2))).shape == (2, 3)

    _PROBES.update(neg_stack=ok(neg_stack), diag_mixed=ok(diag_mixed), mul_allsum=ok(mul_allsum),
                   transpose_neg=ok(transpose_neg))
    return _PROBES


def mul_sums_all_axes(ish, msh):
    """Multiply's adjoint sums over every axis of its output (input shape all ones, output not)"""
    if msh is None:
        return False
    n = max(len(ish), len(msh))
    ie, me = [1] * (n - len(ish)) + list(ish), [1] * (n - len(msh)) + list(msh)
    osh = [max(i, m) for i, m in zip(ie, me)]
    return all(i == 1 and (m != 1 or o != 1) for i, m, o in zip(ie, me, osh))


def prod(s):
    return int(np.prod(s)) if len(s) else 1


def rshape(rng, maxel=MAXEL, nd=None, hi=5):
    for _ in range(100):
        n = nd or rng.choice([1, 1, 2, 2, 2, 3])
        sh = [rng.randint(1, hi) for _ in range(n)]
        if prod(sh) <= maxel:
            return sh
    return [rng.randint(1, 4)]


def gint(rng, lo=-3, hi=3, nz=False):
    while True:
        z = [rng.randint(lo, hi), rng.choice([0, 0, 1, -1, 2, -2])]
        if not nz or z != [0, 0]:
            return z


def gscalar(rng, lo=-3, hi=3, nz=False):
    """Gaussian-integer scalar together with the type it is handed over in: [re, im] (Python complex, 40 %) or
    [re, im, tag] with a tag that holds the value exactly"""
    z = gint(rng, lo, hi, nz)
    if rng.random() < 0.4:
        return z
    return z + [rng.choice(scalar_tags(z))]


def rand_axes(rng, nd, allow_empty=True, neg=True):
    k = rng.randint(0 if allow_empty else 1, nd)
    ax = rng.sample(range(nd), k)
    return [a - nd if (neg and rng.random() < 0.35) else a for a in ax]


def rand_slice(rng, n):
    for _ in range(50):
        step = rng.choice([None, 1, 1, 2, -1, -2, 3])
        start = rng.choice([None, None] + list(range(-n - 1, n + 1)))
        stop = rng.choice([None, None] + list(range(-n - 1, n + 2)))
        if len(range(*slice(start, stop, step).indices(n))) >= 1:
            return [start, stop, step]
    return [None, None, None]


def gen_leaf(rng, ish=None, kinds=None):
    """random valid leaf; when `ish` is given the leaf has exactly that input shape."""
    free = ish is None
    by_ishape = ["id", "reshape", "transpose", "resize", "flip", "circshift", "down", "sum", "slice", "mul", "mul",
                 "matmul", "rmatmul", "a2b", "interp"]
    by_oshape = ["up", "tile", "embed", "b2a", "grid"]
    for _ in range(200):
        kind = rng.choice(kinds or (by_ishape + by_oshape if free else by_ishape))
        sh = rshape(rng) if free else list(ish)
        nd = len(sh)
        p = None
        if kind == "id":
            p = dict(sh=sh)
        elif kind == "reshape":
            n = prod(sh)
            divs = [d for d in range(1, n + 1) if n % d == 0]
            a = rng.choice(divs)
            b = rng.choice([d for d in divs if (n // a) % d == 0])
            osh = rng.choice([[n], [a, n // a], [a, b, n // a // b], [1, n], [n, 1]])
            p = dict(osh=osh, ish=sh)
        elif kind == "transpose":
            axes = None if rng.random() < 0.3 else rng.sample(range(nd), nd)
            if axes is not None and probes()["transpose_neg"]:
                axes = [a - nd if rng.random() < 0.3 else a for a in axes]
            p = dict(ish=sh, axes=axes)
        elif kind == "resize":
            r = rng.random()
            if r < 0.6:
                osh = [max(1, s + rng.randint(-3, 3)) for s in sh]
            elif r < 0.8:
                osh = [rng.randint(1, 2)] + [max(1, s + rng.randint(-2, 2)) for s in sh]
            else:
                osh = [max(1, s + rng.randint(-2, 2)) for s in sh[1:]] or [rng.randint(1, 5)]
            n_ = max(len(sh), len(osh))
            ie, oe = [1] * (n_ - len(sh)) + sh, [1] * (n_ - len(osh)) + osh
            ishift = oshift = None
            if rng.random() < 0.4:
                ishift = [rng.randint(0, max(0, i - 1)) for i in ie]
                if rng.random() < 0.7:
                    oshift = [rng.randint(0, max(0, o - 1)) for o in oe]
            elif rng.random() < 0.2:
                oshift = [rng.randint(0, max(0, o - 1)) for o in oe]
            p = dict(osh=osh, ish=sh, ishift=ishift, oshift=oshift)
        elif kind == "flip":
            p = dict(sh=sh, axes=None if rng.random() < 0.3 else rand_axes(rng, nd))
        elif kind == "circshift":
            if rng.random() < 0.4:
                p = dict(sh=sh, shift=[rng.randint(-6, 6) for _ in sh], axes=None)
            else:
                ax = rand_axes(rng, nd, allow_empty=False)
                p = dict(sh=sh, shift=[rng.randint(-6, 6) for _ in ax], axes=ax)
        elif kind in ("down", "up"):
            f = [rng.randint(1, 3) for _ in sh]
            s = None if rng.random() < 0.4 else [rng.randint(0, min(n - 1, ff)) for n, ff in zip(sh, f)]
            p = dict(sh=sh, f=f, s=s)
        elif kind == "sum":
            if nd < 2:
                continue
            ax = rand_axes(rng, nd)
            if len(ax) == nd:
                ax = ax[1:]
            p = dict(sh=sh, axes=ax)
        elif kind == "tile":
            if nd < 2:
                continue
            ax = rand_axes(rng, nd)
            if len(ax) == nd:
                ax = ax[1:]
            p = dict(sh=sh, axes=ax)
        elif kind in ("slice", "embed"):
            k = rng.randint(1, nd)
            idx = [rand_slice(rng, n) for n in sh[:k]]
            p = dict(sh=sh, idx=idx, bare=(k == 1 and rng.random() < 0.5))
        elif kind == "mul":
            r = rng.random()
            if r < 0.3:
                z = gscalar(rng)
                p = dict(ish=sh, msh=None, mult=[z[:2]], conj=int(rng.random() < 0.5), st=z[2] if len(z) > 2 else None)
            else:
                me = [rng.choice([n, n, 1]) if n != 1 else rng.choice([1, 1, 2, 3]) for n in sh]
                rr = rng.random()
                if rr < 0.25:
                    while len(me) > 1 and me[0] == 1:
                        me = me[1:]
                elif rr < 0.4:
                    me = [rng.randint(1, 2)] + me
                elif rr < 0.5 and nd >= 2:
                    me = me[1:]
                if prod(me) > MAXEL or (mul_sums_all_axes(sh, me) and not probes()["mul_allsum"]):
                    continue
                p = dict(ish=sh, msh=me, conj=int(rng.random() < 0.5))
                p["mult"] = rand_arr(rng, prod(me), p)
        elif kind in ("matmul", "rmatmul"):
            if nd < 2:
                continue
            bi = sh[:-2]
            bm = [rng.choice([n, n, 1]) if n != 1 else rng.choice([1, 1, 2]) for n in bi]
            r = rng.random()
            if r < 0.3:
                while bm and bm[0] == 1:
                    bm = bm[1:]
            elif r < 0.45:
                bm = [2] + bm
            elif r < 0.6:
                # extra LEADING SINGLETON batch axes in the matrix (mat.ndim > len(ishape), nothing to sum over in the
                # adjoint, but the final Reshape back to ishape is still needed)
                bm = [1] * rng.randint(1, 2) + bm
            adjoint = int(rng.random() < 0.5)
            m = rng.randint(1, 3)
            inner = sh[-2] if kind == "matmul" else sh[-1]
            core = [m, inner] if kind == "matmul" else [inner, m]
            if adjoint:
                core = core[::-1]
            msh = bm + core
            p = dict(ish=sh, msh=msh, adjoint=adjoint)
            p["mat"] = rand_arr(rng, prod(msh), p)
        elif kind in ("a2b", "b2a"):
            d = rng.randint(1, min(3, nd))
            nsh = sh[nd - d:]
            blk = [rng.randint(1, n) for n in nsh]
            st = [rng.randint(1, 3) for _ in nsh]
            p = dict(sh=sh, blk=blk, str=st)
        elif kind in ("interp", "grid"):
            d = rng.randint(1, min(3, nd))
            pts = rng.choice([[rng.randint(1, 4)], [rng.randint(1, 2), rng.randint(1, 2)]])
            g = sh[nd - d:]
            coord = []
            for _ in range(prod(pts)):
                coord.append([rng.randint(-4 * n, 4 * n) / 4.0 if rng.random() < 0.8 else float(rng.randint(-n, n)) for n in g])
            if rng.random() < 0.15 and len(coord) > 1:
                coord[-1] = list(coord[0])  # duplicate point
            width, param = rng.choice([(2, 1), (2, 1), (4, 1), (2, 0), (1, 0), (3, 1), (3, 2), (4, 2), (2, 2)])
            p = dict(sh=sh, pts=pts, coord=coord, width=width, param=param)
            if rng.random() < 0.12:
                p["coord"] = [[float(round(c)) for c in row] for row in coord]
                p["cdt"] = "i64"
        if p is None:
            continue
        spec = ["leaf", kind, p]
        try:
            A = leaf_build(kind, p)
        except Exception:
            continue
        if prod(A.oshape) > MAXEL or prod(A.ishape) > MAXEL or not len(A.oshape) or not len(A.ishape):
            continue
        return spec, A
    spec = ["leaf", "id", dict(sh=list(ish) if ish else [2])]
    return spec, build(spec)


def shape_preserving(rng, sh):
    kinds = ["flip", "circshift", "mul", "id"] + (["transpose"] if len(set(sh)) == 1 and len(sh) > 1 else [])
    for _ in range(50):
        spec, A = gen_leaf(rng, ish=sh, kinds=kinds)
        if oshp(A) == list(sh):
            return spec, A
    spec = ["leaf", "id", dict(sh=list(sh))]
    return spec, build(spec)


def same_shape_variant(rng, spec, A, depth):
    """another operator with A's input and output shapes"""
    r = rng.random()
    if ishp(A) == oshp(A) and r < 0.35:
        return shape_preserving(rng, ishp(A))
    if r < 0.5:
        s2 = ["conj", spec]
    elif r < 0.75:
        ps, _ = shape_preserving(rng, oshp(A))
        s2 = ["comp", ps, spec]
    else:
        ps, _ = shape_preserving(rng, ishp(A))
        s2 = ["comp", spec, ps]
    return s2, build(s2)


def resize_axis(rng, sh, axis):
    new = list(sh)
    new[axis] = max(1, sh[axis] + rng.randint(-2, 2))
    return new


def gen_tree(rng, depth, ish=None, stack_neg=False):
    """random expression tree of the given depth budget; returns (spec, linop)"""
    if depth <= 0 or rng.random() < 0.15:
        return gen_leaf(rng, ish)
    for _ in range(30):
        t = rng.choice(["comp", "comp", "comp", "add", "sub", "conj", "H", "scale", "rscale", "neg",
                        "hstack", "vstack", "diag"])
        try:
            if t == "comp":
                sb, B = gen_tree(rng, depth - 1, ish)
                sa, A = gen_tree(rng, depth - 1, oshp(B))
                spec = ["comp", sa, sb]
            elif t in ("add", "sub"):
                sa, A = gen_tree(rng, depth - 1, ish)
                sb, B = same_shape_variant(rng, sa, A, depth - 1)
                spec = [t, sa, sb]
            elif t in ("conj", "neg"):
                sa, A = gen_tree(rng, depth - 1, ish)
                spec = [t, sa]
            elif t == "H":
                if ish is not None:
                    continue
                sa, A = gen_tree(rng, depth - 1, None)
                spec = ["H", sa]
            elif t in ("scale", "rscale"):
                sa, A = gen_tree(rng, depth - 1, ish)
                spec = [t, gscalar(rng), sa]
            elif t in ("hstack", "vstack", "diag"):
                if ish is not None:
                    continue
                sa, A = gen_tree(rng, depth - 1, None)
                sb, B = same_shape_variant(rng, sa, A, depth - 1)
                ops = [sa, sb]
                if rng.random() < 0.25:
                    ops.append(same_shape_variant(rng, sa, A, depth - 1)[0])
                side = ishp(A) if t == "hstack" else oshp(A)
                if t == "diag":
                    oax = rng.choice([None] + list(range(len(A.oshape))))
                    iax = rng.choice([None] + list(range(len(A.ishape))))
                    if (oax is None) != (iax is None) and not probes()["diag_mixed"]:
                        if rng.random() < 0.5:
                            oax = iax = None
                        else:
                            oax = rng.randrange(len(A.oshape)) if oax is None else oax
                            iax = rng.randrange(len(A.ishape)) if iax is None else iax
                    if oax is not None and rng.random() < 0.5:
                        new = resize_axis(rng, oshp(A), oax)
                        ops[-1] = ["comp", ["leaf", "resize", dict(osh=new, ish=oshp(A), ishift=None, oshift=None)], ops[-1]]
                    if iax is not None and rng.random() < 0.5:
                        new = resize_axis(rng, ishp(A), iax)
                        ops[-1] = ["comp", ops[-1], ["leaf", "resize", dict(osh=ishp(A), ish=new, ishift=None, oshift=None)]]
                    if stack_neg:
                        oax = oax if oax is None or rng.random() < 0.5 else oax - len(A.oshape)
                        iax = iax if iax is None or rng.random() < 0.5 else iax - len(A.ishape)
                    spec = ["diag", oax, iax, ops]
                else:
                    ax = rng.choice([None] + list(range(len(side))))
                    if ax is not None and rng.random() < 0.6:
                        new = resize_axis(rng, side, ax)
                        if t == "hstack":
                            ops[-1] = ["comp", ops[-1], ["leaf", "resize", dict(osh=side, ish=new, ishift=None, oshift=None)]]
                        else:
                            ops[-1] = ["comp", ["leaf", "resize", dict(osh=new, ish=side, ishift=None, oshift=None)], ops[-1]]
                    if stack_neg and ax is not None and rng.random() < 0.5:
                        ax -= len(side)
                    spec = [t, ax, ops]
            A = build(spec)
        except Exception:
            continue
        if prod(A.oshape) > MAXEL or prod(A.ishape) > MAXEL:
            continue
        return spec, A
    return gen_leaf(rng, ish)


# ---- matrices -----------------------------------------------------------------------------------

def relayout(a, tag=0):
    """same values, Fortran (column-major) memory order for every other call: an operator's result may not depend on
    the memory layout of its input (flattening inside Vstack/Hstack/Diag/Reshape is row-major by definition)"""
    a = np.asarray(a)
    if a.ndim >= 2 and (int(tag) + a.size) % 2 == 0:
        return np.asfortranarray(a)
    return a


def impl_matrix(A):
    n, m = prod(A.oshape), prod(A.ishape)
    M = np.zeros((n, m), dtype=np.complex128)
    for j in range(m):
        e = np.zeros(m, dtype=np.complex128)
        e[j] = 1
        M[:, j] = np.asarray(A(relayout(e.reshape(A.ishape), j))).reshape(-1)
    return M


def parse_mat(s, n, m):
    if s == "-":
        return np.zeros((n, m), dtype=np.complex128)
    vals = []
    for tok in s.split(","):
        if ";" in tok:
            a, b = tok.split(";")
            vals.append(complex(float(Fraction(a)), float(Fraction(b))))
        else:
            vals.append(complex(float(Fraction(tok)), 0.0))
    return np.array(vals, dtype=np.complex128).reshape(n, m)


def parse_reply(r):
    if not r.startswith("ok "):
        return r
    osh, ish, M, MH, MN = r[3:].split(" | ")
    osh = [] if osh == "-" else [int(v) for v in osh.split(",")]
    ish = [] if ish == "-" else [int(v) for v in ish.split(",")]
    n, m = prod(osh), prod(ish)
    return dict(osh=osh, ish=ish, M=parse_mat(M, n, m), MH=parse_mat(MH, m, n), MN=parse_mat(MN, m, m))


def mats_equal(a, b, exact):
    if a.shape != b.shape:
        return False
    if exact:
        return bool(np.array_equal(a, b))
    scale = max(1.0, float(np.max(np.abs(b))) if b.size else 1.0)
    return bool(np.max(np.abs(a - b)) <= 1e-9 * scale) if a.size else True


def gvec(rng, shape, real=False):
    n = prod(shape)
    re = np.array([rng.randint(-4, 4) for _ in range(n)], dtype=np.float64)
    if real:
        return re.reshape(shape)
    im = np.array([rng.randint(-4, 4) for _ in range(n)], dtype=np.float64)
    return (re + 1j * im).reshape(shape)


def corr_case(ctx, spec, A, reply, stream, which=("M", "MH"), extra=None):
    """compare the implementation with the model's matrices; returns number of disagreements"""
    exact = is_exact(spec)
    model = parse_reply(reply)
    bad = 0
    extra = extra or {}
    case = dict(spec=spec, **extra)
    if not isinstance(model, dict):
        ctx.disagree(stream, case, "builds: oshape=%s ishape=%s" % (A.oshape, A.ishape), model)
        return 1
    if oshp(A) != model["osh"] or ishp(A) != model["ish"]:
        ctx.disagree(stream, case, dict(osh=oshp(A), ish=ishp(A)), dict(osh=model["osh"], ish=model["ish"]))
        return 1
    for w in which:
        try:
            B = A if w == "M" else (A.H if w == "MH" else A.N)
            if w == "MH" and (oshp(B) != ishp(A) or ishp(B) != oshp(A)):
                impl = "A.H shapes %s x %s" % (B.oshape, B.ishape)
            elif w == "MN" and (oshp(B) != ishp(A) or ishp(B) != ishp(A)):
                impl = "A.N shapes %s x %s" % (B.oshape, B.ishape)
            else:
                impl = impl_matrix(B)
                x = gvec(ctx.rng, B.ishape)
                y = np.asarray(B(x.copy())).reshape(-1)
                if isinstance(impl, np.ndarray) and mats_equal(impl, model[w], exact) and \
                        not mats_equal(y.reshape(-1, 1), (model[w] @ x.reshape(-1)).reshape(-1, 1), exact):
                    impl = "matrix agrees on basis vectors but B(x) != M x for Gaussian-integer x=%s" % x.reshape(-1).tolist()
        except Exception as e:  # noqa
            impl = "err %s: %s" % (type(e).__name__, str(e.__cause__ or e)[:100])
        if isinstance(impl, str) or not mats_equal(impl, model[w], exact):
            bad += 1
            ctx.disagree(stream, dict(spec=spec, which=w, **extra), impl if isinstance(impl, str) else impl.tolist(), model[w].tolist())
    return bad


def class_sweep(rng, per):
    kinds = ["id", "reshape", "transpose", "resize", "flip", "circshift", "down", "up", "sum", "tile", "slice", "embed",
             "mul", "matmul", "rmatmul", "a2b", "b2a", "interp", "grid"]
    out = []
    for k in kinds:
        for _ in range(per):
            out.append(gen_leaf(rng, None, kinds=[k]))
    return out


SCALAR_ROUTES = ("Multiply", "Multiply-conj", "a*A", "A*a")


def scalar_type_sweep(rng):
    """every scalar type (SCALAR_TAGS) x every route by which a scalar multiplier enters the library - Multiply(shape, a),
    Multiply(shape, a, conj=True), a * A, A * a - on a random operator A of the model, with a random value the type holds
    exactly (complex types: mostly with a non-zero imaginary part).  Returns [(spec, linop, route, tag)]."""
    out = []
    for tag in SCALAR_TAGS:
        for route in SCALAR_ROUTES:
            if tag in SCALAR_C:
                z = [rng.randint(-3, 3), rng.choice([1, -1, 2, -2, 3, 0])]
            elif tag in SCALAR_B:
                z = [rng.choice([0, 1, 1]), 0]
            elif tag in SCALAR_U:
                z = [rng.randint(0, 3), 0]
            else:
                z = [rng.randint(-3, 3), 0]
            if route.startswith("Multiply"):
                spec = ["leaf", "mul", dict(ish=rshape(rng), msh=None, mult=[z], conj=int(route.endswith("conj")), st=tag)]
            else:
                sa, _ = gen_leaf(rng, None)
                spec = ["scale" if route == "a*A" else "rscale", z + [tag], sa]
            out.append((spec, build(spec), route, tag))
    return out


def findiff_spec(sh, axes):
    """FiniteDifference written with the model's combinators (what the factory is documented to build)"""
    nd = len(sh)
    ax = list(range(nd)) if axes is None else [a % nd for a in sorted(axes)]  # util._normalize_axes sorts the raw axes
    ops = []
    for i in ax:
        d = ["sub", ["leaf", "id", dict(sh=sh)], ["leaf", "circshift", dict(sh=sh, shift=[1], axes=[i])]]
        ops.append(["comp", ["leaf", "reshape", dict(osh=[1] + sh, ish=sh)], d])
    if len(ops) == 1:
        return ops[0]
    return ["vstack", 0, ops]


def run_corr(ctx, cases, stream, which):
    lines = ["%s mats %s" % (ctx.prop, " ".join(rpn(s))) for s, _ in cases]
    replies = ctx.driver_guarded(lines)
    bad = 0
    for (spec, A), ln, r in zip(cases, lines, replies):
        if r == "err model-timeout":
            ctx.count("corr:skipped-model-timeout")   # entry list blew up under repeated composition: not compared
            continue
        tags = node_tags(spec)
        for lf in leaves(spec):
            ctx.count("leaf:" + lf[1])
        for t in tags:
            ctx.count("node:" + t)
        ctx.count("depth-nodes:%d" % min(len(tags), 6))
        ctx.case(ln, sample=dict(line=ln[:300], reply=r[:160]) if ctx.evaluations % 53 == 0 else None)
        bad += corr_case(ctx, spec, A, r, stream, which)
    return bad


def correspond(ctx, which=("M", "MH")):
    warnings.simplefilter("ignore")
    ctx.rule = ("case = operator expression (RPN line: class, shapes, parameters, Gaussian-integer data); the "
                "implementation's matrix (basis vectors, plus one random Gaussian-integer vector) is compared with "
                "the Lean model's matrix; distinct by protocol line; all cases are non-empty operators; stream "
                "`histories`: case = (operator program, live object): the program builds a pool of operators from shared "
                "operands with adjoints taken in between, the object's matrices after the whole program are compared "
                "with the model's matrices of the expression it denotes; distinct by (program, object); scalar multipliers "
                "are handed to the implementation in a random scalar type holding the value exactly (stream "
                "`scalar-types`: every type x every route), the protocol line carries the value only")
    ctx.assumptions += [
        "numpy slicing / roll / tile / sum / matmul / reshape / transpose contracts (exercised by the correspondence)",
        "leaf pairing L.H = adjoint of L: proved in Lean for all 19 exactly representable classes - Identity, Reshape, "
        "Transpose, Resize, Flip, Circshift, Downsample, Upsample, Sum, Tile, Slice, Embed, Multiply, MatMul, "
        "RightMatMul (any batch broadcasting, adjoint flag, Reshape*Sum*MatMul plumbing), ArrayToBlocks, "
        "BlocksToArray, Interpolate, Gridding (adj_denote_leaves; validity side conditions: positive factors / "
        "strides / extents, 0 <= shift <= n, non-negative explicit resize shifts, real embedding of the rational "
        "kernel weights) - and, imported from C08 through the generated pairing table, for ConvolveData / "
        "ConvolveDataAdjoint / ConvolveFilter / ConvolveFilterAdjoint in the 1-D single-channel case "
        "(conv_leaf_proved); FiniteDifference: the tree generated from the factory has proved leaves only",
        "the `_apply` bodies of Identity, Reshape, Transpose, Resize, Flip, Circshift, Downsample, Upsample, Sum, Slice, "
        "Embed, ArrayToBlocks, BlocksToArray, Interpolate, Gridding, MatMul, RightMatMul are translated (applyGen) and "
        "proved to be what the model denotes (leafSem0_eq_prim); Tile and Multiply `_apply` remain hand transcriptions tied by "
        "the exact matrix correspondence; the numpy / util primitive semantics are the model's contracts",
        "which class with which arguments every _adjoint_linop returns is translated from linop.py on every run "
        "(Gen.LinopAdjoint) and proved equal to the model's adj (adjLeaf_eq_gen, adj_eq_gen); the per-class map "
        "'attribute -> constructor parameter' is read from __init__ (super().__init__ / self.x = x), except the "
        "normalised attributes Sum.axes, Tile.axes, Transpose.axes whose source text is pinned in gen_c01.py",
        "FFT / IFFT (N-d, any axes, centred or not, norm='ortho'): leaves over C whose entries are the complex numbers "
        "C05's executable table denotes; FFT.H = IFFT(same axes, center) from the generated table + C05 "
        "ifft_table_eq_conjTranspose (fft_leaf_proved); the table itself is tied to fourier.py by C05's check",
        "oracle-only leaves (dot test, no C01 theorem; their pairing class/arguments are pinned by adjOpaque_table): "
        "Wavelet / InverseWavelet beyond the 1-D real case (1-D, one axis, any level / even filter pair, scalars with "
        "trivial conjugation: wave_leaf_proved_partial from C10 iwt1_is_adjoint; N-d / multi-axis and complex scalars "
        "are oracle-only), "
        "multi-channel / N-D / batched convolutions (C08 has the theorems; only the 1-D single-channel entry lists "
        "are bridged), NUFFT / NUFFTAdjoint and Kaiser-Bessel Interpolate / Gridding (irrational weights), "
        "ToDevice / AllReduce (no arithmetic), the MRI factories (C16)",
    ]
    rng = ctx.rng
    quick = ctx.tier == "quick"
    neg_ok = probes()["neg_stack"]
    ctx.notes.append("parameter regions included in the random trees (probe of the current source): %s" % probes())
    ctx.notes.append("the model (denote / adj) the leaf theorems are about is the one this correspondence compares with "
                     "the implementation's matrices of A and A.H; block / interp loop nests and the length / shift "
                     "formulas inside it are regenerated from the source (Gen.Block, Gen.Interp, Gen.LinopFormulas, "
                     "Gen.UtilFormulas), so a changed loop bound, guard or formula breaks the leaf theorem that uses it")
    sweep = class_sweep(rng, 14 if quick else 60)
    bad = run_corr(ctx, sweep, "classes", which)
    ctx.oblige("correspondence:%s.classes" % ctx.prop, "correspondence", bad == 0, "%d disagreements" % bad)
    trees = [gen_tree(rng, rng.choice([1, 2, 2, 3, 3, 4]), None, stack_neg=neg_ok) for _ in range(450 if quick else 2500)]
    bad = run_corr(ctx, trees, "trees", which)
    ctx.oblige("correspondence:%s.trees" % ctx.prop, "correspondence", bad == 0, "%d disagreements" % bad)
    # factory written with the model's combinators
    fd = []
    for _ in range(6 if quick else 30):
        sh = rshape(rng, maxel=8, hi=4)
        axes = None if rng.random() < 0.4 else rand_axes(rng, len(sh), allow_empty=False)
        fd.append((findiff_spec(sh, axes), leaf_build("findiff", dict(sh=sh, axes=axes))))
    bad = run_corr(ctx, fd, "finite-difference", which)
    ctx.oblige("correspondence:%s.finite-difference" % ctx.prop, "correspondence", bad == 0, "%d disagreements" % bad)
    if ctx.prop == "C01":
        # the tree the translator generates from the factory's source (Gen.LinopAdjoint.finiteDifference), built by
        # the driver, against the real factory
        fdg, lines = [], []
        for _ in range(8 if quick else 40):
            sh = rshape(rng, maxel=8, hi=4)
            axes = None if rng.random() < 0.4 else rand_axes(rng, len(sh), allow_empty=False)
            ax = list(range(len(sh))) if axes is None else [a % len(sh) for a in sorted(axes)]
            fdg.append((findiff_spec(sh, axes), leaf_build("findiff", dict(sh=sh, axes=axes))))
            lines.append("%s findiff %s %s" % (ctx.prop, L(sh), L(ax)))
        replies = ctx.driver_guarded(lines)
        bad = 0
        for (spec, A), ln, r in zip(fdg, lines, replies):
            ctx.count("leaf:findiff-generated")
            ctx.case(ln, sample=dict(line=ln, reply=r[:160]) if ctx.evaluations % 7 == 0 else None)
            bad += corr_case(ctx, spec, A, r, "finite-difference-generated", which)
        ctx.oblige("correspondence:%s.finite-difference-generated" % ctx.prop, "correspondence", bad == 0,
                   "%d disagreements" % bad)
        # imported leaves: the two entry lists of the `ext` leaf of a 1-D single-channel convolution class (C08 model
        # of the class / of the class the generated _adjoint_linop table returns; Props/C01Ext.lean proves them adjoint)
        # against the matrices of the real operator and of its .H
        ce, lines = [], []
        for _ in range(24 if quick else 120):
            kind = rng.choice(["convdata", "convdataadj", "convfilt", "convfiltadj"])
            m, n, mode = rng.randint(1, 6), rng.randint(1, 4), rng.choice(["full", "valid"])
            if mode == "valid" and n > m:
                m, n = n, m
            s = rng.choice([None, 1, 2, 3])
            strides = None if s is None else [s]
            if kind in ("convdata", "convdataadj"):
                arr = [gint(rng) for _ in range(n)]
                p = dict(dsh=[m], fsh=[n], filt=arr, mode=mode, strides=strides, mc=False)
            else:
                arr = [gint(rng) for _ in range(m)]
                p = dict(dsh=[m], fsh=[n], data=arr, mode=mode, strides=strides, mc=False)
            ce.append((["leaf", kind, p], leaf_build(kind, p)))
            lines.append("%s convext %s %s %s %s %s %s" % (ctx.prop, kind, L([m]), L([n]), Gl(arr), mode, O(strides)))
        replies = ctx.driver_guarded(lines)
        bad = 0
        for (spec, A), ln, r in zip(ce, lines, replies):
            ctx.count("leaf:ext-" + spec[1])
            ctx.case(ln, sample=dict(line=ln, reply=r[:160]) if ctx.evaluations % 11 == 0 else None)
            bad += corr_case(ctx, spec, A, r, "conv-ext", which)
        ctx.oblige("correspondence:%s.conv-ext" % ctx.prop, "correspondence", bad == 0, "%d disagreements" % bad)
    if ctx.prop == "C01":
        # scalar multipliers of every scalar type, by every route (the model's matrix does not depend on the type)
        st = scalar_type_sweep(rng)
        for _, _, route, tag in st:
            ctx.count("scalar-type:%s" % tag)
            ctx.count("scalar-route:%s" % route)
        bad = run_corr(ctx, [(s_, A_) for s_, A_, _, _ in st], "scalar-types", which)
        ctx.oblige("correspondence:%s.scalar-types" % ctx.prop, "correspondence", bad == 0, "%d disagreements" % bad)
    if ctx.prop == "C01":
        bad = corr_histories(ctx, 90 if quick else 500, which)
        ctx.oblige("correspondence:%s.histories" % ctx.prop, "correspondence", bad == 0, "%d disagreements" % bad)
    ctx.traces = ctx.evaluations


def corr_histories(ctx, nprog, which):
    """operator programs (shared operands, adjoints taken in between): after the whole program has run, every live
    object must still be the operator the model denotes for its expression - matrices of the object and of its
    (possibly long cached) adjoint against `denote e` / `denote (adj e)`.  The theorems speak about the real object only
    as long as it acts like `denote e`, whatever else has been built from it."""
    rng = ctx.rng
    todo, lines = [], []
    for _ in range(nprog):
        prog, stats = gen_program(rng)
        for k, v in stats.items():
            ctx.count("history:" + k, v)
        specs = prog_specs(prog)

        def touch(at, pool):
            for P in pool:
                if P is not None:
                    P.H.H
        try:
            pool = run_program(prog, on_check=lambda at, pool: touch(at, pool) if at < len(prog) else None)
        except Exception as e:  # the generator built it on the same source
            ctx.disagree("histories", dict(program=prog, vseed=0), "err %s: %s" % (type(e).__name__, str(e.__cause__ or e)[:100]),
                         "program builds when no adjoint is taken in between")
            continue
        objs = [k for k, P in enumerate(pool) if P is not None and spec_size(specs[k]) <= 40]
        # operands first: they are the objects something else was built from
        used = set()
        for st in prog:
            if st[0] in NARY:
                used.update(st[-2])
            elif st[0] in ("add", "sub", "comp", "H"):
                used.update(st[1:3] if st[0] != "H" else st[1:2])
            elif st[0] in ("neg", "conj"):
                used.add(st[1])
            elif st[0] in ("scale", "rscale"):
                used.add(st[2])
        first = [k for k in objs if k in used]
        rest = [k for k in objs if k not in used]
        rng.shuffle(first)
        rng.shuffle(rest)
        for k in (first + rest)[:3]:
            todo.append((prog, k, specs[k], pool[k]))
            lines.append("%s mats %s" % (ctx.prop, " ".join(rpn(specs[k]))))
    bad = sum(1 for d in ctx.disagreements if d["stream"] == "histories")
    replies = ctx.driver_guarded(lines)
    for (prog, k, spec, A), ln, r in zip(todo, lines, replies):
        if r == "err model-timeout":
            ctx.count("corr:skipped-model-timeout")
            continue
        ctx.count("history:object:" + type(A).__name__)
        ctx.case(("history", json.dumps(prog), k), sample=dict(program=json.dumps(prog)[:300], obj=k, reply=r[:120])
                 if ctx.evaluations % 37 == 0 else None)
        bad += corr_case(ctx, spec, A, r, "histories", which, extra=dict(program=prog, obj=k, vseed=0))
    return bad


# ---- opaque leaves for the search oracle -----------------------------------------------------------
def gen_opaque(rng):
    kind = rng.choice(["fft", "ifft", "nufft", "nufftadj", "wavelet", "iwavelet", "convdata", "convfilt", "convdataadj",
                       "convfiltadj", "interpkb", "gridkb", "findiff", "sense", "sense", "convsense", "convimage", "ptx"])
    for _ in range(100):
        p = None
        if kind in ("fft", "ifft"):
            sh = rshape(rng, hi=6)
            axes = None if rng.random() < 0.3 else rand_axes(rng, len(sh), allow_empty=False)
            p = dict(sh=sh, axes=axes, center=rng.random() < 0.7)
        elif kind in ("nufft", "nufftadj"):
            d = rng.choice([1, 2, 2, 3])
            g = [rng.randint(2, 6) for _ in range(d)]
            lead = rng.choice([[], [], [2]])
            if prod(lead + g) > 64:
                continue
            npts = rng.randint(1, 6)
            coord = [[rng.uniform(-n / 2, n / 2) for n in g] for _ in range(npts)]
            ov, w = rng.choice([(1.25, 4), (1.25, 4), (2, 4), (1.5, 3), (2, 6), (1.25, 2)])
            p = dict(sh=lead + g, pts=[npts], coord=coord, oversamp=ov, width=w)
        elif kind in ("wavelet", "iwavelet"):
            sh = rshape(rng, maxel=64, hi=9)
            axes = None if rng.random() < 0.5 else rand_axes(rng, len(sh), allow_empty=False, neg=False)
            p = dict(sh=sh, axes=axes, wave=rng.choice(["db1", "haar", "db2", "db4", "sym2"]), level=rng.choice([None, 1, 1, 2]))
        elif kind.startswith("conv"):
            d = rng.choice([1, 1, 2])
            mc = rng.random() < 0.4
            mode = rng.choice(["full", "valid"])
            m = [rng.randint(1, 5) for _ in range(d)]
            n = [rng.randint(1, 4) for _ in range(d)]
            if mode == "valid" and not (all(a >= b for a, b in zip(m, n)) or all(a <= b for a, b in zip(m, n))):
                continue
            if mode == "valid" and any(a < b for a, b in zip(m, n)):
                continue  # filter longer than data: C08's domain (known defect there), not exercised here
            strides = None if rng.random() < 0.5 else [rng.randint(1, 3) for _ in range(d)]
            ci, co = rng.randint(1, 2), rng.randint(1, 2)
            b = rng.choice([[], [], [2]])
            dsh = b + ([ci] if mc else []) + m
            fsh = ([co, ci] if mc else []) + n
            p = dict(dsh=dsh, fsh=fsh, mode=mode, strides=strides, mc=mc,
                     filt=[gint(rng) for _ in range(prod(fsh))], data=[gint(rng) for _ in range(prod(dsh))])
        elif kind in ("interpkb", "gridkb"):
            sh = rshape(rng, hi=6)
            d = rng.randint(1, min(3, len(sh)))
            g = sh[len(sh) - d:]
            npts = rng.randint(1, 4)
            coord = [[rng.uniform(-n, n) for n in g] for _ in range(npts)]
            p = dict(sh=sh, pts=[npts], coord=coord, width=rng.choice([2, 3, 4, 2.5]), param=rng.choice([1.0, 5.0, 9.1]))
            if d > 1 and rng.random() < 0.5:
                # per-axis widths / params (the kernels pair coord[..., -k] with width[-k], param[-k])
                p["width"] = [rng.choice([1.5, 2, 3, 4, 2.5]) for _ in range(d)]
                if rng.random() < 0.5:
                    p["param"] = [rng.choice([1.0, 5.0, 9.1]) for _ in range(d)]
        elif kind == "findiff":
            sh = rshape(rng)
            p = dict(sh=sh, axes=None if rng.random() < 0.4 else rand_axes(rng, len(sh), allow_empty=False))
        elif kind == "sense":
            d = rng.choice([1, 2, 2])
            img = [rng.randint(2, 5) for _ in range(d)]
            nc = rng.randint(1, 3)
            mps = [gint(rng) for _ in range(nc * prod(img))]
            noncart = rng.random() < 0.5
            npts = rng.randint(2, 5)
            coord = [[rng.uniform(-n / 2, n / 2) for n in img] for _ in range(npts)] if noncart else None
            wsh, weights = None, None
            if rng.random() < 0.4:
                wsh = [npts] if noncart else img
                weights = [rng.choice([0.0, 0.25, 1.0, 4.0]) for _ in range(prod(wsh))]
            cbs = None if rng.random() < 0.5 else rng.randint(1, nc)
            p = dict(mps=mps, mpssh=[nc] + img, coord=coord, weights=weights, wsh=wsh, cbs=cbs,
                     transp=noncart and rng.random() < 0.3)
        elif kind in ("convsense", "convimage"):
            d = rng.choice([1, 2])
            nc = rng.randint(1, 2)
            ik = [rng.randint(2, 4) for _ in range(d)]
            mk = [rng.randint(1, kk) for kk in ik]
            if kind == "convimage":
                ik, mk = mk, ik  # image kernel is the (shorter) fixed filter
                ik, mk = [max(a, 1) for a in ik], mk
                if any(a > b for a, b in zip(ik, mk)):
                    continue
            p = dict(iksh=ik, mksh=[nc] + mk, mk=[gint(rng) for _ in range(nc * prod(mk))],
                     ik=[gint(rng) for _ in range(prod(ik))], coord=None, weights=None, grd=None)
        elif kind == "ptx":
            img = [rng.randint(2, 3), rng.randint(2, 3)] + ([2] if rng.random() < 0.3 else [])
            nc = rng.randint(1, 2)
            nt = rng.randint(1, 4)
            coord = [[rng.uniform(-2, 2) for _ in img] for _ in range(nt)]
            b0 = None if rng.random() < 0.6 else [rng.uniform(-20, 20) for _ in range(prod(img))]
            p = dict(sens=[gint(rng) for _ in range(nc * prod(img))], senssh=[nc] + img, coord=coord, dt=4e-6, img=img, b0=b0)
        if p is None:
            continue
        spec = ["leaf", kind, p]
        try:
            with warnings.catch_warnings():
                warnings.simplefilter("ignore")
                A = build(spec)
        except Exception:
            continue
        if prod(A.oshape) > 400 or prod(A.ishape) > 400:
            continue
        return spec, A
    return gen_leaf(rng, None)


def wrap_opaque(rng, spec, A):
    """put an opaque leaf inside a small tree"""
    r = rng.random()
    try:
        if r < 0.4:
            return spec, A
        if r < 0.55:
            s = ["H", spec]
        elif r < 0.7:
            s = [rng.choice(["scale", "rscale"]), gscalar(rng), ["conj", spec]]
        elif r < 0.85:
            ps, _ = shape_preserving(rng, ishp(A))
            s = ["comp", spec, ps] if prod(A.ishape) <= MAXEL else ["neg", spec]
        else:
            s = rng.choice([["hstack", None, [spec, ["conj", spec]]], ["vstack", None, [spec, ["neg", spec]]],
                            ["diag", None, None, [spec, ["H", ["H", spec]]]], ["add", spec, [rng.choice(["scale", "rscale"]), gscalar(rng), spec]]])
        return s, build(s)
    except Exception:
        return spec, A


# ---- the property's own oracle ---------------------------------------------------------------------
def class_key(spec):
    ls = sorted(set(lf[1] for lf in leaves(spec)))
    tags = sorted(set(node_tags(spec)))
    if len(ls) == 1 and not tags:
        return ls[0]
    return "tree"


CLASSNAME = dict(id="Identity", reshape="Reshape", transpose="Transpose", resize="Resize", flip="Flip", circshift="Circshift",
                 down="Downsample", up="Upsample", sum="Sum", tile="Tile", slice="Slice", embed="Embed", mul="Multiply",
                 matmul="MatMul", rmatmul="RightMatMul", a2b="ArrayToBlocks", b2a="BlocksToArray", interp="Interpolate",
                 grid="Gridding", fft="FFT", ifft="IFFT", nufft="NUFFT", nufftadj="NUFFTAdjoint", wavelet="Wavelet",
                 iwavelet="InverseWavelet", convdata="ConvolveData", convfilt="ConvolveFilter", convdataadj="ConvolveDataAdjoint",
                 convfiltadj="ConvolveFilterAdjoint", interpkb="Interpolate(kb)", gridkb="Gridding(kb)", sense="Sense",
                 convsense="ConvSense", convimage="ConvImage", ptx="PtxSpatialExplicit", findiff="FiniteDifference", tree="tree")


def has_neg_stack_axis(spec):
    if spec[0] in ("hstack", "vstack") and spec[1] is not None and spec[1] < 0:
        return True
    if spec[0] == "diag" and any(a is not None and a < 0 for a in spec[1:3]):
        return True
    for s in spec[1:]:
        if isinstance(s, list) and s and isinstance(s[0], str) and s[0] in NODE_TAGS and has_neg_stack_axis(s):
            return True
        if isinstance(s, list) and s and isinstance(s[0], list):
            if any(isinstance(q, list) and q and q[0] in NODE_TAGS and has_neg_stack_axis(q) for q in s):
                return True
    return False


def walk(spec):
    yield spec
    for s in spec[1:]:
        if isinstance(s, list) and s and isinstance(s[0], str) and s[0] in NODE_TAGS:
            yield from walk(s)
        elif isinstance(s, list) and s and isinstance(s[0], list):
            for q in s:
                if isinstance(q, list) and q and q[0] in NODE_TAGS:
                    yield from walk(q)


def special_key(spec):
    """stable keys of the parameter regions with known defects (specific call sites)"""
    pr = probes()  # a region is blamed only while the current source still fails its probe
    for n in walk(spec):
        if not pr["transpose_neg"] and n[0] == "leaf" and n[1] == "transpose" and n[2]["axes"] is not None \
                and any(a < 0 for a in n[2]["axes"]):
            return "C01:Transpose:negative-axes"
        if not pr["mul_allsum"] and n[0] == "leaf" and n[1] == "mul" and mul_sums_all_axes(n[2]["ish"], n[2]["msh"]):
            return "C01:Multiply:adjoint-sum-all-axes"
        if not pr["diag_mixed"] and n[0] == "diag" and (n[1] is None) != (n[2] is None):
            return "C01:Diag:mixed-none-axis"
    if not pr["neg_stack"] and has_neg_stack_axis(spec):
        return "C01:stack:negative-axis"
    return None


def root_cause(e):
    while e.__cause__ is not None:
        e = e.__cause__
    return e


def real_input_key(spec, x, y, exc=None):
    """failures that occur only for real-dtype input: attribute them to the dtype handling of the
    combinators when the same data as complex128 passes (specific call sites, stable keys)"""
    tags = set(node_tags(spec))
    sub = common.Ctx("C01", "quick", 0)
    if not dot_oracle(sub, spec, x=np.asarray(x, dtype=np.complex128), y=np.asarray(y, dtype=np.complex128), real=False):
        return None  # also fails for complex data: not a dtype issue
    if conv_real_key(spec, exc):
        return conv_real_key(spec, exc)
    if exc is not None and type(root_cause(exc)).__name__ == "UFuncTypeError" and tags & {"add", "sub", "hstack", "vstack"}:  # Vstack.H is an Hstack
        return "C01:Add-Hstack:real-input-inplace-add"
    if exc is None and tags & {"vstack", "diag", "hstack"}:  # Hstack.H is a Vstack
        return "C01:Vstack-Diag:real-input-drops-imaginary"
    return None


CONV_KINDS = {"convdata", "convdataadj", "convfilt", "convfiltadj", "convsense", "convimage"}


def conv_real_key(spec, exc):
    """real-dtype input to a convolution operator whose fixed operand is complex: conv._convolve & co. accumulate the
    complex products in place into a buffer of the input's dtype (specific call site, stable key)"""
    if exc is None:
        return None
    rc = root_cause(exc)
    if isinstance(rc, TypeError) and "Cannot cast" in str(rc) and any(lf[1] in CONV_KINDS for lf in leaves(spec)):
        return "C01:Convolve:real-input-complex-kernel"
    return None


def live_real_key(A, spec, x, y, exc=None):
    """program oracle: a failure for real-dtype vectors is attributed to a dtype call site only when the same live
    object passes on the same data held as complex128"""
    if exc is None or not conv_real_key(spec, exc):
        return None
    sub = common.Ctx("C01", "quick", 0)
    if not live_oracle(sub, A, spec, {}, x=np.asarray(x, dtype=np.complex128), y=np.asarray(y, dtype=np.complex128),
                       real=False, keyf=lambda what: what):
        return None
    return conv_real_key(spec, exc)


_KEY_OVERRIDE = []


def fail_key(spec, what):
    if _KEY_OVERRIDE:
        return _KEY_OVERRIDE[-1]
    k = special_key(spec)
    if k:
        return k
    k = class_key(spec)
    return "C01:%s:%s" % (CLASSNAME.get(k, k), what)


LAYOUTS = ("C", "F", "strided", "reversed", "part", "offset")


def layout(a, mode):
    """the same values in a different memory layout (all are ordinary numpy arrays a user can hand over): "F" Fortran
    order; "strided" every other element of a larger buffer along the last axis; "reversed" negative strides along every
    axis; "part" a component view (`.real` of a complex buffer for real data, one column of a wider buffer for complex
    data: the element stride differs from the item size even for 1-D data); "offset" a slice that does not start at the
    beginning of its buffer.  The gaps of the underlying buffers hold large garbage values."""
    a = np.asarray(a)
    if mode in (None, "C") or a.ndim == 0:
        return np.ascontiguousarray(a).copy()
    junk = 1e6 + 7
    if mode == "F":
        return np.asfortranarray(a).copy(order="F")
    if mode == "strided":
        big = np.full(a.shape[:-1] + (2 * a.shape[-1] + 1,), junk, dtype=a.dtype)
        v = big[..., 1::2]
        v[...] = a
        return v
    if mode == "reversed":
        fl = tuple(slice(None, None, -1) for _ in a.shape)
        return np.ascontiguousarray(a[fl])[fl]
    if mode == "part":
        if np.iscomplexobj(a):
            big = np.full(a.shape + (2,), junk * (1 - 1j), dtype=a.dtype)
            big[..., 0] = a
            return big[..., 0]
        z = (a + 1j * junk).astype(np.complex64 if a.dtype == np.float32 else np.complex128)
        return z.real
    if mode == "offset":
        big = np.full((a.shape[0] + 2,) + a.shape[1:], junk, dtype=a.dtype)
        big[1:-1] = a
        return big[1:-1]
    raise ValueError(mode)


# leaves that end in the lazily compiled (uncached) numba kernels of interp.py: every new (dtype, layout) signature of
# their arguments costs a compilation, so for trees containing them the call options stay within the signatures the
# plain dot test already uses (C / Fortran float64 / complex128); the kernels themselves are stride- and dtype-generic
JIT_KINDS = {"interp", "grid", "interpkb", "gridkb", "nufft", "nufftadj", "sense"}


def jit_spec(spec):
    return any(lf[1] in JIT_KINDS for lf in leaves(spec))


def spec_opts(rng, spec, real=False):
    o = rand_opts(rng, is_exact(spec), real)
    if jit_spec(spec):
        o.pop("single", None)
        if "layout" in o:
            o["layout"] = [v if v in ("C", "F") else "F" for v in o["layout"]]
    return o


def rand_opts(rng, exact, real=False):
    """how the vectors of one dot test are handed to the operator (all inside 'for all real or complex x, y'):
    layout  memory layouts of x and y;
    pair2   a second pair (x2, y2) applied to the same live objects before the first results are used (an operator is
            a function of its argument: results of earlier calls stay what they were, later calls do not depend on them);
    pow2    x scaled by 2^k, y by 2^-k (exact: power-of-two scaling commutes with exact arithmetic), only where the
            operator's arithmetic is exact; single  x, y in single precision (small integers: still exact), ditto."""
    o = {}
    if rng.random() < 0.5:
        o["layout"] = [rng.choice(LAYOUTS), rng.choice(LAYOUTS)]
    if rng.random() < 0.35:
        o["pair2"] = True
    if exact:
        r = rng.random()
        if r < 0.12:
            o["pow2"] = rng.choice([-500, -200, 200, 500])
        elif r < 0.24:
            o["single"] = True
    return o


def abs_spec(spec):
    """the tree with every subtraction / negation / scalar factor replaced by its absolute value: A - A becomes A + A"""
    t = spec[0]
    if t == "leaf":
        return spec
    if t == "sub":
        return ["add", abs_spec(spec[1]), abs_spec(spec[2])]
    if t == "neg":
        return abs_spec(spec[1])
    if t in ("scale", "rscale"):
        return [t, [abs(cplx(spec[1])), 0], abs_spec(spec[2])]
    if t in ("hstack", "vstack"):
        return [t, spec[1], [abs_spec(q) for q in spec[2]]]
    if t == "diag":
        return [t, spec[1], spec[2], [abs_spec(q) for q in spec[3]]]
    return [t] + [abs_spec(q) for q in spec[1:]]


def gross_scale(spec, x, y):
    """(|A' x| |y| + |x| |A'^H y|, max |A' x|) for A' = abs_spec(spec): the magnitude of the terms an inexact operator
    adds up.  "To floating-point accuracy" is relative to these, not to the result: (A - A)(x) for an FFT-based A is
    rounding noise of size eps * |A x|, although the exact value (and hence |Ax||y| + |x||A^H y|) is zero."""
    try:
        with warnings.catch_warnings():
            warnings.simplefilter("ignore")
            Aa = build(abs_spec(spec))
            ax = np.asarray(Aa(np.asarray(x, dtype=np.complex128).reshape(Aa.ishape)), dtype=np.complex128)
            ay = np.asarray(Aa.H(np.asarray(y, dtype=np.complex128).reshape(Aa.oshape)), dtype=np.complex128)
        return (float(np.linalg.norm(ax) * np.linalg.norm(y) + np.linalg.norm(x) * np.linalg.norm(ay)),
                float(np.max(np.abs(ax))) if ax.size else 0.0)
    except Exception:
        return None


def has_cancellation(spec):
    return any(n[0] in ("sub", "neg", "scale", "rscale", "add") for n in walk(spec))


def cvals(a):
    return [[float(v.real), float(v.imag)] for v in np.asarray(a, dtype=np.complex128).reshape(-1)]


def dot_oracle(ctx, spec, x=None, y=None, origin="search", real=False, opts=None, x2=None, y2=None):
    """<A x, y> == <x, A.H y>, swapped shapes, A.H.H(x) == A(x) for the operator `spec` denotes, built afresh.
    Returns True when the property holds."""
    case = dict(spec=spec, real=real)
    with warnings.catch_warnings():
        warnings.simplefilter("ignore")
        try:
            A = build(spec)
        except Exception as e:
            if special_key(spec):
                ctx.fail(special_key(spec), "documented-valid operator cannot be built",
                         case, observed=repr(e), expected="operator", origin=origin)
                return False
            return True  # not a valid construction: outside the property's domain
    return live_oracle(ctx, A, spec, case, x=x, y=y, origin=origin, real=real, opts=opts, x2=x2, y2=y2,
                       keyf=lambda what: fail_key(spec, what),
                       rkeyf=(lambda xx, yy, exc=None: real_input_key(spec, xx, yy, exc)) if real else None)


def live_oracle(ctx, A, spec, case, x=None, y=None, origin="search", real=False, opts=None, x2=None, y2=None,
                keyf=None, rkeyf=None, rng=None):
    """the property on the LIVE operator object A (whatever was done with it before): A.H has A's shapes swapped,
    <A x, y> == <x, A.H y>, A.H.H(x) == A(x).  `spec` is the tree A denotes (exactness class and keys only)."""
    exact = is_exact(spec)
    rng = rng or ctx.rng
    opts = dict(opts or {})
    if not exact:
        opts.pop("pow2", None)
        opts.pop("single", None)
    if opts:
        case["opts"] = opts
    rk = (lambda xx, yy, exc=None: None) if rkeyf is None else rkeyf
    with warnings.catch_warnings():
        warnings.simplefilter("ignore")
        try:
            AH = A.H
        except Exception as e:
            ctx.fail(keyf("adjoint-build"), "A.H cannot be constructed", case, observed=repr(e.__cause__ or e),
                     expected="adjoint operator", origin=origin)
            return False
        if oshp(AH) != ishp(A) or ishp(AH) != oshp(A):
            ctx.fail(keyf("adjoint-shape"), "A.H does not have A's shapes swapped", case,
                     observed=dict(H_oshape=oshp(AH), H_ishape=ishp(AH)),
                     expected=dict(H_oshape=ishp(A), H_ishape=oshp(A)), origin=origin)
            return False
        k = int(opts.get("pow2", 0))
        x = gvec(rng, A.ishape, real=real) * 2.0 ** k if x is None else np.asarray(x)
        y = gvec(rng, A.oshape, real=real) * 2.0 ** (-k) if y is None else np.asarray(y)
        if opts.get("pair2") and x2 is None:
            x2, y2 = gvec(rng, A.ishape, real=real) * 2.0 ** k, gvec(rng, A.oshape, real=real) * 2.0 ** (-k)
        if opts.get("single") and not k:
            cast = (lambda v: v.astype(np.float32)) if real else (lambda v: v.astype(np.complex64))
            x, y = cast(x), cast(y)
            if x2 is not None:
                x2, y2 = cast(x2), cast(y2)
        case["x"], case["y"] = cvals(x), cvals(y)
        if x2 is not None:
            x2, y2 = np.asarray(x2), np.asarray(y2)
            case["x2"], case["y2"] = cvals(x2), cvals(y2)
        lay = opts.get("layout")
        lx = (lambda v: layout(v, lay[0])) if lay else (lambda v: relayout(v.copy(), 0))
        ly = (lambda v: layout(v, lay[1])) if lay else (lambda v: relayout(v.copy(), 1))
        try:
            # the results of the first calls are used after the later calls, as a caller would
            Ax = np.asarray(A(lx(x)))
            Ax2 = None if x2 is None else np.asarray(A(ly(x2) if lay else x2.copy()))
            AHy = np.asarray(AH(ly(y)))
            AHy2 = None if x2 is None else np.asarray(AH(lx(y2) if lay else y2.copy()))
            AHHx = np.asarray(AH.H(x.copy()))
        except Exception as e:
            ctx.fail(rk(x, y, e) or keyf("apply"), "a validly constructed operator (or its adjoint) raises when applied", case,
                     observed=repr(e.__cause__ or e), expected="result", origin=origin)
            return False
    if list(Ax.shape) != oshp(A) or list(AHy.shape) != ishp(A):
        ctx.fail(keyf("output-shape"), "output shape differs from the advertised shape", case,
                 observed=dict(Ax=list(Ax.shape), AHy=list(AHy.shape)), expected=dict(Ax=oshp(A), AHy=ishp(A)),
                 origin=origin)
        return False
    ok = True
    pairs = [("x,y", x, Ax, y, AHy)]
    if x2 is not None:
        pairs += [("x2,y2", x2, Ax2, y2, AHy2), ("x,y2", x, Ax, y2, AHy2), ("x2,y", x2, Ax2, y, AHy)]
    for name, xv, Axv, yv, AHyv in pairs:
        # accumulate in double precision whatever the dtype of the results
        Axd, AHyd = np.asarray(Axv, dtype=np.complex128), np.asarray(AHyv, dtype=np.complex128)
        xd, yd = np.asarray(xv, dtype=np.complex128), np.asarray(yv, dtype=np.complex128)
        if Axd.size != yd.size or AHyd.size != xd.size:
            ctx.fail(keyf("output-shape"), "output shape differs from the advertised shape", case,
                     observed=dict(Ax=list(Axd.shape), AHy=list(AHyd.shape)), expected=dict(Ax=oshp(A), AHy=ishp(A)),
                     origin=origin)
            return False
        lhs = np.vdot(Axd, yd)
        rhs = np.vdot(xd, AHyd)
        scale = float(np.linalg.norm(Axd) * np.linalg.norm(yd) + np.linalg.norm(xd) * np.linalg.norm(AHyd))
        tol = 0.0 if exact else 1e-6 * scale
        if not exact and not abs(lhs - rhs) <= tol and has_cancellation(spec):
            g = gross_scale(spec, xd, yd)   # sums of inexact terms: accuracy is relative to the terms
            if g is not None and g[0] > scale:
                tol = 1e-6 * g[0]
                ctx.count("oracle:tolerance-relative-to-summed-terms")
        if not abs(lhs - rhs) <= tol:
            ctx.fail(rk(x, y) or keyf("dot-real-input" if real else "dot"),
                     "<A x, y> != <x, A.H y>" + ("" if name == "x,y" else " for the pair (%s) of two interleaved pairs" % name),
                     case, observed=dict(lhs=[lhs.real, lhs.imag], rhs=[rhs.real, rhs.imag], pair=name),
                     expected="equal%s" % ("" if exact else " within 1e-6 * (|Ax||y| + |x||A.H y|) = %.3g" % tol), origin=origin)
            ok = False
            break
    Axd, AHHd = np.asarray(Ax, dtype=np.complex128), np.asarray(AHHx, dtype=np.complex128)
    d = float(np.max(np.abs(AHHd - Axd))) if (Axd.size and AHHd.shape == Axd.shape) else 0.0
    tol2 = 0.0 if exact else 1e-6 * max(1.0, float(np.max(np.abs(Axd))) if Axd.size else 1.0)
    if not exact and AHHd.shape == Axd.shape and not d <= tol2 and has_cancellation(spec):
        g = gross_scale(spec, x, y)
        if g is not None:
            tol2 = max(tol2, 1e-6 * g[1])
    if AHHd.shape != Axd.shape or not d <= tol2:
        ctx.fail(rk(x, y) or keyf("HH"), "A.H.H does not act like A", case, observed=AHHd.reshape(-1).tolist()[:40],
                 expected=Axd.reshape(-1).tolist()[:40], origin=origin)
        ok = False
    return ok


# ---- operator programs: histories with shared sub-expressions ------------------------------------------
# The property quantifies over "programs": every operator object a user program holds - an operand that was combined
# into a larger expression, an operator whose adjoint was taken earlier, the same object used twice - is an operator
# "the library can construct", so each of them must satisfy the property whenever it is looked at.
# A program is a list of statements; statement k defines pool[k] (None for "use" / "check"):
#   ["new", spec]                           fresh tree (spec as above)
#   ["H", i]                                pool[i].H   (the first access caches it in pool[i].adj)
#   ["add"|"sub"|"comp", i, j]              pool[i] + pool[j], pool[i] - pool[j], pool[i] * pool[j]
#   ["neg"|"conj", i]  ["scale"|"rscale", z, i]
#   ["addn"|"compn", [i..], share]          Add([...]) / Compose([...]) called directly with a list
#   ["hstack"|"vstack", axis, [i..], share] ["diag", oaxis, iaxis, [i..], share]
#        share = k: the very list OBJECT that was passed to statement k is passed again (ops = [A, B]; Add(ops); Vstack(ops))
#   ["use", i, "H"|"HH"|"N"|"apply"]        touch pool[i] and discard the result
#   ["check"]                               look at every live object now (the oracle tests them; the correspondence only
#                                           takes their adjoints) - there is always one more check at the end
NARY = ("addn", "compn", "hstack", "vstack", "diag")
COMBINATORS = ("Add", "Compose", "Hstack", "Vstack", "Diag", "Conj")


def exec_stmt(st, pool, lists):
    from sigpy import linop as lo
    t = st[0]
    if t == "new":
        return build(st[1])
    if t == "H":
        return pool[st[1]].H
    if t == "add":
        return pool[st[1]] + pool[st[2]]
    if t == "sub":
        return pool[st[1]] - pool[st[2]]
    if t == "comp":
        return pool[st[1]] * pool[st[2]]
    if t == "neg":
        return -pool[st[1]]
    if t == "conj":
        return lo.Conj(pool[st[1]])
    if t == "scale":
        return scalar(st[1]) * pool[st[2]]
    if t == "rscale":
        return pool[st[2]] * scalar(st[1])
    if t in NARY:
        idx, share = st[-2], st[-1]
        ops = lists[share] if share is not None else [pool[i] for i in idx]
        lists[len(pool)] = ops
        if t == "addn":
            return lo.Add(ops)
        if t == "compn":
            return lo.Compose(ops)
        if t == "hstack":
            return lo.Hstack(ops, axis=st[1])
        if t == "vstack":
            return lo.Vstack(ops, axis=st[1])
        return lo.Diag(ops, oaxis=st[1], iaxis=st[2])
    if t == "use":
        Q = pool[st[1]]
        if st[2] == "H":
            Q.H
        elif st[2] == "HH":
            Q.H.H
        elif st[2] == "N":
            Q.N
        elif st[2] == "apply":
            Q(np.ones(Q.ishape, dtype=np.complex128))
        else:
            raise ValueError(st[2])
        return None
    if t == "check":
        return None
    raise ValueError(t)


def run_program(prog, on_check=None):
    pool, lists = [], {}
    with warnings.catch_warnings():
        warnings.simplefilter("ignore")
        for k, st in enumerate(prog):
            P = exec_stmt(st, pool, lists)
            pool.append(P)
            if st[0] == "check" and on_check is not None:
                on_check(k, pool)
        if on_check is not None:
            on_check(len(prog), pool)
    return pool


def prog_specs(prog):
    """the expression tree every statement denotes (None for use / check)"""
    out = []

    def fold(tag, ss):
        s = ss[0]
        for q in ss[1:]:
            s = [tag, s, q]
        return s

    for st in prog:
        t = st[0]
        if t == "new":
            s = st[1]
        elif t == "H":
            s = ["H", out[st[1]]]
        elif t in ("add", "sub", "comp"):
            s = [t, out[st[1]], out[st[2]]]
        elif t in ("neg", "conj"):
            s = [t, out[st[1]]]
        elif t in ("scale", "rscale"):
            s = [t, st[1], out[st[2]]]
        elif t == "addn":
            s = fold("add", [out[i] for i in st[1]])
        elif t == "compn":
            s = fold("comp", [out[i] for i in st[1]])
        elif t in ("hstack", "vstack"):
            s = [t, st[1], [out[i] for i in st[2]]]
        elif t == "diag":
            s = ["diag", st[1], st[2], [out[i] for i in st[3]]]
        else:
            s = None
        out.append(s)
    return out


def spec_size(spec):
    return sum(1 for _ in walk(spec))


def gen_program(rng, opaque=False, lim=MAXEL):
    """random program over a pool of live operators; returns (prog, stats).  Operands are drawn from the pool, so
    sub-expressions are shared between several live operators, combinators are nested in combinators of the same kind,
    an operand is used on either side, and adjoints are taken (cached) before, between and after the uses."""
    prog, pool, lists = [], [], {}
    stats = {}

    def note(k):
        stats[k] = stats.get(k, 0) + 1

    def push(st):
        k = len(pool)
        try:
            with warnings.catch_warnings():
                warnings.simplefilter("ignore")
                P = exec_stmt(st, pool, lists)
        except Exception:
            lists.pop(k, None)
            return None
        if P is not None and (prod(P.oshape) > lim or prod(P.ishape) > lim or not len(P.oshape) or not len(P.ishape)):
            lists.pop(k, None)
            return None
        operands = []
        if st[0] in NARY:
            operands = st[-2]
        elif st[0] in ("add", "sub", "comp"):
            operands = st[1:3]
        for i in operands:
            if type(pool[i]).__name__ in COMBINATORS:
                note("operand-is-combinator")
                if getattr(pool[i], "adj", None) is not None:
                    note("operand-with-cached-adjoint")
                if P is not None and type(pool[i]) is type(P):
                    note("nested-same-kind")
        if len(set(operands)) < len(operands):
            note("same-object-twice")
        prog.append(st)
        pool.append(P)
        note("stmt:" + st[0])
        return k

    def live():
        return [k for k, P in enumerate(pool) if P is not None]

    def partner(i):
        """an operator with pool[i]'s shapes: another live one, pool[i] itself, or a new one made from pool[i]"""
        c = [k for k in live() if k != i and ishp(pool[k]) == ishp(pool[i]) and oshp(pool[k]) == oshp(pool[i])]
        r = rng.random()
        if c and r < 0.55:
            return rng.choice(c)
        if r < 0.65:
            return i
        rr = rng.random()
        if rr < 0.25:
            return push(["conj", i])
        if rr < 0.45:
            return push([rng.choice(["scale", "rscale"]), gscalar(rng, nz=True), i])
        if rr < 0.75:
            q = push(["new", shape_preserving(rng, oshp(pool[i]))[0]])
            return None if q is None else push(["comp", q, i])
        q = push(["new", shape_preserving(rng, ishp(pool[i]))[0]])
        return None if q is None else push(["comp", i, q])

    def operands(i):
        ops = [i, partner(i)]
        if rng.random() < 0.3:
            ops.append(partner(i))
        if None in ops:
            return None
        if rng.random() < 0.5:
            rng.shuffle(ops)
        return ops

    for _ in range(20):
        if opaque:
            spec, A = gen_opaque(rng)
            if prod(A.ishape) > lim or prod(A.oshape) > lim:
                continue
        else:
            spec, A = gen_tree(rng, rng.choice([0, 0, 1, 1, 2]), None)
        if push(["new", spec]) is not None:
            break
    if not pool:
        push(["new", ["leaf", "id", dict(sh=[3])]])
    target = rng.randint(4, 10)
    moves = ["H", "use", "use", "check", "add", "add", "sub", "addn", "addn", "comp", "comp", "compn", "hstack", "vstack",
             "diag", "unary", "share"]
    tries = 0
    while len(prog) < target and tries < 80:
        tries += 1
        lv = live()
        comb = [k for k in lv if type(pool[k]).__name__ in COMBINATORS]
        i = rng.choice(comb) if comb and rng.random() < 0.6 else rng.choice(lv)
        m = rng.choice(moves)
        n0 = len(prog)
        if m == "H":
            push(["H", i])
        elif m == "use":
            push(["use", i, rng.choice(["H", "H", "H", "HH", "N", "apply"])])
        elif m == "check":
            if prog[-1][0] != "check":
                push(["check"])
        elif m in ("add", "sub"):
            j = partner(i)
            if j is not None:
                push([m, i, j] if rng.random() < 0.6 else [m, j, i])
        elif m == "addn":
            ops = operands(i)
            if ops:
                push(["addn", ops, None])
        elif m == "comp":
            r = rng.random()
            right = [k for k in lv if oshp(pool[k]) == ishp(pool[i])]
            left = [k for k in lv if ishp(pool[k]) == oshp(pool[i])]
            if right and r < 0.35:
                push(["comp", i, rng.choice(right)])
            elif left and r < 0.7:
                push(["comp", rng.choice(left), i])
            elif r < 0.85:
                h = push(["H", i])
                if h is not None:
                    push(["comp", h, i] if rng.random() < 0.5 else ["comp", i, h])
            else:
                q = push(["new", gen_leaf(rng, ish=oshp(pool[i]))[0]])
                if q is not None:
                    push(["comp", q, i])
        elif m == "compn":
            h = push(["H", i])
            if h is not None:
                push(["compn", rng.choice([[h, i], [i, h], [i, h, i], [h, i, h]]), None])
        elif m in ("hstack", "vstack"):
            ops = operands(i)
            if ops:
                side = ishp(pool[i]) if m == "hstack" else oshp(pool[i])
                ax = rng.choice([None] + list(range(-len(side) if probes()["neg_stack"] else 0, len(side))))
                push([m, ax, ops, None])
        elif m == "diag":
            ops = operands(i)
            if ops:
                if rng.random() < 0.4:
                    oax = iax = None
                else:
                    oax, iax = rng.randrange(len(pool[i].oshape)), rng.randrange(len(pool[i].ishape))
                push(["diag", oax, iax, ops, None])
        elif m == "unary":
            t = rng.choice(["neg", "conj", "scale", "rscale"])
            push([t, i] if t in ("neg", "conj") else [t, gscalar(rng, nz=True), i])
        elif m == "share":
            ks = [k for k in lists if prog[k][-1] is None]
            if ks:
                k = rng.choice(ks)
                t = rng.choice(["addn", "hstack", "vstack", "diag", "compn"])
                idx = list(prog[k][-2])
                st = {"addn": ["addn", idx, k], "compn": ["compn", idx, k], "hstack": ["hstack", None, idx, k],
                      "vstack": ["vstack", None, idx, k], "diag": ["diag", None, None, idx, k]}[t]
                if push(st) is not None:
                    note("shared-list-object")
        # having just built a combinator, often take its adjoint (or look at everything) before it is used again
        if len(prog) > n0 and pool[-1] is not None and type(pool[-1]).__name__ in COMBINATORS:
            r = rng.random()
            if r < 0.35:
                push(["use", len(pool) - 1, rng.choice(["H", "H", "HH", "N"])])
            elif r < 0.5:
                push(["check"])
    return prog, stats


def prog_key(P, what):
    return "C01:history:%s:%s" % (type(P).__name__, what)


def prog_oracle(ctx, prog, vseed, origin="search"):
    """the property on every live object of the program, at every "check" statement and at the end.  Deterministic in
    (prog, vseed): all vectors and call options are drawn from random.Random(vseed)."""
    import random
    vr = random.Random(vseed)
    specs = prog_specs(prog)
    state = dict(ok=True)

    def check(at, pool):
        seen = set()
        for k, P in enumerate(pool):
            if P is None or not state["ok"] or id(P) in seen:
                continue
            seen.add(id(P))
            real = vr.random() < 0.25
            case = dict(program=prog, vseed=vseed, obj=k, at=at, spec=specs[k], real=real)
            opts = spec_opts(vr, specs[k], real)
            if not live_oracle(ctx, P, specs[k], case, origin=origin, real=real, opts=opts, rng=vr,
                               keyf=lambda what, P=P: prog_key(P, what),
                               rkeyf=(lambda xx, yy, exc=None, P=P, k=k: live_real_key(P, specs[k], xx, yy, exc)) if real else None):
                state["ok"] = False

    pool, lists = [], {}
    with warnings.catch_warnings():
        warnings.simplefilter("ignore")
        for k, st in enumerate(prog):
            try:
                P = exec_stmt(st, pool, lists)
            except Exception as e:
                # the generator built this very program on the same source without the intermediate checks
                ctx.fail("C01:history:build", "statement %d of an operator program that can be built when nobody looks at "
                         "the operands in between fails once their adjoints have been taken" % k,
                         dict(program=prog, vseed=vseed, at=k), observed=repr(e.__cause__ or e), expected="operator",
                         origin=origin)
                return False
            pool.append(P)
            if st[0] == "check":
                check(k, pool)
            if not state["ok"]:
                return False
    check(len(prog), pool)
    return state["ok"]


def mul_allsum_spec(rng):
    ones = rng.choice([[1], [1], [1, 1]])
    msh = [rng.randint(2, 3) for _ in ones]
    if rng.random() < 0.3:
        msh = [2] + msh
    return ["leaf", "mul", dict(ish=ones, msh=msh, mult=[gint(rng) for _ in range(prod(msh))], conj=int(rng.random() < 0.5))]


def diag_mixed_spec(rng):
    sa, A = gen_leaf(rng, None)
    sb, _ = same_shape_variant(rng, sa, A, 1)
    if rng.random() < 0.5:
        return ["diag", None, rng.randrange(len(A.ishape)), [sa, sb]]
    return ["diag", rng.randrange(len(A.oshape)), None, [sa, sb]]


def neg_stack_spec(rng):
    sa, A = gen_leaf(rng, None)
    sb, _ = same_shape_variant(rng, sa, A, 1)
    t = rng.choice(["hstack", "vstack", "diag"])
    if t == "diag":
        return ["diag", -rng.randint(1, len(A.oshape)), -rng.randint(1, len(A.ishape)), [sa, sb]]
    side = A.ishape if t == "hstack" else A.oshape
    return [t, -rng.randint(1, len(side)), [sa, sb]]


def transpose_negative_axes(rng):
    sh = rshape(rng, nd=rng.choice([2, 3]))
    nd = len(sh)
    perm = rng.sample(range(nd), nd)
    axes = [a - nd if rng.random() < 0.5 else a for a in perm]
    if all(a >= 0 for a in axes):
        axes[0] -= nd
    return ["leaf", "transpose", dict(ish=sh, axes=axes)]


def search(ctx, budget):
    rng = ctx.rng
    warnings.simplefilter("ignore")
    # 1. replay disagreeing cases first
    for d in ctx.disagreements[:100]:
        c = d["case"]
        if "program" in c:
            for t in range(3):   # the same history, three draws of vectors / call options
                if not prog_oracle(ctx, c["program"], c.get("vseed", 0) + t, origin="disagreement"):
                    break
        else:
            dot_oracle(ctx, c["spec"], origin="disagreement")
    neg_ok = probes()["neg_stack"]
    n = int(300 * budget)
    # 2. every class of the model, plain
    for spec, _ in class_sweep(rng, max(2, int(3 * budget))):
        ctx.case(("oracle", json.dumps(spec)))
        ctx.count("oracle:class:" + spec[1])
        dot_oracle(ctx, spec)
        dot_oracle(ctx, spec, real=True)
        dot_oracle(ctx, spec, real=rng.random() < 0.3, opts=count_opts(ctx, spec_opts(rng, spec)))
    # 3. random trees (negative stacking axes always included here: the oracle reports them)
    for i in range(n):
        spec, _ = gen_tree(rng, rng.choice([1, 2, 3, 4]), None, stack_neg=(neg_ok or i % 10 == 0))
        ctx.case(("oracle", json.dumps(spec)))
        ctx.count("oracle:tree")
        dot_oracle(ctx, spec, opts=count_opts(ctx, spec_opts(rng, spec)) if i % 2 else None)
        if i % 3 == 0:
            dot_oracle(ctx, spec, real=True, opts=count_opts(ctx, spec_opts(rng, spec)) if i % 2 else None)
    # 4. classes outside the Lean model and the MRI factories
    for i in range(int(200 * budget)):
        spec, A = gen_opaque(rng)
        spec, A = wrap_opaque(rng, spec, A)
        ctx.case(("oracle", json.dumps(spec)))
        ctx.count("oracle:opaque:" + next(iter(leaves(spec)))[1])
        dot_oracle(ctx, spec, real=(i % 4 == 1), opts=count_opts(ctx, spec_opts(rng, spec)) if i % 2 else None)
    # 5. parameter regions with defects at the pinned commit: always probed by the oracle
    for i in range(max(3, int(4 * budget))):
        for name, f, key in (("transpose-negative-axes", transpose_negative_axes, "C01:Transpose:negative-axes"),
                             ("multiply-sum-all-axes", mul_allsum_spec, "C01:Multiply:adjoint-sum-all-axes"),
                             ("diag-mixed-none-axis", diag_mixed_spec, "C01:Diag:mixed-none-axis"),
                             ("stack-negative-axis", neg_stack_spec, "C01:stack:negative-axis")):
            spec = f(rng)
            ctx.case(("oracle", json.dumps(spec)))
            ctx.count("oracle:" + name)
            _KEY_OVERRIDE.append(key)   # regression streams keep the key of the defect they guard
            try:
                dot_oracle(ctx, spec)
            finally:
                _KEY_OVERRIDE.pop()
    # 5b. scalar multipliers: every scalar type x every route (Multiply(shape, a), conj=True, a * A, A * a), complex and
    #     real vectors, all call options
    if ctx.prop == "C01":
        for spec, _, route, tag in scalar_type_sweep(rng):
            ctx.case(("oracle", json.dumps(spec)))
            ctx.count("oracle:scalar-type:" + tag)
            _KEY_OVERRIDE.append("C01:scalar-multiplier:%s" % route)
            try:
                dot_oracle(ctx, spec)
                dot_oracle(ctx, spec, real=rng.random() < 0.5, opts=count_opts(ctx, spec_opts(rng, spec)))
            finally:
                _KEY_OVERRIDE.pop()
    # 6. operator programs: every live object of a history with shared operands and adjoints taken in between
    if ctx.prop == "C01":
        for i in range(int(160 * budget)):
            prog, stats = gen_program(rng, opaque=(i % 4 == 3), lim=MAXEL if i % 4 != 3 else 200)
            vseed = rng.randrange(1 << 30)
            ctx.case(("oracle-program", json.dumps(prog), vseed))
            ctx.count("oracle:program")
            for k, v in stats.items():
                ctx.count("oracle:program:" + k, v)
            prog_oracle(ctx, prog, vseed)


def count_opts(ctx, opts):
    for k, v in opts.items():
        if k == "layout":
            ctx.count("oracle:opt:layout:" + v[0])
            ctx.count("oracle:opt:layout:" + v[1])
        else:
            ctx.count("oracle:opt:" + k)
    return opts


def cvec(vals, shape, real):
    a = np.array([complex(p, q) for p, q in vals]).reshape(shape)
    return a.real.copy() if real else a


def replay(path, oracle=None):
    r = json.load(open(path))
    print(json.dumps(r, indent=1)[:3000])
    if r.get("kind") != "failing-input":
        return 0
    c = r["case"]
    ctx = common.Ctx(r.get("property", PROPERTY), "quick", 0)
    if "program" in c and oracle is None:
        # a history: re-run the whole program with the recorded vector seed (every check of the run is repeated)
        ok = prog_oracle(ctx, c["program"], c.get("vseed", 0), origin="replay")
        for f in ctx.failures:
            print("object %s at %s:" % (f["case"].get("obj"), f["case"].get("at")), f["what"])
            print("observed:", f["observed"], "expected:", f["expected"])
        print("replay:", "property holds on this input" if ok else "property FAILS on this input")
        return 0 if ok else 1
    x = y = x2 = y2 = None
    if "x" in c and oracle is None:
        A = None
        try:
            A = build(c["spec"])
        except Exception:
            pass
        if A is not None:
            real = bool(c.get("real"))
            x, y = cvec(c["x"], A.ishape, real), cvec(c["y"], A.oshape, real)
            if "x2" in c:
                x2, y2 = cvec(c["x2"], A.ishape, real), cvec(c["y2"], A.oshape, real)
            if (c.get("opts") or {}).get("single"):
                cast = (lambda v: v.astype(np.float32)) if real else (lambda v: v.astype(np.complex64))
                x, y = cast(x), cast(y)
                if x2 is not None:
                    x2, y2 = cast(x2), cast(y2)
    if oracle is None:
        ok = dot_oracle(ctx, c["spec"], x=x, y=y, origin="replay", real=c.get("real", False), opts=c.get("opts"),
                        x2=x2, y2=y2)
    else:
        ok = oracle(ctx, c)
    if in_model(c["spec"]):
        print("model:", ctx.driver(["%s mats %s" % (ctx.prop, " ".join(rpn(c["spec"])))])[0][:600])
    for f in ctx.failures:
        print("observed:", f["observed"], "expected:", f["expected"])
    print("replay:", "property holds on this input" if ok else "property FAILS on this input")
    return 0 if ok else 1
