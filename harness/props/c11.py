"""C11 — every proximal operator returns the exact minimiser, in the input's shape.

correspond: (PsdProj: see psd_stream — generated body of psd_proj run on exact spectral data vs the real code, plus the
            numerical contract of numpy's eigh)
            the real Prox classes / threshold functions vs the Lean model (Model/C11.lean, exact Gaussian
            rationals; scalar formulas = the generated Gen/Prox.lean) on exactly representable inputs, 1e-12;
            an exact stream (fractions.Fraction object arrays through the pure-numpy classes, equality);
            Duchi's threshold: proved to satisfy the KKT hypothesis of `l1_proj_kkt_*` (`duchi_theta` for sorted
            sequences over the generated `l1projSt` / `l1projCond`, `duchiTheta_kkt` for the executable model); the
            exact KKT test per case (stream duchi-kkt) stays as a run-time cross-check of the compiled driver.
            round 4: the model's l1_proj IS the generated body Gen/ProxBody.l1projWith (merge sort for xp.sort); stream
            stack-generated: the generated Stack._prox / util.split / util.vec / Prox.__call__ (driver op callgen) vs the
            real Stack; stream sort-contract: numpy.sort(|x|) is a non-decreasing permutation (hypothesis SortContract).
            round 5 (robustness of the tie): the translator reads the source through harness/translate/c11_norm.py (private
            helpers inlined, keyword arguments resolved, append-loops = comprehensions, single-use temporaries substituted,
            mirrored comparisons) so that behaviour-preserving respellings regenerate the SAME Gen definitions; where the
            generated definition legitimately changes (guard spelled with De Morgan / nested ifs / continue, commuted
            products and sums) the bridging proofs go through simp/omega/ring normal forms (checkShape_is_generated,
            l1projWith_shape, linf_bias_prox_real, conj_moreau, l1reg_prox_*_array).
search:     the property's own oracle on the real code, independent of the model: Fenchel-Young / normal-cone
            optimality certificates composed over the nesting, objective comparison against perturbations,
            projection inequality, feasible => unchanged, idempotence, output shape == input shape.
"""
import contextlib
import json
from fractions import Fraction as Fr

import numpy as np

from harness import common
from harness.translate import gen as G

PROPERTY = "C11"
LEAN_MODULES = ["SigpyVerif.Props.C11", "SigpyVerif.Props.C11Shape", "SigpyVerif.Props.C11Psd",
                "SigpyVerif.Props.C11Duchi", "SigpyVerif.Props.C11DuchiModel", "SigpyVerif.Props.C11L1Body",
                "SigpyVerif.Props.C11Stack", "SigpyVerif.Props.C11More"]
THEOREMS = ["SigpyVerif.C11." + t for t in [
    "prox_is_minimiser", "prox_unique", "prox_iff_variational", "proj_feasible_fixed", "proj_idempotent",
    "softThresh_real", "csoft_eq", "soft_thresh_prox_real", "soft_thresh_prox_complex",
    "l1reg_prox_real", "l1reg_prox_complex", "box_proj_scalar", "box_proj",
    "l2_proj_prox", "l2_proj_prox_complex", "l2proj_bias_prox", "l2_proj_axes",
    "linf_eq_clamp", "linf_proj_prox_real", "linf_proj_prox_complex", "linf_complex_eq_clamp", "linf_bias_prox_real",
    "l2reg_proxh", "l2reg_proxh_nobias", "l2reg_prox_bias", "l2reg_prox_plain",
    "conj_moreau", "conj_moreau_abstract", "stack_separable₂", "stack_separable", "unitary_transform_prox",
    "l1_proj_kkt_real", "l1_proj_kkt_complex", "l1_proj_feasible",
    "hard_thresh_minimiser", "isConjOn_half_sq", "prox_shape", "l1proj_shape",
    # thresh.psd_proj / PsdProj (Props/C11Psd.lean): generated body `Gen.Prox.psdProjWith` over Mathlib matrices
    "psdClamp_eq", "psdEighArg_eq", "psdRecon_eq", "psd_proj_spectral", "psd_proj_skew", "psd_proj_variational",
    "psd_proj_nearest", "psd_proj_prox", "psd_proj_prox_real", "psd_proj_prox_complex", "psd_proj_diag",
    # Duchi's sort/cumsum index search of thresh.l1_proj (Props/C11Duchi.lean)
    "duchi_core", "duchi_theta", "duchi_index_exists", "duchi_kkt_of_sorted", "l1_proj_duchi_real", "l1_proj_duchi_complex",
    # … and of its executable model Model/C11.duchiTheta (Props/C11DuchiModel.lean)
    "sortDesc_perm", "sortDesc_sorted", "cumsum_eq", "duchi_zip_eq", "duchiTheta_kkt",
    # the whole generated body of thresh.l1_proj (Gen/ProxBody.lean l1projWith; Props/C11L1Body.lean): sort enters only
    # through its contract (or is the model's own merge sort), cumsum / arange / flatnonzero.max are executable list code
    "lsum_eq_sum", "cumsumFrom_getD", "flatnonzeroMax_some", "flatnonzeroMax_none", "l1body_st_eq", "l1body_theta",
    "l1body_cases", "msort_contract", "l1_proj_body_real", "l1_proj_body_complex", "l1_proj_exact_real",
    "l1_proj_exact_complex", "l1_proj_body_feasible", "l1_proj_body_shape",
    # shape clause: generated body / generated Prox.__call__ guard (Props/C11Shape.lean)
    "l1projWith_shape", "checkShape_is_generated", "guard_is_generated",
    # Stack._prox + util.split + util.vec generated (Props/C11Stack.lean)
    "utilSplit_flatten", "utilVec_eq", "stackProxWith_blocks", "norm_sq_blocks", "stack_flat_prox", "stack_generated_prox",
    # class variants (Props/C11More.lean)
    "l1reg_prox_real_array", "l1reg_prox_complex_array", "isProxOn_slices", "l2_proj_axes_generated",
    "l2proj_axes_bias_generated", "box_proj_point", "linf_bias_prox_complex", "csoft_kernel_arith", "csoft_polar",
    "hard_thresh_tie", "hard_thresh_complex",
]]

# Text for the integrator (harness/mkmanifest.py CLAIMED["C11"] is a shared file; these replace the two clauses
# "Duchi's index search is certified per case …, not proved in general" and "psd_proj's spectral theorem is NOT proved").
MANIFEST_TEXT_ADD = (
    "thresh.psd_proj: its body is translator-generated (Gen/Prox.lean psdProjWith over the PsdOps record: Hermitian part, "
    "eigh as a parameter, eigenvalue clamp, V diag(w) V^H) and proved (psd_proj_prox, any RCLike field) to be the Frobenius "
    "projection onto the PSD cone of an arbitrary square input under the spectral contract of eigh (V^H V = I, "
    "V diag(w) V^H = A, w real), via psd_proj_spectral (P PSD, H-P NSD, (H-P)P = 0, Re<H-P,Q-P> <= 0) and psd_proj_skew; "
    "Duchi's sort/cumsum index search is proved to return a KKT threshold (duchi_theta over the generated l1projSt/"
    "l1projCond; l1_proj_duchi_real/complex: soft_thresh(st[idx], y) is the l1-ball projection; duchiTheta_kkt for the "
    "executable model).")
MANIFEST_NOTE = (
    "Trusted: Lean kernel; translator gen_c11 (symbolic execution of straight-line _prox bodies and numba kernels; "
    "array-level extraction of psd_proj over PsdOps) with its source normaliser c11_norm (helper inlining, keyword resolution, "
    "append-loop = comprehension, single-use temporaries; pure-expression reordering assumed unobservable); numpy elementwise evaluation / sort / cumsum / flatnonzero.max / norm / "
    "split-vec plumbing tied by correspondence (hypotheses of l1_proj_duchi_*: sort(..)[::-1] is a non-increasing arrangement, "
    "cumsum the partial sums); numpy.linalg.eigh's spectral contract (hypothesis of psd_proj_prox; checked numerically on "
    "every run incl. repeated eigenvalues) and the meaning of +, conj, .T, /k, @, broadcasting *, masked assignment fixed by "
    "the PsdOps instances (Mathlib matrices vs exact arrays, compared with the real code on exact spectral data); IEEE "
    "rounding not modelled.")

KEY_L1 = "C11:l1_proj:feasible-shape"
KEY_PSD = "C11:psd_proj:repeated-eigenvalues"
TOL_CORR = 1e-12
TOL_PSD = 1e-11   # eigh + two matrix products, n ≤ 5: observed ≤ 2.4e-15 relative; semantic differences are ≥ 1e-3


def translate(ctx):
    G.regenerate(ctx, ["Prox", "ProxBody"])


# ---- exact values ---------------------------------------------------------------------------------
def fr(s):
    return Fr(s)


def fs(q):
    q = Fr(q)
    return str(q.numerator) if q.denominator == 1 else "%d/%d" % (q.numerator, q.denominator)


def cs(z):
    re, im = z
    return fs(re) if Fr(im) == 0 else "%s;%s" % (fs(re), fs(im))


def L(x):
    x = list(x)
    return ",".join(str(int(v)) for v in x) if x else "-"


def CL(zs):
    zs = list(zs)
    return ",".join(cs(z) for z in zs) if zs else "-"


def to_float(zs, shape, cplx):
    a = np.array([complex(float(Fr(z[0])), float(Fr(z[1]))) for z in zs], dtype=np.complex128).reshape(shape)
    return a if cplx else np.ascontiguousarray(a.real)


def is_complex(zs):
    return any(Fr(z[1]) != 0 for z in zs)


PHASES = [(Fr(1), Fr(0)), (Fr(-1), Fr(0)), (Fr(0), Fr(1)), (Fr(3, 5), Fr(4, 5)), (Fr(-4, 5), Fr(3, 5)),
          (Fr(5, 13), Fr(-12, 13)), (Fr(8, 17), Fr(15, 17)), (Fr(0), Fr(-1))]


def prod(s):
    r = 1
    for v in s:
        r *= int(v)
    return r


# ---- expression trees -----------------------------------------------------------------------------
# tree = dict(t=..., shape=[..], params as strings "p/q" or lists of [re, im] string pairs, children)
def tokens(t):
    k = t["t"]
    if k == "noop":
        return ["noop", L(t["shape"])]
    if k == "l1reg":
        if t.get("w") is not None:
            # L1Reg with an array lamda (per-entry weights w): g(x) = sum_i w_i |x_i| is separable, so the model's value
            # is the Stack of one scalar-lamda L1Reg per entry (row-major), put back into the input's shape
            n = len(t["w"])
            st = ["stack", str(n)]
            for v in t["w"]:
                st += ["l1reg", "1", v]
            if list(t["shape"]) == [n]:
                return st
            eye = "|".join(CL([("1" if i == j else "0", "0") for j in range(n)]) for i in range(n))
            return ["unitary", L(t["shape"]), str(n), eye] + st
        return ["l1reg", L(t["shape"]), t["lamda"]]
    if k == "l2reg":
        y = "none" if t["y"] is None else CL(t["y"])
        if t.get("h") is None:
            return ["l2reg", L(t["shape"]), t["lamda"], y]
        return ["l2regH", L(t["shape"]), t["lamda"], y] + tokens(t["h"])
    if k == "l2proj":
        return ["l2proj", L(t["shape"]), t["eps"], CL(t["y"]), "none" if t["axes"] is None else L(t["axes"])]
    if k == "linf":
        return ["linf", L(t["shape"]), t["eps"], "none" if t["bias"] is None else CL(t["bias"])]
    if k == "l1proj":
        return ["l1proj", L(t["shape"]), t["eps"]]
    if k == "box":
        return ["box", L(t["shape"]), ",".join(t["lo"]), ",".join(t["hi"])]
    if k == "conj":
        return ["conj"] + tokens(t["p"])
    if k == "stack":
        out = ["stack", str(len(t["ps"]))]
        for p in t["ps"]:
            out += tokens(p)
        return out
    if k == "unitary":
        m = "|".join(CL(r) for r in t["mat"])
        return ["unitary", L(t["ishape"]), L(t["oshape"]), m] + tokens(t["p"])
    raise ValueError(k)


def tshape(t):
    k = t["t"]
    if k == "conj":
        return tshape(t["p"])
    if k == "stack":
        return [sum(prod(tshape(p)) for p in t["ps"])]
    if k == "unitary":
        return list(t["ishape"])
    return list(t["shape"])


def contains(t, kind):
    if t["t"] == kind:
        return True
    for c in children(t):
        if contains(c, kind):
            return True
    return False


def children(t):
    k = t["t"]
    if k == "conj" or k == "unitary":
        return [t["p"]]
    if k == "stack":
        return list(t["ps"])
    if k == "l2reg" and t.get("h") is not None:
        return [t["h"]]
    return []


def describe(t):
    k = t["t"]
    c = children(t)
    return k + ("(" + ",".join(describe(x) for x in c) + ")" if c else "")


LAYOUTS = ("C", "F", "strided", "rev")


def relayout(a, layout):
    """the same array VALUE in another memory layout (the property quantifies over arrays, not over their strides):
    Fortran order, a strided view into a larger buffer, a view with a negative stride"""
    a = np.asarray(a)
    if layout in (None, "C") or a.ndim == 0:
        return a
    if layout == "F":
        return np.asfortranarray(a)
    if layout == "strided":
        big = np.zeros(a.shape[:-1] + (2 * a.shape[-1] + 1,), dtype=a.dtype)
        v = big[..., 1::2]
        v[...] = a
        return v
    if layout == "rev":
        return np.ascontiguousarray(a[..., ::-1])[..., ::-1]
    raise ValueError(layout)


def _arr(zs, shape, cplx, scalar_ok=True, exact=False, layout=None):
    """bias / bound parameter for the real class: a scalar when all entries agree (exercises broadcasting)"""
    if exact:
        a = np.array([Fr(z[0]) for z in zs], dtype=object).reshape(shape)
        return a
    if scalar_ok and len(set((str(z[0]), str(z[1])) for z in zs)) == 1:
        z = zs[0]
        return complex(float(Fr(z[0])), float(Fr(z[1]))) if cplx else float(Fr(z[0]))
    return relayout(to_float(zs, shape, cplx), layout)


def weights_array(t, layout=None):
    """the ndarray handed to L1Reg as `lamda` for a tree with per-entry weights: dtype float64 / float32 / int64 (the values
    are exactly representable in it by construction), optionally only the last axis (broadcast), in the given layout.
    A fresh array on every call: the oracle's reference never shares memory with what the object under test holds."""
    spec = t.get("wspec") or {}
    dt = dict(float64=np.float64, float32=np.float32, int64=np.int64)[spec.get("dtype", "float64")]
    vals = [Fr(v) for v in t["w"]]
    sh = list(t["shape"])
    if spec.get("bcast"):
        vals, sh = vals[:sh[-1]], sh[-1:]
    if dt is np.int64:
        a = np.array([int(v) for v in vals], dtype=np.int64).reshape(sh)
    else:
        a = np.array([float(v) for v in vals], dtype=dt).reshape(sh)
    return relayout(a, spec.get("layout", layout))


def wfloat(t, shape=None):
    """float64 reference copy of the weights of an l1reg tree (scalar lamda: a Python float)"""
    if t.get("w") is None:
        return float(Fr(t["lamda"]))
    return np.array([float(Fr(v)) for v in t["w"]]).reshape(t["shape"] if shape is None else shape)


def make_linop(t):
    from sigpy import linop
    u = t["linop"]
    if u["kind"] == "matmul":
        m = np.array([[complex(float(Fr(z[0])), float(Fr(z[1]))) for z in row] for row in u["m"]])
        if not np.iscomplexobj(m) or np.all(m.imag == 0):
            m = np.ascontiguousarray(m.real)
        return linop.MatMul(t["ishape"], m)
    if u["kind"] == "transpose":
        return linop.Transpose(t["ishape"], tuple(u["axes"]))
    if u["kind"] == "flip":
        return linop.Flip(t["ishape"], axes=u["axes"])
    if u["kind"] == "circshift":
        return linop.Circshift(t["ishape"], u["shifts"], axes=u["axes"])
    if u["kind"] == "reshape":
        return linop.Reshape(t["oshape"], t["ishape"])
    if u["kind"] == "fft":
        return linop.FFT(t["ishape"], axes=u["axes"])
    raise ValueError(u["kind"])


def build(t, cplx, registry=None, exact=False, layout=None):
    """the real sigpy Prox object of a tree (layout: memory layout of every ndarray parameter handed to a constructor)"""
    from sigpy import prox
    k = t["t"]
    sh = t.get("shape")
    f = (lambda s: Fr(s)) if exact else (lambda s: float(Fr(s)))
    if k == "noop":
        p = prox.NoOp(sh)
    elif k == "l1reg":
        p = prox.L1Reg(sh, weights_array(t, layout) if t.get("w") is not None else f(t["lamda"]))
    elif k == "l2reg":
        y = None if t["y"] is None else _arr(t["y"], sh, cplx, exact=exact, layout=layout)
        h = None if t.get("h") is None else build(t["h"], cplx, registry, exact, layout)
        p = prox.L2Reg(sh, f(t["lamda"]), y=y, proxh=h)
    elif k == "l2proj":
        p = prox.L2Proj(sh, f(t["eps"]), y=_arr(t["y"], sh, cplx, layout=layout), axes=t["axes"])
    elif k == "linf":
        p = prox.LInfProj(sh, f(t["eps"]), bias=None if t["bias"] is None else _arr(t["bias"], sh, cplx, layout=layout))
    elif k == "l1proj":
        p = prox.L1Proj(sh, f(t["eps"]))
    elif k == "box":
        lo = _arr([(v, 0) for v in t["lo"]], sh, False, exact=exact, layout=layout)
        hi = _arr([(v, 0) for v in t["hi"]], sh, False, exact=exact, layout=layout)
        p = prox.BoxConstraint(sh, lo, hi)
    elif k == "psd":
        p = prox.PsdProj(sh)
    elif k == "conj":
        p = prox.Conj(build(t["p"], cplx, registry, exact, layout))
    elif k == "stack":
        p = prox.Stack([build(q, cplx, registry, exact, layout) for q in t["ps"]])
    elif k == "unitary":
        p = prox.UnitaryTransform(build(t["p"], cplx, registry, exact, layout), make_linop(t))
    else:
        raise ValueError(k)
    if registry is not None:
        registry[id(p)] = t
        registry.setdefault("_keep", []).append(p)
    return p


# ---- case generation (exactly representable inputs) -----------------------------------------------
NORM_TUPLES = {1: [[1], [2], [3]], 2: [[3, 4], [5, 12], [0, 2], [4, 3]], 3: [[1, 2, 2], [2, 3, 6], [4, 4, 7], [0, 3, 4]],
               4: [[1, 1, 1, 1], [2, 4, 5, 6], [1, 2, 2, 4], [0, 0, 3, 4]], 6: [[1, 1, 1, 2, 3, 3], [1, 1, 3, 3, 4, 8], [0, 1, 2, 2, 0, 0]],
               8: [[1, 1, 1, 1, 1, 1, 1, 3], [2, 2, 2, 2, 2, 2, 2, 6]], 9: [[1] * 9, [1, 2, 2, 0, 0, 0, 0, 0, 0]],
               12: [[1, 1, 1, 1, 2, 2, 2, 2, 2, 2, 2, 2], [0] * 9 + [1, 2, 2]], 5: [[1, 1, 1, 2, 3], [0, 0, 1, 2, 2]],
               16: [[1] * 16], 18: [[1] * 9 + [0] * 8 + [4]], 24: [[1] * 16 + [0] * 7 + [3]], 27: [[1] * 25 + [0, 0]],
               10: [[1] * 9 + [4]], 15: [[1] * 9 + [0] * 5 + [4]], 20: [[1] * 16 + [0] * 4], 7: [[1, 1, 1, 1, 2, 2, 2]]}


def rshape(rng, maxsize=12):
    while True:
        nd = rng.choice([1, 1, 2, 2, 3])
        sh = [rng.randint(1, 4) for _ in range(nd)]
        if prod(sh) <= maxsize:
            return sh


def rq(rng, lo=-8, hi=8, den=(1, 1, 2, 4)):
    return Fr(rng.randint(lo, hi), rng.choice(den))


def rpos(rng):
    return Fr(rng.randint(1, 8), rng.choice([1, 1, 2, 4, 3]))


def phase_vec(rng, n, cplx, mixing):
    """per-entry unit phases; one global phase when a mixing operator (matmul) is around"""
    if not cplx:
        return [PHASES[0]] * n
    if mixing:
        u = rng.choice(PHASES)
        return [u] * n
    return [rng.choice(PHASES) for _ in range(n)]


def times(c, u):
    return (str(Fr(c) * u[0]), str(Fr(c) * u[1]))


def rvals(rng, n, kind="mixed"):
    """rational magnitudes (signed) with zeros, ties and small denominators"""
    out = []
    for _ in range(n):
        r = rng.random()
        if r < 0.15:
            out.append(Fr(0))
        elif r < 0.3 and out:
            out.append(rng.choice(out) * rng.choice([1, -1]))
        else:
            out.append(rq(rng))
    return out


def norm_vals(rng, n):
    """signed rational vector with a rational Euclidean norm"""
    if n in NORM_TUPLES and rng.random() < 0.9:
        base = list(rng.choice(NORM_TUPLES[n]))
        rng.shuffle(base)
        s = Fr(rng.randint(1, 4), rng.choice([1, 2, 1]))
        return [s * b * rng.choice([1, -1]) for b in base]
    v = [Fr(0)] * n
    v[rng.randrange(n)] = rq(rng)
    return v


def gen_leaf(rng, sh, cplx, ph, allow=("noop", "l1reg", "l2reg", "l2proj", "linf", "l1proj", "box"), nested=False):
    n = prod(sh)
    k = rng.choice([a for a in allow if not (a == "box" and cplx)] or ["noop"])
    if k == "noop":
        return dict(t="noop", shape=sh)
    if k == "l1reg":
        t = dict(t="l1reg", shape=sh, lamda=str(rpos(rng)))
        if rng.random() < 0.45:
            # lamda as an ndarray of per-entry weights (>= 0, zeros = unpenalised entries, ties), in a storage dtype that
            # represents them exactly, full-shape or last-axis (broadcast), any memory layout
            # (float32 weights are left out on purpose: lamda * alpha is then rounded to float32, a 1e-8 relative change of
            # the threshold that is the parameter's own precision, not a defect, and far above the 1e-12 of the comparison)
            dt = rng.choice(["float64", "float64", "float64", "int64"])
            if dt == "int64":
                gen = lambda: Fr(rng.randint(0, 4))
            else:
                gen = lambda: rpos(rng) if rng.random() < 0.85 else Fr(0)
            bc = len(sh) > 1 and rng.random() < 0.25
            if bc:
                row = [gen() for _ in range(sh[-1])]
                w = row * (n // sh[-1])
            else:
                w = [gen() for _ in range(n)]
            t["w"] = [str(v) for v in w]
            t["wspec"] = dict(dtype=dt, bcast=bool(bc), layout=rng.choice(LAYOUTS))
        return t
    if k == "l2reg":
        y = None
        if rng.random() < 0.6:
            y = [times(c, u) for c, u in zip(([rq(rng)] * n if rng.random() < 0.3 else [rq(rng) for _ in range(n)]), ph)]
            if len(set(ph)) > 1 and len(set(map(tuple, y))) == 1:
                pass
        return dict(t="l2reg", shape=sh, lamda=str(rpos(rng) if rng.random() < 0.9 else Fr(0)), y=y, h=None)
    if k == "l2proj":
        axes = None
        if len(sh) > 1 and rng.random() < 0.5:
            axes = sorted(set(rng.choice(range(-len(sh), len(sh))) for _ in range(rng.randint(1, len(sh)))))
            seen, a2 = set(), []
            for a in axes:
                if a % len(sh) not in seen:
                    seen.add(a % len(sh))
                    a2.append(a)
            axes = a2
        # bias only without a phase pattern problem: real multiple of the entry phase, mostly zero
        if rng.random() < 0.6:
            y = [("0", "0")] * n
        else:
            y = [times(c, u) for c, u in zip([rq(rng, -3, 3, (1,)) for _ in range(n)], ph)]
        return dict(t="l2proj", shape=sh, eps=str(rpos(rng)), y=y, axes=axes)
    if k == "linf":
        bias = None
        if rng.random() < 0.5:
            cc = [rq(rng, -3, 3)] * n if rng.random() < 0.4 else [rq(rng, -3, 3) for _ in range(n)]
            bias = [times(c, u) for c, u in zip(cc, ph)]
        return dict(t="linf", shape=sh, eps=str(rpos(rng)), bias=bias)
    if k == "l1proj":
        return dict(t="l1proj", shape=sh, eps=str(rpos(rng) * rng.choice([1, 1, 3])))
    if k == "box":
        lo = [rq(rng, -4, 2) for _ in range(n)] if rng.random() < 0.5 else [rq(rng, -4, 2)] * n
        wid = [rpos(rng) if rng.random() < 0.9 else Fr(0) for _ in range(n)]
        if rng.random() < 0.5:
            wid = [wid[0]] * n
        return dict(t="box", shape=sh, lo=[str(a) for a in lo], hi=[str(a + w) for a, w in zip(lo, wid)])
    raise ValueError(k)


def perm_matrix(lin, ish, osh):
    """dense 0/1 matrix of a permutation-type Linop, by probing with basis vectors (trusted: C01/C03/C09)"""
    n = prod(ish)
    rows = [[("0", "0")] * n for _ in range(prod(osh))]
    for j in range(n):
        e = np.zeros(n)
        e[j] = 1.0
        col = np.asarray(lin(e.reshape(ish))).ravel()
        for i, v in enumerate(col):
            if v != 0:
                rows[i][j] = (str(Fr(float(np.real(v)))), "0")
    return rows


ROT = [[[Fr(3, 5), Fr(4, 5)], [Fr(-4, 5), Fr(3, 5)]],
       [[Fr(0), Fr(1)], [Fr(1), Fr(0)]],
       [[Fr(5, 13), Fr(-12, 13)], [Fr(12, 13), Fr(5, 13)]],
       [[Fr(1, 3), Fr(2, 3), Fr(2, 3)], [Fr(2, 3), Fr(1, 3), Fr(-2, 3)], [Fr(2, 3), Fr(-2, 3), Fr(1, 3)]],
       [[Fr(2, 7), Fr(3, 7), Fr(6, 7)], [Fr(3, 7), Fr(-6, 7), Fr(2, 7)], [Fr(6, 7), Fr(2, 7), Fr(-3, 7)]]]


def gen_unitary(rng, ish, cplx, inner_fn, mixing_ok=True):
    """returns (tree, mixing) — a UnitaryTransform around inner_fn(oshape)"""
    kinds = ["flip", "circshift"]
    if len(ish) >= 2:
        kinds += ["transpose", "reshape", "transpose"]
    if mixing_ok and len(ish) == 2 and ish[0] in (2, 3):
        kinds += ["matmul", "matmul", "matmul"]
    if len(ish) == 1 and ish[0] in (4, 6):
        kinds += ["reshape"]
    kind = rng.choice(kinds)
    t = dict(t="unitary", ishape=list(ish))
    if kind == "matmul":
        m = rng.choice([r for r in ROT if len(r) == ish[0]])
        t["linop"] = dict(kind="matmul", m=[[(str(v), "0") for v in row] for row in m])
        t["oshape"] = list(ish)
        k = ish[1]
        n = ish[0]
        rows = []
        for i in range(n):
            for a in range(k):
                row = [("0", "0")] * (n * k)
                for j in range(n):
                    row[j * k + a] = (str(m[i][j]), "0")
                rows.append(row)
        t["mat"] = rows
        t["p"] = inner_fn(t["oshape"])
        return t, True
    if kind == "transpose":
        axes = list(range(len(ish)))
        while axes == list(range(len(ish))):
            rng.shuffle(axes)
        if rng.random() < 0.3:
            axes = [a - len(ish) if rng.random() < 0.5 else a for a in axes]
        t["linop"] = dict(kind="transpose", axes=axes)
        t["oshape"] = [ish[a] for a in axes]
    elif kind == "flip":
        t["linop"] = dict(kind="flip", axes=[rng.randrange(len(ish))])
        t["oshape"] = list(ish)
    elif kind == "circshift":
        t["linop"] = dict(kind="circshift", shifts=[rng.randint(1, 3)], axes=[rng.randrange(len(ish))])
        t["oshape"] = list(ish)
    else:
        n = prod(ish)
        opts = [[n]] + [[a, n // a] for a in (2, 3) if n % a == 0 and [a, n // a] != list(ish)]
        opts = [o for o in opts if o != list(ish)] or [[1, n]]
        t["linop"] = dict(kind="reshape")
        t["oshape"] = rng.choice(opts)
    t["mat"] = perm_matrix(make_linop(t), t["ishape"], t["oshape"])
    t["p"] = inner_fn(t["oshape"])
    return t, False


def gen_tree(rng, sh, cplx, ph, depth, mixing=False):
    """random nesting over shape sh; ph = per-entry phases of the data (kept consistent for biases)"""
    n = prod(sh)
    r = rng.random()
    leafs = ("noop", "l1reg", "l2reg", "l2proj", "linf", "l1proj", "box")
    if len(sh) > 1:  # ≥2-D L1Proj has its own stream (known defect at the pinned commit)
        leafs = tuple(a for a in leafs if a != "l1proj")
    if depth <= 0 or r < 0.25:
        return gen_leaf(rng, sh, cplx, ph, allow=leafs)
    if r < 0.45:
        return dict(t="conj", p=gen_tree(rng, sh, cplx, ph, depth - 1, mixing))
    if r < 0.6:
        y = None
        if rng.random() < 0.6:
            y = [times(c, u) for c, u in zip([rq(rng, -4, 4) for _ in range(n)], ph)]
        return dict(t="l2reg", shape=sh, lamda=str(rpos(rng)), y=y, h=gen_tree(rng, sh, cplx, ph, depth - 1, mixing))
    if r < 0.8 and len(sh) == 1 and n >= 2:
        # Stack: split n into blocks, each block gets its own (possibly multi-dimensional) shape
        k = rng.randint(1, min(3, n))
        cuts = sorted(rng.sample(range(1, n), k - 1)) if k > 1 else []
        sizes = [b - a for a, b in zip([0] + cuts, cuts + [n])]
        ps, off = [], 0
        for s in sizes:
            bs = [s]
            if s in (4, 6) and rng.random() < 0.5:
                bs = [2, s // 2]
            ps.append(gen_tree(rng, bs, cplx, ph[off:off + s], depth - 1, mixing))
            off += s
        return dict(t="stack", ps=ps)
    if r < 1.0:
        # phases must follow the permutation: simplest is a global phase under any unitary
        if cplx and len(set(ph)) > 1:
            return gen_leaf(rng, sh, cplx, ph, allow=leafs)
        t, _ = gen_unitary(rng, sh, cplx, lambda osh: gen_tree(rng, osh, cplx, [ph[0]] * n, depth - 1, True),
                           mixing_ok=True)
        return t
    return gen_leaf(rng, sh, cplx, ph, allow=leafs)


def needs_norm(t):
    return contains(t, "l2proj")


def contains_weights(t):
    if t["t"] == "l1reg" and t.get("w") is not None:
        return True
    return any(contains_weights(c) for c in children(t))


def needs_mixing(t):
    if t["t"] == "unitary":
        return True
    return any(needs_mixing(c) for c in children(t))


def gen_case(rng, kind=None):
    """one correspondence case: tree + alpha + exactly representable input"""
    cplx = rng.random() < 0.4
    kind = kind or rng.choice(["leaf", "leaf", "nest", "nest", "nest"])
    if kind == "leaf":
        sh = rshape(rng)
    else:
        sh = rng.choice([[rng.randint(2, 8)], [rng.randint(2, 8)], [2, 2], [2, 3], [3, 2], [2, 2, 2], [3, 1, 2], [4]])
    n = prod(sh)
    mixing = kind == "nest"
    ph = phase_vec(rng, n, cplx, mixing and rng.random() < 0.7)
    if kind == "leaf":
        t = gen_leaf(rng, sh, cplx, ph)
    else:
        t = gen_tree(rng, sh, cplx, ph, rng.choice([1, 2, 2, 3]))
    if cplx and contains(t, "box"):
        cplx = False
        ph = [PHASES[0]] * n
        t = strip_phase(t)
    if cplx and needs_mixing(t) and len(set(ph)) > 1:
        ph = [ph[0]] * n
    alpha = rpos(rng)
    mags = norm_vals(rng, n) if (needs_norm(t) and rng.random() < 0.8) else rvals(rng, n)
    # structured inputs: exactly on the threshold / on the ball boundary / interior / zero
    r = rng.random()
    if t["t"] == "l1reg" and r < 0.3:
        lams = [Fr(v) * alpha for v in (t["w"] if t.get("w") is not None else [t["lamda"]] * n)]
        mags = [lam * rng.choice([1, -1, 1, 2, Fr(1, 2), 0]) for lam in lams]
    elif t["t"] == "linf" and r < 0.3:
        e = Fr(t["eps"])
        mags = [e * rng.choice([1, -1, 2, Fr(1, 2), 0, -3]) for _ in range(n)]
    elif t["t"] == "l2proj" and t["axes"] is None and r < 0.5 and n in NORM_TUPLES:
        base = list(rng.choice(NORM_TUPLES[n]))
        nb = Fr(int(round(sum(b * b for b in base) ** 0.5)))
        if nb * nb == sum(b * b for b in base) and nb > 0:
            f = rng.choice([1, 1, Fr(1, 2), 2, Fr(3, 4)])  # on the boundary, inside, outside
            mags = [Fr(t["eps"]) / nb * b * f * rng.choice([1, -1]) for b in base]
    elif t["t"] == "l1proj" and r < 0.5:
        e = Fr(t["eps"])
        s = sum(abs(m) for m in mags)
        if s > 0:
            f = rng.choice([1, 1, Fr(1, 2), Fr(1, 4), 2])  # boundary, feasible, outside
            mags = [m * e / s * f for m in mags]
    elif r > 0.95:
        mags = [Fr(0)] * n
    x = [times(m, u) for m, u in zip(mags, ph)]
    if not cplx:
        x = [(a, "0") for a, _ in x]
    c = dict(tree=t, alpha=str(alpha), shape=sh, x=[list(z) for z in x], cplx=bool(cplx and True))

    def other_input():
        if rng.random() < 0.3:
            return dict(x=c["x"])  # the same data with another alpha: a parameter sweep on one object
        zs = [times(m, u) for m, u in zip(rvals(rng, n), ph)]
        return dict(x=[[a, b if cplx else "0"] for a, b in zs])
    decorate(rng, c, lambda: str(rpos(rng)), other_input)
    return c


def decorate(rng, c, new_alpha, other_input):
    """the circumstances of the call the property quantifies over implicitly: P(alpha, y) is a function of (alpha, y), so
    it must be the minimiser whatever was evaluated before on the same object (`hist`: earlier calls with other step
    sizes / data, some of them on a second live object built from the same description) and whatever the memory layout
    of y (`ylayout`) and of the ndarray parameters given to the constructors (`playout`) is"""
    if rng.random() < 0.4:
        hist = []
        for _ in range(rng.choice([1, 1, 2, 3])):
            e = dict(alpha=c["alpha"] if rng.random() < 0.15 else new_alpha(), obj=1 if rng.random() < 0.2 else 0)
            e.update(other_input())
            hist.append(e)
        c["hist"] = hist
    if rng.random() < 0.3:
        c["ylayout"] = rng.choice(LAYOUTS[1:])
    if rng.random() < 0.3:
        c["playout"] = rng.choice(LAYOUTS[1:])
    return c


def falpha(a):
    return float(Fr(a)) if isinstance(a, str) else float(a)


def entry_input(c, e):
    """the input array of the main call (e = c) or of a history entry, in the case's input layout"""
    if "y" in e:
        y = np.array(e["y"], copy=True)
    elif "y_re" in e:
        y = np.array(e["y_re"], dtype=float)
        if e.get("y_im") is not None:
            y = y + 1j * np.array(e["y_im"], dtype=float)
        y = y.reshape(c["shape"])
    else:
        y = to_float(e["x"], c["shape"], c["cplx"])
    return relayout(y, c.get("ylayout"))


def strip_phase(t):
    """make every bias real (used when a box forces real data)"""
    t = dict(t)
    for key in ("y", "bias"):
        if t.get(key):
            t[key] = [(str(abs(Fr(z[0])) if Fr(z[1]) == 0 else Fr(z[0])), "0") for z in t[key]]
            t[key] = [(z[0], "0") for z in t[key]]
    if "p" in t:
        t["p"] = strip_phase(t["p"])
    if "ps" in t:
        t["ps"] = [strip_phase(p) for p in t["ps"]]
    if t.get("h") is not None:
        t["h"] = strip_phase(t["h"])
    return t


def line(c):
    return "C11 call a=%s sh=%s x=%s :: %s" % (fs(Fr(c["alpha"])), L(c["shape"]), CL(c["x"]), " ".join(tokens(c["tree"])))


def parse_reply(r):
    if not r.startswith("ok "):
        return r
    shape, data = r[3:].split(" | ")
    shape = [] if shape == "-" else [int(v) for v in shape.split(",")]
    vals = []
    if data != "-":
        for z in data.split(","):
            p = z.split(";")
            vals.append(complex(float(Fr(p[0])), float(Fr(p[1])) if len(p) > 1 else 0.0))
    return shape, np.array(vals, dtype=np.complex128)


def run_impl(c, registry=None):
    """the value of the case's (last) call on the real object, after the case's earlier calls on the same object(s)"""
    objs = {0: build(c["tree"], c["cplx"], registry, layout=c.get("playout"))}
    for e in c.get("hist") or []:
        o = e.get("obj", 0)
        if o not in objs:
            objs[o] = build(c["tree"], c["cplx"], registry, layout=c.get("playout"))
        objs[o](falpha(e["alpha"]), entry_input(c, e))
    x = entry_input(c, c)
    x0 = np.array(x, copy=True)
    out = objs[0](float(Fr(c["alpha"])), x)
    return np.asarray(out), x0


def compare(impl, model, tol=None):
    """impl: ndarray or 'err …'; model: (shape, values) or 'err …' -> None when they agree"""
    tol = TOL_CORR if tol is None else tol
    if isinstance(model, str) or isinstance(impl, str):
        if isinstance(model, str) and isinstance(impl, str):
            return None  # both refuse the request (counted as "both-raise", not as a non-trivial case)
        return "one side raises"
    if list(impl.shape) != list(model[0]):
        return "shape %s vs %s" % (list(impl.shape), model[0])
    a = impl.ravel().astype(np.complex128)
    b = model[1]
    scale = max(1.0, float(np.max(np.abs(b))) if b.size else 1.0)
    d = float(np.max(np.abs(a - b))) if b.size else 0.0
    if not d <= tol * scale:
        return "max abs difference %.3g" % d
    return None


def _corr_stream(ctx, cases, stream, op="call"):
    lines = [line(c).replace("C11 call ", "C11 %s " % op, 1) for c in cases]
    replies = ctx.driver(lines)
    bad, skipped, expl = 0, 0, set()
    for c, ln, r in zip(cases, lines, replies):
        model = parse_reply(r)
        if isinstance(model, str) and model in ("err irrational",):
            skipped += 1
            ctx.count("skipped:irrational")
            continue
        if isinstance(model, str) and not model.startswith("err "):
            model = "err driver"
        if contains(c["tree"], "unitary") and not unitary_ok(c["tree"], c["cplx"]):
            ctx.count("skipped:linop-not-unitary")
            continue
        try:
            impl, _ = run_impl(c)
        except Exception as e:  # noqa
            impl = "err %s" % type(e).__name__
        ctx.case((ln, json.dumps([c.get("hist"), c.get("ylayout"), c.get("playout")]))
                 if (c.get("hist") or c.get("ylayout") or c.get("playout")) else ln,
                 sample=dict(line=ln[:240], reply=r[:160]) if ctx.evaluations % 61 == 0 else None)
        ctx.count("tree:" + describe(c["tree"]).split("(")[0])
        if c.get("hist"):
            ctx.count("history:%d-earlier-calls" % len(c["hist"]))
            if any(e.get("obj") for e in c["hist"]):
                ctx.count("history:two-live-objects")
        if c.get("ylayout"):
            ctx.count("input-layout:" + c["ylayout"])
        if c.get("playout"):
            ctx.count("param-layout:" + c["playout"])
        if contains_weights(c["tree"]):
            ctx.count("l1reg:array-lamda")
        ctx.count("dtype:" + ("complex" if c["cplx"] else "real"))
        ctx.count("ndim:%d" % len(c["shape"]))
        if isinstance(impl, str) and isinstance(model, str):
            ctx.count("both-raise")
        why = compare(impl, model)
        if why is not None:
            bad += 1
            ctx.disagree(stream, c, impl if isinstance(impl, str) else (list(impl.shape), impl.ravel().tolist()[:12]),
                         model if isinstance(model, str) else (model[0], model[1].tolist()[:12]))
            key = diagnose(c)
            if key:
                expl.add(key)
            else:
                expl.add("<unexplained>")
    detail = "%d disagreements, %d skipped (irrational modulus)" % (bad, skipped)
    if bad and "<unexplained>" not in expl:
        detail += " " + " ".join("explained-by:%s" % k for k in sorted(expl))
    ctx.oblige("correspondence:C11." + stream, "correspondence", bad == 0, detail)


def stack_cases(rng, n):
    """cases whose top-level operator is a Stack (blocks of 1-3 D shapes, nested operators inside)"""
    out, tries = [], 0
    while len(out) < n and tries < 200 * n:
        tries += 1
        c = gen_case(rng, "nest")
        if c["tree"]["t"] == "stack":
            out.append(c)
    return out


def sort_contract_stream(ctx, n):
    """numpy's contract for `xp.sort` on a real 1-D array (the only way sort enters `l1_proj_body_*`): the result is a
    non-decreasing rearrangement of the argument — checked on the moduli arrays `l1_proj` sorts (ties, zeros, complex)"""
    rng = ctx.rng
    bad = 0
    for _ in range(n):
        m = rng.randint(1, 12)
        cplx = rng.random() < 0.4
        ph = phase_vec(rng, m, cplx, False)
        zs = [times(v, u) for v, u in zip(rvals(rng, m), ph)]
        x = to_float(zs, [m], cplx)
        a = np.abs(x)
        srt = np.sort(a)
        ctx.case(("sort", CL(zs)), nontrivial=(m > 1))
        ok = srt.shape == a.shape and bool(np.all(srt[:-1] <= srt[1:])) and sorted(a.tolist()) == srt.tolist() \
            and srt[::-1].tolist() == sorted(a.tolist(), reverse=True) \
            and np.cumsum(srt[::-1]).tolist() == [float(v) for v in np.add.accumulate(srt[::-1])]
        if not ok:
            bad += 1
            ctx.disagree("sort-contract", dict(x=zs), srt.tolist(), sorted(a.tolist()))
    ctx.oblige("correspondence:C11.sort-contract", "correspondence", bad == 0,
               "%d arrays where numpy.sort(|x|) is not a non-decreasing permutation of |x| (hypothesis SortContract of "
               "l1_proj_body_real / _complex)" % bad)


def l1nd_cases(rng, n):
    """≥2-D (and 1-D) L1Proj / l1_proj on feasible, boundary and infeasible inputs"""
    out = []
    for _ in range(n):
        sh = rng.choice([[2, 2], [2, 3], [3, 2], [2, 2, 2], [1, 4], [4], [3, 1], [2, 1, 3]])
        m = prod(sh)
        cplx = rng.random() < 0.3
        ph = phase_vec(rng, m, cplx, False)
        mags = rvals(rng, m)
        eps = rpos(rng)
        s = sum(abs(v) for v in mags)
        if s > 0:
            f = rng.choice([Fr(1, 2), Fr(1, 4), Fr(3, 4), 1, 2, 3])
            mags = [v * eps / s * f for v in mags]
        x = [times(v, u) for v, u in zip(mags, ph)]
        out.append(dict(tree=dict(t="l1proj", shape=sh, eps=str(eps)), alpha=str(rpos(rng)), shape=sh,
                        x=[list(z) for z in x], cplx=cplx))
    return out


def thresh_cases(ctx, n):
    """the thresholding functions themselves (soft/hard/l1/l2/linf) against the same model entry points"""
    from sigpy import thresh
    rng = ctx.rng
    bad = 0
    lines, meta = [], []
    for _ in range(n):
        sh = rshape(rng)
        m = prod(sh)
        cplx = rng.random() < 0.4
        fn = rng.choice(["soft", "hard", "l1", "l2", "linf"])
        ph = phase_vec(rng, m, cplx, False)
        if fn == "hard":  # discontinuous: integer Gaussian inputs, |z| an exact float
            trip = [(3, 4), (5, 12), (8, 15), (0, 1), (1, 0), (0, 0), (6, 8), (-3, 4), (4, -3)]
            zs = []
            for _ in range(m):
                a, b = rng.choice(trip) if cplx else (rng.randint(-6, 6), 0)
                zs.append((str(a), str(b)))
            lam = Fr(rng.choice([5, 13, 1, 2, 10, 0, 17, 3]))
            lines.append("C11 hard lam=%s x=%s" % (fs(lam), CL(zs)))
            meta.append((fn, sh, cplx, zs, lam, None))
            continue
        mags = norm_vals(rng, m) if fn == "l2" else rvals(rng, m)
        zs = [times(v, u) for v, u in zip(mags, ph)]
        if not cplx:
            zs = [(a, "0") for a, _ in zs]
        lam = rpos(rng)
        tree = {"soft": dict(t="l1reg", shape=sh, lamda=str(lam)),
                "l1": dict(t="l1proj", shape=sh, eps=str(lam)),
                "l2": dict(t="l2proj", shape=sh, eps=str(lam), y=[("0", "0")] * m, axes=None),
                "linf": dict(t="linf", shape=sh, eps=str(lam), bias=None)}[fn]
        c = dict(tree=tree, alpha="1", shape=sh, x=[list(z) for z in zs], cplx=cplx)
        lines.append(line(c))
        meta.append((fn, sh, cplx, zs, lam, c))
    replies = ctx.driver(lines)
    for (fn, sh, cplx, zs, lam, c), ln, r in zip(meta, lines, replies):
        x = to_float(zs, sh, cplx)
        try:
            if fn == "soft":
                impl = thresh.soft_thresh(float(lam), x)
            elif fn == "hard":
                impl = thresh.hard_thresh(float(lam), x)
            elif fn == "l1":
                impl = thresh.l1_proj(float(lam), x)
            elif fn == "l2":
                impl = thresh.l2_proj(float(lam), x)
            else:
                impl = thresh.linf_proj(float(lam), x)
            impl = np.asarray(impl)
        except Exception as e:  # noqa
            impl = "err %s" % type(e).__name__
        if fn == "hard":
            model = r
            if r.startswith("ok "):
                vals = [complex(float(Fr(z.split(";")[0])), float(Fr(z.split(";")[1])) if ";" in z else 0.0)
                        for z in r[3:].split(",")]
                model = (list(sh), np.array(vals))
        else:
            model = parse_reply(r)
        if isinstance(model, str) and model == "err irrational":
            continue
        ctx.case(ln)
        ctx.count("thresh:" + fn)
        why = compare(impl, model)
        if why is not None:
            bad += 1
            ctx.disagree("thresh", dict(fn=fn, shape=sh, cplx=cplx, x=zs, lam=str(lam)),
                         impl if isinstance(impl, str) else (list(impl.shape), impl.ravel().tolist()[:12]),
                         model if isinstance(model, str) else (model[0], model[1].tolist()[:12]))
    expl = ""
    if bad:
        keys = set()
        for d in ctx.disagreements:
            if d["stream"] == "thresh":
                cc = d["case"]
                if cc["fn"] == "l1":
                    k = diagnose(dict(tree=dict(t="l1proj", shape=cc["shape"], eps=cc["lam"]), alpha="1", shape=cc["shape"],
                                      x=cc["x"], cplx=cc["cplx"]), direct=True)
                    keys.add(k or "<unexplained>")
                else:
                    keys.add("<unexplained>")
        if "<unexplained>" not in keys:
            expl = " " + " ".join("explained-by:%s" % k for k in sorted(keys))
    ctx.oblige("correspondence:C11.thresh", "correspondence", bad == 0, "%d disagreements%s" % (bad, expl))


def exact_stream(ctx, n):
    """pure-numpy classes executed on fractions.Fraction object arrays: exact equality with the model"""
    rng = ctx.rng
    bad = 0
    cases, lines = [], []
    for _ in range(n):
        sh = [rng.randint(2, 7)] if rng.random() < 0.6 else rshape(rng)
        m = prod(sh)

        def tree(shp, depth):
            r = rng.random()
            mm = prod(shp)
            if depth <= 0 or r < 0.35:
                return gen_leaf(rng, shp, False, [PHASES[0]] * mm, allow=("noop", "l2reg", "box"))
            if r < 0.55:
                return dict(t="conj", p=tree(shp, depth - 1))
            if r < 0.75:
                y = [(str(rq(rng)), "0") for _ in range(mm)] if rng.random() < 0.7 else None
                return dict(t="l2reg", shape=shp, lamda=str(rpos(rng)), y=y, h=tree(shp, depth - 1))
            if len(shp) == 1 and mm >= 2:
                cut = rng.randint(1, mm - 1)
                return dict(t="stack", ps=[tree([cut], depth - 1), tree([mm - cut], depth - 1)])
            return gen_leaf(rng, shp, False, [PHASES[0]] * mm, allow=("noop", "l2reg", "box"))
        t = tree(sh, rng.choice([1, 2, 3]))
        x = [(str(rq(rng, -9, 9, (1, 2, 3, 5))), "0") for _ in range(m)]
        c = dict(tree=t, alpha=str(rpos(rng)), shape=sh, x=[list(z) for z in x], cplx=False)
        cases.append(c)
        lines.append(line(c))
    replies = ctx.driver(lines)
    for c, ln, r in zip(cases, lines, replies):
        try:
            P = build(c["tree"], False, exact=True)
            x = np.array([Fr(z[0]) for z in c["x"]], dtype=object).reshape(c["shape"])
            out = P(Fr(c["alpha"]), x)
            impl = "ok %s | %s" % (L(out.shape), ",".join(fs(v) for v in out.ravel()))
        except Exception as e:  # noqa
            impl = "err raise"
        model = r if r.startswith("ok ") else "err raise"
        ctx.case(("exact", ln))
        ctx.count("exact:" + describe(c["tree"]).split("(")[0])
        if impl != model:
            bad += 1
            ctx.disagree("exact", c, impl, model)
    ctx.oblige("correspondence:C11.exact-fractions", "correspondence", bad == 0, "%d disagreements" % bad)


def kkt_stream(ctx, n):
    """Duchi's index search (model, exact) returns a threshold satisfying the hypotheses of l1_proj_kkt_* — a theorem
    since `duchiTheta_kkt`; evaluated here on the compiled driver as a cross-check (model = what the theorem is about)"""
    rng = ctx.rng
    lines = []
    for _ in range(n):
        m = rng.randint(1, 9)
        cplx = rng.random() < 0.3
        ph = phase_vec(rng, m, cplx, False)
        mags = rvals(rng, m)
        eps = rpos(rng)
        s = sum(abs(v) for v in mags)
        if s > 0 and rng.random() < 0.5:
            mags = [v * eps / s * rng.choice([1, 2, 3, Fr(3, 2)]) for v in mags]
        lines.append("C11 kkt eps=%s x=%s" % (fs(eps), CL([times(v, u) for v, u in zip(mags, ph)])))
    bad = 0
    nontriv = 0
    for ln, r in zip(lines, ctx.driver(lines)):
        ctx.case(ln)
        if not r.startswith("ok ") or not r.endswith("kkt=1"):
            bad += 1
            ctx.disagree("duchi-kkt", ln, "n/a", r)
        elif "feasible=0" in r:
            nontriv += 1
    ctx.count("kkt:infeasible-certified", nontriv)
    ctx.oblige("correspondence:C11.duchi-kkt", "correspondence", bad == 0,
               "%d thresholds fail the exact KKT certificate (θ ≥ 0, Σ(|y|-θ)₊ = ε)" % bad)


# ---- PsdProj: exact spectral data (w, V) -> model = generated body with eigh := (w, V); real code on float(y) ----
def c_mul(a, b):
    return (a[0] * b[0] - a[1] * b[1], a[0] * b[1] + a[1] * b[0])


def m_mul(A, B):
    n, k, m = len(A), len(B), len(B[0])
    out = []
    for i in range(n):
        row = []
        for j in range(m):
            re, im = Fr(0), Fr(0)
            for l in range(k):
                z = c_mul(A[i][l], B[l][j])
                re += z[0]
                im += z[1]
            row.append((re, im))
        out.append(row)
    return out


def m_H(A):
    return [[(A[i][j][0], -A[i][j][1]) for i in range(len(A))] for j in range(len(A[0]))]


def m_eye(n):
    return [[(Fr(1 if i == j else 0), Fr(0)) for j in range(n)] for i in range(n)]


def exact_unitary(rng, n, cplx):
    """exactly unitary matrix with Gaussian-rational entries: Householder reflections I - 2 v vᴴ / vᴴv of small
    Gaussian-integer vectors, unit phases (Pythagorean), a permutation"""
    V = m_eye(n)
    for _ in range(rng.choice([0, 1, 1, 2, 2, 3])):
        while True:
            v = [(Fr(rng.randint(-2, 2)), Fr(rng.randint(-2, 2)) if cplx else Fr(0)) for _ in range(n)]
            nn = sum(z[0] * z[0] + z[1] * z[1] for z in v)
            if nn > 0:
                break
        R = [[((Fr(1) if i == j else Fr(0)) - 2 * c_mul(v[i], (v[j][0], -v[j][1]))[0] / nn,
               -2 * c_mul(v[i], (v[j][0], -v[j][1]))[1] / nn) for j in range(n)] for i in range(n)]
        V = m_mul(V, R)
    ph = [rng.choice(PHASES) if cplx else rng.choice(PHASES[:2]) for _ in range(n)]
    perm = list(range(n))
    rng.shuffle(perm)
    return [[c_mul(V[i][perm[j]], ph[j]) for j in range(n)] for i in range(n)]


def psd_exact_case(rng):
    """(n, cplx, y exact, w exact, V exact, kind): y = V diag(w) Vᴴ + K, K skew-Hermitian (possibly 0)"""
    n = rng.choice([1, 2, 2, 3, 3, 3, 4, 4, 5])
    cplx = rng.random() < 0.5
    V = exact_unitary(rng, n, cplx)
    kind = rng.choice(["repeated", "repeated", "generic", "generic", "psd", "negdef", "zero-eigs", "all-equal"])
    if kind == "repeated":
        a, b = rq(rng), rq(rng)
        w = [rng.choice([a, a, b, -a]) for _ in range(n)]
    elif kind == "psd":
        w = [abs(rq(rng)) for _ in range(n)]
    elif kind == "negdef":
        w = [-abs(rq(rng)) - Fr(1, 4) for _ in range(n)]
    elif kind == "zero-eigs":
        w = [rng.choice([Fr(0), Fr(0), rq(rng)]) for _ in range(n)]
    elif kind == "all-equal":
        w = [rq(rng)] * n
    else:
        w = [rq(rng) for _ in range(n)]
    D = [[(w[i] if i == j else Fr(0), Fr(0)) for j in range(n)] for i in range(n)]
    y = m_mul(m_mul(V, D), m_H(V))
    herm = rng.random() < 0.4
    if not herm:
        for i in range(n):
            for j in range(i, n):
                a = rq(rng, -4, 4) if i != j else Fr(0)
                b = rq(rng, -4, 4) if cplx else Fr(0)
                y[i][j] = (y[i][j][0] + a, y[i][j][1] + b)
                if i != j:
                    y[j][i] = (y[j][i][0] - a, y[j][i][1] + b)
    return n, cplx, y, w, V, kind + ("" if herm else "+skew")


def eigh_contract_violation(A):
    """numpy's contract for the decomposition `psd_proj` calls (the hypothesis `EighContract` of psd_proj_prox):
    real eigenvalues, VᴴV = I, V diag(w) Vᴴ = A — returns None or a description"""
    w, V = np.linalg.eigh(A)
    n = A.shape[0]
    sc = max(1.0, float(np.max(np.abs(A), initial=0)))
    if np.iscomplexobj(w):
        return "complex eigenvalues"
    e1 = float(np.max(np.abs(V.conj().T @ V - np.eye(n)), initial=0))
    e2 = float(np.max(np.abs((V * w) @ V.conj().T - A), initial=0))
    if e1 > 1e-12 * n or e2 > 1e-12 * n * sc:
        return "‖VᴴV - I‖ = %.3g, ‖V diag(w) Vᴴ - A‖ = %.3g" % (e1, e2)
    return None


def psd_stream(ctx, n):
    """`thresh.psd_proj` / `prox.PsdProj` vs the generated body run by the driver on exact spectral data, and
    the numerical contract of numpy's eigh at every matrix passed to it"""
    from sigpy import prox, thresh
    rng = ctx.rng
    cases, lines = [], []
    for _ in range(n):
        m, cplx, y, w, V, kind = psd_exact_case(rng)
        x = [[str(z[0]), str(z[1])] for row in y for z in row]
        c = dict(tree=dict(t="psd", shape=[m, m]), alpha=str(rpos(rng)), shape=[m, m], x=x, cplx=cplx, note=kind)
        cases.append(c)
        lines.append("C11 psd n=%d y=%s v=%s w=%s" % (m, CL(x), CL([z for row in V for z in row]), ",".join(fs(v) for v in w)))
    bad = cbad = 0
    for c, ln, r in zip(cases, lines, ctx.driver(lines)):
        m = c["shape"][0]
        ctx.case(ln, sample=dict(line=ln[:240], reply=r[:160]) if ctx.evaluations % 61 == 0 else None,
                 nontrivial=(m > 1))
        ctx.count("psd:" + c["note"])
        ctx.count("psd:n=%d:%s" % (m, "complex" if c["cplx"] else "real"))
        if not r.startswith("ok "):
            # the exact data are a spectral decomposition by construction: a refusal is a model/translation defect
            bad += 1
            ctx.disagree("psd", c, "n/a", r)
            continue
        vals = [complex(float(Fr(z.split(";")[0])), float(Fr(z.split(";")[1])) if ";" in z else 0.0) for z in r[3:].split(",")]
        model = ([m, m], np.array(vals))
        yf = to_float(c["x"], c["shape"], c["cplx"])
        A = (yf + np.conj(yf).T) / 2
        why = eigh_contract_violation(A)
        if why is not None:
            cbad += 1
            ctx.disagree("eigh-contract", c, why, "VᴴV = I, V diag(w) Vᴴ = A")
        for which in ("thresh", "prox"):
            try:
                if which == "thresh":
                    impl = np.asarray(thresh.psd_proj(yf.copy()))
                else:
                    impl = np.asarray(prox.PsdProj([m, m])(float(Fr(c["alpha"])), yf.copy()))
            except Exception as e:  # noqa
                impl = "err %s" % type(e).__name__
            if compare(impl, model, TOL_PSD) is not None:
                bad += 1
                ctx.disagree("psd", c, impl if isinstance(impl, str) else (list(impl.shape), impl.ravel().tolist()[:12]),
                             (model[0], model[1].tolist()[:12]))
                break
    # the contract also on float matrices with (numerically) repeated eigenvalues that have no exact data
    for _ in range(n // 4):
        yf, kind = psd_inputs(rng, rng.choice([2, 3, 4, 6]), rng.random() < 0.5)
        A = (yf + np.conj(yf).T) / 2
        ctx.case(("eigh", kind, repr(A.tolist())[:200]))
        why = eigh_contract_violation(A)
        if why is not None:
            cbad += 1
            ctx.disagree("eigh-contract", case_json(dict(tree=dict(t="psd", shape=list(yf.shape)), alpha="1",
                                                         shape=list(yf.shape), y=yf, cplx=bool(np.iscomplexobj(yf)),
                                                         note=kind)), why, "contract")
    ctx.oblige("correspondence:C11.psd", "correspondence", bad == 0,
               "%d disagreements between psd_proj / PsdProj and the generated body on exact spectral data" % bad)
    ctx.oblige("correspondence:C11.eigh-contract", "correspondence", cbad == 0,
               "%d matrices where numpy.linalg.eigh violates VᴴV = I, V diag(w) Vᴴ = A (hypothesis of psd_proj_prox)" % cbad)


def correspond(ctx):
    ctx.rule = ("cases = (Prox tree over NoOp/L1Reg/L2Reg(+bias,+proxh)/L2Proj(+bias,+axes)/LInfProj(+bias)/L1Proj/"
                "BoxConstraint/Conj/Stack/UnitaryTransform, alpha > 0, shape 1-3 D, exactly representable input: small "
                "rationals times Pythagorean unit phases, zeros, ties, points on thresholds / ball boundaries, vectors with "
                "rational norm); L1Reg with a scalar lamda or an ndarray of per-entry weights (float64 / int64, full "
                "shape or last-axis broadcast; the model's value is the Stack of one scalar L1Reg per entry); the compared call is "
                "preceded, in 40% of the cases, by 1-3 earlier calls on the same object (other alpha, other or the same data; some "
                "on a second live object of the same description) and the input / the ndarray parameters are, in 30% each, "
                "Fortran-ordered, strided views or negatively strided; distinct by protocol line (+ history and layouts); a case "
                "counts only when every modulus / norm needed is rational")
    ctx.assumptions += [
        "numpy.linalg.eigh is a trusted primitive: psd_proj_prox assumes its spectral contract (real eigenvalues w, "
        "VᴴV = I, V diag(w) Vᴴ = A) at the matrix psd_proj passes to it; the contract is checked numerically on every run "
        "(stream eigh-contract: exact-data matrices and float matrices with repeated eigenvalues, 1e-12·n)",
        "the PsdOps record fixes the meaning of numpy's +, conj, .T, / k, @, broadcasting * and masked assignment "
        "(Mathlib matrices in Props/C11Psd.matOps, exact arrays in Model/C11Psd.cqOps); stream psd compares the real "
        "psd_proj / PsdProj on float(y) with the generated body on exact spectral data (w, V) of the Hermitian part "
        "(Householder / phase / permutation unitaries, repeated and zero eigenvalues, skew parts), 1e-11",
        "the dense matrix of a permutation-type Linop (Transpose/Flip/Circshift/Reshape) handed to the model is obtained "
        "by probing the real Linop with basis vectors (Linop correctness is C01/C03/C09's subject)",
        "float execution of the real classes is compared with the exact model at 1e-12 (relative to max(1, |value|))",
        "cupy paths are not exercised",
        "the translator reads prox.py / thresh.py / util.py through the normaliser harness/translate/c11_norm.py (private helpers "
        "inlined, keyword arguments resolved against the callee's signature, append-loops as comprehensions, single-assignment "
        "single-use temporaries substituted at their use): moving a pure expression to its single use is assumed unobservable "
        "(which numpy exception is raised first is not modelled); anything outside the normaliser's subset is left as written "
        "and rejected by the matchers",
    ]
    q = ctx.tier == "quick"
    rng = ctx.rng
    _corr_stream(ctx, [gen_case(rng, "leaf") for _ in range(800 if q else 6000)], "leaf")
    _corr_stream(ctx, [gen_case(rng, "nest") for _ in range(1200 if q else 9000)], "nestings")
    _corr_stream(ctx, l1nd_cases(rng, 150 if q else 1000), "l1proj-nd")
    # the GENERATED Stack._prox / util.split / util.vec / Prox.__call__ (driver op `callgen`) against the real Stack
    _corr_stream(ctx, stack_cases(rng, 150 if q else 1200), "stack-generated", op="callgen")
    sort_contract_stream(ctx, 200 if q else 1500)
    thresh_cases(ctx, 400 if q else 3000)
    exact_stream(ctx, 400 if q else 3000)
    kkt_stream(ctx, 400 if q else 3000)
    psd_stream(ctx, 300 if q else 2500)
    ctx.traces = ctx.evaluations


# ==== the property's own oracle (independent of the model) =============================================
def inner(a, b):
    """real inner product Re<a, b> of arrays"""
    return float(np.real(np.vdot(a, b)))


class Bad(Exception):
    def __init__(self, kind, what, detail=None):
        super().__init__(what)
        self.kind, self.what, self.detail = kind, what, detail


def tol_for(*arrs):
    s = 1.0
    for a in arrs:
        a = np.asarray(a)
        if a.size:
            s = max(s, float(np.max(np.abs(a))))
    return 1e-8 * s * s


def barr(v, shape, cplx):
    return np.broadcast_to(np.asarray(_arr(v, shape, cplx)), shape)


def subgrad_check(t, r, d, cplx, path="top"):
    """certificate that d ∈ ∂g(r) for the function g of tree t (raises Bad).  Written from convex analysis:
       indicator of C:  r ∈ C and Re<d, r> = support_C(d);   finite g: Fenchel-Young equality g(r) + g*(d) = Re<d, r>."""
    k = t["t"]
    tl = tol_for(r, d)
    n1 = lambda a: float(np.sum(np.abs(a)))
    if k == "noop":
        if np.max(np.abs(d), initial=0) > np.sqrt(tl):
            raise Bad("certificate", "NoOp: residual is not zero", float(np.max(np.abs(d))))
        return
    if k == "l1reg":
        # g(x) = sum_i lam_i |x_i| (lam a scalar or per-entry weights): d in dg(r) <=> |d_i| <= lam_i, sum lam_i |r_i| = Re<d, r>
        lam = wfloat(t, r.shape)
        g = float(np.sum(lam * np.abs(r)))
        if np.max(np.abs(d) - lam, initial=-1) > np.sqrt(tl) or abs(g - inner(d, r)) > tl * max(1, r.size):
            raise Bad("certificate", "L1Reg: (y-p)/alpha is not in lamda*subdifferential of the l1 norm at p",
                      dict(max_excess_d_over_lam=float(np.max(np.abs(d) - lam, initial=-1)),
                           lam=np.asarray(lam).ravel().tolist()[:16], gap=g - inner(d, r)))
        return
    if k == "l2reg":
        lam = float(Fr(t["lamda"]))
        z = 0 if t["y"] is None else barr(t["y"], r.shape, cplx)
        rest = d - lam * (r - z)
        if t.get("h") is None:
            if np.max(np.abs(rest), initial=0) > np.sqrt(tl):
                raise Bad("certificate", "L2Reg: (y-p)/alpha != lamda (p - z)", float(np.max(np.abs(rest))))
            return
        return subgrad_check(t["h"], r, rest, cplx, path + ".proxh")
    if k == "l2proj":
        eps = float(Fr(t["eps"]))
        c = barr(t["y"], r.shape, cplx)
        axes = tuple(range(r.ndim)) if t["axes"] is None else tuple(a % r.ndim for a in t["axes"])
        nr = np.sqrt(np.sum(np.abs(r - c) ** 2, axis=axes, keepdims=True))
        nd = np.sqrt(np.sum(np.abs(d) ** 2, axis=axes, keepdims=True))
        if np.any(nr > eps * (1 + 1e-9) + 1e-12):
            raise Bad("infeasible", "L2Proj: result outside the l2 ball", float(np.max(nr)))
        # support function of the product of balls: Re<d,c> + eps * sum_slices ||d_slice||
        gap = inner(d, c) + eps * float(np.sum(nd)) - inner(d, r)
        if abs(gap) > tl * max(1, r.size):
            raise Bad("certificate", "L2Proj: y-p is not in the normal cone of the ball at p (not the nearest point)", gap)
        return
    if k == "linf":
        eps = float(Fr(t["eps"]))
        c = 0 if t["bias"] is None else barr(t["bias"], r.shape, cplx)
        if np.any(np.abs(r - c) > eps * (1 + 1e-9) + 1e-12):
            raise Bad("infeasible", "LInfProj: result outside the l-infinity ball", float(np.max(np.abs(r - c))))
        gap = inner(d, c * np.ones(r.shape)) + eps * n1(d) - inner(d, r)
        if abs(gap) > tl * max(1, r.size):
            raise Bad("certificate", "LInfProj: y-p is not in the normal cone of the l-infinity ball at p", gap)
        return
    if k == "l1proj":
        eps = float(Fr(t["eps"]))
        if n1(r) > eps * (1 + 1e-9) + 1e-12:
            raise Bad("infeasible", "L1Proj: result outside the l1 ball", n1(r))
        gap = eps * float(np.max(np.abs(d), initial=0)) - inner(d, r)
        if abs(gap) > tl * max(1, r.size):
            raise Bad("certificate", "L1Proj: y-p is not in the normal cone of the l1 ball at p (not the nearest point)", gap)
        return
    if k == "box":
        lo = barr([(v, 0) for v in t["lo"]], r.shape, False)
        hi = barr([(v, 0) for v in t["hi"]], r.shape, False)
        if np.any(r < lo - 1e-12) or np.any(r > hi + 1e-12):
            raise Bad("infeasible", "BoxConstraint: result outside the box")
        dr = np.real(d)
        gap = float(np.sum(np.maximum(lo * dr, hi * dr))) - inner(d, r)
        if abs(gap) > tl * max(1, r.size):
            raise Bad("certificate", "BoxConstraint: y-p is not in the normal cone of the box at p", gap)
        return
    if k == "psd":
        herm_err = float(np.max(np.abs(r - r.conj().T), initial=0))
        w = np.linalg.eigvalsh((r + r.conj().T) / 2)
        sc = max(1.0, float(np.max(np.abs(r), initial=0)), float(np.max(np.abs(d), initial=0)))
        if herm_err > 1e-9 * sc or w.min() < -1e-9 * sc:
            raise Bad("infeasible", "PsdProj: result is not Hermitian positive semi-definite",
                      dict(herm_err=herm_err, min_eig=float(w.min())))
        wd = np.linalg.eigvalsh((d + d.conj().T) / 2)
        if wd.max() > 1e-8 * sc or abs(inner(d, r)) > 1e-8 * sc * sc * r.shape[0]:
            raise Bad("certificate", "PsdProj: y-p is not in the normal cone of the PSD cone at p (not the nearest PSD matrix)",
                      dict(max_eig_of_herm_residual=float(wd.max()), inner=inner(d, r)))
        return
    if k == "conj":
        # d ∈ ∂g*(r)  <=>  r ∈ ∂g(d)
        return subgrad_check(t["p"], d, r, cplx, path + ".conj")
    if k == "stack":
        off = 0
        for i, p in enumerate(t["ps"]):
            sh = tshape(p)
            m = prod(sh)
            subgrad_check(p, r.ravel()[off:off + m].reshape(sh), d.ravel()[off:off + m].reshape(sh), cplx,
                          path + ".stack[%d]" % i)
            off += m
        return
    if k == "unitary":
        A = make_linop(t)
        return subgrad_check(t["p"], np.asarray(A(r.copy())), np.asarray(A(d.copy())), cplx, path + ".unitary")
    raise ValueError(k)


def objective(t, x, cplx):
    """(g(x), feasible) for trees without Conj; None when g is a conjugate"""
    k = t["t"]
    if k == "noop":
        return 0.0, True
    if k == "l1reg":
        return float(np.sum(wfloat(t, x.shape) * np.abs(x))), True
    if k == "l2reg":
        z = 0 if t["y"] is None else barr(t["y"], x.shape, cplx)
        v = float(Fr(t["lamda"])) / 2 * float(np.sum(np.abs(x - z) ** 2))
        if t.get("h") is None:
            return v, True
        o = objective(t["h"], x, cplx)
        return None if o is None else (v + o[0], o[1])
    if k == "conj":
        return None
    if k == "stack":
        tot, feas, off = 0.0, True, 0
        for p in t["ps"]:
            sh = tshape(p)
            m = prod(sh)
            o = objective(p, x.ravel()[off:off + m].reshape(sh), cplx)
            if o is None:
                return None
            tot += o[0]
            feas = feas and o[1]
            off += m
        return tot, feas
    if k == "unitary":
        return objective(t["p"], np.asarray(make_linop(t)(x.copy())), cplx)
    # indicators
    try:
        subgrad_check(t, x, np.zeros_like(x), cplx)
        return 0.0, True
    except Bad as b:
        return 0.0, b.kind != "infeasible"


def is_projection(t):
    return t["t"] in ("l2proj", "linf", "l1proj", "box", "psd")


def check_call(t, alpha, y, out, cplx, rng=None):
    """the property for one call P(alpha, y) = out (raises Bad)"""
    if not isinstance(out, np.ndarray):
        raise Bad("shape", "result is not an array: %r" % type(out))
    if tuple(out.shape) != tuple(y.shape):
        raise Bad("shape", "output shape %s != input shape %s" % (list(out.shape), list(y.shape)))
    if not np.all(np.isfinite(out)):
        raise Bad("nonfinite", "non-finite output")
    d = (y - out) / alpha
    subgrad_check(t, out, d, cplx)
    # objective comparison against perturbations (trees whose g can be evaluated)
    o = objective(t, out, cplx)
    if o is not None and rng is not None:
        if not o[1]:
            raise Bad("infeasible", "result is infeasible")
        base = alpha * o[0] + 0.5 * float(np.sum(np.abs(out - y) ** 2))
        cands = []
        for s in (1e-3, 1e-1, 1.0):
            for _ in range(2):
                pert = np.array([rng.gauss(0, 1) for _ in range(out.size)]).reshape(out.shape)
                if cplx:
                    pert = pert + 1j * np.array([rng.gauss(0, 1) for _ in range(out.size)]).reshape(out.shape)
                cands.append(out + s * pert)
        cands += [y, 0 * y, 0.5 * (out + y), 0.9 * out, out * (1 + 1e-3)]
        for q in cands:
            oq = objective(t, q, cplx)
            if oq is None or not oq[1]:
                continue
            val = alpha * oq[0] + 0.5 * float(np.sum(np.abs(q - y) ** 2))
            if val < base - 1e-9 * max(1.0, abs(base)):
                raise Bad("objective", "a feasible point has a smaller objective than P(alpha, y)",
                          dict(at_result=base, at_other=val, other=np.asarray(q).ravel().tolist()[:16]))
            if is_projection(t) and inner(y - out, q - out) > 1e-9 * max(1.0, abs(base)):
                raise Bad("projection-inequality", "Re<y-p, q-p> > 0 for a feasible q", inner(y - out, q - out))


@contextlib.contextmanager
def spy():
    """records every Prox.__call__ (object, alpha, input copy, output or exception) — observation only"""
    from sigpy import prox
    orig = prox.Prox.__call__
    calls = []

    def wrapped(self, alpha, input):
        x0 = np.array(input, copy=True)
        try:
            out = orig(self, alpha, input)
        except Exception as e:  # noqa
            calls.append((self, alpha, x0, e))
            raise
        calls.append((self, alpha, x0, np.array(out, copy=True) if isinstance(out, np.ndarray) else out))
        return out
    prox.Prox.__call__ = wrapped
    try:
        yield calls
    finally:
        prox.Prox.__call__ = orig


def class_key(t, kind, y=None):
    names = dict(noop="NoOp", l1reg="L1Reg", l2reg="L2Reg", l2proj="L2Proj", linf="LInfProj", l1proj="L1Proj",
                 box="BoxConstraint", psd="PsdProj", conj="Conj", stack="Stack", unitary="UnitaryTransform")
    return "C11:%s:%s" % (names[t["t"]], kind)


def leaf_key(t, kind, alpha, y):
    """stable key of a failing call of tree t on input y"""
    if t["t"] == "l1proj" and kind in ("shape", "raise") and y.ndim >= 2 and float(np.sum(np.abs(y))) < float(Fr(t["eps"])):
        return KEY_L1
    if t["t"] == "psd" and kind in ("certificate", "infeasible", "objective", "projection-inequality", "idempotent"):
        h = (y + y.conj().T) / 2
        w = np.sort(np.linalg.eigvalsh(h))
        sc = max(1.0, float(np.max(np.abs(w))))
        if w.size > 1 and np.min(np.diff(w)) < 1e-6 * sc:
            return KEY_PSD
        return "C11:PsdProj:" + kind
    return class_key(t, kind)


def unitary_ok(t, cplx):
    """precondition of UnitaryTransform: A^H A = A A^H = I and <Ax, y> = <x, A^H y> (checked numerically on the
    real Linop; a Linop that is not unitary is outside the property's domain — Linop defects belong to C01/C03)"""
    import random
    if t is None:
        return True
    if t["t"] == "unitary":
        try:
            A = make_linop(t)
            r = random.Random(5)
            for _ in range(2):
                x = np.array([r.gauss(0, 1) for _ in range(prod(t["ishape"]))]).reshape(t["ishape"])
                v = np.array([r.gauss(0, 1) for _ in range(prod(t["oshape"]))]).reshape(t["oshape"])
                if cplx or t["linop"]["kind"] == "fft":
                    x = x * (1 + 0.5j)
                    v = v * (1 - 0.25j)
                Ax, AHv = np.asarray(A(x.copy())), np.asarray(A.H(v.copy()))
                if list(Ax.shape) != list(t["oshape"]) or list(AHv.shape) != list(t["ishape"]):
                    return False
                if np.max(np.abs(np.asarray(A.H(Ax.copy())) - x)) > 1e-9 or np.max(np.abs(np.asarray(A(AHv.copy())) - v)) > 1e-9:
                    return False
                if abs(np.vdot(v, Ax) - np.vdot(AHv, x)) > 1e-9:
                    return False
        except Exception:  # noqa
            return False
    return all(unitary_ok(c, cplx) for c in children(t))


def evaluate(c, rng=None, extra=True):
    """run the real code on a case and check the property; returns None or dict(key, what, observed, expected)"""
    f, out = run_and_check(c, rng)
    if f is not None and f.get("_call") is not None and f["_call"]["index"] > 0:
        # does the failing call fail by itself?  If a fresh object returns the minimiser for the very same (alpha, y), the
        # defect is state carried over from earlier calls: name it so
        e = f["_call"]
        c1 = {k: v for k, v in c.items() if k not in ("hist", "x", "y", "y_re", "y_im")}
        c1.update(alpha=e["alpha"], y=np.array(e["y"], copy=True))
        try:
            f1, _ = run_and_check(c1, None, trailing=False)
        except Exception:  # noqa
            f1 = f
        if f1 is None:
            f["key"] = "C11:%s:depends-on-earlier-calls" % f["key"].split(":")[1]
            f["what"] = "call #%d on the same object (after %d earlier calls; a fresh object is exact on this call): %s" % (
                e["index"] + 1, e["index"], f["what"])
    if f is not None:
        f.pop("_call", None)
    if f is not None or not extra or not is_projection(c["tree"]):
        return f
    # idempotence: the projection of the (feasible) result is the result
    c2 = dict(c)
    c2.pop("x", None)
    c2.pop("hist", None)
    c2["y"] = np.array(out, copy=True)
    f2, out2 = run_and_check(c2, None)
    if f2 is not None:
        f2.pop("_call", None)
        f2["what"] = "second application P(alpha, P(alpha, y)): " + f2["what"]
        return f2
    tl = 1e-9 * max(1.0, float(np.max(np.abs(out), initial=0)))
    if np.max(np.abs(out2 - out), initial=0) > tl:
        return dict(key=leaf_key(c["tree"], "idempotent", 1.0, c2["y"]), what="P(alpha, P(alpha, y)) != P(alpha, y)",
                    observed=float(np.max(np.abs(out2 - out))), expected="0")
    return None


def run_and_check(c, rng=None, trailing=True):
    """the case's call sequence on the real object(s): the earlier calls `hist` (each one checked: every call of a Prox
    object must return the minimiser for ITS alpha and input), then the main call (checked with the objective
    comparison as well), then one more call that only serves to see whether earlier results get overwritten"""
    t, cplx = c["tree"], c["cplx"]
    if not unitary_ok(t, cplx):
        return None, None  # outside the domain (A not unitary)
    registry = {}
    objs = {}
    try:
        objs[0] = build(t, cplx, registry, layout=c.get("playout"))
        for e in c.get("hist") or []:
            if e.get("obj", 0) not in objs:
                objs[e["obj"]] = build(t, cplx, registry, layout=c.get("playout"))
    except Exception as e:  # noqa
        return dict(key=class_key(t, "construct"), what="constructor raised %r" % (e,), observed=repr(e), expected="a Prox"), None
    seq = [(e.get("obj", 0), falpha(e["alpha"]), entry_input(c, e)) for e in (c.get("hist") or [])]
    seq.append((0, falpha(c["alpha"]), entry_input(c, c)))
    main = len(seq) - 1
    if trailing:
        seq.append((0, seq[main][1], np.array(seq[main][2], copy=True) + (1.0 + 0.5j if cplx else 1.0)))
    top, out, fail_at, start = None, None, None, 0
    results = []   # (index, object returned, private copy)
    with spy() as calls:
        for i, (o, alpha, y) in enumerate(seq):
            y0 = np.array(y, copy=True)
            start = len(calls)
            try:
                res = objs[o](alpha, y)
                err = None
            except Exception as e:  # noqa
                res, err = None, e
            if i > main:
                err = None  # the trailing call is not part of the case; only its side effects are looked at
            if err is not None:
                top = Bad("raise", "raised %r (cause %r) on a valid request" % (err, err.__cause__))
            else:
                # P(alpha, y) is a value: a later call on the same object must not change an earlier result
                # (a prox that hands out a cached work buffer makes Stack([P, P]) and solvers that keep results wrong)
                for (j, robj, kept) in results:
                    if isinstance(robj, np.ndarray) and not np.array_equal(robj, kept, equal_nan=True):
                        top = Bad("reuses-output-buffer", "a later call on the same Prox object overwrote an earlier result")
                        i, (o, alpha, y0) = j, (seq[j][0], seq[j][1], seq[j][2])
                        start = 0
                        break
                if top is None and i <= main:
                    results.append((i, res, np.array(res, copy=True) if isinstance(res, np.ndarray) else res))
                    try:
                        check_call(t, alpha, y0, np.asarray(res), cplx, rng if i == main else None)
                    except Bad as b:
                        top = b
                    if i == main:
                        out = results[-1][2]
            if top is not None:
                fail_at = dict(index=i, alpha=alpha, y=np.array(y0, copy=True), later=(i > 0))
                break
    if top is None:
        return None, np.asarray(out)
    alpha, y0 = fail_at["alpha"], fail_at["y"]
    # blame: the deepest recorded call (of the failing top-level call) that fails its own certificate
    for (obj, a, x0, res) in calls[start:]:
        st = registry.get(id(obj))
        if st is None:
            continue
        if isinstance(res, Exception):
            # a leaf that raised by itself (children recorded earlier did not raise)
            if not children(st):
                return dict(key=leaf_key(st, "raise", a, x0), what="%s raised %r (cause %r) on a valid request" % (
                    describe(st), res, res.__cause__), observed=repr(res.__cause__ or res),
                    expected="result of shape %s" % (list(x0.shape),), _call=fail_at), None
            continue
        try:
            check_call(st, float(a), x0, np.asarray(res), cplx or np.iscomplexobj(x0), None)
        except Bad as b:
            return dict(key=leaf_key(st, b.kind, a, x0), what="%s: %s" % (describe(st), b.what), observed=b.detail,
                        expected="the exact minimiser", _call=fail_at), None
    return dict(key=leaf_key(t, top.kind, alpha, y0), what="%s: %s" % (describe(t), top.what), observed=top.detail,
                expected="the exact minimiser in the input's shape", _call=None if top.kind == "reuses-output-buffer" else fail_at), None


def diagnose(c, direct=False):
    try:
        if direct:
            from sigpy import thresh
            y = to_float(c["x"], c["shape"], c["cplx"])
            out = thresh.l1_proj(float(Fr(c["tree"]["eps"])), y.copy())
            if tuple(np.asarray(out).shape) != tuple(y.shape):
                return leaf_key(c["tree"], "shape", 1.0, y)
            return None
        f = evaluate(c, None, extra=False)
        return f["key"] if f else None
    except Exception:  # noqa
        return None


def case_json(c):
    d = dict(c)
    if "y" in d:
        y = np.asarray(d.pop("y"))
        d["y_re"] = np.real(y).ravel().tolist()
        d["y_im"] = np.imag(y).ravel().tolist() if np.iscomplexobj(y) else None
    return d


def case_from_json(d):
    c = dict(d)
    if "y_re" in c:
        y = np.array(c.pop("y_re"), dtype=float)
        im = c.pop("y_im")
        if im is not None:
            y = y + 1j * np.array(im)
        c["y"] = y.reshape(c["shape"])
    return c


def report(ctx, c, f, origin):
    ctx.fail(f["key"], f["what"], case_json(c), observed=f["observed"], expected=f["expected"], origin=origin)


# ---- float case generation for the search ----------------------------------------------------------
def fstr(v):
    return str(Fr(v).limit_denominator(64))


def gen_search_tree(rng, sh, cplx, depth, allow_psd=True):
    n = prod(sh)
    r = rng.random()
    ph = [PHASES[0]] * n

    def leaf():
        if allow_psd and len(sh) == 2 and sh[0] == sh[1] and rng.random() < 0.5:
            return dict(t="psd", shape=sh)
        t = gen_leaf(rng, sh, cplx, ph)
        if cplx:
            for key in ("y", "bias"):
                if t.get(key):
                    t[key] = [(str(rq(rng, -3, 3)), str(rq(rng, -3, 3))) for _ in range(n)]
        return t
    if depth <= 0 or r < 0.3:
        return leaf()
    if r < 0.5:
        return dict(t="conj", p=gen_search_tree(rng, sh, cplx, depth - 1, allow_psd))
    if r < 0.65:
        y = None
        if rng.random() < 0.6:
            y = [(str(rq(rng, -4, 4)), str(rq(rng, -4, 4)) if cplx else "0") for _ in range(n)]
        return dict(t="l2reg", shape=sh, lamda=str(rpos(rng)), y=y, h=gen_search_tree(rng, sh, cplx, depth - 1, allow_psd))
    if r < 0.82 and len(sh) == 1 and n >= 2:
        k = rng.randint(1, min(3, n))
        cuts = sorted(rng.sample(range(1, n), k - 1)) if k > 1 else []
        sizes = [b - a for a, b in zip([0] + cuts, cuts + [n])]
        ps = []
        for s in sizes:
            bs = [s]
            if s in (4, 9) and rng.random() < 0.6:
                bs = [int(round(s ** 0.5))] * 2
            elif s in (4, 6, 8) and rng.random() < 0.4:
                bs = [2, s // 2]
            ps.append(gen_search_tree(rng, bs, cplx, depth - 1, allow_psd))
        return dict(t="stack", ps=ps)
    if cplx and rng.random() < 0.25:
        t = dict(t="unitary", ishape=list(sh), oshape=list(sh), linop=dict(kind="fft", axes=None), mat=[])
        t["p"] = gen_search_tree(rng, sh, True, depth - 1, allow_psd)
        return t
    t, _ = gen_unitary(rng, sh, cplx, lambda osh: gen_search_tree(rng, osh, cplx, depth - 1, allow_psd))
    return t


def rand_unitary(rng, n, cplx):
    a = np.array([[rng.gauss(0, 1) for _ in range(n)] for _ in range(n)])
    if cplx:
        a = a + 1j * np.array([[rng.gauss(0, 1) for _ in range(n)] for _ in range(n)])
    q, _ = np.linalg.qr(a)
    return q


def psd_inputs(rng, n, cplx):
    """matrices for PsdProj: repeated eigenvalues, indefinite, non-Hermitian, already PSD, zero"""
    q = rand_unitary(rng, n, cplx)
    kind = rng.choice(["repeated", "repeated", "generic", "nonherm", "psd", "zero", "repeated-nonherm", "negdef"])
    if kind in ("repeated", "repeated-nonherm"):
        vals = [rng.choice([1.0, 2.0, -1.0])] * n
        j = rng.randrange(n)
        vals[j] = -vals[j] if rng.random() < 0.7 else vals[j]
        if n >= 3 and rng.random() < 0.5:
            vals[(j + 1) % n] = float(rng.randint(-3, 3))
        w = np.array(vals)
    elif kind == "psd":
        w = np.array([abs(rng.gauss(0, 2)) for _ in range(n)])
    elif kind == "negdef":
        w = -np.array([abs(rng.gauss(0, 2)) + 0.1 for _ in range(n)])
    elif kind == "zero":
        w = np.zeros(n)
    else:
        w = np.array([rng.gauss(0, 2) for _ in range(n)])
    y = (q * w) @ q.conj().T
    if kind in ("nonherm", "repeated-nonherm"):
        s = np.array([[rng.gauss(0, 1) for _ in range(n)] for _ in range(n)])
        if cplx:
            s = s + 1j * np.array([[rng.gauss(0, 1) for _ in range(n)] for _ in range(n)])
        y = y + (s - s.conj().T) / 2
    if not cplx:
        y = np.ascontiguousarray(np.real(y))
    return y, kind


def gen_search_case(rng):
    cplx = rng.random() < 0.4
    r = rng.random()
    if r < 0.15:  # PsdProj directly
        n = rng.choice([2, 3, 3, 4])
        y, kind = psd_inputs(rng, n, cplx)
        c = dict(tree=dict(t="psd", shape=[n, n]), alpha=fstr(rng.uniform(0.1, 4)), shape=[n, n], y=y, cplx=cplx, note=kind)

        def other_psd():
            v = psd_inputs(rng, n, cplx)[0]
            return dict(y_re=np.real(v).ravel().tolist(), y_im=np.imag(v).ravel().tolist() if cplx else None)
        return decorate(rng, c, lambda: fstr(rng.uniform(0.1, 4)), other_psd)
    if r < 0.25:  # ≥2-D L1Proj incl. feasible inputs
        c = l1nd_cases(rng, 1)[0]
        return decorate(rng, c, lambda: str(rpos(rng)),
                        lambda: dict(x=[[str(Fr(z[0]) * f), str(Fr(z[1]) * f)] for f in [rng.choice([Fr(1, 3), 1, 2, 5])] for z in c["x"]]))
    if r < 0.5:
        sh = rshape(rng, 16)
        t = gen_search_tree(rng, sh, cplx, 0)
    else:
        sh = rng.choice([[rng.randint(2, 9)], [rng.randint(2, 9)], [2, 2], [3, 3], [2, 3], [2, 2, 2], [4], [3, 2], [9], [8]])
        t = gen_search_tree(rng, sh, cplx, rng.choice([1, 2, 2, 3]))
    if contains(t, "box") and cplx:
        cplx = False
        t = strip_phase(t)
    if contains_fft(t):
        cplx = True
    n = prod(sh)
    alpha = fstr(rng.choice([rng.uniform(0.05, 5), rng.choice([0.5, 1, 2, 4, 0.25])]))
    sc = rng.choice([0.1, 1, 1, 3, 10])
    y = np.array([rng.gauss(0, sc) for _ in range(n)])
    if cplx:
        y = y + 1j * np.array([rng.gauss(0, sc) for _ in range(n)])
    # structured: zeros, ties, exact thresholds
    for i in range(n):
        u = rng.random()
        if u < 0.1:
            y[i] = 0
        elif u < 0.2 and i:
            y[i] = y[rng.randrange(i)]
    if t["t"] == "l1reg" and rng.random() < 0.3:
        y = np.sign(np.real(y)) * np.ravel(wfloat(t)) * float(Fr(alpha)) + 0 * y
    if t["t"] in ("l2proj", "l1proj", "linf") and rng.random() < 0.4:
        y = y * rng.choice([1e-2, 0.1, 0.3])  # feasible inputs
    if t["t"] == "psd":
        y, _ = psd_inputs(rng, sh[0], cplx)
    y = y.reshape(sh)
    c = dict(tree=t, alpha=alpha, shape=sh, y=y, cplx=cplx)

    def other_input():
        if rng.random() < 0.3:
            v = y
        elif t["t"] == "psd":
            v, _ = psd_inputs(rng, sh[0], cplx)
        else:
            v = np.array([rng.gauss(0, sc) for _ in range(n)])
            if cplx:
                v = v + 1j * np.array([rng.gauss(0, sc) for _ in range(n)])
        return dict(y_re=np.real(v).ravel().tolist(), y_im=np.imag(v).ravel().tolist() if cplx else None)
    decorate(rng, c, lambda: fstr(rng.choice([rng.uniform(0.05, 5), rng.choice([0.5, 1, 2, 4, 0.25, 8])])), other_input)
    return c


def contains_fft(t):
    if t["t"] == "unitary" and t["linop"]["kind"] == "fft":
        return True
    return any(contains_fft(c) for c in children(t) if c is not None)


def pinned_inputs():
    """the two inputs of DESIGN §5 (#6, #7), always in the oracle's domain"""
    out = [dict(tree=dict(t="l1proj", shape=[2, 2], eps="10"), alpha="1", shape=[2, 2], y=np.ones((2, 2)), cplx=False),
           dict(tree=dict(t="l1proj", shape=[2, 3, 2], eps="20"), alpha="1/2", shape=[2, 3, 2],
                y=np.arange(12, dtype=float).reshape(2, 3, 2) / 10 * (1 + 0j), cplx=True)]
    q = np.array([[np.cos(.3), -np.sin(.3), 0], [np.sin(.3), np.cos(.3), 0], [0, 0, 1.]])
    q2 = np.array([[1, 0, 0], [0, np.cos(1.1), -np.sin(1.1)], [0, np.sin(1.1), np.cos(1.1)]])
    for qq in (q, q2 @ q, q @ q2):
        out.append(dict(tree=dict(t="psd", shape=[3, 3]), alpha="1", shape=[3, 3],
                        y=qq @ np.diag([1, 1, -1.]) @ qq.T, cplx=False))
    return out


def search(ctx, budget):
    rng = ctx.rng
    # 1. disagreeing correspondence cases first
    for d in ctx.disagreements[:200]:
        c = d["case"]
        if not isinstance(c, dict):
            continue
        if "y_re" in c:
            c = case_from_json(c)
        if "fn" in c:
            if c["fn"] != "l1":
                continue
            cc = dict(tree=dict(t="l1proj", shape=c["shape"], eps=c["lam"]), alpha="1", shape=c["shape"], x=c["x"], cplx=c["cplx"])
            k = diagnose(cc, direct=True)
            if k:
                ctx.fail(k, "thresh.l1_proj returns shape != input shape", case_json(cc), observed="flattened",
                         expected="input shape", origin="disagreement")
            continue
        try:
            f = evaluate(c, rng)
        except Exception as e:  # noqa
            ctx.oblige("search:C11.replay-disagreement", "search", False, "oracle exception %r" % (e,))
            continue
        if f:
            report(ctx, c, f, "disagreement")
    # 2. the two pinned inputs, then the budgeted search
    for c in pinned_inputs():
        ctx.case(("pinned", json.dumps(case_json(c), default=str)[:300]))
        f = evaluate(c, rng)
        if f:
            report(ctx, c, f, "pinned-input")
    n = int(1500 * budget)
    for _ in range(n):
        c = gen_search_case(rng)
        ctx.case(("oracle", describe(c["tree"]), c["alpha"], c["shape"], repr(np.asarray(c.get("y", c.get("x"))).tolist())[:200],
                  len(c.get("hist") or []), c.get("ylayout"), c.get("playout")))
        ctx.count("oracle:" + describe(c["tree"]).split("(")[0])
        if c.get("hist"):
            ctx.count("oracle-history:%d-earlier-calls" % len(c["hist"]))
        if c.get("ylayout") or c.get("playout"):
            ctx.count("oracle-layout:y=%s,params=%s" % (c.get("ylayout", "C"), c.get("playout", "C")))
        if contains_weights(c["tree"]):
            ctx.count("oracle:l1reg-array-lamda")
        f = evaluate(c, rng)
        if f:
            report(ctx, c, f, "search")


def replay(path):
    r = json.load(open(path))
    print(json.dumps(r, indent=1)[:3000])
    if r.get("kind") != "failing-input":
        return 0
    c = case_from_json(r["case"])
    import random
    f = evaluate(c, random.Random(0))
    if f is None and c["tree"]["t"] == "l1proj":
        k = diagnose(dict(c, x=c.get("x")), direct=True) if "x" in c else None
        if k:
            f = dict(key=k, what="thresh.l1_proj returns a flattened array")
    if "x" in c:
        ctx = common.Ctx(PROPERTY, "quick", 0)
        print("model:", ctx.driver([line(c)])[0][:400])
    print("replay:", "property holds on this input" if f is None else "property FAILS on this input: %s — %s" % (f["key"], f["what"]))
    return 0 if f is None else 1
