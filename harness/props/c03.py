"""C03 — operator algebra agrees with matrix algebra and advertised shapes; misfits are rejected.

Trees are JSON-able dicts:
  leaf     {"t":"leaf","k":kind,"osh":[..],"ish":[..], ...parameters (integer / Gaussian-integer data)}
  compose  {"t":"compose","args":[..]}          (2 args: `A * B`, more: `Compose([...])`)
  add      {"t":"add","args":[..]}              (2 args: `A + B`, more: `Add([...])`)
  sub/neg  {"t":"sub","args":[A,B]} / {"t":"neg","args":[A]}
  ml/mr    {"t":"ml"|"mr","s":[re,im],"py":"int|float|complex","args":[A]}     a*A / A*a
  hstack   {"t":"hstack","args":[..],"axis":int|None}; vstack likewise
  diag     {"t":"diag","args":[..],"oaxis":..,"iaxis":..}
"""
import json
from fractions import Fraction

import numpy as np

from harness import common
from harness.translate import gen as G

PROPERTY = "C03"
LEAN_MODULES = ["SigpyVerif.Props.C03", "SigpyVerif.Props.C03Loop", "SigpyVerif.Props.C03Gen"]
THEOREMS = ["SigpyVerif.C03." + t for t in [
    "call_iff", "call_shape", "call_of_shape", "natGuard_iff_prefix", "natGuard_eq_iff",
    "compose_build_iff", "compose_order", "composeApp_append", "add_build_iff", "add_apply",
    "scaleL_apply", "scaleR_apply", "neg_sub_def", "normAxis_spec", "stack_build_iff",
    "stack_indices_prefix_sums", "prefixFrom_getElem?", "stack_none_accepts_all", "slab_bounds", "bounds_short",
    "slabs_read_concat", "slabs_write_concat", "assembleAx_concat", "vstack_build_iff", "hstack_build_iff",
    "vstack_uses_slab_bounds", "stackFold_spec", "selRange_concat", "rowWrites_concat", "normAxis_eq",
    # N-d geometry (outer x axis x inner decomposition of the row-major layout), read and write side
    "flatten_rowOf", "rowOf_flatten", "rowOf_concatAx", "selLen_specBounds", "sliceAx_concat",
    "stackParams_some_stacked", "stack_bounds", "slabs_concat", "assemble_concat",
    # operator level
    "vstack_block_col", "hstack_block_row", "sumResults_entry", "diag_block_diag", "vstack_block_col_call",
    "diag_block_diag_call",
    # the faithful translation of the loops and guards (Props/C03Loop.lean)
    "inner_fold", "gen_loop_eq_combined", "gen_stack_build_iff", "gen_stack_indices_prefix_sums",
    "gen_stack_none_accepts_all", "gen_stack_empty", "gen_guard_agree", "zipGuard_iff", "zipGuard_eq_iff",
    "gen_apply_axis_agree",
    # the generated `_apply` bodies / guards / Linop.apply (Gen/LinopApply.lean; Props/C03Gen.lean)
    "gen_positive_agree", "gen_same_ishape_agree", "gen_same_oshape_agree", "gen_compose_guard_agree",
    "gen_linopApply_eq_call", "gen_linopCall_eq_call", "gen_call_accepts_iff", "call_error", "gen_composeApply_eq",
    "G_compose_eq", "G_compose_build_iff", "gen_addApply_sum", "sumSeq_eq_sumResults", "G_add_build_iff", "G_add_apply",
    "bounds_get", "gen_start_eq", "gen_stop_eq", "slcG_form", "npGetItem_slcG", "npSetItem_slcG", "slabG_eq_slab",
    "hstackStep_ok", "vstackStep_ok", "diagStep_ok", "G_hstack_build_iff", "G_hstack_block_row", "seq_rows", "seqAssemble",
    "writeFold_concat", "G_vstack_build_iff", "G_vstack_block_col", "G_diag_build_iff", "G_diag_block_diag",
    "compose_call", "compose_assoc", "compose_assoc_build", "G_add_app2", "add_compose_distrib", "gen_call_shape",
    "G_build_agree",
]]


def translate(ctx):
    # the source normaliser in front of the translators (harness/translate/norm_c03.py) is checked on every run: spellings
    # that are equivalent must meet, spellings that differ in meaning must stay apart (fail-closed)
    try:
        from harness.translate import norm_c03
        bad = norm_c03.selftest()
    except Exception as e:  # noqa
        bad = ["normaliser self-test raised %r" % (e,)]
    ctx.oblige("translate:C03.normaliser-selftest", "translate", not bad, "; ".join(bad[:3]) if bad else "equivalent spellings meet, different ones stay apart")
    G.regenerate(ctx, ["StackParams", "LinopApply"])

STACKS = ("hstack", "vstack", "diag")
CLS = dict(compose="Compose", add="Add", sub="Sub", neg="Neg", ml="ScalarLeft", mr="ScalarRight",
           hstack="Hstack", vstack="Vstack", diag="Diag", leaf="Leaf")


# ---------------------------------------------------------------------------------------------
# numbers
def fr(v):
    return Fraction(float(v))


def fmt_fr(f):
    return str(f.numerator) if f.denominator == 1 else "%d/%d" % (f.numerator, f.denominator)


def fmt_c(z):
    z = complex(z)
    re, im = fr(z.real), fr(z.imag)
    return fmt_fr(re) if im == 0 else "%s;%s" % (fmt_fr(re), fmt_fr(im))


def fmt_clist(a):
    a = list(np.asarray(a).ravel())
    return ",".join(fmt_c(z) for z in a) if a else "-"


def L(x):
    x = [int(v) for v in x]
    return ",".join(str(v) for v in x) if x else "-"


def parse_c(s):
    p = s.split(";")
    return (Fraction(p[0]), Fraction(p[1]) if len(p) > 1 else Fraction(0))


def ilist(s):
    return [] if s == "-" else [int(v) for v in s.split(",")]


def canon_arr(y):
    y = np.asarray(y)
    return (list(int(s) for s in y.shape), [(fr(complex(z).real), fr(complex(z).imag)) for z in y.ravel()])


def scalar(node):
    re, im = node["s"]
    py = node.get("py", "complex")
    if py == "int":
        return int(re)
    if py == "float":
        return float(re)
    if py == "npfloat":
        return np.float64(re)
    return complex(re, im)


# ---------------------------------------------------------------------------------------------
# real operators
def build_leaf(n):
    from sigpy import linop
    k, osh, ish = n["k"], n["osh"], n["ish"]
    if k == "identity":
        return linop.Identity(ish)
    if k == "multiply":
        return linop.Multiply(ish, carr(n["data"]).reshape(ish))
    if k == "flip":
        return linop.Flip(ish, axes=n["axes"])
    if k == "circshift":
        return linop.Circshift(ish, n["shift"])
    if k == "reshape":
        return linop.Reshape(osh, ish)
    if k == "resize":
        return linop.Resize(osh, ish)
    if k == "transpose":
        return linop.Transpose(ish, axes=n["axes"])
    if k == "matmul":
        return linop.MatMul(ish, carr(n["data"]).reshape(n["mshape"]))
    raise ValueError(k)


def carr(data):
    a = np.array([complex(r, i) for r, i in data])
    if np.all(a.imag == 0):
        a = a.real.copy()
    return a


def build(n):
    """the real sigpy operator of a tree (raises whatever sigpy raises)."""
    from sigpy import linop
    t = n["t"]
    if t == "leaf":
        return build_leaf(n)
    ops = [build(a) for a in n["args"]]
    if t == "compose":
        return ops[0] * ops[1] if len(ops) == 2 and not n.get("ctor") else linop.Compose(ops)
    if t == "add":
        return ops[0] + ops[1] if len(ops) == 2 and not n.get("ctor") else linop.Add(ops)
    if t == "sub":
        return ops[0] - ops[1]
    if t == "neg":
        return -ops[0]
    if t == "ml":
        return scalar(n) * ops[0]
    if t == "mr":
        return ops[0] * scalar(n)
    if t == "hstack":
        return linop.Hstack(ops, axis=n["axis"])
    if t == "vstack":
        return linop.Vstack(ops, axis=n["axis"])
    if t == "diag":
        return linop.Diag(ops, oaxis=n["oaxis"], iaxis=n["iaxis"])
    raise ValueError(t)



LAYOUTS = ("C", "F", "strided", "perm", "neg", "offset")


def with_layout(a, layout):
    """the same logical array (same shape, dtype, values) held in another memory layout; all results are writable:
      C        row-major, contiguous
      F        column-major (Fortran), contiguous
      strided  every other entry of a buffer twice as long along every axis (contiguous in neither order)
      perm     a transposed view of a buffer whose axes are rotated (neither C nor F for rank >= 3, F for rank 2)
      neg      negative strides along every axis (a reversed view of the reversed data)
      offset   the interior window of a larger row-major buffer (non-zero offset, rows not adjacent)
    The statement speaks of the matrix acting on the (row-major) flattened vector: it quantifies over all inputs,
    and an input is its values, not the strides numpy happens to store them with."""
    a = np.asarray(a)
    if a.ndim == 0 or layout == "C":
        return np.ascontiguousarray(a)
    if layout == "F":
        return np.asfortranarray(a)
    if layout == "strided":
        buf = np.zeros([2 * s for s in a.shape], dtype=a.dtype)
        v = buf[tuple(slice(None, None, 2) for _ in a.shape)]
    elif layout == "perm":
        p = list(range(1, a.ndim)) + [0]
        buf = np.zeros([a.shape[i] for i in p], dtype=a.dtype)
        v = buf.transpose([p.index(i) for i in range(a.ndim)])
    elif layout == "neg":
        buf = np.zeros(a.shape, dtype=a.dtype)
        v = buf[tuple(slice(None, None, -1) for _ in a.shape)]
    elif layout == "offset":
        buf = np.zeros([s + 2 for s in a.shape], dtype=a.dtype)
        v = buf[tuple(slice(1, -1) for _ in a.shape)]
    else:
        raise ValueError("layout %r" % (layout,))
    assert v.shape == a.shape
    v[...] = a
    return v


def relayout(a, tag=0, layout=None):
    """layout=None: same values in Fortran (column-major) memory order for every other call: the algebra must not depend on
    the memory layout of the arrays that flow between the operators (flattening is row-major by definition);
    otherwise the named layout of `with_layout`"""
    a = np.asarray(a)
    if layout is not None:
        return with_layout(a, layout)
    if a.ndim >= 2 and (int(tag) + a.size) % 2 == 0:
        return np.asfortranarray(a)
    return a

def dense_of(A, dtype=complex, layout=None):
    """dense matrix of a real operator through basis vectors (exact: entries are small dyadic rationals)"""
    ish, osh = [int(s) for s in A.ishape], [int(s) for s in A.oshape]
    ni, no = int(np.prod(ish)), int(np.prod(osh))
    D = np.zeros((no, ni), dtype=complex)
    for j in range(ni):
        e = np.zeros(ni, dtype=dtype)
        e[j] = 1
        y = A(relayout(e.reshape(ish), j, layout))
        if tuple(y.shape) != tuple(osh):
            raise ShapeError("A(x).shape=%s but A.oshape=%s" % (tuple(y.shape), osh))
        D[:, j] = np.asarray(y).ravel()
    return D


class ShapeError(Exception):
    pass


# ---------------------------------------------------------------------------------------------
# protocol
def prog(n, leaf_dense, exact=False):
    """reverse-polish program of a tree; leaf_dense(n) gives the dense matrix of a leaf (measured
    on the real leaf operator).  exact=True: Identity / Reshape leaves are sent as `I:` / `R:` (the model's
    transcription of their `_apply`, defined on inputs of ANY shape) — used by the off-rank stream."""
    t = n["t"]
    if t == "leaf":
        if exact:
            if n["k"] == "identity":
                return ["I:%s" % L(n["ish"])]
            if n["k"] == "reshape":
                return ["R:%s:%s" % (L(n["osh"]), L(n["ish"]))]
            raise ValueError("exact leaf " + n["k"])
        return ["L:%s:%s:%s" % (L(n["osh"]), L(n["ish"]), fmt_clist(leaf_dense(n)))]
    out = []
    for a in n["args"]:
        out += prog(a, leaf_dense, exact)
    k = len(n["args"])
    ax = lambda v: "none" if v is None else str(int(v))
    if t == "compose":
        out.append("C:%d" % k)
    elif t == "add":
        out.append("A:%d" % k)
    elif t == "sub":
        out.append("S")
    elif t == "neg":
        out.append("N")
    elif t in ("ml", "mr"):
        out.append("%s:%s" % (t.upper(), fmt_c(complex(*n["s"]))))
    elif t == "hstack":
        out.append("H:%d:%s" % (k, ax(n["axis"])))
    elif t == "vstack":
        out.append("V:%d:%s" % (k, ax(n["axis"])))
    elif t == "diag":
        out.append("D:%d:%s:%s" % (k, ax(n["oaxis"]), ax(n["iaxis"])))
    else:
        raise ValueError(t)
    return out


_leaf_cache = {}


def leaf_dense(n):
    key = json.dumps(n, sort_keys=True)
    if key not in _leaf_cache:
        if len(_leaf_cache) > 20000:
            _leaf_cache.clear()
        _leaf_cache[key] = dense_of(build_leaf(n))
    return _leaf_cache[key]


def line(tree, xshape, x, exact=False):
    return "C03 eval xs=%s x=%s %s" % (L(xshape), fmt_clist(x), " ".join(prog(tree, leaf_dense, exact)))


def parse_reply(r):
    if not r.startswith("ok "):
        return r
    p = r.split(" ")
    osh, ish = ilist(p[1]), ilist(p[2])
    if p[3] == "apply-error":
        return ("ok", osh, ish, "apply-error")
    sh, data = p[3].split("|")
    return ("ok", osh, ish, (ilist(sh), [] if data == "-" else [parse_c(v) for v in data.split(",")]))


def run_impl(tree, xshape, x, layout=None):
    try:
        A = build(tree)
    except Exception as e:  # noqa
        return "err build"
    osh, ish = [int(s) for s in A.oshape], [int(s) for s in A.ishape]
    try:
        y = A(relayout(np.array(x).reshape(xshape), len(x), layout))
    except Exception as e:  # noqa
        return ("ok", osh, ish, "apply-error")
    return ("ok", osh, ish, canon_arr(y))


# ---------------------------------------------------------------------------------------------
# generation (top-down: a tree with the requested oshape/ishape)
def prod(s):
    return int(np.prod(s)) if len(s) else 1


def rshape(rng, maxsize=12):
    while True:
        nd = rng.choice([1, 1, 2, 2, 3])
        s = [rng.choice([1, 2, 2, 3, 3, 4]) for _ in range(nd)]
        if prod(s) <= maxsize:
            return s


def rdata(rng, n, cplx):
    if cplx:
        return [[float(rng.randint(-3, 3)), float(rng.randint(-2, 2))] for _ in range(n)]
    return [[float(rng.randint(-3, 3)), 0.0] for _ in range(n)]


def rscalar(rng, cplx):
    if cplx and rng.random() < 0.6:
        re, im = rng.choice([0, 1, -1, 2, 0.5, -1.5]), rng.choice([1, -1, 2, 0.5, -0.5])
        return dict(s=[float(re), float(im)], py="complex")
    kind = rng.choice(["int", "int", "float", "float", "npfloat", "complex"])
    if kind == "int":
        return dict(s=[float(rng.choice([-3, -2, -1, 0, 1, 2, 3])), 0.0], py="int")
    re = float(rng.choice([-2.5, -1.0, -0.5, 0.5, 1.0, 1.5, 2.0, 0.25]))
    return dict(s=[re, 0.0], py=kind)


def gen_leaf(rng, osh, ish, cplx):
    opts = ["dense"]
    if osh == ish:
        opts += ["identity", "identity", "multiply", "multiply", "flip", "circshift"]
    if prod(osh) == prod(ish):
        opts += ["reshape", "reshape"] if osh != ish else ["reshape"]
    if len(osh) == len(ish):
        opts += ["resize"]
    if len(osh) == len(ish) >= 2 and sorted(osh) == sorted(ish):
        opts += ["transpose"]
    if len(osh) == len(ish) >= 2 and osh[:-2] == ish[:-2] and osh[-1] == ish[-1]:
        opts += ["matmul", "matmul", "matmul"]
    k = rng.choice(opts)
    base = dict(t="leaf", k=k, osh=list(osh), ish=list(ish))
    if k == "multiply":
        base["data"] = rdata(rng, prod(ish), cplx)
    elif k == "flip":
        nd = len(ish)
        base["axes"] = sorted(set(rng.randrange(nd) for _ in range(rng.randint(1, nd))))
    elif k == "circshift":
        base["shift"] = [rng.randint(-2, 2) for _ in ish]
    elif k == "transpose":
        # a permutation p with osh[i] = ish[p[i]]
        pool = list(range(len(ish)))
        p = []
        for o in osh:
            c = [j for j in pool if ish[j] == o]
            j = rng.choice(c)
            pool.remove(j)
            p.append(j)
        base["axes"] = p
    elif k == "matmul":
        m, nn = osh[-2], ish[-2]
        base["mshape"] = [m, nn]
        base["data"] = rdata(rng, m * nn, cplx)
    elif k == "dense":
        m, nn = prod(osh), prod(ish)
        mm = dict(t="leaf", k="matmul", osh=[m, 1], ish=[nn, 1], mshape=[m, nn], data=rdata(rng, m * nn, cplx))
        args = []
        if osh != [m, 1]:
            args.append(dict(t="leaf", k="reshape", osh=list(osh), ish=[m, 1]))
        args.append(mm)
        if ish != [nn, 1]:
            args.append(dict(t="leaf", k="reshape", osh=[nn, 1], ish=list(ish)))
        if len(args) == 1:
            return mm
        return dict(t="compose", args=args, ctor=(len(args) > 2 or rng.random() < 0.5))
    return base


def split_int(rng, total, k):
    """k positive parts summing to total"""
    cuts = sorted(rng.sample(range(1, total), k - 1))
    return [b - a for a, b in zip([0] + cuts, cuts + [total])]


def pick_axis(rng, shape, k):
    """(axis or None, per-operand shapes) for stacking k operands into `shape`; None if impossible"""
    cands = [a for a in range(len(shape)) if shape[a] >= k]
    choice = []
    if cands:
        choice += ["axis"] * 3
    if len(shape) == 1 and shape[0] >= k:
        choice += ["none"] * 2
    if not choice:
        return None
    if rng.choice(choice) == "none":
        parts = split_int(rng, shape[0], k)
        shapes = []
        for p in parts:
            # any shape with that many entries
            f = [d for d in (1, 2, 3, 4) if p % d == 0]
            d = rng.choice(f)
            shapes.append(rng.choice([[p], [d, p // d], [p // d, d], [1, p]]))
        return (None, shapes)
    a = rng.choice(cands)
    parts = split_int(rng, shape[a], k)
    shapes = [shape[:a] + [p] + shape[a + 1:] for p in parts]
    ax = a if rng.random() < 0.5 else a - len(shape)
    return (ax, shapes)


def gen(rng, osh, ish, depth, cplx):
    if depth <= 0 or rng.random() < 0.12:
        return gen_leaf(rng, osh, ish, cplx)
    t = rng.choice(["compose", "compose", "add", "sub", "neg", "ml", "mr", "hstack", "hstack", "vstack", "vstack",
                    "diag", "diag", "hstack", "vstack", "diag"])
    d = depth - 1
    if t == "compose":
        k = rng.choice([2, 2, 2, 3])
        mids = [rshape(rng) for _ in range(k - 1)]
        sh = [osh] + mids + [ish]
        return dict(t="compose", args=[gen(rng, sh[i], sh[i + 1], d, cplx) for i in range(k)],
                    ctor=(k > 2 or rng.random() < 0.3))
    if t == "add":
        k = rng.choice([2, 2, 3])
        return dict(t="add", args=[gen(rng, osh, ish, d, cplx) for _ in range(k)], ctor=(k > 2 or rng.random() < 0.3))
    if t == "sub":
        return dict(t="sub", args=[gen(rng, osh, ish, d, cplx) for _ in range(2)])
    if t == "neg":
        return dict(t="neg", args=[gen(rng, osh, ish, d, cplx)])
    if t in ("ml", "mr"):
        return dict(t=t, args=[gen(rng, osh, ish, d, cplx)], **rscalar(rng, cplx))
    k = rng.choice([1, 2, 2, 2, 3, 3])
    if t == "hstack":
        pa = pick_axis(rng, ish, k)
        if pa is None:
            return gen(rng, osh, ish, depth, cplx)
        return dict(t="hstack", axis=pa[0], args=[gen(rng, osh, s, d, cplx) for s in pa[1]])
    if t == "vstack":
        pa = pick_axis(rng, osh, k)
        if pa is None:
            return gen(rng, osh, ish, depth, cplx)
        return dict(t="vstack", axis=pa[0], args=[gen(rng, s, ish, d, cplx) for s in pa[1]])
    pi, po = pick_axis(rng, ish, k), pick_axis(rng, osh, k)
    if pi is None or po is None:
        return gen(rng, osh, ish, depth, cplx)
    return dict(t="diag", oaxis=po[0], iaxis=pi[0], args=[gen(rng, so, si, d, cplx) for so, si in zip(po[1], pi[1])])


def gen_tree(rng, depth=None, force_stack=False):
    cplx = rng.random() < 0.5
    depth = depth if depth is not None else rng.choice([1, 1, 2, 2, 3])
    for _ in range(50):
        osh, ish = rshape(rng), rshape(rng)
        if rng.random() < 0.3:
            ish = [prod(ish)] if rng.random() < 0.5 else ish
            osh = [prod(osh)] if rng.random() < 0.5 else osh
        t = gen(rng, osh, ish, depth, cplx)
        if not force_stack or has_stack(t):
            return t, cplx
    return t, cplx


def has_stack(n):
    return n["t"] in STACKS and len(n["args"]) > 1 or any(has_stack(a) for a in n.get("args", []))


def nodes(n):
    for a in n.get("args", []):
        yield from nodes(a)
    yield n


def gen_input(rng, shape, cplx):
    n = prod(shape)
    if cplx:
        return np.array([complex(rng.randint(-4, 4), rng.randint(-4, 4)) for _ in range(n)]).reshape(shape)
    return np.array([float(rng.randint(-4, 4)) for _ in range(n)]).reshape(shape)


# ---- memory layouts: trees whose parts hand back their input object, a VIEW of it (Identity, Transpose, Flip), or an
#      array in their input's memory order (scalar multiples, sums, Multiply), under stacks of every axis incl. None -----
VIEW_SHAPES = [[2, 2], [2, 3], [3, 2], [2, 4], [4, 2], [3, 3], [2, 2, 2], [2, 3, 2], [2, 1, 3], [3, 1, 2], [1, 2, 3],
               [2, 2, 3], [3], [4], [6], [1, 4]]


def transpose_leaf(rng, osh, ish):
    """Transpose with a random permutation p such that osh[i] = ish[p[i]] (None if osh is not a permutation of ish)"""
    if len(osh) != len(ish) or sorted(osh) != sorted(ish):
        return None
    pool, p = list(range(len(ish))), []
    for o in osh:
        j = rng.choice([j for j in pool if ish[j] == o])
        pool.remove(j)
        p.append(j)
    if rng.random() < 0.3:
        p = [j - len(ish) if rng.random() < 0.5 else j for j in p]     # negative axes name the same permutation
    return dict(t="leaf", k="transpose", osh=list(osh), ish=list(ish), axes=p)


def permuted(rng, s):
    s = list(s)
    rng.shuffle(s)
    return s


def gen_viewy(rng, osh, ish, cplx, depth=2):
    """an operator osh <- ish built preferably from parts that return their input object, a view of it, or an array in
    its memory order; falls back to the general generator when the shapes leave no such choice"""
    osh, ish = list(osh), list(ish)
    opts = []
    if osh == ish:
        opts += ["identity"] * 3 + ["flip", "multiply", "circshift"]
        if depth > 0:
            opts += ["unit", "unit", "neg", "scale", "sum"]
    if len(osh) >= 2 and sorted(osh) == sorted(ish):
        opts += ["transpose"] * 4
    if len(osh) >= 2 and depth > 0:
        opts += ["transpose-outer"] * 3
    if prod(osh) == prod(ish) and osh != ish:
        opts += ["reshape"]
    if not opts or rng.random() < 0.1:
        return gen(rng, osh, ish, max(0, min(depth, 1)), cplx)
    k = rng.choice(opts)
    d = depth - 1
    if k == "transpose":
        return transpose_leaf(rng, osh, ish)
    if k == "transpose-outer":      # a permuted view as the OUTERMOST factor of the part
        mid = permuted(rng, osh)
        return dict(t="compose", args=[transpose_leaf(rng, osh, mid), gen_viewy(rng, mid, ish, cplx, d)], ctor=rng.random() < 0.3)
    if k == "unit":                 # 1 * A, A * 1: the scalar's python type is the caller's choice
        py = rng.choice(["int", "float", "npfloat"] + (["complex"] if cplx else []))
        return dict(t=rng.choice(["ml", "mr"]), args=[gen_viewy(rng, osh, ish, cplx, d)], s=[1.0, 0.0], py=py)
    if k == "neg":
        return dict(t="neg", args=[gen_viewy(rng, osh, ish, cplx, d)])
    if k == "scale":
        return dict(t=rng.choice(["ml", "mr"]), args=[gen_viewy(rng, osh, ish, cplx, d)], **rscalar(rng, cplx))
    if k == "sum":
        return dict(t=rng.choice(["add", "sub"]), args=[gen_viewy(rng, osh, ish, cplx, d) for _ in range(2)])
    base = dict(t="leaf", k=k, osh=osh, ish=ish)
    if k == "multiply":
        base["data"] = rdata(rng, prod(ish), cplx)
    elif k == "flip":
        base["axes"] = sorted(set(rng.randrange(len(ish)) for _ in range(rng.randint(1, len(ish)))))
    elif k == "circshift":
        base["shift"] = [rng.randint(-2, 2) for _ in ish]
    return base


def gen_layout_tree(rng):
    """(tree, cplx): a stack (Vstack most often; every axis in [-ndim, ndim) and None) / sum of such parts, sometimes fed by
    or feeding another such part, so that non-C-contiguous arrays reach the stack from outside AND from its blocks"""
    cplx = rng.random() < 0.4
    k = rng.choice([1, 2, 2, 2, 3])
    t = rng.choice(["vstack"] * 5 + ["diag"] * 3 + ["hstack"] * 2 + ["add"])
    base = list(rng.choice(VIEW_SHAPES))
    nd = len(base)

    def along(axis):
        """k shapes that agree with `base` off `axis`"""
        out = []
        for _ in range(k):
            s = list(base)
            if rng.random() < 0.5:
                s[axis] = rng.choice([1, 2, 3])
            out.append(s)
        return out

    def free():
        """k shapes for flattened stacking: permutations of `base` most often"""
        return [permuted(rng, base) if rng.random() < 0.7 else list(rng.choice(VIEW_SHAPES)) for _ in range(k)]

    def axis_or_none():
        return None if rng.random() < 0.6 else rng.randrange(-nd, nd)
    V = lambda o, i: gen_viewy(rng, o, i, cplx, rng.choice([0, 1, 1, 2]))
    if t == "add":
        o = permuted(rng, base)
        tree = dict(t="add", args=[V(o, base) for _ in range(max(k, 2))], ctor=True)
    elif t == "vstack":
        ax = axis_or_none()
        oshs = free() if ax is None else along(ax)
        tree = dict(t="vstack", axis=ax, args=[V(o, base) for o in oshs])
    elif t == "hstack":
        ax = axis_or_none()
        ishs = free() if ax is None else along(ax)
        o = permuted(rng, base)
        tree = dict(t="hstack", axis=ax, args=[V(o, i) for i in ishs])
    else:
        oax, iax = axis_or_none(), axis_or_none()
        ishs = free() if iax is None else along(iax)
        if oax is None:
            oshs = [permuted(rng, i) if rng.random() < 0.7 else list(rng.choice(VIEW_SHAPES)) for i in ishs]
        else:
            oshs = along(oax)
        tree = dict(t="diag", oaxis=oax, iaxis=iax, args=[V(o, i) for o, i in zip(oshs, ishs)])
    osh, ish, _ = expected(tree)
    r = rng.random()
    if r < 0.25:        # the stack's input is what another part hands back
        inner = permuted(rng, ish)
        tree = dict(t="compose", args=[tree, V(ish, inner)], ctor=rng.random() < 0.3)
    elif r < 0.4:       # the stack's output flows on
        tree = dict(t="compose", args=[V(permuted(rng, osh), osh), tree], ctor=rng.random() < 0.3)
    return tree, cplx


# ---- off-rank inputs: chains of Identity / Reshape / scalars, inputs whose rank differs from ishape ----------
def same_size_shape(rng, size):
    """a random shape with `size` entries"""
    f = [d for d in (1, 2, 3, 4, 6) if size % d == 0]
    d = rng.choice(f)
    return rng.choice([[size], [d, size // d], [size // d, d], [1, size], [size, 1], [d, 1, size // d]])


def gen_chain(rng, osh, ish, depth):
    """tree over Identity / Reshape leaves and Compose / a*A / A*a / -A: every `_apply` on the way is defined on
    inputs of any shape (no stacking, no sum: numpy broadcasting of off-rank operands is not modelled)"""
    if depth <= 0 or rng.random() < 0.2:
        if osh == ish and rng.random() < 0.7:
            return dict(t="leaf", k="identity", osh=list(osh), ish=list(ish))
        return dict(t="leaf", k="reshape", osh=list(osh), ish=list(ish))
    t = rng.choice(["compose", "compose", "ml", "mr", "neg"])
    if t == "compose":
        k = rng.choice([2, 2, 3])
        mids = [same_size_shape(rng, prod(ish)) if rng.random() < 0.7 else list(rng.choice([osh, ish])) for _ in range(k - 1)]
        sh = [osh] + mids + [ish]
        return dict(t="compose", args=[gen_chain(rng, sh[i], sh[i + 1], depth - 1) for i in range(k)],
                    ctor=(k > 2 or rng.random() < 0.3))
    if t == "neg":
        return dict(t="neg", args=[gen_chain(rng, osh, ish, depth - 1)])
    return dict(t=t, args=[gen_chain(rng, osh, ish, depth - 1)], **rscalar(rng, True))


def offrank_shape(rng, ish):
    """an input shape of a rank different from len(ish): a proper non-empty prefix, an extension, or one
    of these with an entry of the common prefix changed (which the guard must reject)"""
    ish = list(ish)
    if rng.random() < 0.5 and len(ish) >= 2:      # (0-d arrays are left out: numpy turns them into scalars on the way)
        s = ish[:rng.randrange(1, len(ish))]
    else:
        s = ish + [rng.choice([1, 1, 2, 3]) for _ in range(rng.choice([1, 1, 2]))]
    if rng.random() < 0.35:
        c = min(len(s), len(ish))
        if c:
            i = rng.randrange(c)
            s[i] = s[i] + rng.choice([1, 2]) if s[i] == 1 or rng.random() < 0.6 else s[i] - 1
    return s


def gen_offrank_stack(rng):
    """(tree, ishape): Add / Hstack / Vstack / Diag of k equal-sized Identity/Reshape/scalar chains (every `_apply` below the
    root is defined on inputs of any shape), to be applied to inputs of a DIFFERENT rank: exercises the too-many-indices
    IndexError of `input[slc]`, numpy broadcasting in `output[slc] = y` and `a + b`, and the zip guards around them"""
    k = rng.choice([2, 2, 3])
    s = same_size_shape(rng, rng.choice([1, 2, 3, 4, 6]))
    other = same_size_shape(rng, prod(s))
    t = rng.choice(["add", "hstack", "vstack", "diag", "diag"])

    def stacked(shape, axis):
        if axis is None:
            return [prod(shape) * k]
        r = list(shape)
        r[axis] = r[axis] * k
        return r

    def axis_of(shape):
        return rng.choice([None] + list(range(-len(shape), len(shape))))

    def opnd(o, i):
        return gen_chain(rng, o, i, rng.choice([0, 0, 1]))
    if t == "add":
        return dict(t="add", args=[opnd(other, s) for _ in range(k)], ctor=True), list(s)
    if t == "hstack":
        ax = axis_of(s)
        return dict(t="hstack", axis=ax, args=[opnd(other, s) for _ in range(k)]), stacked(s, ax)
    if t == "vstack":
        ax = axis_of(s)
        return dict(t="vstack", axis=ax, args=[opnd(s, other) for _ in range(k)]), list(other)
    oax, iax = axis_of(other), axis_of(s)
    return dict(t="diag", oaxis=oax, iaxis=iax, args=[opnd(other, s) for _ in range(k)]), stacked(s, iax)


# ---- malformed trees: one operand that does not fit ------------------------------------------
def perturb(rng, shape, keep_axis=None, p_same=0.3):
    """a shape that differs from `shape` (other than along keep_axis)"""
    s = list(shape)
    if keep_axis is None and rng.random() < p_same:   # same number of entries, different shape
        p = prod(s)
        c = [c for c in (s[::-1], [p], [p, 1], [1, p], s + [1], [1] + s) if c != s]
        return rng.choice(c)
    c = [i for i in range(len(s)) if i != keep_axis]
    if not c or rng.random() < 0.25:
        return s + [2] if rng.random() < 0.5 else ([2] + s)   # different rank
    i = rng.choice(c)
    s[i] = s[i] + rng.choice([1, 2]) if s[i] == 1 or rng.random() < 0.6 else s[i] - 1
    return s


def gen_misfit(rng):
    """(tree, description): the root combines operands whose shapes do not fit (by the property's reading:
    Compose needs ishape == next oshape; Add needs equal shapes; Hstack equal oshapes and ishapes that agree
    off the axis and in rank; Vstack dually; Diag both)."""
    cplx = rng.random() < 0.3
    d = rng.choice([0, 0, 1])
    osh, ish = rshape(rng, 8), rshape(rng, 8)
    t = rng.choice(["compose", "add-i", "add-o", "sub", "hstack-o", "hstack-i", "vstack-i", "vstack-o", "diag-i", "diag-o",
                    "hstack-rank", "vstack-rank"])
    g = lambda o, i: gen(rng, o, i, d, cplx)
    if t == "compose":
        mid = rshape(rng, 8)
        bad = perturb(rng, mid, p_same=0.5)   # same size but different shape is still a misfit for Compose
        k = rng.choice([2, 3])
        if k == 2:
            return dict(t="compose", args=[g(osh, mid), g(bad, ish)], ctor=rng.random() < 0.5), t
        mid2 = rshape(rng, 8)
        args = [g(osh, mid2), g(mid2, mid), g(bad, ish)] if rng.random() < 0.5 else [g(osh, mid), g(bad, mid2), g(mid2, ish)]
        return dict(t="compose", args=args, ctor=True), t
    if t in ("add-i", "add-o", "sub"):
        a = g(osh, ish)
        b = g(osh, perturb(rng, ish)) if t != "add-o" and rng.random() < 0.6 or t == "add-i" else g(perturb(rng, osh), ish)
        args = [a, b] if rng.random() < 0.5 or t == "sub" else [b, a]
        if t == "sub":
            return dict(t="sub", args=args), t
        if rng.random() < 0.3:
            args.insert(rng.randrange(3), g(osh, ish))
        return dict(t="add", args=args, ctor=len(args) > 2 or rng.random() < 0.5), t
    k = rng.choice([2, 2, 3])
    j = rng.randrange(k)
    if t.startswith("hstack") or t.startswith("vstack"):
        stacked, other = (ish, osh) if t.startswith("hstack") else (osh, ish)
        for _ in range(20):
            pa = pick_axis(rng, stacked, k)
            if pa is not None:
                break
            stacked = rshape(rng, 8)
        if pa is None:
            return gen_misfit(rng)
        ax, shapes = pa
        others = [list(other) for _ in range(k)]
        if t.endswith("-o") and t.startswith("hstack") or t.endswith("-i") and t.startswith("vstack"):
            others[j] = perturb(rng, other)          # the un-stacked side must be equal
        elif t.endswith("rank"):
            if ax is None:
                return gen_misfit(rng)
            shapes[j] = shapes[j] + [1] if rng.random() < 0.5 else [1] + shapes[j]
        else:
            if ax is None:
                return gen_misfit(rng)               # flattened stacking accepts every shape
            a = ax % len(stacked)
            if len(stacked) < 2:
                return gen_misfit(rng)
            s = perturb(rng, shapes[j], keep_axis=a)
            if len(s) != len(shapes[j]):
                return gen_misfit(rng)
            shapes[j] = s
        if t.startswith("hstack"):
            return dict(t="hstack", axis=ax, args=[g(o, s) for o, s in zip(others, shapes)]), t
        return dict(t="vstack", axis=ax, args=[g(s, i) for i, s in zip(others, shapes)]), t
    # diag
    for _ in range(30):
        pi, po = pick_axis(rng, ish, k), pick_axis(rng, osh, k)
        if pi is not None and po is not None:
            break
        osh, ish = rshape(rng, 8), rshape(rng, 8)
    if pi is None or po is None:
        return gen_misfit(rng)
    (iax, ishapes), (oax, oshapes) = pi, po
    side_ax, side, full = (iax, ishapes, ish) if t == "diag-i" else (oax, oshapes, osh)
    if side_ax is None or len(full) < 2:
        return gen_misfit(rng)
    s = perturb(rng, side[j], keep_axis=side_ax % len(full))
    if len(s) != len(side[j]):
        s = side[j] + [1]
    side[j] = s
    return dict(t="diag", oaxis=oax, iaxis=iax, args=[g(o, i) for o, i in zip(oshapes, ishapes)]), t


# ---------------------------------------------------------------------------------------------
# the property's own oracle (independent of the Lean model): the matrix expression of the parts
def split_index(shape, sizes, axis):
    """index sets of the operands inside the stacked array (numpy's own concatenate semantics)"""
    if axis is None:
        idx = np.arange(int(sum(sizes)))
        return np.split(idx, np.cumsum(sizes)[:-1])
    idx = np.arange(prod(shape)).reshape(shape)
    return [p.ravel() for p in np.split(idx, np.cumsum(sizes)[:-1], axis=axis)]


def stacked_shape(shapes, axis):
    """shape of numpy.concatenate of arrays with these shapes (flattened when axis is None)"""
    if axis is None:
        return [int(sum(prod(s) for s in shapes))]
    return list(np.concatenate([np.zeros(s, dtype=np.int8) for s in shapes], axis=axis).shape)


def expected(n):
    """(oshape, ishape, dense matrix) of a well-formed tree, from the matrix expressions of the statement;
    leaves: measured on the real leaf operator."""
    t = n["t"]
    if t == "leaf":
        return list(n["osh"]), list(n["ish"]), leaf_dense(n)
    parts = [expected(a) for a in n["args"]]
    if t == "compose":
        D = parts[0][2]
        for p in parts[1:]:
            D = D @ p[2]
        return parts[0][0], parts[-1][1], D
    if t == "add":
        return parts[0][0], parts[0][1], sum(p[2] for p in parts[1:]) + parts[0][2]
    if t == "sub":
        return parts[0][0], parts[0][1], parts[0][2] - parts[1][2]
    if t == "neg":
        return parts[0][0], parts[0][1], -parts[0][2]
    if t in ("ml", "mr"):
        return parts[0][0], parts[0][1], complex(*n["s"]) * parts[0][2]
    if t == "hstack":
        ish = stacked_shape([p[1] for p in parts], n["axis"])
        cols = split_index(ish, [prod(p[1]) if n["axis"] is None else p[1][n["axis"]] for p in parts], n["axis"])
        D = np.zeros((prod(parts[0][0]), prod(ish)), dtype=complex)
        for p, c in zip(parts, cols):
            D[:, c] = p[2]
        return parts[0][0], ish, D
    if t == "vstack":
        osh = stacked_shape([p[0] for p in parts], n["axis"])
        rows = split_index(osh, [prod(p[0]) if n["axis"] is None else p[0][n["axis"]] for p in parts], n["axis"])
        D = np.zeros((prod(osh), prod(parts[0][1])), dtype=complex)
        for p, r in zip(parts, rows):
            D[r, :] = p[2]
        return osh, parts[0][1], D
    if t == "diag":
        ish = stacked_shape([p[1] for p in parts], n["iaxis"])
        osh = stacked_shape([p[0] for p in parts], n["oaxis"])
        cols = split_index(ish, [prod(p[1]) if n["iaxis"] is None else p[1][n["iaxis"]] for p in parts], n["iaxis"])
        rows = split_index(osh, [prod(p[0]) if n["oaxis"] is None else p[0][n["oaxis"]] for p in parts], n["oaxis"])
        D = np.zeros((prod(osh), prod(ish)), dtype=complex)
        for p, r, c in zip(parts, rows, cols):
            D[np.ix_(r, c)] = p[2]
        return osh, ish, D
    raise ValueError(t)


def feature(n):
    t = n["t"]
    if t in ("hstack", "vstack"):
        axes = [n["axis"]]
    elif t == "diag":
        axes = [n["oaxis"], n["iaxis"]]
    else:
        return "matrix"
    if t == "diag" and (axes[0] is None) != (axes[1] is None):
        return "mixed-none-axis"
    if any(a is not None and a < 0 for a in axes):
        return "negative-axis"
    if all(a is None for a in axes):
        return "axis-none"
    return "axis"


def check_tree(n, x=None, dtype=None, layout=None):
    """None if the real operator of this tree satisfies the statement, else (kind, observed, expected).
    x: optional extra input (flat list of complex) checked against D @ x.
    layout: memory layout (`with_layout`) of every array handed to the operator; None = C and F alternating."""
    try:
        osh, ish, D = expected(n)
    except Exception as e:  # a leaf of the real code misbehaves: not this property's business
        return ("leaf", repr(e), "leaf operator usable")
    try:
        A = build(n)
    except Exception as e:
        return ("rejected", "constructor raised %r" % (e,), "operator with oshape=%s ishape=%s" % (osh, ish))
    got = ([int(s) for s in A.oshape], [int(s) for s in A.ishape])
    if got != (osh, ish):
        return ("advertised-shape", "oshape=%s ishape=%s" % got, "oshape=%s ishape=%s" % (osh, ish))
    dt = dtype or (complex if (np.any(D.imag != 0) or treecplx(n)) else float)
    try:
        Dg = dense_of(A, dtype=dt, layout=layout)
    except ShapeError as e:
        return ("output-shape", str(e), "A(x).shape == A.oshape")
    except Exception as e:
        return ("apply-raises", "%r <- %r" % (e, e.__cause__), "A(e_j) for a basis vector of shape %s" % ish)
    if not np.array_equal(Dg, D):
        bad = np.argwhere(Dg != D)[0]
        return ("matrix", "dense[%d,%d]=%s (%d entries differ) dense=%s" % (bad[0], bad[1], Dg[tuple(bad)], int(np.sum(Dg != D)), short_mat(Dg)),
                "dense[%d,%d]=%s dense=%s" % (bad[0], bad[1], D[tuple(bad)], short_mat(D)))
    if x is not None:
        xv = np.array(x, dtype=dt if dtype else complex)
        try:
            y = A(relayout(xv.reshape(ish), 0, layout))
        except Exception as e:
            return ("apply-raises", "%r <- %r" % (e, e.__cause__), "A(x)")
        if tuple(y.shape) != tuple(osh):
            return ("output-shape", "A(x).shape=%s" % (tuple(y.shape),), "oshape=%s" % osh)
        want = (D @ xv.astype(complex)).reshape(osh)
        if not np.array_equal(np.asarray(y).astype(complex), want):
            return ("value", "A(x)=%s" % np.asarray(y).ravel().tolist(), "D@x=%s" % want.ravel().tolist())
    return None


def treecplx(n):
    for m in nodes(n):
        if m["t"] in ("ml", "mr") and (m["s"][1] != 0 or m.get("py") == "complex"):
            return True
        if m["t"] == "leaf" and any(v[1] != 0 for v in m.get("data", [])):
            return True
    return False


def short_mat(D):
    D = np.asarray(D)
    if np.all(D.imag == 0):
        D = D.real
    s = np.array2string(D, separator=",", threshold=200, max_line_width=10000).replace("\n", "")
    return s if len(s) < 700 else s[:700] + "…"


def diagnose(tree, x=None, layout=None):
    """smallest failing subtree (post-order: children before parents) -> (key, subtree, kind, observed, expected).
    With a named layout the key says whether the subtree fails only for inputs held in that memory layout."""
    for n in nodes(tree):
        xn = x if n is tree else None
        r = check_tree(n, xn, layout=layout)
        if r is not None and r[0] != "leaf":
            key = "C03:%s:%s" % (CLS[n["t"]], feature(n))
            if layout not in (None, "C") and check_tree(n, xn, layout="C") is None:
                key += ":input-memory-layout"
            return (key, n, r[0], r[1], r[2])
    return None


def misfit_verdict(n):
    """(key, observed, expected) if the real code violates the statement on this misfit tree, else None.
    The operands themselves are well-formed trees: a defect inside an operand is reported under its own key."""
    for a in n["args"]:
        d = diagnose(a)
        if d is not None:
            return (d[0], "%s (inside an operand of a misfit tree)" % d[3], d[4])
    r = check_misfit(n)
    if r is None:
        return None
    return ("C03:%s:accepts-misfit" % CLS[n["t"]], r[1], r[2])


def check_misfit(n):
    """operands that do not fit must be rejected with an error rather than combined"""
    try:
        A = build(n)
    except Exception:
        return None
    return ("accepted", "constructed oshape=%s ishape=%s" % (list(A.oshape), list(A.ishape)), "an exception")


def zip_guard(got, adv):
    """the documented guard, written from the statement of `_check_ishape`: common prefix equal or wildcard"""
    return all(b == -1 or a == b for a, b in zip(got, adv))


def bad_input_verdict(tree, xshape, x):
    """an input of the advertised RANK whose shape differs from ishape must be rejected at application
    (key, observed, expected) or None"""
    ish = expected_ishape(tree)
    if ish is None or len(xshape) != len(ish) or list(xshape) == list(ish):
        return None
    try:
        A = build(tree)
    except Exception:
        return None
    try:
        y = A(np.asarray(x, dtype=complex).reshape(xshape))
    except Exception:
        return None
    return ("C03:%s:accepts-misfit-input" % CLS[tree["t"]],
            "A(x) returned an array of shape %s for x.shape=%s" % (list(np.shape(y)), list(xshape)),
            "an exception: ishape=%s" % ish)


def offrank_verdict(tree, xshape, x):
    """explanation of an off-rank disagreement by a failing input of the oracle: only same-rank misfits are in the
    property's domain (other ranks exercise the exact guard; a disagreement there stays unexplained)"""
    try:
        return bad_input_verdict(tree, xshape, x)
    except Exception:
        return None


def report(ctx, tree, x, origin, layout=None):
    d = diagnose(tree, x, layout)
    if d is None:
        return True
    key, sub, kind, obs, exp = d
    case = dict(kind="tree", tree=sub, x=None if (sub is not tree or x is None) else [[complex(z).real, complex(z).imag] for z in x])
    what = "%s %s: %s" % (CLS[sub["t"]], feature(sub), kind)
    if layout is not None:
        case["layout"] = layout
        what += " (arrays handed to the operator in memory layout %r)" % layout
    ctx.fail(key, what, case, observed=obs, expected=exp, origin=origin)
    return False


# ---------------------------------------------------------------------------------------------
def correspond(ctx):
    ctx.rule = ("case = (expression tree over built-in leaves [Identity, Multiply, MatMul, Reshape, Resize, Flip, "
                "Circshift, Transpose] with integer / Gaussian-integer data, input vector); the same reverse-polish "
                "line is evaluated by the Lean model and built with sigpy; compared exactly: oshape, ishape, output "
                "or error class (build / apply). distinct = distinct protocol lines; non-trivial = tree has at least "
                "one combinator. streams: well-formed trees (all axes in [-ndim,ndim) and None), misfit trees "
                "(one operand does not fit), wrong-shaped inputs of the advertised rank, inputs of a DIFFERENT rank "
                "(proper prefixes / extensions of ishape, with and without a changed entry in the common prefix) through "
                "chains of Identity / Reshape / scalar operators whose _apply the model transcribes for every input shape "
                "(exercises the exact zip guards of Linop.apply: accepted / rejected / returned array), "
                "_hstack_params/_vstack_params directly (real function vs model vs the translator-generated loops, incl. "
                "out-of-range axes), Linop._check_ishape/_check_oshape directly (incl. -1 wildcards) vs generated guards; "
                "memory layouts (stream layout): stacks of every axis incl. None over parts that return their input object / a "
                "view of it / an array in its memory order, the input handed to sigpy as C, Fortran, strided, offset, "
                "negative-stride and axis-permuted arrays of the same values (the model has values only)")
    ctx.assumptions += [
        "the driver runs the TRANSLATOR-GENERATED bodies of Linop.apply / Compose / Add / Hstack / Vstack / Diag._apply and the "
        "generated constructor guards (Gen/LinopApply.lean, Model/C03Gen.lean); hand-written and validated by this correspondence: "
        "the numpy primitives they are written in (Model/C03Np.lean: basic slicing npGetItem incl. the too-many-indices IndexError, "
        "slice assignment npSetItem and a + b incl. numpy broadcasting, reshape, ravel, empty) and the __init__ wiring of Model/C03Gen.lean",
        "numpy arrays are dense row-major; basic slicing/assignment as modelled by sliceAx/rowWrite (validated by correspondence)",
        "0-d arrays: the generated Linop.apply accepts them (zip over an empty shape); numpy arithmetic on 0-d arrays returns SCALARS and "
        "Linop.__call__ of a scalar builds a Compose instead of applying (translator checks that dispatch literally) - not modelled further; "
        "off-rank inputs are sent through Identity/Reshape/scalar chains and (stream off-rank-stack) through Add/Hstack/Vstack/Diag of such chains",
        "leaf operators enter through their measured dense matrices (their own correctness is C01/C02/C09's business)",
        "inputs have the dtype of the result (complex128 when anything complex is involved): narrower input dtypes are "
        "searched separately (dtype stream)",
    ]
    rng = ctx.rng
    n = 700 if ctx.tier == "quick" else 4000
    # -- stream 1: well-formed trees
    cases = []
    for i in range(n):
        tree, cplx = gen_tree(rng, force_stack=(i % 3 != 0))
        osh, ish, _ = expected(tree)
        for _ in range(2):
            cases.append((tree, ish, gen_input(rng, ish, True if (cplx or treecplx(tree)) else rng.random() < 0.3)))
    bad, keys, unexplained = _run_stream(ctx, "trees", cases)
    _oblige(ctx, "trees", bad, keys, unexplained)
    # -- stream 2: misfits
    cases = []
    for i in range(n // 2):
        tree, why = gen_misfit(rng)
        ctx.count("misfit:" + why)
        cases.append((tree, [1], np.zeros(1)))
    bad, keys, unexplained = _run_stream(ctx, "misfit", cases, misfit=True)
    _oblige(ctx, "misfit", bad, keys, unexplained)
    # -- stream 3: wrong-shaped input (same rank)
    cases = []
    for i in range(n // 4):
        tree, cplx = gen_tree(rng, depth=rng.choice([1, 2]))
        osh, ish, _ = expected(tree)
        xs = perturb(rng, ish)
        if len(xs) != len(ish):
            continue
        cases.append((tree, xs, gen_input(rng, xs, True)))
    bad, keys, unexplained = _run_stream(ctx, "bad-input", cases)
    _oblige(ctx, "bad-input", bad, keys, unexplained)
    # -- stream 3b: inputs of a DIFFERENT rank (the exact zip guards of Linop.apply): chains whose `_apply` is defined
    #    on any shape, so that model and sigpy must agree on accepted / rejected and on the returned array
    cases = []
    for i in range(n // 2):
        size = rng.choice([1, 2, 3, 4, 6, 6, 8, 12])
        ish, osh = same_size_shape(rng, size), same_size_shape(rng, size)
        tree = gen_chain(rng, osh, ish, rng.choice([0, 1, 1, 2, 3]))
        xs = offrank_shape(rng, ish) if rng.random() < 0.85 else perturb(rng, ish)
        cases.append((tree, xs, gen_input(rng, xs, True)))
        ctx.count("offrank:%s" % ("shorter" if len(xs) < len(ish) else "longer" if len(xs) > len(ish) else "same-rank"))
        ctx.count("offrank:guard-%s" % ("passes" if zip_guard(xs, ish) else "rejects"))
    bad, keys, unexplained = _run_stream(ctx, "off-rank", cases, exact=True)
    _oblige(ctx, "off-rank", bad, keys, unexplained)
    # -- stream 3c: inputs of a different rank through the GENERATED stacking / sum bodies (IndexError of input[slc],
    #    numpy broadcasting of output[slc] = y and a + b as modelled in Model/C03Np.lean)
    cases = []
    for i in range(n // 2):
        tree, ish = gen_offrank_stack(rng)
        r = rng.random()
        xs = offrank_shape(rng, ish) if r < 0.6 else list(ish) if r < 0.8 else perturb(rng, ish)
        cases.append((tree, xs, gen_input(rng, xs, True)))
        ctx.count("offrank-stack:%s:%s" % (tree["t"], "shorter" if len(xs) < len(ish) else "longer" if len(xs) > len(ish) else "same-rank"))
    bad, keys, unexplained = _run_stream(ctx, "off-rank-stack", cases, exact=True)
    _oblige(ctx, "off-rank-stack", bad, keys, unexplained)
    # -- stream 3d: memory layouts. The model's arrays are values (row-major by definition); sigpy receives the same values
    #    C-ordered, Fortran-ordered, as strided / offset / negative-stride / axis-permuted views, through trees whose parts
    #    return their input object, views of it, or arrays in its memory order
    cases, lays = [], []
    for i in range(n // 2):
        tree, cplx = gen_layout_tree(rng)
        osh, ish, _ = expected(tree)
        for lay in rng.sample(LAYOUTS, 2):
            cases.append((tree, ish, gen_input(rng, ish, True if (cplx or treecplx(tree)) else rng.random() < 0.3)))
            lays.append(lay)
            ctx.count("layout:%s:%s" % (lay, "rank%d" % len(ish)))
        for m in nodes(tree):
            if m["t"] == "leaf" and m["k"] in ("identity", "transpose", "flip"):
                ctx.count("layout:part-returns-%s" % ("input-object" if m["k"] == "identity" else "view"))
    bad, keys, unexplained = _run_stream(ctx, "layout", cases, layouts=lays)
    _oblige(ctx, "layout", bad, keys, unexplained)
    # -- stream 4: the params functions directly
    _params_stream(ctx, n)
    # -- stream 5: the guard functions directly
    _guard_stream(ctx, n)
    ctx.traces = ctx.evaluations


def _oblige(ctx, stream, bad, keys, unexplained):
    detail = "%d disagreements" % bad
    if bad and not unexplained:
        detail += " " + " ".join("explained-by:" + k for k in sorted(keys))
    elif bad:
        detail += " (%d not explained by a failing input of the oracle)" % unexplained
    ctx.oblige("correspondence:C03." + stream, "correspondence", bad == 0, detail)


def _run_stream(ctx, stream, cases, misfit=False, exact=False, layouts=None):
    lines = [line(t, xs, x, exact) for t, xs, x in cases]
    replies = ctx.driver(lines)
    bad, keys, unexplained = 0, set(), 0
    for j, ((tree, xs, x), ln, r) in enumerate(zip(cases, lines, replies)):
        model = parse_reply(r)
        lay = layouts[j] if layouts is not None else None
        impl = run_impl(tree, xs, x, lay)
        nontriv = tree["t"] != "leaf"
        ctx.case(ln if lay is None else (ln, lay), nontrivial=nontriv,
                 sample=dict(line=ln[:300], reply=r[:160], **({} if lay is None else {"layout": lay})) if ctx.evaluations % 61 == 0 else None)
        ctx.count("root:" + tree["t"])
        for m in nodes(tree):
            if m["t"] in STACKS:
                ctx.count("%s:%s" % (m["t"], feature(m)))
        if impl != model:
            bad += 1
            case = dict(kind="misfit" if misfit else "tree", tree=tree, xshape=list(xs), x=[[z.real, z.imag] for z in np.asarray(x, dtype=complex).ravel()])
            if lay is not None:
                case["layout"] = lay
            ctx.disagree(stream, case, impl, model)
            d = None
            if exact:
                d = offrank_verdict(tree, xs, x)
            elif not misfit:
                d = diagnose(tree, [complex(z) for z in np.asarray(x).ravel()] if list(xs) == expected_ishape(tree) else None, lay)
            elif misfit:
                d = misfit_verdict(tree)
            if d is None:
                unexplained += 1
                if unexplained <= 3:
                    common.log("  [unexplained %s] %s" % (stream, json.dumps(case)[:3000]))
            else:
                keys.add(d[0])
    return bad, keys, unexplained


def expected_ishape(tree):
    try:
        return expected(tree)[1]
    except Exception:
        return None


def real_params(fn, shapes, axis):
    try:
        s, ind = fn([list(s) for s in shapes], axis)
        return ("ok", [int(v) for v in s], [int(v) for v in ind])
    except Exception:
        return "err build"


class _Shaped:
    def __init__(self, shape):
        self.shape = tuple(shape)


class _Adv:
    """stand-in for `self` of `_check_ishape/_check_oshape`: only the advertised shapes are read (a built Linop cannot
    carry -1, the guard functions themselves treat it as a wildcard)"""

    def __init__(self, adv):
        self.ishape = list(adv)
        self.oshape = list(adv)

    def __repr__(self):
        return "<adv %s>" % self.ishape


def _guard_stream(ctx, n):
    """`Linop._check_ishape/_check_oshape` themselves against the translated guards and the model's `zipGuard`:
    all pairs of ranks 0..3, entries equal / different / -1 wildcard"""
    from sigpy import linop
    rng = ctx.rng
    cases = []
    for i in range(n):
        adv = [rng.choice([1, 2, 3, 4]) for _ in range(rng.choice([0, 1, 2, 2, 3]))]
        got = list(adv)
        r = rng.random()
        if r < 0.35:
            got = got[:rng.randrange(0, len(got) + 1)]
        elif r < 0.7:
            got = got + [rng.choice([1, 2, 3]) for _ in range(rng.choice([1, 2]))]
        if got and rng.random() < 0.4:
            j = rng.randrange(len(got))
            got[j] = got[j] + rng.choice([1, 2])
        adv = [(-1 if rng.random() < 0.15 else a) for a in adv]
        cases.append((got, adv))
    replies = ctx.driver(["C03 guard got=%s adv=%s" % (L(g), L(a)) for g, a in cases])
    bad = 0
    for (got, adv), r in zip(cases, replies):
        impl = []
        for fn in (linop.Linop._check_ishape, linop.Linop._check_oshape):
            try:
                fn(_Adv(adv), _Shaped(got))
                impl.append("1")
            except Exception:
                impl.append("0")
        impl = "ok %s %s %s" % (impl[0], impl[1], "1" if zip_guard(got, adv) else "0")
        ctx.case(("guard", tuple(got), tuple(adv)), nontrivial=len(got) != len(adv) or -1 in adv)
        ctx.count("guard:%s" % ("wildcard" if -1 in adv[:len(got)] else "shorter" if len(got) < len(adv) else "longer" if len(got) > len(adv) else "same-rank"))
        if impl != r:
            bad += 1
            ctx.disagree("guard", dict(kind="guard", got=got, adv=adv), impl, r)
    ctx.oblige("correspondence:C03.guard", "correspondence", bad == 0, "%d disagreements" % bad)


def _params_stream(ctx, n):
    from sigpy import linop
    rng = ctx.rng
    cases = []
    for i in range(n):
        nd = rng.choice([1, 2, 3])
        k = rng.choice([1, 2, 3, 4])
        base = [rng.randint(1, 4) for _ in range(nd)]
        axis = rng.choice([None] + list(range(-nd, nd)))
        shapes = []
        for j in range(k):
            s = list(base)
            if axis is not None:
                s[axis] = rng.randint(1, 4)
            shapes.append(s)
        if rng.random() < 0.08:     # an axis outside [-ndim, ndim): `shapes[0][axis]` raises before the normalisation
            axis = rng.choice([nd, nd + 1, -nd - 1, -nd - 2, 2 * nd])
        if rng.random() < 0.3:     # misfit: off-axis difference or rank difference
            j = rng.randrange(k)
            s = perturb(rng, shapes[j], keep_axis=None if axis is None else axis % nd)
            shapes[j] = s
        if axis is None and rng.random() < 0.5:
            shapes = [rshape(rng) for _ in range(k)]
        cases.append((shapes, axis))
    args = ["shapes=%s axis=%s" % ("|".join(L(s) for s in sh), "none" if ax is None else ax) for sh, ax in cases]
    lines = ["C03 params " + a for a in args]
    replies = ctx.driver(lines)
    greplies = {"hstack": ctx.driver(["C03 gparams fn=h " + a for a in args]),
                "vstack": ctx.driver(["C03 gparams fn=v " + a for a in args])}

    def parse(r):
        if r.startswith("ok "):
            p = r.split(" ")
            return ("ok", ilist(p[1]), ilist(p[2]))
        return r
    bad, keys, unexplained = 0, set(), 0
    for k, ((shapes, axis), ln, r) in enumerate(zip(cases, lines, replies)):
        model = parse(r)
        for name, fn in (("hstack", linop._hstack_params), ("vstack", linop._vstack_params)):
            impl = real_params(fn, shapes, axis)
            ctx.case((ln, name), nontrivial=len(shapes) > 1)
            ctx.count("params:%s" % ("none" if axis is None else "neg" if axis < 0 else "out-of-range" if axis >= len(shapes[0]) else "nonneg"))
            gen = parse(greplies[name][k])
            if impl == model and gen != impl:      # the translated loop disagrees with the function it was translated from
                model = gen
            if impl != model:
                bad += 1
                ctx.disagree("params", dict(kind="params", fn=name, shapes=shapes, axis=axis), impl, model)
                if axis is not None and axis < 0 and len(shapes) > 1:
                    keys.add("C03:%s:negative-axis" % CLS[name])
                else:
                    unexplained += 1
    _oblige(ctx, "params", bad, keys, unexplained)


# ---------------------------------------------------------------------------------------------
def dtype_probe(ctx, tree, rng, origin):
    """narrow input dtype: a real (float64) input to a tree with complex parts, an int64 input to a tree with
    fractional real parts.  The statement quantifies over all inputs: the result must still be D @ x."""
    osh, ish, D = expected(tree)
    if diagnose(tree) is not None:
        return True     # a defect that does not depend on the input dtype: reported by the other streams
    if np.any(D.imag != 0):
        dt = float
    elif np.any(D.real != np.round(D.real)) and not treecplx(tree):
        dt = np.int64
    else:
        return True
    for n in nodes(tree):
        o2, i2, D2 = expected(n)
        if n["t"] == "leaf":
            continue
        x = [float(rng.randint(-4, 4)) for _ in range(prod(i2))]
        r = check_tree(n, x, dtype=dt)
        if r is not None and r[0] != "leaf":
            feat = dict(Add="accumulator-dtype-from-first-operand", Sub="accumulator-dtype-from-first-operand",
                        Hstack="accumulator-dtype-from-first-operand", Vstack="output-dtype-from-input",
                        Diag="output-dtype-from-input").get(CLS[n["t"]], "narrow-input-dtype")
            ctx.fail("C03:%s:%s" % (CLS[n["t"]], feat),
                     "%s on a %s input although the operator is %s: %s" % (CLS[n["t"]], np.dtype(dt).name, "complex" if dt is float else "fractional", r[0]),
                     dict(kind="dtype", tree=n, x=x, dtype=np.dtype(dt).name), observed=r[1], expected=r[2], origin=origin)
            return False
    return True


def search(ctx, budget):
    rng = ctx.rng
    # 1. the disagreeing cases of the correspondence first
    for d in ctx.disagreements[:300]:
        c = d["case"]
        if c.get("kind") == "tree" and c["xshape"] != expected_ishape(c["tree"]):
            r = bad_input_verdict(c["tree"], c["xshape"], [complex(*z) for z in c["x"]])
            if r is not None:
                ctx.fail(r[0], "an input whose shape does not fit was accepted", c, r[1], r[2], "disagreement")
        elif c.get("kind") == "tree":
            report(ctx, c["tree"], [complex(*z) for z in c["x"]] if c["xshape"] == expected_ishape(c["tree"]) else None,
                   "disagreement", c.get("layout"))
        elif c.get("kind") == "misfit":
            r = misfit_verdict(c["tree"])
            if r is not None:
                ctx.fail(r[0], "operands that do not fit were combined", c, r[1], r[2], "disagreement")
        elif c.get("kind") == "params":
            # re-express as the smallest operator that uses the function: Identity operands of these shapes
            t = params_tree(c)
            if t is not None:
                report(ctx, t, None, "disagreement")
    # 2. budgeted search on the real code
    n = int(500 * budget)
    for i in range(n):
        tree, cplx = gen_tree(rng, force_stack=(i % 4 != 0))
        osh, ish, _ = expected(tree)
        x = [complex(z) for z in gen_input(rng, ish, True).ravel()]
        ctx.case(("oracle", json.dumps(tree, sort_keys=True)), nontrivial=tree["t"] != "leaf")
        report(ctx, tree, x, "search")
    for i in range(n // 2):
        tree, why = gen_misfit(rng)
        ctx.case(("oracle-misfit", json.dumps(tree, sort_keys=True)))
        r = misfit_verdict(tree)
        if r is not None:
            ctx.fail(r[0], "operands that do not fit (%s) were combined" % why,
                     dict(kind="misfit", tree=tree), r[1], r[2], "search")
    # 2b. inputs of the advertised rank but another shape must be rejected at application
    for i in range(n // 2):
        tree, cplx = gen_tree(rng, depth=rng.choice([0, 1, 1, 2]))
        ish = expected(tree)[1]
        xs = perturb(rng, ish, p_same=0.0)
        if len(xs) != len(ish):
            xs = [s + 1 for s in ish]
        if rng.random() < 0.4:      # broadcastable against ishape: the likeliest shape to slip through
            xs = list(ish)
            xs[rng.randrange(len(xs))] = 1
            if xs == list(ish):
                xs = [s + 1 for s in ish]
        x = gen_input(rng, xs, True)
        ctx.case(("oracle-bad-input", json.dumps(tree, sort_keys=True), tuple(xs)), nontrivial=False)
        r = bad_input_verdict(tree, xs, x.ravel())
        if r is not None:
            ctx.fail(r[0], "an input whose shape does not fit was accepted",
                     dict(kind="tree", tree=tree, xshape=list(xs), x=[[z.real, z.imag] for z in x.ravel()]), r[1], r[2], "search")
    # 3. every axis, exhaustively, for small stacks of Identity/Multiply operands
    for t in axis_sweep(rng, int(6 * budget)):
        ctx.case(("oracle-axis", json.dumps(t, sort_keys=True)))
        report(ctx, t, None, "search-axes")
    # 4. narrow input dtypes
    for i in range(n // 2):
        tree, cplx = gen_tree(rng, depth=rng.choice([1, 2]))
        ctx.case(("oracle-dtype", json.dumps(tree, sort_keys=True)), nontrivial=False)
        dtype_probe(ctx, tree, rng, "search-dtype")
    # 5. memory layouts: the dense matrix measured with every array handed over in each layout must be the matrix
    #    expression of the parts (the statement's flattening is row-major whatever the strides are)
    for i in range(n // 3):
        tree, cplx = gen_layout_tree(rng)
        ish = expected(tree)[1]
        x = [complex(z) for z in gen_input(rng, ish, True).ravel()]
        ctx.case(("oracle-layout", json.dumps(tree, sort_keys=True)), nontrivial=True)
        if not report(ctx, tree, x, "search-layout"):
            continue
        for lay in LAYOUTS:
            if check_tree(tree, x, layout=lay) is not None and not report(ctx, tree, x, "search-layout", lay):
                break


def params_tree(c):
    shapes, axis = c["shapes"], c["axis"]
    if any(len(s) == 0 for s in shapes):
        return None
    try:
        if axis is not None:
            stacked_shape(shapes, axis)
    except Exception:
        return None     # a misfit for numpy as well
    args = [dict(t="leaf", k="identity", osh=list(s), ish=list(s)) for s in shapes]
    if c["fn"] == "hstack":
        # equal oshape needed: reshape every operand's output to a common length is impossible in general;
        # use Diag, which calls both functions
        return dict(t="diag", oaxis=axis, iaxis=axis, args=args)
    return dict(t="diag", oaxis=axis, iaxis=axis, args=args)


def axis_sweep(rng, reps):
    for _ in range(reps):
        nd = rng.choice([1, 2, 3])
        base = [rng.randint(1, 3) for _ in range(nd)]
        k = rng.choice([2, 3])
        for axis in [None] + list(range(-nd, nd)):
            sizes = [rng.randint(1, 3) for _ in range(k)]
            shapes = [list(base) for _ in range(k)]
            if axis is not None:
                for s, z in zip(shapes, sizes):
                    s[axis] = z
            other = rshape(rng, 6)
            mk = lambda o, i: gen_leaf(rng, o, i, False)
            yield dict(t="hstack", axis=axis, args=[mk(other, s) for s in shapes])
            yield dict(t="vstack", axis=axis, args=[mk(s, other) for s in shapes])
            oax = rng.choice([None] + list(range(-nd, nd)))
            oshapes = [list(base) for _ in range(k)]
            if oax is not None:
                for s in oshapes:
                    s[oax] = rng.randint(1, 3)
            yield dict(t="diag", oaxis=oax, iaxis=axis, args=[mk(o, s) for o, s in zip(oshapes, shapes)])


# ---------------------------------------------------------------------------------------------
def replay(path):
    r = json.load(open(path))
    print(json.dumps(r, indent=1)[:4000])
    if r.get("kind") != "failing-input":
        return 0
    c = r["case"]
    kind = c.get("kind")
    if kind == "misfit":
        res = misfit_verdict(c["tree"])
    elif kind == "dtype":
        res = check_tree(c["tree"], c["x"], dtype=np.dtype(c["dtype"]).type if c["dtype"] != "float64" else float)
    elif kind == "params":
        t = params_tree(c)
        res = None if t is None else check_tree(t)
    else:
        x = c.get("x")
        if x is not None:
            x = [complex(*z) if isinstance(z, (list, tuple)) else complex(z) for z in x]
        if x is not None and c.get("xshape") is not None and c["xshape"] != expected_ishape(c["tree"]):
            r = bad_input_verdict(c["tree"], c["xshape"], x)
            res = None if r is None else r[1:]
        else:
            d = diagnose(c["tree"], x, c.get("layout"))
            res = None if d is None else d[2:]
    ok = res is None
    if not ok:
        print("observed:", res[-2])
        print("expected:", res[-1])
    print("replay:", "property holds on this input" if ok else "property FAILS on this input")
    return 0 if ok else 1
