"""C17 — ESPIRiT maps: unit-norm or zero, phase-referenced, eigenvalues in [0,1], recover true maps."""
import json
from fractions import Fraction

import numpy as np

from harness import common
from harness.translate import gen as G

PROPERTY = "C17"
LEAN_MODULES = ["SigpyVerif.Props.C17", "SigpyVerif.Props.C17Power", "SigpyVerif.Props.C17Dft"]
THEOREMS = ["SigpyVerif.C17." + t for t in [
    "normalize_eq", "power_step_unit", "phase_ref", "phase_ref_norm", "espirit_keeps_iff", "crop_dichotomy",
    "gram_symmetric", "gram_psd", "power_monotone", "power_bounded", "espirit_scale", "calib_index_map",
    "calib_index_map_2d", "calib_index_map_3d", "calib_shape_steps",
    "bessel_gram_le", "gram_quadratic_le", "gram_inner_le", "eig_le_one_of_orthonormal_kernels", "eigenvalue_le_one",
    "imgKernel_inner", "tensorPhase_norm_sq", "eig_le_one_espirit",
    # round 4: theorems about the GENERATED per-voxel steps (Gen/EspiritSteps.lean) and the generated PowerMethod step
    "csum_eq_sum", "cpow_eq", "pm_wiring", "espirit_defaults", "power_run_succ", "power_run_unit", "espirit_tie_dropped",
    "output_dropped", "espirit_voxel_output", "gramTerm_eq", "gram_entry_eq",
    # Props/C17Power.lean: the run, for every iteration count (reuses Props/C14Power.lean)
    "epw_eq_pw", "isSymm_of_herm", "espirit_pm_step", "espirit_pm_unit", "espirit_pm_estimate_range", "espirit_pm_estimate_mono",
    "espirit_pm_budget", "gramLin_apply", "gramLin_herm", "gramLin_psd", "espirit_run_eig_unit_interval", "sumSq_eq_norm_sq",
    "normalize_eq_norm",
    # Props/C17Dft.lean: the DFT hypotheses discharged (only numpy's SVD contract is left)
    "dftEntry_norm_sq", "axisPhase_norm_sq_le", "dftPhase_norm_sq_le", "card_offsets", "eig_le_one_espirit_dft",
    "eigenvalue_le_one_dft", "espirit_run_eig_unit_interval_dft", "axisPhase_fits",
]]

TOL_EXACT = 1e-12   # float pipeline vs exact rational model (observed <= 1e-15)
TOL = 1e-6          # the property's own tolerance
TOL_HYP = 1e-10     # hypotheses of `eig_le_one_espirit` on the real intermediates (observed <= 1e-14)


def translate(ctx):
    # EspiritSteps: every arithmetic statement of EspiritCalib.__init__/_output (fail-closed, matched on the normal form of
    # harness/translate/norm_c17.py: private helpers inlined, keyword/positional, commuted ints, unknown temporaries); C14Power: the PowerMethod
    # step / stopping rule the run theorems iterate; UtilFormulas: the resize shifts inside the DFT phases
    G.regenerate(ctx, ["Block", "EspiritFormulas", "EspiritSteps", "C14Power", "UtilFormulas"])


def fr(x):
    f = Fraction(x)
    return str(f.numerator) if f.denominator == 1 else "%d/%d" % (f.numerator, f.denominator)


def cfmt(z):
    re, im = z
    return fr(re) if im == 0 else "%s;%s" % (fr(re), fr(im))


def parse_c(s):
    p = s.split(";")
    return complex(float(Fraction(p[0])), float(Fraction(p[1])) if len(p) > 1 else 0.0)


def parse_list(s):
    return np.array([parse_c(v) for v in s.split(",")], dtype=complex) if s != "-" else np.zeros(0, complex)


def cnum(z):
    return complex(float(z[0]), float(z[1]))


TRIPLES = [(3, 4, 5), (4, 3, 5), (5, 12, 13), (12, 5, 13), (8, 15, 17), (15, 8, 17), (7, 24, 25), (20, 21, 29), (1, 0, 1), (0, 1, 1), (0, 2, 2)]


def pyth_entry(rng):
    """a Gaussian rational with rational modulus; returns ((re, im), modulus)"""
    a, b, c = rng.choice(TRIPLES)
    s = Fraction(rng.choice([1, 1, 2, 3, -1, -2]), rng.choice([1, 1, 2, 4]))
    sa, sb = rng.choice([1, -1]), rng.choice([1, -1])
    return (sa * a * s, sb * b * s), abs(c * s)


def pyth_vector(rng, n):
    """n Gaussian rationals, each with rational modulus, whose l2 norm is rational: moduli are scaled along a
    rational Pythagorean chain (t_{k+1} = s_k * q with (1, q, sqrt(1+q^2)) a rational triple)"""
    out, s = [], None
    for k in range(n):
        z, m = pyth_entry(rng)
        if m == 0:
            z, m = (Fraction(3), Fraction(4)), Fraction(5)
        if s is None:
            out.append(z)
            s = m
        else:
            a, b, c = rng.choice(TRIPLES[:8])
            q = Fraction(b, a)                      # s^2 + (s q)^2 = (s c / a)^2
            scale = s * q / m
            out.append((z[0] * scale, z[1] * scale))
            s = s * Fraction(c, a)
    return out, s


def make_app(nc, ish, **kw):
    import sigpy.mri as mr
    rs = np.random.RandomState(1)
    ksp = rs.randn(nc, *ish) + 1j * rs.randn(nc, *ish)
    return mr.app.EspiritCalib(ksp, calib_width=min(ish), kernel_width=2, max_iter=2, show_pbar=False, **kw)


def centre_crop(a, cw):
    """independent statement of `sp.resize(ksp, [nc] + [cw]*d)`: index n//2 aligned with index cw//2"""
    out = np.zeros([a.shape[0]] + [cw] * (a.ndim - 1), dtype=a.dtype)
    src, dst = [slice(None)], [slice(None)]
    for n in a.shape[1:]:
        if n >= cw:
            s = n // 2 - cw // 2
            src.append(slice(s, s + cw))
            dst.append(slice(None))
        else:
            s = cw // 2 - n // 2
            src.append(slice(None))
            dst.append(slice(s, s + n))
    out[tuple(dst)] = a[tuple(src)]
    return out


def capture_calib_matrix(ksp, cw, kw):
    """run the real constructor and capture the matrix handed to `svd` (harness-side wrapper, /repo untouched)"""
    import sigpy.mri as mr
    got = {}
    real = np.linalg.svd

    def spy(a, *args, **kwargs):
        got.setdefault("mat", np.array(a))
        return real(a, *args, **kwargs)
    np.linalg.svd = spy
    try:
        mr.app.EspiritCalib(ksp, calib_width=cw, kernel_width=kw, max_iter=1, show_pbar=False)
    finally:
        np.linalg.svd = real
    return got.get("mat")


def capture_internals(ksp, cw, kw, thresh):
    """run the real constructor; capture what `svd` returned and the Gram array `AHA` the closure `forward` uses
    (harness-side wrappers, /repo untouched)"""
    import sigpy.mri as mr
    got = {}
    real = np.linalg.svd

    def spy(a, *args, **kwargs):
        r = real(a, *args, **kwargs)
        got.setdefault("svd", r)
        return r
    np.linalg.svd = spy
    try:
        app = mr.app.EspiritCalib(ksp, calib_width=cw, kernel_width=kw, thresh=thresh, max_iter=1, show_pbar=False)
    finally:
        np.linalg.svd = real
    fwd = app.alg.A
    cells = dict(zip(fwd.__code__.co_freevars, [c.cell_contents for c in fwd.__closure__ or ()]))
    return got.get("svd"), cells.get("AHA")


def dft_phases(n, kwid):
    """E[q, p] = entry of the centred orthonormal inverse DFT of length n for voxel q and the grid position at which
    the centre padding/cropping (`sp.resize`) puts kernel offset p; 0 where the offset is cropped.  Written from
    the definitions (C05: centre = n//2; C09: resize aligns index kw//2 with n//2)."""
    ishift, oshift = max(kwid // 2 - n // 2, 0), max(n // 2 - kwid // 2, 0)
    size = min(kwid - ishift, n - oshift)
    E = np.zeros((n, kwid), dtype=complex)
    q = np.arange(n)
    for p_ in range(ishift, ishift + size):
        j = p_ - ishift + oshift
        E[:, p_] = np.exp(2j * np.pi * (q - n // 2) * (j - n // 2) / n) / np.sqrt(n)
    return E


def check_hypotheses(ctx, bad):
    """the hypotheses of `eig_le_one_espirit` on the REAL intermediates of EspiritCalib: (hv) the kept rows of VH are
    orthonormal; (ha, h-eps, scale) the real AHA is  espiritScale * sum_k a_k a_k^H  with a_k(q)[c] = sum_p v_k[c,p] eps_q(p)
    and |eps_q(p)|^2 <= 1/N; and the conclusion (largest eigenvalue of every AHA[q] <= 1)."""
    rng = ctx.rng
    ncase = 6 if ctx.tier == "quick" else 30
    for i in range(ncase):
        d = [1, 2, 2, 3][i % 4]
        nc = rng.randint(2, 5 if d < 3 else 3)
        ish = [rng.randint(2 if i % 5 == 4 else 4, 8 if d < 3 else 5) for _ in range(d)]
        cw = rng.randint(2, max(ish) + 1)
        kw = rng.randint(1, min(cw, 3))
        thresh = rng.choice([0.0, 0.02, 0.02, 0.1, 0.3])
        rs = np.random.RandomState(rng.randrange(1 << 30))
        ksp = rs.randn(nc, *ish) + 1j * rs.randn(nc, *ish)
        if i % 3 == 2:      # low-rank data: several singular values below the threshold
            ksp = ksp[:1] * (rs.randn(nc) + 1j * rs.randn(nc)).reshape([nc] + [1] * d) + 1e-3 * ksp
        case = dict(kind="hyp", nc=nc, ish=ish, cw=cw, kw=kw, thresh=thresh)
        ctx.case(("hyp", json.dumps(case), i), sample=case if i < 3 else None)
        ctx.count("hyp:%dd" % d)
        N = int(np.prod(ish))
        r = ctx.driver(["C17 gram nc=1 nk=1 N=%d kw=%d d=%d v=1" % (N, kw, d)])[0]
        try:
            scale = float(parse_list(r[3:])[0].real) if r.startswith("ok ") else None
            svd, AHA = capture_internals(ksp, cw, kw, thresh)
            _, S, VH = svd
            V = VH[S > thresh * S.max(), :]
            orth = float(np.max(np.abs(V @ V.conj().T - np.eye(len(V))))) if len(V) else 0.0
            Es = [dft_phases(n, kw) for n in ish]
            epsmax = max(float(np.max(np.abs(E) ** 2)) * n for E, n in zip(Es, ish))      # N * |eps|^2 <= 1
            a = V.reshape([len(V), nc] + [kw] * d)
            for ax in range(d):
                a = np.moveaxis(np.tensordot(a, Es[ax], axes=([2 + ax], [1])), -1, 2 + ax)
            G = scale * np.einsum("kc...,kd...->...cd", a, a.conj())
            G = np.transpose(G, list(range(d))[::-1] + [d, d + 1])
            gerr = float(np.max(np.abs(G - AHA))) if G.shape == AHA.shape else np.inf
            emax = float(np.max(np.linalg.eigvalsh(AHA.reshape(-1, nc, nc))))
            obs = dict(orth=orth, eps=epsmax, gram=gerr, eigmax=emax, kept=int(len(V)))
            ok = orth <= TOL_HYP and epsmax <= 1 + TOL_HYP and gerr <= TOL_HYP and emax <= 1 + TOL_HYP
        except Exception as e:  # noqa
            obs, ok = "err %s %s" % (type(e).__name__, e), False
        if not ok:
            bad["hyp"] += 1
            ctx.disagree("eig-hypotheses", case, obs, "orth, gram <= 1e-10; N|eps|^2, eigmax <= 1 + 1e-10")
    ctx.oblige("correspondence:C17.eig-hypotheses", "correspondence", bad["hyp"] == 0,
               "%d cases where the kept VH rows are not orthonormal / AHA is not scale*sum a a^H of the DFT'd kernels / "
               "an eigenvalue of AHA exceeds 1" % bad["hyp"])


def check_run_wiring(ctx, bad):
    """what `powerRun` / `runState` (Model/C17.lean) say about the real object: the PowerMethod iterates the array that
    `_output` reads (`alg.x is app.mps`), starts from ones, is handed `max_iter`, and after `run()`'s loop the state equals the
    per-voxel recursion  x <- AHA[q] x / ||AHA[q] x||_2,  max_eig <- ||AHA[q] x||_2  applied max_iter times to every voxel
    separately (float re-statement of the generated step; 1e-12)."""
    import sigpy.mri as mr
    rng = ctx.rng
    for i in range(4 if ctx.tier == "quick" else 16):
        d = [1, 2, 2, 3][i % 4]
        nc = rng.randint(2, 4)
        ish = [rng.randint(3, 6) for _ in range(d)]
        cw = rng.randint(2, min(ish))
        kw = rng.randint(1, min(cw, 3))
        mi = rng.choice([1, 2, 3, 7])
        rs = np.random.RandomState(rng.randrange(1 << 30))
        ksp = rs.randn(nc, *ish) + 1j * rs.randn(nc, *ish)
        case = dict(kind="run", nc=nc, ish=ish, cw=cw, kw=kw, max_iter=mi)
        ctx.case(("run", json.dumps(case), i), sample=case if i < 2 else None)
        ctx.count("run:%dd" % d)
        try:
            app = mr.app.EspiritCalib(ksp, calib_width=cw, kernel_width=kw, max_iter=mi, show_pbar=False)
            fwd = app.alg.A
            cells = dict(zip(fwd.__code__.co_freevars, [c.cell_contents for c in fwd.__closure__ or ()]))
            AHA = np.array(cells["AHA"])
            obs = dict(same_array=bool(app.alg.x is app.mps), start_ones=bool(np.all(app.mps == 1)), max_iter=int(app.alg.max_iter),
                       shape=list(app.mps.shape))
            ok = obs["same_array"] and obs["start_ones"] and obs["max_iter"] == mi and obs["shape"] == ish[::-1] + [nc, 1]
            n = 0
            while not app.alg.done():
                app.alg.update()
                n += 1
            x = np.ones(ish[::-1] + [nc], dtype=complex)
            e = None
            for _ in range(mi):
                y = np.einsum("...ij,...j->...i", AHA, x)
                e = np.sqrt(np.sum(np.abs(y) ** 2, axis=-1, keepdims=True))
                x = y / e
            obs.update(updates=n, dx=float(np.max(np.abs(app.mps[..., 0] - x))), de=float(np.max(np.abs(np.asarray(app.alg.max_eig)[..., 0] - e))))
            ok = ok and n == mi and obs["dx"] <= TOL_EXACT and obs["de"] <= TOL_EXACT
        except Exception as e:  # noqa
            obs, ok = "err %s %s" % (type(e).__name__, e), False
        if not ok:
            bad["run"] += 1
            ctx.disagree("run-wiring", case, obs, "alg.x is app.mps, starts at ones, max_iter updates, state = per-voxel recursion (1e-12)")
    ctx.oblige("correspondence:C17.run-wiring", "correspondence", bad["run"] == 0, "%d disagreements" % bad["run"])


def correspond(ctx):
    ctx.rule = ("post-processing cases = Gaussian-rational vectors with rational moduli (Pythagorean chains), coils 2-8, "
                "run through the REAL closures (`normalize` = alg.norm_func, PowerMethod._update, EspiritCalib._output) "
                "and the Lean model; calibration-matrix cases = labelled k-space (unique integers), 1-D/2-D/3-D, "
                "captured from the real constructor at the svd call; distinct by protocol line; all non-trivial")
    import sigpy as sp
    rng = ctx.rng
    n = 40 if ctx.tier == "quick" else 300
    app2, prev_step = {}, {}
    bad = {"normalize": 0, "step": 0, "output": 0, "calib": 0, "hyp": 0, "run": 0}
    lines, meta = [], []
    for _ in range(n):
        nc = rng.randint(2, 8)
        v, nrm = pyth_vector(rng, nc)
        lines.append("C17 normalize x=%s" % ",".join(cfmt(z) for z in v))
        meta.append(("normalize", nc, v, None))
        # power step: G = y x^H / (x^H x) + Z (I - x x^H / x^H x)  so that G x = y exactly (y Pythagorean)
        x = [(Fraction(rng.randint(-3, 3)), Fraction(rng.randint(-3, 3))) for _ in range(nc)]
        if all(z == (0, 0) for z in x):
            x[0] = (Fraction(1), Fraction(0))
        xx = sum(z[0] * z[0] + z[1] * z[1] for z in x)

        def cm(a, b):
            return (a[0] * b[0] - a[1] * b[1], a[0] * b[1] + a[1] * b[0])

        def cj(a):
            return (a[0], -a[1])
        Z = [[(Fraction(rng.randint(-2, 2)), Fraction(rng.randint(-2, 2))) for _ in range(nc)] for _ in range(nc)]
        Zx = [tuple(sum(cm(Z[i][j], x[j])[k] for j in range(nc)) for k in (0, 1)) for i in range(nc)]
        Gm = [[None] * nc for _ in range(nc)]
        for i in range(nc):
            for j in range(nc):
                t = cm((v[i][0] - Zx[i][0], v[i][1] - Zx[i][1]), cj(x[j]))
                Gm[i][j] = (Z[i][j][0] + t[0] / xx, Z[i][j][1] + t[1] / xx)
        lines.append("C17 step n=%d G=%s x=%s" % (nc, ",".join(cfmt(z) for row in Gm for z in row), ",".join(cfmt(z) for z in x)))
        meta.append(("step", nc, x, Gm))
        # _output: coil 0 Pythagorean, the rest Gaussian integers; eig / crop rationals incl. equality
        m0, _ = pyth_entry(rng)
        if m0 == (0, 0):
            m0 = (Fraction(3), Fraction(-4))
        if rng.random() < 0.3:          # a very weak (non-zero) first coil: exact in binary floating point
            sc = Fraction(1, 2 ** rng.choice([20, 40, 50]))
            m0 = (m0[0] * sc, m0[1] * sc)
        m = [m0] + [(Fraction(rng.randint(-4, 4)), Fraction(rng.randint(-4, 4))) for _ in range(nc - 1)]
        crop = Fraction(rng.randint(0, 8), 8)
        eig = crop if rng.random() < 0.3 else Fraction(rng.randint(0, 9), 8)
        lines.append("C17 output eig=%s crop=%s m=%s" % (fr(eig), fr(crop), ",".join(cfmt(z) for z in m)))
        meta.append(("output", nc, m, (eig, crop)))
    replies = ctx.driver(lines)
    for (op, nc, v, extra), ln, r in zip(meta, lines, replies):
        ctx.case(ln, sample=dict(line=ln[:160], reply=r[:100]) if ctx.evaluations % 29 == 0 else None)
        ctx.count("post:%s:nc%d" % (op, nc))
        try:
            if nc not in app2:
                app2[nc] = make_app(nc, [4, 4])
            app = app2[nc]
            if op == "normalize":
                x = np.array([cnum(z) for z in v]).reshape(1, 1, nc, 1)   # [.., coil, 1]: coil axis is -2
                impl = np.asarray(app.alg.norm_func(x)).ravel()
                model = parse_list(r[3:]) if r.startswith("ok ") else r
                ok = not isinstance(model, str) and impl.shape == model.shape and np.max(np.abs(impl - model)) <= TOL_EXACT * (1 + np.max(np.abs(model)))
            elif op == "step":
                Gn = np.array([[cnum(z) for z in row] for row in extra])
                x = np.array([cnum(z) for z in v]).reshape(1, nc, 1)
                # a second voxel with its own matrix and vector in the same arrays: the model treats voxels separately
                Gs, xs_ = [Gn], [x]
                if nc in prev_step:
                    Gs.append(prev_step[nc][0])
                    xs_.append(prev_step[nc][1])
                prev_step[nc] = (Gn, x)
                Ga, xa = np.stack(Gs), np.concatenate(xs_)
                alg = sp.alg.PowerMethod(lambda t: Ga @ t, xa.copy(), norm_func=app.alg.norm_func, max_iter=1)
                alg.update()
                impl = np.concatenate([np.asarray(alg.max_eig)[0].ravel(), alg.x[0].ravel()])
                ctx.count("post:step:voxels%d" % len(Gs))
                if r.startswith("ok "):
                    e, xs = r[3:].split(" | ")
                    model = np.concatenate([parse_list(e), parse_list(xs)])
                    ok = impl.shape == model.shape and np.max(np.abs(impl - model)) <= TOL_EXACT * (1 + np.max(np.abs(model)))
                else:
                    model, ok = r, False
            else:
                eig, crop = extra
                app = make_app(nc, [3, 3], crop=float(crop), output_eigenvalue=True)
                # app.mps has shape ksp.shape[::-1] + (1,) = [3, 3, nc, 1]; the same vector at every voxel
                app.mps[...] = np.array([cnum(z) for z in v]).reshape(1, 1, nc, 1)
                app.alg.max_eig = np.full((3, 3, 1, 1), float(eig))
                mo, eo = app._output()
                impl = np.asarray(mo)[:, 1, 2].ravel()
                model = parse_list(r[3:]) if r.startswith("ok ") else r
                ok = not isinstance(model, str) and impl.shape == model.shape and np.max(np.abs(impl - model)) <= TOL_EXACT * (1 + np.max(np.abs(model))) \
                    and np.array_equal(impl == 0, model == 0)
        except Exception as e:  # noqa
            impl, model, ok = "err %s %s" % (type(e).__name__, e), r, False
        if not ok:
            bad[op] += 1
            ctx.disagree("post-" + op, dict(kind="post", line=ln), impl if isinstance(impl, str) else impl.tolist(),
                         model if isinstance(model, str) else model.tolist())
    for op in ("normalize", "step", "output"):
        ctx.oblige("correspondence:C17.%s" % op, "correspondence", bad[op] == 0, "%d disagreements" % bad[op])
    # calibration matrix on labelled k-space
    ncal = 8 if ctx.tier == "quick" else 40
    cl, cmeta = [], []
    for i in range(ncal):
        d = [1, 2, 2, 3][i % 4]
        nc = rng.randint(2, 4 if d == 3 else 6)
        ish = [rng.randint(3, 7 if d < 3 else 5) for _ in range(d)]
        cw = rng.randint(2, max(ish) + 1)
        kw = rng.randint(1, min(cw, 3))
        ksp = (np.arange(1, nc * int(np.prod(ish)) + 1).reshape([nc] + ish)).astype(np.complex128)
        cal = centre_crop(ksp, cw)
        cl.append("C17 calib nc=%d cw=%d kw=%d d=%d x=%s" % (nc, cw, kw, d, ",".join(str(int(v.real)) for v in cal.ravel())))
        cmeta.append((ksp, cw, kw, d, nc, ish))
    for (ksp, cw, kw, d, nc, ish), ln, r in zip(cmeta, cl, ctx.driver(cl)):
        ctx.case(ln, sample=dict(line=ln[:120], reply=r[:80]) if d == 2 else None)
        ctx.count("calib:%dd" % d)
        try:
            mat = capture_calib_matrix(ksp, cw, kw)
            impl = "ok %s | %s" % (",".join(str(s) for s in mat.shape), ",".join(str(int(round(v.real))) for v in mat.ravel()))
            if np.max(np.abs(mat.imag)) != 0 or np.max(np.abs(mat.real - np.round(mat.real))) != 0:
                impl = "err non-integer"
        except Exception as e:  # noqa
            impl = "err %s" % type(e).__name__
        if impl != r:
            bad["calib"] += 1
            ctx.disagree("calib-matrix", dict(kind="calib", nc=nc, ish=ish, cw=cw, kw=kw), impl[:300], r[:300])
    ctx.oblige("correspondence:C17.calib-matrix", "correspondence", bad["calib"] == 0, "%d disagreements" % bad["calib"])
    check_hypotheses(ctx, bad)
    check_run_wiring(ctx, bad)
    ctx.traces = ctx.evaluations
    ctx.assumptions += [
        "the translator matches EspiritCalib after behaviour-preserving normalisation (harness/translate/norm_c17.py: private helpers "
        "inlined, positional/keyword arguments resolved against the callee's signature, commuted integer operands, pure single-assignment "
        "temporaries inlined, negated guards); Python aliasing is not tracked by the temporary inliner",
        "eig <= 1 is a theorem (eig_le_one_espirit_dft, espirit_run_eig_unit_interval_dft) under ONE numerical hypothesis: the "
        "rows of numpy's VH are orthonormal (numpy.linalg.svd contract; checked on the real VH on every run at 1e-10). The "
        "image-domain kernels are DEFINED as the centred orthonormal inverse DFT of the centre-padded kernels with explicit "
        "phases (|eps|^2 <= 1/N proved); that sp.ifft(sp.resize(.)) computes this sum is numpy's FFT contract + C05/C09, compared "
        "with the real AHA on every run (1e-10). Floating point (estimate within 1e-6 of the range) and the recovery of the true "
        "maps are search-oracle only",
        "per-voxel reading of the batched arrays (AHA @ x, the keepdims sum over axis -2, y / max_eig by broadcasting): voxOps.divS is "
        "hand-written; compared with the real closures on two-voxel arrays (step stream) and with the real run loop (run-wiring)",
        "the model's operations are exact (Gaussian rationals with rational moduli); the float pipeline is compared at 1e-12",
        "the SVD and the ifft of the zero-padded kernels are tied by correspondence (eig-hypotheses stream) and C05; the "
        "1-D/2-D/3-D calibration matrix index maps are theorems about the generated loop nests (calib_index_map*), "
        "and the real matrix at the svd call is compared exactly on labelled data",
    ]


# ---- search oracle on the real app ----------------------------------------------------------------
NP_INTS = ["int64", "int32", "int16", "intp"]     # signed numpy integer types a caller may hand in for the widths
WEAK = {"complex128": [1e-9, 1e-10, 1e-11, 1e-12, 1e-13],      # first-coil k-space scale of the `weak0` data (|m0| of that size)
        "complex64": [1e-4, 1e-5, 1e-6]}
# per-voxel tolerance of the oracle: 1e-6 for double precision data (observed rounding <= 1e-15), 3e-4 for single
# precision data (observed rounding of the unchanged code <= 4e-7 on norm / phase / eigenvalue range)
TOLS = {"complex128": TOL, "complex64": 3e-4}


def gen_espirit(rng, budget):
    d = 2 if rng.random() < 0.7 else 3
    nc = rng.randint(2, 8)
    if d == 2:
        ish = [rng.randint(6, 13), rng.randint(6, 13)]
    else:
        ish = [rng.randint(4, 7) for _ in range(3)]
    cw = rng.randint(3, min(ish) + (2 if rng.random() < 0.2 else 0))
    kw = rng.randint(2, min(cw, 4 if d == 2 else 3))
    c = dict(kind="invariants", nc=nc, ish=ish, cw=cw, kw=kw, thresh=rng.choice([0.0, 0.02, 0.02, 0.05, 0.2]),
             crop=rng.choice([0.0, 0.5, 0.8, 0.9, 0.95, 0.99, 1.0]), max_iter=rng.choice([10, 30, 60]),
             data=rng.choice(["random", "random", "birdcage", "lowrank", "weak0", "null0"]), seed=rng.randrange(1 << 30),
             crop_at=None)
    # second pass with the crop threshold set EXACTLY to an attained eigenvalue estimate of the first pass
    r = rng.random()
    if r < 0.2:
        c["crop_at"] = rng.randrange(1 << 16)                            # the estimate of one voxel
    elif r < 0.4:
        c["crop_rank"] = rng.choice([0.0, 0.1, 0.25, 0.5, 0.75, 0.9, 1.0])   # an order statistic (0 = min, 1 = max)
    if rng.random() < 0.2:
        c["dtype"] = "complex64"
    if c["data"] == "weak0":
        c["weak"] = rng.choice(WEAK[c.get("dtype", "complex128")])
        c["base"] = rng.choice(["random", "birdcage"])
        c["thresh"] = rng.choice([0.02, 0.05])      # thresh = 0 keeps the kernels that live on the weak coil alone
        c["crop"] = rng.choice([0.0, 0.5, 0.9])
    if rng.random() < 0.25:                          # numpy-integer widths (values unchanged)
        c["wtype"] = rng.choice(NP_INTS)
    if rng.random() < 0.1:                           # the same app run a second time
        c["rerun"] = True
    return c


def espirit_data(c):
    import sigpy as sp
    from sigpy.mri import sim
    rs = np.random.RandomState(c["seed"])
    nc, ish = c["nc"], c["ish"]
    axes = list(range(-len(ish), 0))
    kind = c["data"]
    if kind == "weak0":
        kind = c["base"]
    if kind == "random":
        ksp, mps = rs.randn(nc, *ish) + 1j * rs.randn(nc, *ish), None
    else:
        mps = sim.birdcage_maps([nc] + ish)
        if kind == "birdcage":
            img = 1.0
        elif kind == "null0":
            # smooth maps whose FIRST coil changes sign along a line inside the field of view (first-coil null)
            # (the line lies between two grid columns: no voxel has m0 = 0 exactly, which the property excludes)
            x = (np.arange(ish[-1]) - (ish[-1] // 2 + 0.5 + rs.randint(0, 2))) / (ish[-1] / 2.0)
            mps = mps.copy()
            mps[0] = mps[0] * x
            img = 1.0
        else:
            g = np.meshgrid(*[np.linspace(-1, 1, s) for s in ish], indexing="ij")
            img = np.exp(-2 * sum(x ** 2 for x in g)) * np.exp(1j * rs.rand() * g[0])
        ksp = sp.fft(mps * img, axes=axes)
    if c["data"] == "weak0":
        ksp = ksp.copy()
        ksp[0] *= c["weak"]        # a very weak (not dead) first coil: |m0| ~ weak, still m0 != 0
    return ksp.astype(c.get("dtype", "complex128")), mps


def width(c, v):
    """the integer `v` as the caller's integer type (Python int, or a signed numpy integer of the same value)"""
    return getattr(np, c["wtype"])(v) if c.get("wtype") else v


def check_invariants(ctx, case, maps, eig, kshape, crop, origin, tag="", TOL=TOL, eig_given=False):
    """the per-voxel part of the property on one returned (maps, eigenvalues) pair"""
    ok = True
    eig = np.asarray(eig)
    if eig.dtype.kind == "f":
        eig = eig.astype(np.float64)        # exact: the comparison with `crop` below is the one of real numbers
    maps = np.asarray(maps)
    if maps.dtype == np.complex64:
        maps = maps.astype(np.complex128)   # exact
    if list(maps.shape) != list(kshape) or eig.size != int(np.prod(kshape[1:])):
        ctx.fail("C17:shape" + tag, "maps / eigenvalues do not have the shape of ksp / of one coil", case,
                 observed=[list(maps.shape), list(eig.shape)], expected=list(kshape), origin=origin)
        return False
    eig = eig.reshape(kshape[1:])
    if np.isnan(maps).any() or np.isnan(eig).any():
        ctx.fail("C17:nan" + tag, "NaN in maps / eigenvalues", case, observed=int(np.isnan(maps).sum()), expected=0, origin=origin)
        return False
    nrm = np.sqrt(np.sum(np.abs(maps) ** 2, axis=0))
    zero = np.all(maps == 0, axis=0)
    dev = np.where(zero, 0.0, np.abs(nrm - 1))
    if dev.max() > TOL:
        i = np.unravel_index(np.argmax(dev), dev.shape)
        ctx.fail("C17:unit-norm" + tag, "a voxel's coil vector is neither unit-norm nor exactly zero", case,
                 observed=dict(voxel=[int(v) for v in i], norm=float(nrm[i]), coil0=float(np.abs(maps[0][i]))),
                 expected="1 +- %g or exactly 0" % TOL, origin=origin)
        ok = False
    want_zero = np.real(eig) <= crop
    if not np.array_equal(zero, want_zero):
        i = np.argwhere(zero != want_zero)[0]
        tie = bool(np.real(eig)[tuple(i)] == crop)
        ctx.fail("C17:crop" + (":tie" if tie else "") + tag, "maps are zero at a voxel iff eig <= crop is violated" +
                 (" (eig == crop exactly: must be zero)" if tie else ""), case,
                 observed=dict(voxel=i.tolist(), eig=float(np.real(eig)[tuple(i)]), crop=float(crop), zero=bool(zero[tuple(i)])),
                 expected="zero exactly where eig <= crop", origin=origin)
        ok = False
    if np.max(np.abs(maps[0].imag)) > TOL or np.min(maps[0].real) < -TOL:
        ctx.fail("C17:phase" + tag, "coil 0 is not real and non-negative", case,
                 observed=dict(max_imag=float(np.max(np.abs(maps[0].imag))), min_real=float(np.min(maps[0].real))), expected="|imag| <= %g, real >= -%g" % (TOL, TOL),
                 origin=origin)
        ok = False
    if eig_given:            # the eigenvalue map is part of the prescribed state, not computed by the code
        return ok
    if np.iscomplexobj(eig) and np.max(np.abs(np.imag(eig))) > TOL:
        ctx.fail("C17:eig-real" + tag, "eigenvalues are not real", case, observed=float(np.max(np.abs(np.imag(eig)))), expected="real", origin=origin)
        ok = False
    if np.min(np.real(eig)) < -TOL or np.max(np.real(eig)) > 1 + TOL:
        ctx.fail("C17:eig-range" + tag, "eigenvalues outside [0, 1]", case, observed=[float(np.min(np.real(eig))), float(np.max(np.real(eig)))],
                 expected="[0, 1 + %g]" % TOL, origin=origin)
        ok = False
    return ok


def check_espirit(ctx, c, origin):
    import sigpy.mri as mr
    ksp, mps_true = espirit_data(c)
    case = dict(c)
    try:
        app = mr.app.EspiritCalib(ksp.copy(), calib_width=width(c, c["cw"]), kernel_width=width(c, c["kw"]), thresh=c["thresh"],
                                  crop=c["crop"], max_iter=width(c, c["max_iter"]), output_eigenvalue=True, show_pbar=False)
        maps, eig = app.run()
        maps, eig = np.array(maps), np.array(eig)
    except Exception as e:  # noqa
        ctx.fail("C17:raises" + (":numpy-integer-width" if c.get("wtype") else ""),
                 "EspiritCalib raised %s on a valid request%s" % (type(e).__name__, " (calib_width / kernel_width / max_iter given as numpy.%s)" % c["wtype"] if c.get("wtype") else ""),
                 case, observed=repr(e)[:300], expected="maps", origin=origin)
        return False
    if not c.get("_second") and (c.get("crop_at") is not None or c.get("crop_rank") is not None):
        # second pass with the crop threshold set EXACTLY to one of the eigenvalue estimates (the computation is
        # deterministic): every voxel that attains it has eig <= crop and must be exactly zero, every voxel above is kept
        ev = np.real(np.asarray(eig)).ravel()
        if ev.size and not np.isnan(ev).any():
            if c.get("crop_at") is not None:
                cv = float(ev[c["crop_at"] % ev.size])
            else:
                cv = float(np.sort(ev)[int(round(c["crop_rank"] * (ev.size - 1)))])
            return check_espirit(ctx, dict(c, crop=cv, _second=True), origin)
    ok = check_invariants(ctx, case, maps, eig, ksp.shape, c["crop"], origin, TOL=TOLS[c.get("dtype", "complex128")])
    if ok and c.get("rerun"):
        with np.errstate(all="ignore"):
            maps2, eig2 = app.run()
        if np.isnan(maps2).any() and not np.isnan(eig2).any():
            ctx.fail("C17:rerun:nan-at-cropped-voxels", "a second run() of the same EspiritCalib returns NaN maps (at the voxels the first run cropped to 0)",
                     case, observed=dict(nan=int(np.isnan(maps2).sum()), cropped_first=int(np.all(maps == 0, axis=0).sum())),
                     expected="unit-norm or exactly zero", origin=origin)
            return False
        ok = check_invariants(ctx, case, np.array(maps2), np.array(eig2), ksp.shape, c["crop"], origin, tag=":rerun", TOL=TOLS[c.get("dtype", "complex128")])
    return ok


# ---- _output on a prescribed power-iteration state (unit vector field + eigenvalue map) ---------------
def gen_output_state(rng):
    nc = rng.randint(2, 8)
    m0abs = rng.choice([0.5, 1e-2, 1e-4, 1e-7, 1e-10, 1e-12, 1e-14])
    crop = rng.choice([0.0, 0.5, 0.95, 1.0, rng.random()])
    eig = crop if rng.random() < 0.4 else rng.choice([0.0, 0.3, 0.96, 1.0, rng.random()])
    return dict(kind="output-state", nc=nc, m0abs=m0abs, m0arg=rng.uniform(-3.2, 3.2), crop=crop, eig=eig, seed=rng.randrange(1 << 30))


def output_state_vector(c):
    if "m" in c:                       # explicit vector (a replayed correspondence case), normalised in float
        m = np.array([complex(a, b) for a, b in c["m"]])
        return m / np.sqrt(np.sum(np.abs(m) ** 2))
    rs = np.random.RandomState(c["seed"])
    rest = rs.randn(c["nc"] - 1) + 1j * rs.randn(c["nc"] - 1)
    rest *= np.sqrt(1 - c["m0abs"] ** 2) / np.sqrt(np.sum(np.abs(rest) ** 2))
    return np.concatenate([[c["m0abs"] * np.exp(1j * c["m0arg"])], rest])


def check_output_state(ctx, c, origin):
    """`_output()` of a real app whose power-iteration state (public attributes `mps`, `alg.max_eig`) is a prescribed
    UNIT vector (m0 != 0, possibly tiny) and eigenvalue: the result must be unit-norm with coil 0 real >= 0 when
    eig > crop and exactly zero when eig <= crop."""
    m = output_state_vector(c)
    nc = len(m)
    try:
        app = make_app(nc, [3, 3], crop=float(c["crop"]), output_eigenvalue=True)
        app.mps[...] = m.reshape(1, 1, nc, 1)
        app.alg.max_eig = np.full((3, 3, 1, 1), float(c["eig"]))
        mo, eo = app._output()
        mo, eo = np.array(mo), np.array(eo)
    except Exception as e:  # noqa  (the attributes this oracle sets are not there any more: not a verdict)
        ctx.count("oracle:output-state:inconclusive")
        return True
    return check_invariants(ctx, dict(c), mo, eo, (nc, 3, 3), float(c["crop"]), origin, tag=":output-state", eig_given=True)


# ---- recovery, alone and in histories of several live apps ----------------------------------------------
def gen_recovery(rng):
    d2 = rng.random() < 0.85
    nc = rng.randint(4, 8)
    ish = [rng.randint(12, 17), rng.randint(12, 17)] if d2 else [10, 10, 10]
    return dict(kind="recovery", nc=nc if d2 else 8, ish=ish, cw=12 if d2 else 10, kw=4 if d2 else 3)


def smooth_maps(nc, ish, v):
    """a smooth rss-normalised coil array: birdcage coils renumbered (reversed / rotated) and mirrored"""
    from sigpy.mri import sim
    mps = sim.birdcage_maps([nc] + list(ish))      # already rss-normalised
    if v.get("rev"):
        mps = mps[::-1]
    mps = np.roll(mps, v.get("roll", 0), axis=0)
    for ax in v.get("flip", []):
        mps = np.flip(mps, axis=1 + ax)
    return np.ascontiguousarray(mps)


def recovery_error(mps, rec):
    sl = (slice(None),) + tuple(slice(4, -4) for _ in mps.shape[1:])
    err = np.abs(np.abs(mps)[sl] - np.abs(rec)[sl])
    tol = 1e-2 + 1e-2 * np.abs(rec)[sl]
    return float(np.max(err / tol))


def check_recovery(ctx, c, origin):
    """fully sampled k-space of smooth (birdcage) maps: |maps| agree with the rss-normalised truth in the interior"""
    import sigpy as sp
    import sigpy.mri as mr
    ish = c["ish"]
    mps = smooth_maps(c["nc"], ish, c.get("variant", {}))
    ksp = sp.fft(mps, axes=list(range(-len(ish), 0)))
    rec = mr.app.EspiritCalib(ksp, calib_width=c["cw"], kernel_width=c["kw"], show_pbar=False).run()
    r = recovery_error(mps, rec)
    if not r <= 1:
        ctx.fail("C17:recovery", "recovered map magnitudes differ from the true rss-normalised maps in the interior", dict(c),
                 observed=r, expected="<= 1 (rtol = atol = 1e-2, as tests/mri/test_app.py)", origin=origin)
        return False
    return True


def gen_history(rng):
    """several EspiritCalib apps of the same shape alive at once: all constructed first, then run in another order
    (an earlier-constructed app runs after a later construction), some run a second time"""
    nc = rng.randint(4, 8)
    ish = [rng.randint(12, 16), rng.randint(12, 16)]
    n = rng.choice([2, 2, 3])
    vs = []
    while len(vs) < n:
        v = dict(rev=rng.random() < 0.5, roll=rng.randrange(nc), flip=[a for a in (0, 1) if rng.random() < 0.3])
        if v not in vs:
            vs.append(v)
    order = list(range(n))
    k = rng.random()
    if k < 0.4:
        pass                       # run in construction order: app 0 runs after app 1.. were constructed
    elif k < 0.7:
        order.reverse()
    else:
        rng.shuffle(order)
    if rng.random() < 0.4:
        order.append(rng.choice(order))         # re-run of an app that has already run
    return dict(kind="history", nc=nc, ish=ish, cw=12, kw=4, crop=rng.choice([0.95, 0.95, 0.9, 0.99]), apps=vs, order=order)


def check_history(ctx, c, origin):
    import sigpy as sp
    import sigpy.mri as mr
    ish = c["ish"]
    truth = [smooth_maps(c["nc"], ish, v) for v in c["apps"]]
    ksps = [sp.fft(m, axes=list(range(-len(ish), 0))) for m in truth]
    apps = [mr.app.EspiritCalib(k, calib_width=c["cw"], kernel_width=c["kw"], crop=c["crop"], output_eigenvalue=True, show_pbar=False)
            for k in ksps]
    ok, ran = True, set()
    for step, a in enumerate(c["order"]):
        rerun = a in ran
        ran.add(a)
        case = dict(c, failing_step=step, failing_app=a)
        with np.errstate(all="ignore"):
            maps, eig = apps[a].run()
        maps, eig = np.array(maps), np.array(eig)
        if rerun and np.isnan(maps).any():
            ctx.fail("C17:rerun:nan-at-cropped-voxels", "a second run() of the same EspiritCalib returns NaN maps (at the voxels the first run cropped to 0)",
                     case, observed=dict(nan=int(np.isnan(maps).sum()), cropped_first=int(np.isnan(maps[0]).sum())), expected="unit-norm or exactly zero", origin=origin)
            ok = False
            continue
        ok = check_invariants(ctx, case, maps, eig, ksps[a].shape, c["crop"], origin, tag=":history") and ok
        if np.isnan(maps).any():
            continue
        r = recovery_error(truth[a], maps)
        if not r <= 1:
            others = {b: recovery_error(truth[b], maps) for b in range(len(apps)) if b != a}
            ctx.fail("C17:recovery:history", "with several EspiritCalib apps alive (all constructed, then run), an app's maps do not agree with the "
                     "true maps of ITS OWN k-space in the interior", case,
                     observed=dict(own=r, against_other_apps_truth=others), expected="<= 1 (rtol = atol = 1e-2) against the app's own data", origin=origin)
            ok = False
    return ok


def search(ctx, budget):
    rng = ctx.rng
    # 1. the correspondence disagreements first, as inputs of the property oracle on the real code
    for dg in ctx.disagreements[:40]:
        cs = dg.get("case") or {}
        try:
            if cs.get("kind") == "post" and cs.get("line", "").startswith("C17 output "):
                kv = dict(t.split("=", 1) for t in cs["line"].split()[2:])
                m = [[float(Fraction(p)) for p in (z.split(";") + ["0"])[:2]] for z in kv["m"].split(",")]
                c = dict(kind="output-state", m=m, eig=float(Fraction(kv["eig"])), crop=float(Fraction(kv["crop"])))
                ctx.case(("oracle-state", json.dumps(c, sort_keys=True)))
                check_output_state(ctx, c, "correspondence")
            elif cs.get("kind") == "hyp":
                c = dict(kind="invariants", nc=cs["nc"], ish=cs["ish"], cw=cs["cw"], kw=max(cs["kw"], 1), thresh=cs["thresh"], crop=0.0, max_iter=30,
                         data="random", seed=1, crop_at=None)
                check_espirit(ctx, c, "correspondence")
        except Exception:  # noqa
            ctx.count("oracle:replay-inconclusive")
    # 2. histories: several apps alive, run in another order, re-run (each must recover ITS OWN maps)
    for i in range(int(8 * budget)):
        c = gen_history(rng)
        ctx.case(("oracle-history", json.dumps(c, sort_keys=True)))
        ctx.count("oracle:history:%dapps%s" % (len(c["apps"]), ":rerun" if len(set(c["order"])) < len(c["order"]) else ""))
        check_history(ctx, c, "search")
    # 3. _output on prescribed unit states (tiny first coil, eig == crop ties)
    for i in range(int(60 * budget)):
        c = gen_output_state(rng)
        ctx.case(("oracle-state", json.dumps(c, sort_keys=True)))
        ctx.count("oracle:output-state:%s" % ("tie" if c["eig"] == c["crop"] else "weak0" if c["m0abs"] < 1e-6 else "plain"))
        check_output_state(ctx, c, "search")
    # 4. per-voxel invariants end to end
    n = int(150 * budget)
    for _ in range(n):
        c = gen_espirit(rng, budget)
        ctx.case(("oracle", json.dumps(c, sort_keys=True)))
        ctx.count("oracle:%s:%dd%s%s" % (c["data"], len(c["ish"]), ":npint" if c.get("wtype") else "", ":c64" if c.get("dtype") else ""))
        check_espirit(ctx, c, "search")
    for i in range(int(12 * budget)):
        c = gen_recovery(rng)
        ctx.case(("oracle-recovery", json.dumps(c, sort_keys=True)))
        ctx.count("oracle:recovery:%dd" % len(c["ish"]))
        check_recovery(ctx, c, "search")


CHECKERS = {"recovery": check_recovery, "history": check_history, "output-state": check_output_state}


def replay(path):
    r = json.load(open(path))
    print(json.dumps(r, indent=1)[:3000])
    if r.get("kind") != "failing-input":
        return 0
    c = r["case"]
    ctx = common.Ctx(PROPERTY, "quick", 0)
    ok = CHECKERS.get(c.get("kind"), check_espirit)(ctx, c, "replay")
    for f in ctx.failures[:5]:
        print("  failure:", f["key"], f["what"], f["observed"])
    print("replay:", "property holds on this input" if ok else "property FAILS on this input")
    return 0 if ok else 1
