"""C17 — ESPIRiT maps: unit-norm or zero, phase-referenced, eigenvalues in [0,1], recover true maps."""
import json
from fractions import Fraction

import numpy as np

from harness import common
from harness.translate import gen as G

PROPERTY = "C17"
LEAN_MODULES = ["SigpyVerif.Props.C17"]
THEOREMS = ["SigpyVerif.C17." + t for t in [
    "normalize_eq", "power_step_unit", "phase_ref", "phase_ref_norm", "espirit_keeps_iff", "crop_dichotomy",
    "gram_symmetric", "gram_psd", "power_monotone", "power_bounded", "espirit_scale", "calib_index_map",
    "calib_index_map_2d", "calib_index_map_3d", "calib_shape_steps",
    "bessel_gram_le", "gram_quadratic_le", "gram_inner_le", "eig_le_one_of_orthonormal_kernels", "eigenvalue_le_one",
    "imgKernel_inner", "tensorPhase_norm_sq", "eig_le_one_espirit",
]]

TOL_EXACT = 1e-12   # float pipeline vs exact rational model (observed <= 1e-15)
TOL = 1e-6          # the property's own tolerance
TOL_HYP = 1e-10     # hypotheses of `eig_le_one_espirit` on the real intermediates (observed <= 1e-14)


def translate(ctx):
    G.regenerate(ctx, ["Block", "EspiritFormulas"])


def fr(x):
    f = Fraction(x)
    return str(f.numerator) if f.denominator == 1 else "%d/%d" % (f.numerator, f.denominator)


def cfmt(z):
    re, im = z
    return fr(re) if im == 0 else "%s;%s" % (fr(re), fr(im))


def parse_c(s):
    p = s.split(";")
    return complex(float(Fraction(p[0])), float(Fraction(p[1])) if len(p) > 1 else 0.0)


def parse_list(s):
    return np.array([parse_c(v) for v in s.split(",")], dtype=complex) if s != "-" else np.zeros(0, complex)


def cnum(z):
    return complex(float(z[0]), float(z[1]))


TRIPLES = [(3, 4, 5), (4, 3, 5), (5, 12, 13), (12, 5, 13), (8, 15, 17), (15, 8, 17), (7, 24, 25), (20, 21, 29), (1, 0, 1), (0, 1, 1), (0, 2, 2)]


def pyth_entry(rng):
    """a Gaussian rational with rational modulus; returns ((re, im), modulus)"""
    a, b, c = rng.choice(TRIPLES)
    s = Fraction(rng.choice([1, 1, 2, 3, -1, -2]), rng.choice([1, 1, 2, 4]))
    sa, sb = rng.choice([1, -1]), rng.choice([1, -1])
    return (sa * a * s, sb * b * s), abs(c * s)


def pyth_vector(rng, n):
    """n Gaussian rationals, each with rational modulus, whose l2 norm is rational: moduli are scaled along a
    rational Pythagorean chain (t_{k+1} = s_k * q with (1, q, sqrt(1+q^2)) a rational triple)"""
    out, s = [], None
    for k in range(n):
        z, m = pyth_entry(rng)
        if m == 0:
            z, m = (Fraction(3), Fraction(4)), Fraction(5)
        if s is None:
            out.append(z)
            s = m
        else:
            a, b, c = rng.choice(TRIPLES[:8])
            q = Fraction(b, a)                      # s^2 + (s q)^2 = (s c / a)^2
            scale = s * q / m
            out.append((z[0] * scale, z[1] * scale))
            s = s * Fraction(c, a)
    return out, s


def make_app(nc, ish, **kw):
    import sigpy.mri as mr
    rs = np.random.RandomState(1)
    ksp = rs.randn(nc, *ish) + 1j * rs.randn(nc, *ish)
    return mr.app.EspiritCalib(ksp, calib_width=min(ish), kernel_width=2, max_iter=2, show_pbar=False, **kw)


def centre_crop(a, cw):
    """independent statement of `sp.resize(ksp, [nc] + [cw]*d)`: index n//2 aligned with index cw//2"""
    out = np.zeros([a.shape[0]] + [cw] * (a.ndim - 1), dtype=a.dtype)
    src, dst = [slice(None)], [slice(None)]
    for n in a.shape[1:]:
        if n >= cw:
            s = n // 2 - cw // 2
            src.append(slice(s, s + cw))
            dst.append(slice(None))
        else:
            s = cw // 2 - n // 2
            src.append(slice(None))
            dst.append(slice(s, s + n))
    out[tuple(dst)] = a[tuple(src)]
    return out


def capture_calib_matrix(ksp, cw, kw):
    """run the real constructor and capture the matrix handed to `svd` (harness-side wrapper, /repo untouched)"""
    import sigpy.mri as mr
    got = {}
    real = np.linalg.svd

    def spy(a, *args, **kwargs):
        got.setdefault("mat", np.array(a))
        return real(a, *args, **kwargs)
    np.linalg.svd = spy
    try:
        mr.app.EspiritCalib(ksp, calib_width=cw, kernel_width=kw, max_iter=1, show_pbar=False)
    finally:
        np.linalg.svd = real
    return got.get("mat")


def capture_internals(ksp, cw, kw, thresh):
    """run the real constructor; capture what `svd` returned and the Gram array `AHA` the closure `forward` uses
    (harness-side wrappers, /repo untouched)"""
    import sigpy.mri as mr
    got = {}
    real = np.linalg.svd

    def spy(a, *args, **kwargs):
        r = real(a, *args, **kwargs)
        got.setdefault("svd", r)
        return r
    np.linalg.svd = spy
    try:
        app = mr.app.EspiritCalib(ksp, calib_width=cw, kernel_width=kw, thresh=thresh, max_iter=1, show_pbar=False)
    finally:
        np.linalg.svd = real
    fwd = app.alg.A
    cells = dict(zip(fwd.__code__.co_freevars, [c.cell_contents for c in fwd.__closure__ or ()]))
    return got.get("svd"), cells.get("AHA")


def dft_phases(n, kwid):
    """E[q, p] = entry of the centred orthonormal inverse DFT of length n for voxel q and the grid position at which
    the centre padding/cropping (`sp.resize`) puts kernel offset p; 0 where the offset is cropped.  Written from
    the definitions (C05: centre = n//2; C09: resize aligns index kw//2 with n//2)."""
    ishift, oshift = max(kwid // 2 - n // 2, 0), max(n // 2 - kwid // 2, 0)
    size = min(kwid - ishift, n - oshift)
    E = np.zeros((n, kwid), dtype=complex)
    q = np.arange(n)
    for p_ in range(ishift, ishift + size):
        j = p_ - ishift + oshift
        E[:, p_] = np.exp(2j * np.pi * (q - n // 2) * (j - n // 2) / n) / np.sqrt(n)
    return E


def check_hypotheses(ctx, bad):
    """the hypotheses of `eig_le_one_espirit` on the REAL intermediates of EspiritCalib: (hv) the kept rows of VH are
    orthonormal; (ha, h-eps, scale) the real AHA is  espiritScale * sum_k a_k a_k^H  with a_k(q)[c] = sum_p v_k[c,p] eps_q(p)
    and |eps_q(p)|^2 <= 1/N; and the conclusion (largest eigenvalue of every AHA[q] <= 1)."""
    rng = ctx.rng
    ncase = 6 if ctx.tier == "quick" else 30
    for i in range(ncase):
        d = [1, 2, 2, 3][i % 4]
        nc = rng.randint(2, 5 if d < 3 else 3)
        ish = [rng.randint(2 if i % 5 == 4 else 4, 8 if d < 3 else 5) for _ in range(d)]
        cw = rng.randint(2, max(ish) + 1)
        kw = rng.randint(1, min(cw, 3))
        thresh = rng.choice([0.0, 0.02, 0.02, 0.1, 0.3])
        rs = np.random.RandomState(rng.randrange(1 << 30))
        ksp = rs.randn(nc, *ish) + 1j * rs.randn(nc, *ish)
        if i % 3 == 2:      # low-rank data: several singular values below the threshold
            ksp = ksp[:1] * (rs.randn(nc) + 1j * rs.randn(nc)).reshape([nc] + [1] * d) + 1e-3 * ksp
        case = dict(kind="hyp", nc=nc, ish=ish, cw=cw, kw=kw, thresh=thresh)
        ctx.case(("hyp", json.dumps(case), i), sample=case if i < 3 else None)
        ctx.count("hyp:%dd" % d)
        N = int(np.prod(ish))
        r = ctx.driver(["C17 gram nc=1 nk=1 N=%d kw=%d d=%d v=1" % (N, kw, d)])[0]
        try:
            scale = float(parse_list(r[3:])[0].real) if r.startswith("ok ") else None
            svd, AHA = capture_internals(ksp, cw, kw, thresh)
            _, S, VH = svd
            V = VH[S > thresh * S.max(), :]
            orth = float(np.max(np.abs(V @ V.conj().T - np.eye(len(V))))) if len(V) else 0.0
            Es = [dft_phases(n, kw) for n in ish]
            epsmax = max(float(np.max(np.abs(E) ** 2)) * n for E, n in zip(Es, ish))      # N * |eps|^2 <= 1
            a = V.reshape([len(V), nc] + [kw] * d)
            for ax in range(d):
                a = np.moveaxis(np.tensordot(a, Es[ax], axes=([2 + ax], [1])), -1, 2 + ax)
            G = scale * np.einsum("kc...,kd...->...cd", a, a.conj())
            G = np.transpose(G, list(range(d))[::-1] + [d, d + 1])
            gerr = float(np.max(np.abs(G - AHA))) if G.shape == AHA.shape else np.inf
            emax = float(np.max(np.linalg.eigvalsh(AHA.reshape(-1, nc, nc))))
            obs = dict(orth=orth, eps=epsmax, gram=gerr, eigmax=emax, kept=int(len(V)))
            ok = orth <= TOL_HYP and epsmax <= 1 + TOL_HYP and gerr <= TOL_HYP and emax <= 1 + TOL_HYP
        except Exception as e:  # noqa
            obs, ok = "err %s %s" % (type(e).__name__, e), False
        if not ok:
            bad["hyp"] += 1
            ctx.disagree("eig-hypotheses", case, obs, "orth, gram <= 1e-10; N|eps|^2, eigmax <= 1 + 1e-10")
    ctx.oblige("correspondence:C17.eig-hypotheses", "correspondence", bad["hyp"] == 0,
               "%d cases where the kept VH rows are not orthonormal / AHA is not scale*sum a a^H of the DFT'd kernels / "
               "an eigenvalue of AHA exceeds 1" % bad["hyp"])


def correspond(ctx):
    ctx.rule = ("post-processing cases = Gaussian-rational vectors with rational moduli (Pythagorean chains), coils 2-8, "
                "run through the REAL closures (`normalize` = alg.norm_func, PowerMethod._update, EspiritCalib._output) "
                "and the Lean model; calibration-matrix cases = labelled k-space (unique integers), 1-D/2-D/3-D, "
                "captured from the real constructor at the svd call; distinct by protocol line; all non-trivial")
    import sigpy as sp
    rng = ctx.rng
    n = 40 if ctx.tier == "quick" else 300
    app2 = {}
    bad = {"normalize": 0, "step": 0, "output": 0, "calib": 0, "hyp": 0}
    lines, meta = [], []
    for _ in range(n):
        nc = rng.randint(2, 8)
        v, nrm = pyth_vector(rng, nc)
        lines.append("C17 normalize x=%s" % ",".join(cfmt(z) for z in v))
        meta.append(("normalize", nc, v, None))
        # power step: G = y x^H / (x^H x) + Z (I - x x^H / x^H x)  so that G x = y exactly (y Pythagorean)
        x = [(Fraction(rng.randint(-3, 3)), Fraction(rng.randint(-3, 3))) for _ in range(nc)]
        if all(z == (0, 0) for z in x):
            x[0] = (Fraction(1), Fraction(0))
        xx = sum(z[0] * z[0] + z[1] * z[1] for z in x)

        def cm(a, b):
            return (a[0] * b[0] - a[1] * b[1], a[0] * b[1] + a[1] * b[0])

        def cj(a):
            return (a[0], -a[1])
        Z = [[(Fraction(rng.randint(-2, 2)), Fraction(rng.randint(-2, 2))) for _ in range(nc)] for _ in range(nc)]
        Zx = [tuple(sum(cm(Z[i][j], x[j])[k] for j in range(nc)) for k in (0, 1)) for i in range(nc)]
        Gm = [[None] * nc for _ in range(nc)]
        for i in range(nc):
            for j in range(nc):
                t = cm((v[i][0] - Zx[i][0], v[i][1] - Zx[i][1]), cj(x[j]))
                Gm[i][j] = (Z[i][j][0] + t[0] / xx, Z[i][j][1] + t[1] / xx)
        lines.append("C17 step n=%d G=%s x=%s" % (nc, ",".join(cfmt(z) for row in Gm for z in row), ",".join(cfmt(z) for z in x)))
        meta.append(("step", nc, x, Gm))
        # _output: coil 0 Pythagorean, the rest Gaussian integers; eig / crop rationals incl. equality
        m0, _ = pyth_entry(rng)
        if m0 == (0, 0):
            m0 = (Fraction(3), Fraction(-4))
        m = [m0] + [(Fraction(rng.randint(-4, 4)), Fraction(rng.randint(-4, 4))) for _ in range(nc - 1)]
        crop = Fraction(rng.randint(0, 8), 8)
        eig = crop if rng.random() < 0.3 else Fraction(rng.randint(0, 9), 8)
        lines.append("C17 output eig=%s crop=%s m=%s" % (fr(eig), fr(crop), ",".join(cfmt(z) for z in m)))
        meta.append(("output", nc, m, (eig, crop)))
    replies = ctx.driver(lines)
    for (op, nc, v, extra), ln, r in zip(meta, lines, replies):
        ctx.case(ln, sample=dict(line=ln[:160], reply=r[:100]) if ctx.evaluations % 29 == 0 else None)
        ctx.count("post:%s:nc%d" % (op, nc))
        try:
            if nc not in app2:
                app2[nc] = make_app(nc, [4, 4])
            app = app2[nc]
            if op == "normalize":
                x = np.array([cnum(z) for z in v]).reshape(1, 1, nc, 1)   # [.., coil, 1]: coil axis is -2
                impl = np.asarray(app.alg.norm_func(x)).ravel()
                model = parse_list(r[3:]) if r.startswith("ok ") else r
                ok = not isinstance(model, str) and impl.shape == model.shape and np.max(np.abs(impl - model)) <= TOL_EXACT * (1 + np.max(np.abs(model)))
            elif op == "step":
                Gn = np.array([[cnum(z) for z in row] for row in extra])
                x = np.array([cnum(z) for z in v]).reshape(1, nc, 1)
                alg = sp.alg.PowerMethod(lambda t: Gn @ t, x.copy(), norm_func=app.alg.norm_func, max_iter=1)
                alg.update()
                impl = np.concatenate([np.asarray(alg.max_eig).ravel(), alg.x.ravel()])
                if r.startswith("ok "):
                    e, xs = r[3:].split(" | ")
                    model = np.concatenate([parse_list(e), parse_list(xs)])
                    ok = impl.shape == model.shape and np.max(np.abs(impl - model)) <= TOL_EXACT * (1 + np.max(np.abs(model)))
                else:
                    model, ok = r, False
            else:
                eig, crop = extra
                app = make_app(nc, [3, 3], crop=float(crop), output_eigenvalue=True)
                # app.mps has shape ksp.shape[::-1] + (1,) = [3, 3, nc, 1]; the same vector at every voxel
                app.mps[...] = np.array([cnum(z) for z in v]).reshape(1, 1, nc, 1)
                app.alg.max_eig = np.full((3, 3, 1, 1), float(eig))
                mo, eo = app._output()
                impl = np.asarray(mo)[:, 1, 2].ravel()
                model = parse_list(r[3:]) if r.startswith("ok ") else r
                ok = not isinstance(model, str) and impl.shape == model.shape and np.max(np.abs(impl - model)) <= TOL_EXACT * (1 + np.max(np.abs(model))) \
                    and np.array_equal(impl == 0, model == 0)
        except Exception as e:  # noqa
            impl, model, ok = "err %s %s" % (type(e).__name__, e), r, False
        if not ok:
            bad[op] += 1
            ctx.disagree("post-" + op, dict(kind="post", line=ln), impl if isinstance(impl, str) else impl.tolist(),
                         model if isinstance(model, str) else model.tolist())
    for op in ("normalize", "step", "output"):
        ctx.oblige("correspondence:C17.%s" % op, "correspondence", bad[op] == 0, "%d disagreements" % bad[op])
    # calibration matrix on labelled k-space
    ncal = 8 if ctx.tier == "quick" else 40
    cl, cmeta = [], []
    for i in range(ncal):
        d = [1, 2, 2, 3][i % 4]
        nc = rng.randint(2, 4 if d == 3 else 6)
        ish = [rng.randint(3, 7 if d < 3 else 5) for _ in range(d)]
        cw = rng.randint(2, max(ish) + 1)
        kw = rng.randint(1, min(cw, 3))
        ksp = (np.arange(1, nc * int(np.prod(ish)) + 1).reshape([nc] + ish)).astype(np.complex128)
        cal = centre_crop(ksp, cw)
        cl.append("C17 calib nc=%d cw=%d kw=%d d=%d x=%s" % (nc, cw, kw, d, ",".join(str(int(v.real)) for v in cal.ravel())))
        cmeta.append((ksp, cw, kw, d, nc, ish))
    for (ksp, cw, kw, d, nc, ish), ln, r in zip(cmeta, cl, ctx.driver(cl)):
        ctx.case(ln, sample=dict(line=ln[:120], reply=r[:80]) if d == 2 else None)
        ctx.count("calib:%dd" % d)
        try:
            mat = capture_calib_matrix(ksp, cw, kw)
            impl = "ok %s | %s" % (",".join(str(s) for s in mat.shape), ",".join(str(int(round(v.real))) for v in mat.ravel()))
            if np.max(np.abs(mat.imag)) != 0 or np.max(np.abs(mat.real - np.round(mat.real))) != 0:
                impl = "err non-integer"
        except Exception as e:  # noqa
            impl = "err %s" % type(e).__name__
        if impl != r:
            bad["calib"] += 1
            ctx.disagree("calib-matrix", dict(kind="calib", nc=nc, ish=ish, cw=cw, kw=kw), impl[:300], r[:300])
    ctx.oblige("correspondence:C17.calib-matrix", "correspondence", bad["calib"] == 0, "%d disagreements" % bad["calib"])
    check_hypotheses(ctx, bad)
    ctx.traces = ctx.evaluations
    ctx.assumptions += [
        "eig <= 1 is a theorem (eig_le_one_espirit) UNDER the hypotheses that the kept rows of numpy's VH are orthonormal "
        "and that sp.ifft of the centre-padded kernel is the centred orthonormal DFT (entries of modulus 1/sqrt N); both "
        "are checked numerically on the real intermediates on every run (1e-10), not proved; that the power iteration's "
        "estimate is within 1e-6 of <= 1 in floating point, and the recovery of the true maps, are search-oracle only",
        "the model's operations are exact (Gaussian rationals with rational moduli); the float pipeline is compared at 1e-12",
        "the SVD and the ifft of the zero-padded kernels are tied by correspondence (eig-hypotheses stream) and C05; the "
        "1-D/2-D/3-D calibration matrix index maps are theorems about the generated loop nests (calib_index_map*), "
        "and the real matrix at the svd call is compared exactly on labelled data",
    ]


# ---- search oracle on the real app ----------------------------------------------------------------
def gen_espirit(rng, budget):
    d = 2 if rng.random() < 0.7 else 3
    nc = rng.randint(2, 8)
    if d == 2:
        ish = [rng.randint(6, 13), rng.randint(6, 13)]
    else:
        ish = [rng.randint(4, 7) for _ in range(3)]
    cw = rng.randint(3, min(ish) + (2 if rng.random() < 0.2 else 0))
    kw = rng.randint(2, min(cw, 4 if d == 2 else 3))
    return dict(kind="invariants", nc=nc, ish=ish, cw=cw, kw=kw, thresh=rng.choice([0.0, 0.02, 0.02, 0.05, 0.2]),
                crop=rng.choice([0.0, 0.5, 0.8, 0.9, 0.95, 0.99]), max_iter=rng.choice([10, 30, 60]),
                data=rng.choice(["random", "random", "birdcage", "lowrank"]), seed=rng.randrange(1 << 30),
                crop_at=rng.randrange(1 << 16) if rng.random() < 0.3 else None)


def espirit_data(c):
    import sigpy as sp
    from sigpy.mri import sim
    rs = np.random.RandomState(c["seed"])
    nc, ish = c["nc"], c["ish"]
    axes = list(range(-len(ish), 0))
    if c["data"] == "random":
        return rs.randn(nc, *ish) + 1j * rs.randn(nc, *ish), None
    mps = sim.birdcage_maps([nc] + ish)
    if c["data"] == "birdcage":
        img = 1.0
    else:
        g = np.meshgrid(*[np.linspace(-1, 1, s) for s in ish], indexing="ij")
        img = np.exp(-2 * sum(x ** 2 for x in g)) * np.exp(1j * rs.rand() * g[0])
    return sp.fft(mps * img, axes=axes), mps


def check_espirit(ctx, c, origin):
    import sigpy.mri as mr
    ksp, mps_true = espirit_data(c)
    case = dict(c)
    try:
        maps, eig = mr.app.EspiritCalib(ksp.copy(), calib_width=c["cw"], kernel_width=c["kw"], thresh=c["thresh"], crop=c["crop"],
                                        max_iter=c["max_iter"], output_eigenvalue=True, show_pbar=False).run()
    except Exception as e:  # noqa
        ctx.fail("C17:raises", "EspiritCalib raised %s on a valid request" % type(e).__name__, case, observed=repr(e)[:300],
                 expected="maps", origin=origin)
        return False
    ok = True
    eig = np.asarray(eig)
    if list(maps.shape) != list(ksp.shape) or eig.size != int(np.prod(ksp.shape[1:])):
        ctx.fail("C17:shape", "maps / eigenvalues do not have the shape of ksp / of one coil", case,
                 observed=[list(maps.shape), list(eig.shape)], expected=list(ksp.shape), origin=origin)
        return False
    eig = eig.reshape(ksp.shape[1:])
    if c.get("crop_at") is not None and not c.get("_second"):
        # second pass with the crop threshold set EXACTLY to one of the eigenvalue estimates (the computation is
        # deterministic): that voxel has eig <= crop and must be exactly zero
        c2 = dict(c, crop=float(np.real(eig).ravel()[c["crop_at"] % eig.size]), _second=True)
        return check_espirit(ctx, c2, origin)
    if list(maps.shape) != list(ksp.shape):
        ctx.fail("C17:shape", "maps do not have the shape of ksp", case, observed=list(maps.shape), expected=list(ksp.shape), origin=origin)
        return False
    if np.isnan(maps).any() or np.isnan(eig).any():
        ctx.fail("C17:nan", "NaN in maps / eigenvalues", case, observed=int(np.isnan(maps).sum()), expected=0, origin=origin)
        return False
    nrm = np.sqrt(np.sum(np.abs(maps) ** 2, axis=0))
    zero = np.all(maps == 0, axis=0)
    dev = np.where(zero, 0.0, np.abs(nrm - 1))
    if dev.max() > TOL:
        i = np.unravel_index(np.argmax(dev), dev.shape)
        ctx.fail("C17:unit-norm", "a voxel's coil vector is neither unit-norm nor exactly zero", case,
                 observed=dict(voxel=[int(v) for v in i], norm=float(nrm[i])), expected="1 +- 1e-6 or exactly 0", origin=origin)
        ok = False
    want_zero = np.real(eig) <= c["crop"]
    if not np.array_equal(zero, want_zero):
        i = np.argwhere(zero != want_zero)[0]
        ctx.fail("C17:crop", "maps are zero at a voxel iff eig <= crop is violated", case,
                 observed=dict(voxel=i.tolist(), eig=float(np.real(eig)[tuple(i)]), zero=bool(zero[tuple(i)])), expected="zero exactly where eig <= crop",
                 origin=origin)
        ok = False
    if np.max(np.abs(maps[0].imag)) > TOL or np.min(maps[0].real) < -TOL:
        ctx.fail("C17:phase", "coil 0 is not real and non-negative", case,
                 observed=dict(max_imag=float(np.max(np.abs(maps[0].imag))), min_real=float(np.min(maps[0].real))), expected="|imag| <= 1e-6, real >= -1e-6",
                 origin=origin)
        ok = False
    if np.iscomplexobj(eig) and np.max(np.abs(np.imag(eig))) > TOL:
        ctx.fail("C17:eig-real", "eigenvalues are not real", case, observed=float(np.max(np.abs(np.imag(eig)))), expected="real", origin=origin)
        ok = False
    if np.min(np.real(eig)) < -TOL or np.max(np.real(eig)) > 1 + TOL:
        ctx.fail("C17:eig-range", "eigenvalues outside [0, 1]", case, observed=[float(np.min(np.real(eig))), float(np.max(np.real(eig)))],
                 expected="[0, 1 + 1e-6]", origin=origin)
        ok = False
    return ok


def gen_recovery(rng):
    d2 = rng.random() < 0.85
    nc = rng.randint(4, 8)
    ish = [rng.randint(12, 17), rng.randint(12, 17)] if d2 else [10, 10, 10]
    return dict(kind="recovery", nc=nc if d2 else 8, ish=ish, cw=12 if d2 else 10, kw=4 if d2 else 3)


def check_recovery(ctx, c, origin):
    """fully sampled k-space of smooth (birdcage) maps: |maps| agree with the rss-normalised truth in the interior"""
    import sigpy as sp
    import sigpy.mri as mr
    from sigpy.mri import sim
    ish = c["ish"]
    mps = sim.birdcage_maps([c["nc"]] + ish)      # already rss-normalised
    ksp = sp.fft(mps, axes=list(range(-len(ish), 0)))
    rec = mr.app.EspiritCalib(ksp, calib_width=c["cw"], kernel_width=c["kw"], show_pbar=False).run()
    sl = (slice(None),) + tuple(slice(4, -4) for _ in ish)
    err = np.abs(np.abs(mps)[sl] - np.abs(rec)[sl])
    tol = 1e-2 + 1e-2 * np.abs(rec)[sl]
    if not np.all(err <= tol):
        ctx.fail("C17:recovery", "recovered map magnitudes differ from the true rss-normalised maps in the interior", dict(c),
                 observed=float(np.max(err / tol)), expected="<= 1 (rtol = atol = 1e-2, as tests/mri/test_app.py)", origin=origin)
        return False
    return True


def search(ctx, budget):
    rng = ctx.rng
    n = int(150 * budget)
    for _ in range(n):
        c = gen_espirit(rng, budget)
        ctx.case(("oracle", json.dumps(c, sort_keys=True)))
        ctx.count("oracle:%s:%dd" % (c["data"], len(c["ish"])))
        check_espirit(ctx, c, "search")
    for i in range(int(12 * budget)):
        c = gen_recovery(rng)
        ctx.case(("oracle-recovery", json.dumps(c, sort_keys=True)))
        ctx.count("oracle:recovery:%dd" % len(c["ish"]))
        check_recovery(ctx, c, "search")


def replay(path):
    r = json.load(open(path))
    print(json.dumps(r, indent=1)[:3000])
    if r.get("kind") != "failing-input":
        return 0
    c = r["case"]
    ctx = common.Ctx(PROPERTY, "quick", 0)
    ok = check_recovery(ctx, c, "replay") if c.get("kind") == "recovery" else check_espirit(ctx, c, "replay")
    for f in ctx.failures[:5]:
        print("  failure:", f["key"], f["what"], f["observed"])
    print("replay:", "property holds on this input" if ok else "property FAILS on this input")
    return 0 if ok else 1
