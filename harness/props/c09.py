"""C09 — resize / flip / circshift / downsample / upsample / array_to_blocks / blocks_to_array."""
import itertools
import json

import numpy as np

from harness import common
from harness.translate import gen as G

PROPERTY = "C09"
LEAN_MODULES = ["SigpyVerif.Props.C09", "SigpyVerif.Props.C09Nd", "SigpyVerif.Props.C09Samp", "SigpyVerif.Props.C09Shift",
                "SigpyVerif.Props.C09Block"]
THEOREMS = ["SigpyVerif.C09." + t for t in [
    "resize_default_aligns", "resize_in_bounds", "resize_transpose", "resize_default_swap",
    "roll_inverse", "roll_in_range", "downsampleLen_spec", "upsampleLen_eq_downsampleLen",
    "up_down_index", "up_test_is_sample", "numBlks_maximal", "numBlks_sites_agree",
    "a2b1_mem", "b2a1_mem", "b2a1_transpose_a2b1", "sliceLen_eq_advertised", "flip_index", "a2b2_mem", "b2a2_mem", "a2b3_mem", "b2a3_mem",
    # Lemmas/C09.lean: row-major enumeration
    "shapeProd_cons", "shapeProd_append", "ravel_cons", "mem_allIdx", "mem_allIdx_iff_getD", "allIdx_length",
    "allIdx_getElem?_ravel", "ravel_injective", "map_allIdx_getD", "map_allIdx_size",
    # Props/C09Nd.lean: N-d lifts and array-level statements
    "expandShapes_spec", "expandShapes_prod", "expandShapes_same_rank", "resizeSrc_spec", "resize_default_aligns_nd",
    "resize_transpose_nd", "resize_in_bounds_nd", "resize_array_spec", "resize_same_shape", "resize_size",
    # Props/C09Samp.lean: downsample / upsample on arrays and their compositions
    "sliceLen_spec", "downSrc_mem", "up_of_down", "down_of_up", "downsample_array_spec", "upsample_array_spec",
    "samp_params_ok", "downsample_upsample_id", "upsample_downsample_mask",
    # Props/C09Shift.lean: flip / circshift on arrays
    "mapAxes_length", "mapAxes_getD", "mapAxes_mem_allIdx", "flip_array_spec", "flipSrc_getD", "flipSrc_mem",
    "flipSrc_involutive", "flip_flip_array", "rollStep_mem", "circSrc_mem", "circshift_eq", "foldl_rollArr_getD",
    "circshift_isSome_iff", "circshift_array_spec", "rollStep_getD", "rollSrc_pyMod", "circSrc_getD",
    "circSrc_getD_untouched", "circshift_distinct_axes", "circshift_perm", "circshift_perm_array",
    "circshift_inverse_array", "circshift_inverse_array_getD", "circshift_roundtrip",
    # Props/C09Block.lean: gather destinations are unique; scatter multiplicities
    "a2b1_dst_unique", "a2b1_dst_nodup", "a2b2_dst_unique", "a2b2_dst_nodup", "a2b3_dst_unique", "a2b3_dst_nodup",
    "coverCount_pos_iff", "coverCount_eq_zero_iff", "length_filter_eq_of_bij", "length_filter_product",
    "b2a1_cover", "b2a1_uncovered", "b2a1_out_of_range", "b2a1_uncovered_nil",
    "b2a2_cover", "b2a2_uncovered", "b2a2_out_of_range", "b2a2_uncovered_nil",
    "b2a3_cover", "b2a3_uncovered", "b2a3_out_of_range", "b2a3_uncovered_nil", "b2a_accumulates",
]]


def translate(ctx):
    G.regenerate(ctx, ["Block", "UtilFormulas", "LinopFormulas"])


# ---- protocol helpers -----------------------------------------------------------------------
def L(x):
    x = list(x)
    return ",".join(str(int(v)) for v in x) if x else "-"


def O(x):
    return "none" if x is None else L(x)


def parse_reply(r):
    if not r.startswith("ok "):
        return r
    shape, data = r[3:].split(" | ")
    shape = [] if shape == "-" else [int(v) for v in shape.split(",")]
    vals = [] if data == "-" else [int(v) for v in data.split(",")]
    return (shape, vals)


def canon(arr):
    arr = np.asarray(arr)
    return (list(arr.shape), [int(v) for v in arr.ravel()])


# ---- case generation ------------------------------------------------------------------------
def rshape(rng, nd=None, lo=1, hi=6):
    nd = nd or rng.choice([1, 1, 2, 2, 3])
    return [rng.randint(lo, hi) for _ in range(nd)]


def gen_circshift(rng, multi=None):
    """circshift case.  `multi` cases have >= 2 (axis, shift) pairs on an array of rank >= 2 with axes
    given in arbitrary order (mostly NOT ascending), as negative or non-negative numbers, possibly
    repeated, and pairwise different shifts -- so that re-ordering / de-duplicating / re-normalising
    the axes list without the shifts changes the result."""
    if multi is None:
        multi = rng.random() < 0.6
    if not multi:
        sh = rshape(rng)
        if rng.random() < 0.5:
            return dict(sh=sh, shifts=[rng.randint(-7, 7) for _ in sh], axes=None)
        k = rng.randint(1, len(sh))
        return dict(sh=sh, shifts=[rng.randint(-7, 7) for _ in range(k)],
                    axes=[rng.choice(range(-len(sh), len(sh))) for _ in range(k)])
    nd = rng.choice([2, 2, 3, 3, 4])
    sh = [rng.randint(2, 5 if nd < 4 else 3) for _ in range(nd)]
    k = rng.randint(2, nd + 2)
    kind = rng.choice(["unsorted", "unsorted", "unsorted", "repeated", "any"])
    for _ in range(50):
        norm = [rng.randrange(nd) for _ in range(k)]
        if kind == "unsorted" and norm == sorted(norm):
            continue
        if kind == "repeated" and len(set(norm)) == len(norm):
            continue
        break
    # each axis written either as a or as a - nd (negative form) independently
    axes = [a - nd if rng.random() < 0.5 else a for a in norm]
    shifts = rng.sample([v for v in range(-7, 8) if v != 0], k)
    return dict(sh=sh, shifts=shifts, axes=axes)


def circshift_order_sensitive(c):
    """True when sorting the axes (raw or normalised) while keeping the shifts changes the pairing"""
    if c["axes"] is None or len(c["axes"]) < 2:
        return False
    nd = len(c["sh"])
    pairs = sorted(zip([a % nd for a in c["axes"]], c["shifts"]))
    for order in (sorted(c["axes"]), sorted(a % nd for a in c["axes"])):
        if sorted(zip([a % nd for a in order], c["shifts"])) != pairs:
            return True
    return False


def gen_cases(rng, n):
    cases = []
    for _ in range(n):
        op = rng.choice(["resize", "resize", "flip", "circshift", "downsample", "upsample", "a2b", "a2b", "b2a", "b2a"])
        c = dict(op=op)
        if op == "resize":
            ish = rshape(rng)
            kind = rng.choice(["same-rank", "same-rank", "rank-up", "rank-down"])
            if kind == "same-rank":
                osh = [max(1, s + rng.randint(-3, 3)) for s in ish]
            elif kind == "rank-up":
                osh = [rng.randint(1, 4)] + [max(1, s + rng.randint(-2, 2)) for s in ish]
            else:
                osh = [max(1, s + rng.randint(-2, 2)) for s in ish[1:]] or [rng.randint(1, 5)]
                if len(ish) > 1 and ish[0] != 1 and rng.random() < 0.5:
                    ish[0] = 1
            n_ = max(len(ish), len(osh))
            ie = [1] * (n_ - len(ish)) + ish
            oe = [1] * (n_ - len(osh)) + osh
            c.update(ish=ish, osh=osh, ishift=None, oshift=None)
            if rng.random() < 0.4:  # explicit in-range shifts
                c["ishift"] = [rng.randint(0, max(0, i - 1)) for i in ie]
                if rng.random() < 0.7:
                    c["oshift"] = [rng.randint(0, max(0, o - 1)) for o in oe]
            elif rng.random() < 0.2:
                c["oshift"] = [rng.randint(0, max(0, o - 1)) for o in oe]
        elif op == "flip":
            sh = rshape(rng)
            axes = None if rng.random() < 0.3 else sorted(set(rng.choice(range(-len(sh), len(sh))) for _ in range(rng.randint(0, len(sh)))), key=lambda a: a % len(sh))
            if axes is not None:  # distinct modulo ndim
                seen, ax2 = set(), []
                for a in axes:
                    if a % len(sh) not in seen:
                        seen.add(a % len(sh))
                        ax2.append(a)
                axes = ax2
            c.update(sh=sh, axes=axes)
        elif op == "circshift":
            c.update(gen_circshift(rng))
        elif op in ("downsample", "upsample"):
            sh = rshape(rng, hi=9)
            f = [rng.randint(1, 4) for _ in sh]
            s = None if rng.random() < 0.4 else [rng.randint(0, min(n_ - 1, ff)) for n_, ff in zip(sh, f)]
            c.update(sh=sh, f=f, s=s)
        else:
            d = rng.choice([1, 1, 2, 2, 3])
            lead = rshape(rng, nd=rng.choice([0, 0, 1, 2]), hi=3) if rng.random() < 0.6 else []
            if rng.random() < 0.1:
                lead = []
            n_ = [rng.randint(1, 7) for _ in range(d)]
            blk = [rng.randint(1, nn) for nn in n_]
            st = [rng.randint(1, 4) for _ in range(d)]
            c.update(lead=[] if lead == [] else lead, n=n_, blk=blk, str=st)
        cases.append(c)
    return cases


def exhaustive_block_cases():
    for d in (1, 2):
        for n_ in itertools.product(range(1, 6 if d == 1 else 4), repeat=d):
            for blk in itertools.product(*[range(1, nn + 1) for nn in n_]):
                for st in itertools.product(range(1, 4 if d == 1 else 3), repeat=d):
                    for op in ("a2b", "b2a"):
                        yield dict(op=op, lead=[], n=list(n_), blk=list(blk), str=list(st))


def num_blks(n, b, s):
    return [(i - bb + ss) // ss for i, bb, ss in zip(n, b, s)]


def inputs_for(c, rng):
    """input shape and two integer inputs (labels, random)"""
    op = c["op"]
    if op == "resize":
        sh = c["ish"]
    elif op in ("flip", "circshift", "downsample"):
        sh = c["sh"]
    elif op == "upsample":
        sh = [len(range(s, n, f)) for n, f, s in zip(c["sh"], c["f"], c["s"] or [0] * len(c["f"]))]
    elif op == "a2b":
        sh = c["lead"] + c["n"]
    else:
        sh = c["lead"] + num_blks(c["n"], c["blk"], c["str"]) + c["blk"]
    size = int(np.prod(sh)) if sh else 1
    lab = np.arange(1, size + 1, dtype=np.int64).reshape(sh)
    rnd = np.array([rng.randint(-9, 9) for _ in range(size)], dtype=np.int64).reshape(sh)
    return sh, [lab, rnd]


def line(c, x):
    op, xs = c["op"], L(x.ravel())
    if op == "resize":
        return "C09 resize ish=%s osh=%s is=%s os=%s x=%s" % (L(c["ish"]), L(c["osh"]), O(c["ishift"]), O(c["oshift"]), xs)
    if op == "flip":
        return "C09 flip sh=%s ax=%s x=%s" % (L(c["sh"]), O(c["axes"]), xs)
    if op == "circshift":
        return "C09 circshift sh=%s sf=%s ax=%s x=%s" % (L(c["sh"]), L(c["shifts"]), O(c["axes"]), xs)
    if op == "downsample":
        return "C09 downsample sh=%s f=%s s=%s x=%s" % (L(c["sh"]), L(c["f"]), O(c["s"]), xs)
    if op == "upsample":
        return "C09 upsample osh=%s f=%s s=%s x=%s" % (L(c["sh"]), L(c["f"]), O(c["s"]), xs)
    if op == "a2b":
        return "C09 a2b lead=%s n=%s blk=%s str=%s x=%s" % (L(c["lead"]), L(c["n"]), L(c["blk"]), L(c["str"]), xs)
    if op == "b2a":
        return "C09 b2a lead=%s n=%s blk=%s str=%s nb=%s x=%s" % (L(c["lead"]), L(c["n"]), L(c["blk"]), L(c["str"]),
                                                                 L(num_blks(c["n"], c["blk"], c["str"])), xs)
    raise ValueError(op)


def relayout(x, c):
    """same values, different memory layout: the documented element placement may not depend on whether the caller's
    array is C-contiguous (positive strides only: strided view, Fortran order, real part of a complex array)"""
    import zlib
    lay = c.get("layout")
    if lay is None:
        lay = ["c", "c", "strided", "fortran", "realpart"][zlib.crc32(repr(sorted((k, str(v)) for k, v in c.items())).encode()) % 5]
    if lay == "c" or x.ndim == 0 or x.size == 0:
        return x
    if lay == "strided":
        big = np.zeros(list(x.shape[:-1]) + [2 * x.shape[-1]], dtype=x.dtype)
        big[..., ::2] = x
        big[..., 1::2] = -77
        return big[..., ::2]
    if lay == "fortran":
        return np.asfortranarray(x)
    z = (x.astype(np.float64) + 1j * (x.astype(np.float64) + 5)).astype(np.complex128)
    return z.real if x.dtype.kind != "c" else x


def run_impl(c, x, via_linop=False):
    import sigpy as sp
    from sigpy import linop
    op = c["op"]
    x = relayout(x.copy(), c)
    if op == "resize":
        if via_linop:
            return linop.Resize(c["osh"], c["ish"], ishift=c["ishift"], oshift=c["oshift"])(x)
        return sp.resize(x, c["osh"], ishift=c["ishift"], oshift=c["oshift"])
    if op == "flip":
        return linop.Flip(c["sh"], axes=c["axes"])(x) if via_linop else sp.flip(x, axes=c["axes"])
    if op == "circshift":
        if via_linop:
            return linop.Circshift(c["sh"], c["shifts"], axes=c["axes"])(x)
        return sp.circshift(x, c["shifts"], axes=c["axes"])
    if op == "downsample":
        return linop.Downsample(c["sh"], c["f"], shift=c["s"])(x) if via_linop else sp.downsample(x, c["f"], shift=c["s"])
    if op == "upsample":
        return linop.Upsample(c["sh"], c["f"], shift=c["s"])(x) if via_linop else sp.upsample(x, c["sh"], c["f"], shift=c["s"])
    if op == "a2b":
        if via_linop:
            return linop.ArrayToBlocks(c["lead"] + c["n"], c["blk"], c["str"])(x)
        return sp.array_to_blocks(x, c["blk"], c["str"])
    if op == "b2a":
        if via_linop:
            return linop.BlocksToArray(c["lead"] + c["n"], c["blk"], c["str"])(x)
        return sp.blocks_to_array(x, c["lead"] + c["n"], c["blk"], c["str"])
    raise ValueError(op)


# ---- the property's own oracle: index loops written from the statement ------------------------
def reference(c, x):
    op = c["op"]
    if op == "resize":
        ish, osh = list(c["ish"]), list(c["osh"])
        n = max(len(ish), len(osh))
        ie, oe = [1] * (n - len(ish)) + ish, [1] * (n - len(osh)) + osh
        if ie == oe:
            return x.reshape(osh)
        isf = c["ishift"] if c["ishift"] is not None else [max(i // 2 - o // 2, 0) for i, o in zip(ie, oe)]
        osf = c["oshift"] if c["oshift"] is not None else [max(o // 2 - i // 2, 0) for i, o in zip(ie, oe)]
        xe = x.reshape(ie)
        out = np.zeros(oe, dtype=x.dtype)
        for k in itertools.product(*[range(o) for o in oe]):
            j = tuple(kk - so + si for kk, so, si in zip(k, osf, isf))
            # documented: shifted copy; an element is copied when its source exists and both
            # lie at or after the shifts
            if all(0 <= jj < i and kk >= so and jj >= si for jj, i, kk, so, si in zip(j, ie, k, osf, isf)):
                out[k] = xe[j]
        return out.reshape(osh)
    if op == "flip":
        nd = len(c["sh"])
        axes = range(nd) if c["axes"] is None else [a % nd for a in c["axes"]]
        out = np.zeros_like(x)
        for k in itertools.product(*[range(s) for s in c["sh"]]):
            j = tuple(c["sh"][d] - 1 - kk if d in axes else kk for d, kk in enumerate(k))
            out[k] = x[j]
        return out
    if op == "circshift":
        nd = len(c["sh"])
        axes = list(range(nd)) if c["axes"] is None else c["axes"]
        cur = x
        for a, s in zip(axes, c["shifts"]):
            a %= nd
            out = np.zeros_like(cur)
            for k in itertools.product(*[range(s_) for s_ in c["sh"]]):
                j = list(k)
                j[a] = (k[a] + s) % c["sh"][a]
                out[tuple(j)] = cur[k]
            cur = out
        return cur
    if op in ("downsample", "upsample"):
        sh, f = c["sh"], c["f"]
        s = c["s"] or [0] * len(f)
        rngs = [list(range(ss, n, ff)) for n, ff, ss in zip(sh, f, s)]
        small = [len(r) for r in rngs]
        if op == "downsample":
            out = np.zeros(small, dtype=x.dtype)
            for k in itertools.product(*[range(m) for m in small]):
                out[k] = x[tuple(r[kk] for r, kk in zip(rngs, k))]
            return out
        out = np.zeros(sh, dtype=x.dtype)
        for k in itertools.product(*[range(m) for m in small]):
            out[tuple(r[kk] for r, kk in zip(rngs, k))] = x[k]
        return out
    lead, n, blk, st = c["lead"], c["n"], c["blk"], c["str"]
    nb = num_blks(n, blk, st)
    d = len(n)
    if op == "a2b":
        out = np.zeros(lead + nb + blk, dtype=x.dtype)
        for l in itertools.product(*[range(v) for v in lead]):
            for q in itertools.product(*[range(v) for v in nb]):
                for b in itertools.product(*[range(v) for v in blk]):
                    out[l + q + b] = x[l + tuple(qq * ss + bb for qq, ss, bb in zip(q, st, b))]
        return out
    out = np.zeros(lead + n, dtype=x.dtype)
    for l in itertools.product(*[range(v) for v in lead]):
        for q in itertools.product(*[range(v) for v in nb]):
            for b in itertools.product(*[range(v) for v in blk]):
                out[l + tuple(qq * ss + bb for qq, ss, bb in zip(q, st, b))] += x[l + q + b]
    return out


def key_of(c):
    return "C09:%s" % c["op"]


def trivial(c):
    return False


def _run(ctx, cases, stream, rng):
    lines, meta = [], []
    for c in cases:
        sh, xs = inputs_for(c, rng)
        for x in xs:
            lines.append(line(c, x))
            meta.append((c, x))
    replies = ctx.driver(lines)
    bad = 0
    for (c, x), ln, r in zip(meta, lines, replies):
        model = parse_reply(r)
        for via in (False, True):
            try:
                impl = canon(run_impl(c, x, via_linop=via))
            except Exception as e:  # noqa
                impl = "err %s" % type(e).__name__
            ctx.case((ln, via), sample=dict(line=ln[:200], reply=r[:120]) if ctx.evaluations % 97 == 0 else None)
            ctx.count("op:" + c["op"])
            if isinstance(model, tuple):
                model_c = (model[0], model[1])
            else:
                model_c = model
            if impl != model_c:
                bad += 1
                ctx.disagree(stream, dict(case=c, x=x.ravel().tolist(), via_linop=via), impl, model_c)
    return bad


def correspond(ctx):
    ctx.rule = ("cases = (op, shapes, shifts/factors/blocks/strides, integer input); distinct by protocol line + "
                "entry point (function / Linop); all are non-trivial (non-empty arrays, labelled or random data); "
                "stream circshift-axes: rank 2-4, 2..rank+2 (axis, shift) pairs, axes unsorted / negative / repeated, "
                "pairwise different non-zero shifts")
    n = 250 if ctx.tier == "quick" else 2500
    cases = gen_cases(ctx.rng, n)
    bad = _run(ctx, cases, "random", ctx.rng)
    ctx.oblige("correspondence:C09.random", "correspondence", bad == 0, "%d disagreements" % bad)
    # multi-axis circshift with unsorted / negative / repeated axes (see gen_circshift)
    cs = [dict(op="circshift", **gen_circshift(ctx.rng, multi=True)) for _ in range(80 if ctx.tier == "quick" else 600)]
    sens = sum(1 for c in cs if circshift_order_sensitive(c))
    ctx.count("circshift:multi-axis", len(cs))
    ctx.count("circshift:order-sensitive", sens)
    bad = _run(ctx, cs, "circshift-axes", ctx.rng)
    ctx.oblige("correspondence:C09.circshift-axes", "correspondence", bad == 0 and sens >= len(cs) // 4,
               "%d disagreements; %d of %d cases are sensitive to the order of the axes list" % (bad, sens, len(cs)))
    ex = list(exhaustive_block_cases())
    if ctx.tier == "quick":
        ex = ctx.rng.sample(ex, 200)
    bad = _run(ctx, ex, "blocks-exhaustive", ctx.rng)
    ctx.oblige("correspondence:C09.blocks", "correspondence", bad == 0, "%d disagreements" % bad)
    ctx.traces = ctx.evaluations
    ctx.notes.append("proved for the model functions the driver runs (whole row-major arrays, any rank): resize "
                     "(resizeSrc_spec, resize_default_aligns_nd, resize_transpose_nd, resize_array_spec), flip "
                     "(flip_array_spec, flip_flip_array), circshift (circshift_array_spec, circSrc_getD: total shift per "
                     "axis, order-independent; circshift_roundtrip), downsample/upsample (array specs, "
                     "downsample_upsample_id, upsample_downsample_mask), blocks (a2b*_dst_nodup: '=' and '+=' coincide "
                     "in the gather kernels; b2a*_cover: scatter multiplicity = product of per-axis cover counts). "
                     "Validated only: that Model/C09.lean's numpy slicing / roll / reshape semantics is numpy's "
                     "(exact correspondence streams random, circshift-axes, blocks-exhaustive).")


def check_oracle(ctx, c, x, via, origin):
    try:
        got = run_impl(c, x, via_linop=via)
    except Exception as e:  # a valid request must work
        ctx.fail(key_of(c), "%s raised %s on a valid request" % (c["op"], type(e).__name__),
                 dict(case=c, x=x.ravel().tolist(), via_linop=via), observed=repr(e), expected="result", origin=origin)
        return False
    want = reference(c, x)
    if list(got.shape) != list(want.shape) or not np.array_equal(got, want):
        ctx.fail(key_of(c), "%s output differs from the documented element placement" % c["op"],
                 dict(case=c, x=x.ravel().tolist(), via_linop=via), observed=canon(got), expected=canon(want), origin=origin)
        return False
    return True


def search(ctx, budget):
    rng = ctx.rng
    # 1. replay disagreeing cases first
    for d in ctx.disagreements[:200]:
        cc = d["case"]
        c = cc["case"]
        sh, _ = inputs_for(c, rng)
        check_oracle(ctx, c, np.array(cc["x"], dtype=np.int64).reshape(sh), cc["via_linop"], "disagreement")
    # 2. budgeted search
    n = int(300 * budget)
    for c in gen_cases(rng, n):
        sh, xs = inputs_for(c, rng)
        for x in xs:
            for via in (False, True):
                ctx.case(("oracle", line(c, x), via))
                check_oracle(ctx, c, x, via, "search")
    if budget > 1:
        for c in exhaustive_block_cases():
            sh, xs = inputs_for(c, rng)
            ctx.case(("oracle", line(c, xs[0]), False))
            check_oracle(ctx, c, xs[0], False, "search-exhaustive")


def replay(path):
    r = json.load(open(path))
    print(json.dumps(r, indent=1)[:3000])
    if r.get("kind") != "failing-input":
        return 0
    cc = r["case"]
    c = cc["case"]
    ctx = common.Ctx(PROPERTY, "quick", 0)
    sh, _ = inputs_for(c, ctx.rng)
    x = np.array(cc["x"], dtype=np.int64).reshape(sh)
    ok = check_oracle(ctx, c, x, cc["via_linop"], "replay")
    print("model:", ctx.driver([line(c, x)])[0])
    print("replay:", "property holds on this input" if ok else "property FAILS on this input")
    return 0 if ok else 1
