"""C16 — SENSE operator = explicit multi-coil encoding; batching invariant; recons minimise it."""
import itertools
import json
from fractions import Fraction

import numpy as np

from harness import common
from harness.translate import gen as G

PROPERTY = "C16"
LEAN_MODULES = ["SigpyVerif.Props.C16", "SigpyVerif.Props.C16Recon"]
THEOREMS = ["SigpyVerif.C16." + t for t in [
    "sense_denote", "sense_batch_invariant", "sense_batch_partition", "sense_batches_nonempty",
    "weights_exponent_is_half", "weights_sliced_with_coils", "batch_forwards_all", "batched_apply",
    "sense_adjoint_batch_sum_partial", "batch_slices_partition",
    "splitRows_zip_sum", "unbatched_adj", "sense_adjoint_denote", "vstack_adjoint", "coilData_batch",
    "sense_adjoint_batch_invariant", "sense_denote_index", "sense_adjoint_index", "sense_dot_test_abstract",
    "matrix_adjoint_identity", "sense_dot_test", "sense_dot_test_complex",
    "recon_setup_sense", "recon_setup_l1wavelet", "recon_setup_tv", "recon_objective",
    "estimated_weights_sqrt", "consistent_data_recovers",
    # the GENERATED factory tree (Gen/SenseTree.lean) and its normal form
    "fft_axes_per_coil", "fkindOf_perCoil", "not_batched_default", "senseBody_unbatched", "batchWeights_gen", "kspNdim_gen",
    "sense_gen_eq",
    # the GENERATED recon set-ups (Gen/ReconSetup.lean), Props/C16Recon.lean
    "lls_lamda_default", "estimate_weights_doc", "recon_y_weighted", "senserecon_setup", "l1waveletrecon_setup", "tvrecon_setup",
    "senseLin_isAdj", "senserecon_cg_minimises", "tvrecon_kkt_minimises", "unitary_transform_prox",
    # `num_coil_batches` is the ceiling of n/b — proved from the CHARACTERISATION (q-1)·b < n ≤ q·b of the generated
    # formula, not from its shape ((n+b-1)//b, (n-1)//b+1, -(-n//b) all pass; a non-ceiling formula fails)
    "ediv_char", "ceil_unique", "numCoilBatches_char", "numCoilBatches_nat",
]]

TOL_MODEL = 1e-9     # real (double) pipeline vs the exact model on the same F: observed <= 1e-14 relative
TOL_FWD = 1e-9       # explicit formula / batch invariance, relative to the data scale (observed <= 1e-13)
KEY_BW = "C16:Sense:batch-weights"


def translate(ctx):
    # SenseFormulas: the integer formulas; SenseTree: the factory body as an operator-expression tree (refers to them);
    # ReconSetup: the LinearLeastSquares problem each recon class sets up; C14*: the routing definitions whose
    # theorems Props/C16Recon.lean instantiates (sigpy/app.py is an anchor of C16 too)
    G.regenerate(ctx, ["SenseFormulas", "SenseTree", "ReconSetup", "C14Select", "C14Setup"])


# ---- exact formatting -------------------------------------------------------------------------
def fr(x):
    f = Fraction(x)
    return str(f.numerator) if f.denominator == 1 else "%d/%d" % (f.numerator, f.denominator)


def cfmt(z):
    z = complex(z)
    return fr(z.real) if z.imag == 0 else "%s;%s" % (fr(z.real), fr(z.imag))


def clist(a):
    a = np.asarray(a).ravel()
    return ",".join(cfmt(z) for z in a) if a.size else "-"


def rlist(a):
    a = np.asarray(a).ravel()
    return ",".join(fr(float(v)) for v in a) if a.size else "-"


def L(x):
    x = list(x)
    return ",".join(str(int(v)) for v in x) if x else "-"


def parse_c(s):
    p = s.split(";")
    re = float(Fraction(p[0]))
    im = float(Fraction(p[1])) if len(p) > 1 else 0.0
    return complex(re, im)


def parse_mat(r):
    if not r.startswith("ok "):
        return r
    sh, data = r[3:].split(" | ")
    sh = [int(v) for v in sh.split(",")]
    vals = [] if data == "-" else [parse_c(v) for v in data.split(",")]
    return np.array(vals, dtype=complex).reshape(sh)


# ---- cases ------------------------------------------------------------------------------------
SHAPES2 = [[2, 3], [3, 3], [3, 4], [4, 4], [1, 5], [5, 2], [2, 2], [3, 5]]
SHAPES3 = [[2, 2, 3], [3, 2, 2], [2, 3, 3], [1, 3, 4], [2, 2, 2], [3, 3, 2]]


def gen_case(rng, n=None, ish=None):
    ish = ish or (rng.choice(SHAPES2) if rng.random() < 0.6 else rng.choice(SHAPES3))
    n = n or rng.randint(1, 6)
    cart = rng.random() < 0.55
    c = dict(ish=list(ish), n=n, cart=cart, wkind=rng.choice(["none", "img", "coil", "coil"]), seed=rng.randrange(1 << 30))
    if not cart:
        c["cshape"] = [rng.randint(3, 9)] if rng.random() < 0.7 else [rng.randint(2, 3), rng.randint(2, 3)]
    # ishape passed explicitly (= mps.shape[1:]) or left None — derived from the case seed, NOT drawn from `rng`, so that
    # the random stream of the correspondence and of the search is the one the check had before this field existed
    c["ishg"] = (c["seed"] % 5) < 2
    return c


def data_for(c):
    """deterministic data of a case: Gaussian-integer maps / image / k-space, perfect-square weights, coords"""
    rs = np.random.RandomState(c["seed"])
    ish, n = c["ish"], c["n"]

    def gint(shape):
        return (rs.randint(-3, 4, size=shape) + 1j * rs.randint(-3, 4, size=shape)).astype(np.complex128)
    mps = gint([n] + ish)
    # make the coils distinguishable (for the reified-tree comparison) and non-zero
    mps.reshape(n, -1)[:, 0] = np.arange(1, n + 1) + 1j * rs.randint(-3, 4, size=n)
    x = gint(ish)
    coord = None
    if not c["cart"]:
        coord = np.stack([rs.randint(-4 * s, 4 * s, size=c["cshape"]) / 8.0 for s in ish], axis=-1)
    ksh = list(ish) if c["cart"] else list(c["cshape"])
    y = gint([n] + ksh)
    w = None
    if c["wkind"] == "img":
        w = rs.choice([0, 1, 1, 4, 9, 16], size=ksh).astype(np.float64)
    elif c["wkind"] == "coil":
        w = rs.choice([0, 1, 1, 4, 9, 16], size=[n] + ksh).astype(np.float64)
    return dict(mps=mps, x=x, y=y, w=w, coord=coord, ksh=ksh)


def fourier_matrix(c, d):
    """the single-coil Fourier stage as a K x R matrix: numpy's own centred orthonormal FFT of the basis
    images (Cartesian) / sigpy.nufft of the basis images (non-Cartesian; with transp_nufft the adjoint NUFFT at
    the negated coordinates, which needs a coordinate grid of the image's shape)"""
    import sigpy as sp
    ish = c["ish"]
    if c.get("transp"):
        R = int(np.prod(ish))
        cols = []
        for r in range(R):
            e = np.zeros(R, dtype=np.complex128)
            e[r] = 1
            cols.append(sp.nufft_adjoint(e.reshape(ish), -d["coord"], oshape=ish).ravel())
        return np.stack(cols, axis=1)
    R = int(np.prod(ish))
    cols = []
    for r in range(R):
        e = np.zeros(R, dtype=np.complex128)
        e[r] = 1
        e = e.reshape(ish)
        if c["cart"]:
            f = np.fft.fftshift(np.fft.fftn(np.fft.ifftshift(e), norm="ortho"))
        else:
            f = sp.nufft(e, d["coord"])
        cols.append(f.ravel())
    return np.stack(cols, axis=1)


def build(c, d, b, **kw):
    import sigpy.mri as mr
    if c.get("ishg"):
        kw.setdefault("ishape", tuple(c["ish"]))
    if c.get("transp"):
        kw.setdefault("transp_nufft", True)
    return mr.linop.Sense(d["mps"], coord=d["coord"], weights=d["w"], coil_batch_size=b, **kw)


def explicit_forward(c, d, x):
    """the property's formula, written with numpy's own FFT / the single-coil sigpy.nufft"""
    import sigpy as sp
    out = []
    for m in d["mps"]:
        img = m * x
        if c["cart"]:
            k = np.fft.fftshift(np.fft.fftn(np.fft.ifftshift(img), norm="ortho"))
        else:
            k = sp.nufft(img, d["coord"])
        out.append(k)
    out = np.stack(out)
    if d["w"] is not None:
        out = out * np.sqrt(d["w"])
    return out


def explicit_adjoint(c, d, y):
    import sigpy as sp
    if d["w"] is not None:
        y = y * np.sqrt(d["w"])
    acc = np.zeros(c["ish"], dtype=np.complex128)
    for m, yc in zip(d["mps"], y):
        if c["cart"]:
            img = np.fft.fftshift(np.fft.ifftn(np.fft.ifftshift(yc), norm="ortho"))
        else:
            img = sp.nufft_adjoint(yc, d["coord"], oshape=c["ish"])
        acc += np.conj(m) * img
    return acc


def model_line(op, c, d, b, Fm, vec):
    n, R, K = c["n"], int(np.prod(c["ish"])), Fm.shape[0]
    if d["w"] is None:
        ws = "wsh=none"
    else:
        ws = "wsh=%s w=%s" % (L(d["w"].shape), rlist(d["w"]))
    # what the factory inspects besides the data: the image shape, whether `ishape` is passed, coord.ndim, transp_nufft
    args = "ish=%s ishape=%s cnd=%s transp=%d" % (L(c["ish"]), "given" if c.get("ishg") else "none",
                                                   "none" if d["coord"] is None else str(d["coord"].ndim), 1 if c.get("transp") else 0)
    return "C16 %s n=%d R=%d K=%d b=%s %s %s mps=%s F=%s %s=%s" % (
        op, n, R, K, "none" if b is None else str(b), args, ws, clist(d["mps"]), clist(Fm), "x" if op == "fwd" else "y", clist(vec))


def reify(A, d):
    from sigpy import linop

    def leaves(op):
        if isinstance(op, linop.Compose):
            out = []
            for o in op.linops:
                out += leaves(o)
            return out
        return [op]

    def chain(op):
        names, coils = "", None
        lvs = leaves(op)
        for li, lf in enumerate(lvs):
            nm = type(lf).__name__
            if nm == "FFT":
                # which axes are transformed (normalised to 0 … ndim-1): the model prints the generated axes the same way
                names += "F" + ".".join(str(int(a) % len(lf.ishape)) for a in lf.axes)
            elif nm == "NUFFT":
                names += "N" if np.array_equal(lf.coord, d["coord"]) else "N?"
            elif nm == "NUFFTAdjoint":
                names += "Nt" if np.array_equal(lf.coord, -d["coord"]) else "N?"
            elif nm == "Multiply":
                m = np.asarray(lf.mult)
                if li == len(lvs) - 1:   # the rightmost factor acts on the image: S = Multiply(ishape, mps)
                    idx = [i for i in range(len(d["mps"])) if m.shape == d["mps"][i:i + len(m)].shape
                           and np.array_equal(m, d["mps"][i:i + len(m)])]
                    coils = list(range(idx[0], idx[0] + len(m))) if idx else ["?"]
                    names += "S"
                else:
                    names += "Q" if m.ndim == len(d["ksh"]) + 1 else "P"
            else:
                names += "<%s>" % nm
        return "%s:%s:%d" % (names, ",".join(str(i) for i in coils) if coils else "-", op.oshape[0])
    if isinstance(A, linop.Vstack):
        kind = "V" if A.axis == 0 else "V(axis=%r)" % (A.axis,)
        return "ok %s %s" % (kind, ";".join(chain(o) for o in A.linops))
    return "ok C %s" % chain(A)


def relerr(a, b):
    a, b = np.asarray(a), np.asarray(b)
    if a.shape != b.shape:
        return np.inf
    if a.size == 0:
        return 0.0
    return float(np.max(np.abs(a - b)) / (1.0 + np.max(np.abs(b))))


def batch_sizes(n, quick, rng):
    bs = list(range(1, n + 1))
    return bs + [None]


# ---- correspondence -----------------------------------------------------------------------------
def correspond(ctx):
    ctx.rule = ("Sense cases = (image shape 2-D/3-D odd/even, coils 1-6, Cartesian | random coordinates (1-D or 2-D "
                "coordinate grids), weights none | k-space shaped | per-coil, EVERY coil_batch_size 1..n and None, "
                "Gaussian-integer maps/image/k-space, perfect-square weights); distinct by (case, batch size, direction); "
                "all non-trivial (non-zero maps, non-empty arrays). Recon set-ups = (class, weights given?, coord None?).")
    rng = ctx.rng
    ncases = 10 if ctx.tier == "quick" else 60
    cases = [gen_case(rng) for _ in range(ncases)]
    # make sure every coil count and every weights kind occurs
    for n in range(1, 7):
        cases.append(gen_case(rng, n=n))
    # transp_nufft (F = NUFFT(-coord).H) needs a coordinate grid of the image's shape: two such cases per run
    import random
    rng_t = random.Random("C16-transp-%d" % ctx.seed)    # its own stream (see gen_case)
    for _ in range(2 if ctx.tier == "quick" else 8):
        c = gen_case(rng_t, ish=rng_t.choice([[2, 3], [3, 3], [2, 2], [2, 2, 2]]))
        c["cart"], c["cshape"], c["transp"] = False, list(c["ish"]), True
        cases.append(c)
    lines, meta = [], []
    for c in cases:
        d = data_for(c)
        Fm = fourier_matrix(c, d)
        for b in batch_sizes(c["n"], ctx.tier == "quick", rng):
            lines.append(model_line("fwd", c, d, b, Fm, d["x"]))
            meta.append(("fwd", c, b))
            # `adj` runs `(sense o).adj CR.conj` = `Op.adj` of Model/C16.lean: the very definition that
            # `sense_adjoint_denote`, `sense_adjoint_batch_invariant`, `sense_adjoint_index` and `sense_dot_test`
            # are stated about; the reply is compared below with the real `A.H(y)` for every batch size
            lines.append(model_line("adj", c, d, b, Fm, d["y"]))
            meta.append(("adj", c, b))
            lines.append("C16 tree" + lines[-2][len("C16 fwd"):])
            meta.append(("tree", c, b))
    replies = ctx.driver(lines)
    bad = {"fwd": 0, "adj": 0, "tree": 0}
    cache = {}
    for (op, c, b), ln, r in zip(meta, lines, replies):
        key = json.dumps(c, sort_keys=True)
        if key not in cache:
            cache.clear()
            cache[key] = data_for(c)
        d = cache[key]
        ctx.count("sense:%s:%s:%s:%dd" % (op, "cart" if c["cart"] else "noncart", c["wkind"], len(c["ish"])))
        ctx.case((op, key, b), sample=dict(op=op, case=c, b=b, reply=r[:100]) if ctx.evaluations % 53 == 0 else None)
        try:
            A = build(c, d, b)
            if op == "fwd":
                impl = A(d["x"].copy())
            elif op == "adj":
                impl = A.H(d["y"].copy())
            else:
                impl = reify(A, d)
        except Exception as e:  # noqa
            impl = "err %s" % type(e).__name__
        if op == "tree":
            ok = (impl == r)
            model = r
        else:
            model = parse_mat(r)
            if isinstance(model, str) or isinstance(impl, str):
                ok = False
            else:
                if op == "fwd":
                    model = model.reshape([c["n"]] + d["ksh"]) if model.size == c["n"] * int(np.prod(d["ksh"])) else model
                else:
                    model = model.reshape(c["ish"]) if model.size == int(np.prod(c["ish"])) else model
                ok = relerr(impl, model) <= TOL_MODEL
        if not ok:
            bad[op] += 1
            ctx.disagree("sense-" + op, dict(kind="sense", case=c, b=b, op=op),
                         impl if isinstance(impl, str) else np.asarray(impl).ravel()[:8].tolist(),
                         model if isinstance(model, str) else np.asarray(model).ravel()[:8].tolist())
    ctx.oblige("correspondence:C16.sense-forward", "correspondence", bad["fwd"] == 0, "%d disagreements" % bad["fwd"])
    ctx.oblige("correspondence:C16.sense-adjoint", "correspondence", bad["adj"] == 0, "%d disagreements" % bad["adj"])
    ctx.oblige("correspondence:C16.sense-tree", "correspondence", bad["tree"] == 0, "%d disagreements" % bad["tree"])
    # recon set-ups
    badr = 0
    rl, rm = [], []
    for kind in ("SenseRecon", "L1WaveletRecon", "TotalVariationRecon"):
        for wg in (0, 1):
            for cn in (0, 1):
                rl.append("C16 recon kind=%s wg=%d cn=%d" % (kind, wg, cn))
                rm.append((kind, wg, cn))
    for (kind, wg, cn), ln, r in zip(rm, rl, ctx.driver(rl)):
        try:
            impl = reify_recon(kind, wg, cn, ctx.rng.randrange(1 << 30))
        except Exception as e:  # noqa
            impl = "err %s %s" % (type(e).__name__, e)
        ctx.case(("recon-setup", kind, wg, cn), sample=dict(line=ln, reply=r))
        ctx.count("recon-setup:" + kind)
        if impl != r:
            badr += 1
            ctx.disagree("recon-setup", dict(kind="recon-setup", cls=kind, wg=wg, cn=cn), impl, r)
    ctx.oblige("correspondence:C16.recon-setup", "correspondence", badr == 0, "%d disagreements" % badr)
    # _estimate_weights
    from sigpy.mri import app as mapp
    bade = 0
    for _ in range(20):
        rs = np.random.RandomState(rng.randrange(1 << 30))
        y = (rs.randint(-2, 3, size=[rs.randint(1, 4), 3, 4]) * (rs.rand(3, 4) < 0.6)).astype(np.complex128)
        y = y + 1j * (rs.randint(-1, 2, size=y.shape) * (np.abs(y) > 0))
        ss = np.sum(np.abs(y) ** 2, axis=0)   # rss > 0  <=>  sum of squares > 0 (exact integers)
        r = ctx.driver(["C16 estw rss=%s" % rlist(ss)])[0]
        impl = mapp._estimate_weights(y, None, None)
        ctx.case(("estw", y.tobytes()))
        if r != "ok " + L(np.real(impl).ravel()) or impl.dtype != y.dtype:
            bade += 1
            ctx.disagree("estimate-weights", dict(kind="estw", y=[[v.real, v.imag] for v in y.ravel()], shape=list(y.shape)),
                         np.real(impl).ravel().tolist(), r)
    ctx.oblige("correspondence:C16.estimate-weights", "correspondence", bade == 0, "%d disagreements" % bade)
    ctx.traces = ctx.evaluations
    ctx.assumptions += [
        "the Fourier stage of one coil is an abstract linear map F (K x R matrix) in the model; that sigpy's FFT/NUFFT "
        "is the documented transform is C05/C06; here F is numpy's own centred orthonormal FFT / sigpy.nufft of the "
        "basis images and the real operator is compared with the model on that F at 1e-9",
        "tseg (off-resonance) and comm (MPI) branches of Sense are not modelled; the search checks that batching "
        "forwards tseg and transp_nufft",
        "the iterative solvers reaching the minimiser is checked by the search (objective gap), not proved",
    ]


def recon_problem(seed, cn, wg, n=2, ish=(4, 4)):
    rs = np.random.RandomState(seed)
    ish = list(ish)

    def gint(shape):
        return (rs.randint(-3, 4, size=shape) + 1j * rs.randint(-3, 4, size=shape)).astype(np.complex128)
    mps = gint([n] + ish)
    mps.reshape(n, -1)[:, 0] = np.arange(1, n + 1)
    coord = None
    if not cn:
        coord = np.stack([rs.randint(-4 * s, 4 * s, size=[int(np.prod(ish)) + 5]) / 8.0 for s in ish], axis=-1)
    ksh = ish if cn else [coord.shape[0]]
    y = gint([n] + ksh)
    if cn:
        mask = (rs.rand(*ksh) < 0.7)
        y = y * mask
    w = rs.choice([0, 1, 4, 9], size=ksh, p=[0.1, 0.3, 0.3, 0.3]).astype(np.float64) if wg else None
    return mps, coord, y, w


def reify_recon(kind, wg, cn, seed):
    import sigpy as sp
    from sigpy import linop
    import sigpy.mri as mr
    mps, coord, y, w = recon_problem(seed, cn, wg)
    lam = 0.375
    cls = getattr(mr.app, kind)
    kw = dict(max_iter=1, show_pbar=False, max_power_iter=2)
    if kind == "L1WaveletRecon":
        kw["wave_name"] = "haar"
    y0 = y.copy()
    app = cls(y.copy(), mps, lam, weights=w, coord=coord, **kw)
    A = app.A
    lv = []

    def leaves(op):
        if isinstance(op, linop.Compose):
            for o in op.linops:
                leaves(o)
        else:
            lv.append(op)
    leaves(A)
    P = [o for o in lv if type(o).__name__ == "Multiply" and list(o.ishape) != list(mps.shape[1:])]
    aw = 1 if P else 0
    west = (np.sqrt(np.sum(np.abs(y0) ** 2, axis=0)) > 0).astype(y0.dtype)
    if wg:
        ws = "given" if (P and np.array_equal(P[0].mult, w ** 0.5)) else "?"
        wuse = w
    elif P:
        ws = "estimated" if np.array_equal(P[0].mult, west ** 0.5) else "?"
        wuse = west
    else:
        ws, wuse = "none", None
    if wuse is None:
        yw, half = (0 if np.array_equal(app.y, y0) else 1), 1
    else:
        yw = 1
        half = 1 if np.array_equal(app.y, y0 * wuse ** 0.5) else 0
        if np.array_equal(app.y, y0) and not np.array_equal(y0, y0 * wuse ** 0.5):
            yw = 0
    l2 = 1 if app.lamda == lam else 0
    prox = "-"
    if app.proxg is not None:
        pg = app.proxg
        if type(pg).__name__ == "UnitaryTransform" and type(pg.prox).__name__ == "L1Reg" and type(pg.A).__name__ == "Wavelet" \
                and list(pg.prox.shape) == list(pg.A.oshape) and pg.prox.lamda == lam and list(pg.A.ishape) == list(mps.shape[1:]):
            prox = "UnitaryTransform,L1Reg,W.oshape,lamda,W"
        elif type(pg).__name__ == "L1Reg" and app.G is not None and list(pg.shape) == list(app.G.oshape) and pg.lamda == lam:
            xx = np.arange(int(np.prod(A.ishape))).reshape(A.ishape).astype(np.complex128) ** 2
            fd = np.stack([xx - np.roll(xx, 1, axis=i) for i in range(xx.ndim)])
            if list(app.G.ishape) == list(A.ishape) and np.array_equal(app.G(xx), fd):
                prox = "L1Reg,G.oshape,lamda,FiniteDifference,A.ishape"
            else:
                prox = "L1Reg,G?"
        else:
            prox = type(pg).__name__ + "?"
    g = 1 if app.G is not None else 0
    return "ok ws=%s aw=%d yw=%d half=%d l2=%d prox=%s g=%d" % (ws, aw, yw, half, l2, prox, g)


# ---- the property's own oracle --------------------------------------------------------------------
def check_sense(ctx, c, origin, extra=None):
    """forward/adjoint vs the explicit formula, batch invariance for every batch size, dot test"""
    d = data_for(c)
    ok = True
    x, y = d["x"], d["y"]
    scale_f = 1.0
    try:
        A0 = build(c, d, None)
        f0, a0 = A0(x.copy()), A0.H(y.copy())
    except Exception as e:  # noqa
        ctx.fail("C16:Sense:unbatched", "Sense raised %s on a valid request" % type(e).__name__,
                 dict(kind="sense", case=c, b=None), observed=repr(e), expected="operator", origin=origin)
        return False
    ef, ea = explicit_forward(c, d, x), explicit_adjoint(c, d, y)
    tolf = TOL_FWD
    if relerr(f0, ef) > tolf:
        ctx.fail("C16:Sense:forward", "Sense(x) differs from sqrt(w)*F(mps*x)", dict(kind="sense", case=c, b=None),
                 observed=np.asarray(f0).ravel()[:6].tolist(), expected=ef.ravel()[:6].tolist(), origin=origin)
        ok = False
    if relerr(a0, ea) > tolf:
        ctx.fail("C16:Sense:adjoint", "Sense.H(y) differs from sum_c conj(mps_c)*F^H(sqrt(w)*y_c)", dict(kind="sense", case=c, b=None),
                 observed=np.asarray(a0).ravel()[:6].tolist(), expected=ea.ravel()[:6].tolist(), origin=origin)
        ok = False
    lhs, rhs = np.vdot(y, f0), np.vdot(a0, x)
    if abs(lhs - rhs) > 1e-9 * (1 + abs(lhs)):
        ctx.fail("C16:Sense:dot", "<A x, y> != <x, A^H y>", dict(kind="sense", case=c, b=None), observed=[str(lhs), str(rhs)],
                 expected="equal", origin=origin)
        ok = False
    for b in range(1, c["n"] + 1):
        key = KEY_BW if (c["wkind"] == "coil" and b < c["n"]) else "C16:Sense:batch"
        try:
            Ab = build(c, d, b)
            fb, ab = Ab(x.copy()), Ab.H(y.copy())
        except Exception as e:  # noqa
            ctx.fail(key, "Sense with coil_batch_size=%d raised %s (the unbatched operator works)" % (b, type(e).__name__),
                     dict(kind="sense", case=c, b=b), observed=repr(e)[:300], expected="same result as unbatched", origin=origin)
            ok = False
            continue
        ctx.case(("oracle-batch", json.dumps(c, sort_keys=True), b))
        if relerr(fb, f0) > (0 if False else 1e-12) or relerr(ab, a0) > 1e-10:
            ctx.fail(key, "coil_batch_size=%d changes the forward/adjoint result" % b, dict(kind="sense", case=c, b=b),
                     observed=dict(shape_fwd=list(np.shape(fb)), fwd_err=relerr(fb, f0), adj_err=relerr(ab, a0)),
                     expected=dict(shape_fwd=list(np.shape(f0)), tol="1e-12 / 1e-10"), origin=origin)
            ok = False
    return ok


def check_forwarding(ctx, c, origin):
    """batching must not drop transp_nufft / tseg (non-Cartesian only)"""
    import sigpy.mri as mr
    d = data_for(c)
    ok = True
    n = c["n"]
    if c["cart"] or n < 2 or len(c["cshape"]) != 1:
        return True
    for opt in ("transp_nufft", "tseg"):
        kw = {}
        if opt == "transp_nufft":
            kw["transp_nufft"] = True
        else:
            if len(c["ish"]) != 2:
                continue
            rs = np.random.RandomState(c["seed"] + 1)
            kw["tseg"] = dict(b0=rs.randn(*c["ish"]) * 40.0, dt=4e-3, lseg=2, n_bins=8)
        try:
            A0 = mr.linop.Sense(d["mps"], coord=d["coord"], weights=d["w"] if c["wkind"] != "coil" else None, **kw)
        except Exception:  # the option itself is not applicable to this input: not the property's business
            continue
        w = d["w"] if c["wkind"] != "coil" else None
        try:
            f0 = A0(d["x"].copy())
        except Exception:
            continue
        for b in range(1, n):
            try:
                Ab = mr.linop.Sense(d["mps"], coord=d["coord"], weights=w, coil_batch_size=b, **kw)
                fb = Ab(d["x"].copy())
                err = relerr(fb, f0)
            except Exception as e:  # noqa
                err, fb = np.inf, repr(e)
            ctx.case(("oracle-forward-kw", json.dumps(c, sort_keys=True), opt, b))
            if err > 1e-10:
                ctx.fail("C16:Sense:batch-" + opt, "coil_batch_size=%d with %s gives a different operator than unbatched" % (b, opt),
                         dict(kind="forwarding", case=c, b=b, opt=opt), observed=err, expected="<= 1e-10", origin=origin)
                ok = False
    return ok


# recon ---------------------------------------------------------------------------------------------
def dense_sense(mps, coord, w):
    """dense matrix of the documented operator from the explicit formula (numpy fft / single-coil nufft)"""
    import sigpy as sp
    n, ish = mps.shape[0], list(mps.shape[1:])
    R = int(np.prod(ish))
    cols = []
    for r in range(R):
        e = np.zeros(R, dtype=np.complex128)
        e[r] = 1
        e = e.reshape(ish)
        out = []
        for m in mps:
            img = m * e
            k = np.fft.fftshift(np.fft.fftn(np.fft.ifftshift(img), norm="ortho")) if coord is None else sp.nufft(img, coord)
            out.append(k)
        out = np.stack(out)
        if w is not None:
            out = out * np.sqrt(w)
        cols.append(out.ravel())
    return np.stack(cols, axis=1)


def haar_matrix(ish):
    import sigpy as sp
    W = sp.linop.Wavelet(ish, wave_name="haar")
    R = int(np.prod(ish))
    cols = []
    for r in range(R):
        e = np.zeros(R, dtype=np.complex128)
        e[r] = 1
        cols.append(W(e.reshape(ish)).ravel())
    return np.stack(cols, axis=1), W


def fd_matrix(ish):
    R = int(np.prod(ish))
    cols = []
    for r in range(R):
        e = np.zeros(R)
        e[r] = 1
        e = e.reshape(ish)
        cols.append(np.stack([e - np.roll(e, 1, axis=i) for i in range(e.ndim)]).ravel())
    return np.stack(cols, axis=1).astype(np.complex128)


def soft(v, t):
    a = np.abs(v)
    return np.where(a > t, (1 - t / np.maximum(a, 1e-300)) * v, 0)


def reference_optimum(kind, Ad, yv, lam, T):
    """reference minimiser on the dense problem: closed form (L2), ADMM with exact solves otherwise"""
    R = Ad.shape[1]
    AhA, Ahy = Ad.conj().T @ Ad, Ad.conj().T @ yv
    if kind == "SenseRecon":
        return np.linalg.solve(AhA + lam * np.eye(R), Ahy) if (lam > 0 or np.linalg.matrix_rank(Ad) == R) else np.linalg.lstsq(Ad, yv, rcond=None)[0]
    if lam == 0:
        return np.linalg.lstsq(Ad, yv, rcond=None)[0]
    rho = 1.0
    M = np.linalg.inv(AhA + rho * T.conj().T @ T)
    v = np.zeros(T.shape[0], dtype=complex)
    u = np.zeros_like(v)
    x = np.zeros(R, dtype=complex)
    for _ in range(6000):
        x = M @ (Ahy + rho * T.conj().T @ (v - u))
        Tx = T @ x
        v = soft(Tx + u, lam / rho)
        u = u + Tx - v
    return x


def objective(kind, Ad, yv, lam, T, x):
    r = Ad @ x - yv
    f = 0.5 * np.vdot(r, r).real
    if kind == "SenseRecon":
        return f + lam / 2 * np.vdot(x, x).real
    return f + lam * np.sum(np.abs(T @ x))


RECON_SOLVERS = {
    "SenseRecon": ["ConjugateGradient", "GradientMethod", "PrimalDualHybridGradient", "ADMM"],
    "L1WaveletRecon": ["GradientMethod", "PrimalDualHybridGradient", "ADMM"],
    "TotalVariationRecon": ["PrimalDualHybridGradient", "ADMM"],
}


def gen_recon(rng):
    kind = rng.choice(list(RECON_SOLVERS))
    c = dict(cls=kind, solver=rng.choice(RECON_SOLVERS[kind]), cn=int(rng.random() < 0.5), wg=int(rng.random() < 0.5),
             lam=rng.choice([0, 0, 0.5, 2.0]), n=rng.randint(2, 3), ish=rng.choice([[4, 4], [2, 4], [4, 2]]) if kind == "L1WaveletRecon"
             else rng.choice([[3, 3], [4, 3], [2, 5], [4, 4]]), seed=rng.randrange(1 << 30), b=None, consistent=int(rng.random() < 0.4))
    if rng.random() < 0.4:
        c["b"] = rng.randint(1, c["n"])
    if c["lam"] != 0 and c["solver"] == "GradientMethod" and rng.random() < 0.5:
        # lamda of the order of lambda_max(A^H A); only for the proximal-gradient route, whose O(1/k) rate with the default
        # step 1/L holds for every lamda (C14.gm_route_rate) - ADMM / PDHG with fixed rho / steps converge too slowly at
        # large lamda for a fixed iteration budget to be a sound oracle
        c["lamrel"] = rng.choice([1.0, 4.0])
    if c["cn"] and rng.random() < 0.3:
        c["dead0"] = 1                            # silent first channel
    return c


PINNED_SINGULAR_CG = {"cls": "SenseRecon", "solver": "ConjugateGradient", "cn": 1, "wg": 0, "lam": 0, "n": 2, "ish": [3, 3],
                      "seed": 698530836, "b": 1, "consistent": 0, "reuse": False}


def check_recon(ctx, c, origin):
    import sigpy as sp
    import sigpy.mri as mr
    kind, lam = c["cls"], c["lam"]
    mps, coord, y, w = recon_problem(c["seed"], c["cn"], c["wg"], n=c["n"], ish=c["ish"])
    ish = list(c["ish"])
    R = int(np.prod(ish))
    if c.get("dead0"):
        # a silent first receive channel (all-zero sensitivity map, no signal): a coil configuration like any other
        mps = mps.copy(); y = y.copy()
        mps[0] = 0
        y[0] = 0
    if c["cn"] and not c["wg"]:
        pass  # weights estimated from the zeros of y
    # weights of the documented objective
    if w is not None:
        wobj = w
    elif coord is None:
        wobj = (np.sqrt(np.sum(np.abs(y) ** 2, axis=0)) > 0).astype(float)
    else:
        wobj = None
    A1 = dense_sense(mps, coord, None)          # F S (unweighted)
    if c["consistent"]:
        rs = np.random.RandomState(c["seed"] + 7)
        x0 = (rs.randint(-3, 4, size=ish) + 1j * rs.randint(-3, 4, size=ish)).astype(np.complex128)
        y = (A1 @ x0.ravel()).reshape(y.shape)
        if coord is None and w is None:
            wobj = (np.sqrt(np.sum(np.abs(y) ** 2, axis=0)) > 0).astype(float)
    sw = np.ones(A1.shape[0]) if wobj is None else np.sqrt(np.broadcast_to(wobj, y.shape).ravel())
    Ad = A1 * sw[:, None]                         # P F S of the documented objective  1/2 || sqrt(w) (F S x - y) ||^2
    yv = y.ravel() * sw
    if c.get("lamrel"):
        # lamda of the order of the largest eigenvalue of A^H A (lamda >= 0 is all the property asks for)
        lam = float(c["lamrel"]) * float(np.linalg.norm(Ad, 2) ** 2)
    if kind == "L1WaveletRecon":
        T, Wop = haar_matrix(ish)
        # the property covers L1WaveletRecon only when its W is unitary: check numerically
        if T.shape[0] != T.shape[1] or np.max(np.abs(T.conj().T @ T - np.eye(R))) > 1e-10 or np.max(np.abs(T @ T.conj().T - np.eye(R))) > 1e-10:
            ctx.count("recon:skipped-nonunitary-W")
            return True
    elif kind == "TotalVariationRecon":
        T = fd_matrix(ish)
    else:
        T = None
    xref = reference_optimum(kind, Ad, yv, lam, T)
    fref = objective(kind, Ad, yv, lam, T, xref)
    kw = dict(solver=c["solver"], show_pbar=False, coil_batch_size=c["b"])
    iters = {"ConjugateGradient": 200, "GradientMethod": 1500, "PrimalDualHybridGradient": 2500, "ADMM": 250}[c["solver"]]
    kw["max_iter"] = iters
    if c["solver"] == "ADMM":
        kw["max_cg_iter"] = 25
    if kind == "L1WaveletRecon":
        kw["wave_name"] = "haar"
    try:
        cls = getattr(mr.app, kind)
        yin, mpsin, win = y.copy(), mps.copy(), None if w is None else w.copy()
        xo = cls(yin, mpsin, lam, weights=win, coord=coord, **kw).run()
        if c.get("reuse", c["seed"] % 3 == 0):
            # a second reconstruction from the SAME arrays (lamda sweep, method comparison) must minimise the same
            # documented objective: the apps may not have altered the caller's k-space, maps or weights
            xo = cls(yin, mpsin, lam, weights=win, coord=coord, **kw).run()
        changed = [n_ for n_, a_, b_ in (("ksp", yin, y), ("mps", mpsin, mps), ("weights", win, w))
                   if a_ is not None and not np.array_equal(a_, b_)]
        if changed:
            ctx.fail("C16:%s:mutates-inputs" % kind, "%s modified the caller's %s array(s): a further reconstruction from the "
                     "same data minimises a different objective" % (kind, "/".join(changed)), dict(kind="recon", case=c),
                     observed=changed, expected="inputs unchanged", origin=origin)
            return False
    except Exception as e:  # noqa
        ctx.fail("C16:%s:%s:raises" % (kind, c["solver"]), "%s raised %s on a valid request" % (kind, type(e).__name__),
                 dict(kind="recon", case=c), observed=repr(e)[:300], expected="reconstruction", origin=origin)
        return False
    fo = objective(kind, Ad, yv, lam, T, np.asarray(xo).ravel())
    f0 = objective(kind, Ad, yv, lam, T, np.zeros(R, dtype=complex))
    gap = fo - fref
    ok = True
    ctx.count("recon:%s:%s:%s:lam%s" % (kind, c["solver"], "cart" if c["cn"] else "noncart", "0" if lam == 0 else "+"))
    tol = 1e-3 * (abs(fref) + 1e-3 * abs(f0) + 1e-12) + 1e-6 * abs(f0)
    if not np.isfinite(fo) or gap > tol:
        key = "C16:%s:%s:objective" % (kind, c["solver"])
        if c["solver"] == "ConjugateGradient" and lam == 0 and kind == "SenseRecon" and np.linalg.matrix_rank(Ad, tol=1e-8) < R:
            # the recorded finding (known_findings.json): lamda = 0 and a rank-deficient weighted encoding make the CG system
            # singular; in exact arithmetic CG still reaches a minimiser within rank(A) updates, in floating point the
            # updates AFTER convergence amplify rounding noise until the iterate blows up.  It is this class only when the
            # same reconstruction stopped after R = dim updates IS a minimiser (checked here on the real code); any other
            # failure keeps the general key and is reported as a violation.
            try:
                kw2 = dict(kw, max_iter=R)
                xs = cls(y.copy(), mps.copy(), lam, weights=None if w is None else w.copy(), coord=coord, **kw2).run()
                fs = objective(kind, Ad, yv, lam, T, np.asarray(xs).ravel())
                if np.isfinite(fs) and fs - fref <= tol:
                    key = "C16:SenseRecon:ConjugateGradient:singular-lamda0-past-convergence"
            except Exception:  # noqa
                pass
        ctx.fail(key, "%s(%s) output is not the minimiser of the documented objective" % (kind, c["solver"]),
                 dict(kind="recon", case=c), observed=dict(objective=fo, reference=fref, at_zero=f0), expected="gap <= %.3g" % tol, origin=origin)
        ok = False
    if c["consistent"] and lam == 0 and np.linalg.matrix_rank(Ad, tol=1e-8) == R:
        err = np.max(np.abs(np.asarray(xo).ravel() - x0.ravel())) / (1 + np.max(np.abs(x0)))
        if not err <= 1e-2:
            ctx.fail("C16:%s:%s:recover" % (kind, c["solver"]), "consistent fully determined data are not reproduced (lamda = 0)",
                     dict(kind="recon", case=c), observed=err, expected="<= 1e-2", origin=origin)
            ok = False
    return ok


def search(ctx, budget):
    rng = ctx.rng
    # 1. replay disagreeing cases first
    seen = set()
    for dd in ctx.disagreements[:60]:
        cc = dd["case"]
        if cc.get("kind") == "sense":
            k = json.dumps(cc["case"], sort_keys=True)
            if k not in seen:
                seen.add(k)
                check_sense(ctx, cc["case"], "disagreement")
                check_forwarding(ctx, cc["case"], "disagreement")
    broken_names = " ".join(o["name"] for o in ctx.broken)
    # 2. budgeted search: operator
    nsense = int(14 * budget)
    for i in range(nsense):
        c = gen_case(rng, n=(i % 6) + 1 if i < 12 else None)
        if i % 3 == 0:
            c["wkind"] = "coil"
        ctx.case(("oracle-sense", json.dumps(c, sort_keys=True)))
        ctx.count("oracle:sense:%s:%s" % ("cart" if c["cart"] else "noncart", c["wkind"]))
        check_sense(ctx, c, "search")
        check_forwarding(ctx, c, "search")
    # recon
    nrecon = int(10 * budget) if ("recon" in broken_names or not ctx.broken) else int(4 * budget)
    cases = [gen_recon(rng) for _ in range(nrecon)]
    if budget >= 1:
        # every (class, solver) at least once per run
        combos = [(k, s) for k in RECON_SOLVERS for s in RECON_SOLVERS[k]]
        for k, s in combos:
            if not any(cc["cls"] == k and cc["solver"] == s for cc in cases):
                cc = gen_recon(rng)
                while cc["cls"] != k:
                    cc = gen_recon(rng)
                cc["solver"] = s
                cases.append(cc)
    # pinned instance of the recorded finding C16:SenseRecon:ConjugateGradient:singular-lamda0-past-convergence (run in every tier)
    cases.append(dict(PINNED_SINGULAR_CG))
    for c in cases:
        ctx.case(("oracle-recon", json.dumps(c, sort_keys=True)))
        check_recon(ctx, c, "search")


def replay(path):
    r = json.load(open(path))
    print(json.dumps(r, indent=1)[:3000])
    if r.get("kind") != "failing-input":
        return 0
    cc = r["case"]
    ctx = common.Ctx(PROPERTY, "quick", 0)
    if cc["kind"] == "sense":
        ok = check_sense(ctx, cc["case"], "replay")
    elif cc["kind"] == "forwarding":
        ok = check_forwarding(ctx, cc["case"], "replay")
    elif cc["kind"] == "recon":
        ok = check_recon(ctx, cc["case"], "replay")
    else:
        ok = True
    for f in ctx.failures[:5]:
        print("  failure:", f["key"], f["what"], f["observed"])
    print("replay:", "property holds on this input" if ok else "property FAILS on this input")
    return 0 if ok else 1
