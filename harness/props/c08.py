"""C08 — convolve = the convolution definition (full/valid, strides, N-D, batch, channels); the two adjoint
functions are exact adjoints and return the requested shapes; admitted shape combinations are computed
correctly or rejected."""
import itertools
import json
import zlib

import numpy as np

from harness import common
from harness.translate import gen as G

PROPERTY = "C08"
LEAN_MODULES = ["SigpyVerif.Props.C08"]
THEOREMS = ["SigpyVerif.C08." + t for t in [
    "conv_out_len_full", "conv_out_len_valid", "conv_out_len", "conv_out_len_valid_any",
    "admit_iff", "admit_cases",
    "adj_buf_len", "data_adj_shift", "filt_adj_shift", "data_adj_shift_nd", "filt_adj_shift_nd", "data_adj_len", "filt_adj_len",
    "stuff_eq_sum", "conv1_entries", "data_adj_entries", "filt_adj_entries",
    "data_adjoint", "filter_adjoint", "data_adjoint_mc", "filter_adjoint_mc", "conv2_entries", "data_adj2_entries", "filt_adj2_entries",
    "data_adjoint_2d", "filter_adjoint_2d", "adjoint_nd", "mkAxes_ok", "data_adjoint_nd_code", "filter_adjoint_nd_code",
    "convD_comm", "mkAxes_swap", "code_len_counts", "data_adjoint_code_len", "filter_adjoint_code_len",
    "gi_model_is_star_ring",
    # translator-generated loop wiring (Gen.ConvWiring), any D x batch x channels, dtypes, Linop wrappers (Gen.ConvLinops)
    "wiring_flags", "wiring_loops", "conv_wiring", "data_adj_wiring", "filt_adj_wiring",
    "conv_out_len_any", "mkAxes_ok_admitted", "data_adjoint_nd_mc", "filter_adjoint_nd_mc", "mkAxes_p", "adjoint_nd_mc_code",
    "mkAxes_shapes", "split_mc", "split_sc",
    "dtype_rule", "complex_output_exact", "linop_adjoint_args_agree", "linop_double_adjoint",
]]


def translate(ctx):
    G.regenerate(ctx, ["ConvFormulas", "ConvWiring", "ConvLinops", "ConvParams"])


# ---- cases ----------------------------------------------------------------------------------------
# case = dict(m, n, s (list or None), mode, mc, ci, co, b, cplx)
CH = [(False, 1, 1), (True, 1, 1), (True, 1, 2), (True, 2, 1), (True, 2, 2)]   # (multi_channel, c_i, c_o)


def shapes(c):
    dsh = list(c["b"]) + ([c["ci"]] if c["mc"] else []) + list(c["m"])
    fsh = ([c["co"], c["ci"]] if c["mc"] else []) + list(c["n"])
    return dsh, fsh


def strides_of(c):
    return list(c["s"]) if c["s"] is not None else [1] * len(c["m"])


def domain(c):
    """'normal' (must compute), 'filter-longer' (compute correctly or reject), 'mixed' (not admitted)"""
    if c["mode"] == "full" or all(a >= b for a, b in zip(c["m"], c["n"])):
        return "normal"
    if all(a < b for a, b in zip(c["m"], c["n"])):
        return "filter-longer"
    return "mixed"


def true_p(c):
    """number of samples 0, s, 2s, … below the convolution length of the statement"""
    L = [a + b - 1 if c["mode"] == "full" else abs(a - b) + 1 for a, b in zip(c["m"], c["n"])]
    return [len(range(0, l, s)) for l, s in zip(L, strides_of(c))]


def ysh_of(c):
    return list(c["b"]) + ([c["co"]] if c["mc"] else []) + true_p(c)


def exhaustive_1d():
    for m in range(1, 6):
        for n in range(1, 6):
            for s in (None, 1, 2, 3):
                for mode in ("full", "valid"):
                    for mc, ci, co in CH:
                        for b in ((), (2,)):
                            yield dict(m=[m], n=[n], s=None if s is None else [s], mode=mode, mc=mc, ci=ci, co=co,
                                       b=list(b), cplx=True)


def mn_2d():
    for m in itertools.product(range(1, 6), repeat=2):
        for n in itertools.product(range(1, 6), repeat=2):
            for mode in ("full", "valid"):
                yield list(m), list(n), mode


def rand_case(rng, D, hi, smax=3, dom=None):
    while True:
        m = [rng.randint(1, hi) for _ in range(D)]
        n = [rng.randint(1, hi) for _ in range(D)]
        mode = rng.choice(["full", "valid"])
        mc, ci, co = rng.choice(CH)
        c = dict(m=m, n=n, s=None if rng.random() < 0.15 else [rng.randint(1, smax) for _ in range(D)], mode=mode,
                 mc=mc, ci=ci, co=co, b=rng.choice([[], [], [2], [2], [1, 2]]) if D < 3 else rng.choice([[], [2]]),
                 cplx=rng.random() < 0.8)
        # mixed dtypes (real data with complex filter, complex output-side array with real filter, …):
        # "real or complex values" of the statement; a mixed call may be rejected with a TypeError (numpy
        # refuses to add a complex term into a real accumulator) but must never drop an imaginary part silently
        if rng.random() < 0.3:
            c["mix"] = rng.choice([[0, 1, 1], [1, 0, 1], [0, 0, 1], [1, 1, 0], [0, 1, 0], [1, 0, 0]])
        d = domain(c)
        if dom is not None and d != dom:
            continue
        if d == "mixed" and rng.random() < 0.7:
            continue
        return c


def gen_cases(rng, n2, n3):
    cases = []
    for _ in range(n2):
        cases.append(rand_case(rng, 2, 5))
    for _ in range(n3):
        cases.append(rand_case(rng, 3, 3, smax=2))
    for _ in range(max(4, n2 // 10)):   # filter longer than data with large strides (admitted, p formula ≤ 0)
        c = rand_case(rng, rng.choice([1, 2]), 4, dom="filter-longer")
        if rng.random() < 0.7:
            c["s"] = [max(1, b - a + rng.randint(0, 1)) for a, b in zip(c["m"], c["n"])]
        cases.append(c)
    return cases


def rand_arr(rng, shape, cplx):
    size = int(np.prod(shape)) if len(shape) else 1
    re = np.array([rng.randint(-4, 4) for _ in range(size)], dtype=np.float64)
    if cplx:
        im = np.array([rng.randint(-4, 4) for _ in range(size)], dtype=np.float64)
        return (re + 1j * im).reshape(shape)
    return re.reshape(shape)


def make_inputs(c, rng):
    dsh, fsh = shapes(c)
    cd, cf, cy = c.get("mix") or [c["cplx"]] * 3
    return dict(d=rand_arr(rng, dsh, cd), f=rand_arr(rng, fsh, cf), y=rand_arr(rng, ysh_of(c), cy))


# ---- protocol -------------------------------------------------------------------------------------
def L(x):
    x = list(x)
    return ",".join(str(int(v)) for v in x) if x else "-"


def A(arr):
    out = []
    for v in np.asarray(arr).ravel():
        re, im = int(round(float(np.real(v)))), int(round(float(np.imag(v))))
        out.append("%d" % re if im == 0 else "%d;%d" % (re, im))
    return ",".join(out) if out else "-"


def dtypes_of(c):
    """(data, filter, output-side array) has a complex dtype"""
    return [bool(v) for v in (c.get("mix") or [c["cplx"]] * 3)]


def head(c):
    dsh, fsh = shapes(c)
    return "dsh=%s fsh=%s mode=%s st=%s mc=%d dt=%s" % (L(dsh), L(fsh), c["mode"], "none" if c["s"] is None else L(c["s"]),
                                                       1 if c["mc"] else 0, "".join("1" if v else "0" for v in dtypes_of(c)))


def parse_reply(r):
    if not r.startswith("ok "):
        return r
    shape, data = r[3:].split(" | ")
    shape = [] if shape == "-" else [int(v) for v in shape.split(",")]
    vals = []
    if data != "-":
        for t in data.split(","):
            p = t.split(";")
            vals.append((int(p[0]), int(p[1]) if len(p) > 1 else 0))
    return (shape, vals)


def canon(arr):
    """exact canonical form of an array of Gaussian integers; complex128 arithmetic on small integers is
    exact, and if scipy chooses its FFT method the rounding (≈1e-13) is removed by rounding to the nearest
    integer, which is accepted only within 1e-6 (semantic differences are ≥ 1)."""
    arr = np.asarray(arr)
    z = arr.astype(np.complex128).ravel()
    re, im = np.rint(z.real), np.rint(z.imag)
    if z.size and (np.abs(z.real - re).max() > 1e-6 or np.abs(z.imag - im).max() > 1e-6):
        return "non-integer output"
    return (list(arr.shape), [(int(a), int(b)) for a, b in zip(re, im)])


def is_cast_error(e):
    """numpy's casting TypeError (UFuncTypeError), raised directly or wrapped by Linop.apply"""
    return isinstance(e, TypeError) or isinstance(getattr(e, "__cause__", None), TypeError)


def err(e):
    if is_cast_error(e):
        return "err TypeError"
    return "err ValueError" if isinstance(e, ValueError) else "err %s" % type(e).__name__


def linop_view(model):
    """Linop contract (hand-written): a non-positive entry in the advertised shape is a ValueError at construction"""
    if isinstance(model, tuple) and any(v <= 0 for v in model[0]):
        return "err ValueError"
    return model


def kw(c):
    return dict(mode=c["mode"], strides=None if c["s"] is None else tuple(c["s"]), multi_channel=c["mc"])


def run_impl(c, x, op, via):
    """op in conv / dadj / fadj; via in fn / linop / linop-direct (adjoint classes built directly) /
    linop-filter (ConvolveFilter for conv) / adjH-data, adjH-filter (.H of the adjoint classes)"""
    import sigpy as sp
    from sigpy import linop
    dsh, fsh = shapes(c)
    d, f, y = x["d"].copy(), x["f"].copy(), x["y"].copy()
    k = kw(c)
    if op == "conv":
        if via == "fn":
            return sp.convolve(d, f, **k)
        if via == "linop":
            return linop.ConvolveData(dsh, f, **k)(d)
        if via == "linop-filter":
            return linop.ConvolveFilter(fsh, d, **k)(f)
        if via == "adjH-data":      # the adjoint class's own `_adjoint_linop`
            return linop.ConvolveDataAdjoint(dsh, f, **k).H(d)
        if via == "adjH-filter":
            return linop.ConvolveFilterAdjoint(fsh, d, **k).H(f)
    if op == "dadj":
        if via == "fn":
            return sp.convolve_data_adjoint(y, f, dsh, **k)
        if via == "linop":
            return linop.ConvolveData(dsh, f, **k).H(y)
        if via == "linop-direct":
            return linop.ConvolveDataAdjoint(dsh, f, **k)(y)
    if op == "fadj":
        if via == "fn":
            return sp.convolve_filter_adjoint(y, d, fsh, **k)
        if via == "linop":
            return linop.ConvolveFilter(fsh, d, **k).H(y)
        if via == "linop-direct":
            return linop.ConvolveFilterAdjoint(fsh, d, **k)(y)
    raise ValueError((op, via))


VIAS = {"conv": ["fn", "linop", "linop-filter", "adjH-data", "adjH-filter"], "dadj": ["fn", "linop", "linop-direct"],
        "fadj": ["fn", "linop", "linop-direct"]}


def lines_for(c, x):
    h = head(c)
    return {
        "conv": "C08 conv %s d=%s f=%s" % (h, A(x["d"]), A(x["f"])),
        "dadj": "C08 dadj %s ysh=%s y=%s f=%s" % (h, L(ysh_of(c)), A(x["y"]), A(x["f"])),
        "fadj": "C08 fadj %s ysh=%s y=%s d=%s" % (h, L(ysh_of(c)), A(x["y"]), A(x["d"])),
    }


def lines_1d(c, x):
    """the 1-D single-channel layer the theorems are about"""
    if not (len(c["m"]) == 1 and not c["mc"] and not c["b"] and domain(c) == "normal"):
        return {}
    h = "m=%d n=%d s=%d mode=%s" % (c["m"][0], c["n"][0], strides_of(c)[0], c["mode"])
    return {
        "conv": "C08 conv1 %s d=%s f=%s" % (h, A(x["d"]), A(x["f"])),
        "dadj": "C08 dadj1 %s y=%s f=%s" % (h, A(x["y"]), A(x["f"])),
        "fadj": "C08 fadj1 %s y=%s d=%s" % (h, A(x["y"]), A(x["d"])),
    }


def lines_mc1(c, x):
    """the 1-D batch / multi-channel layer (theorems data_adjoint_mc / filter_adjoint_mc)"""
    if not (len(c["m"]) == 1 and domain(c) == "normal"):
        return {}
    B = int(np.prod(c["b"])) if c["b"] else 1
    ci, co = (c["ci"], c["co"]) if c["mc"] else (1, 1)
    h = "B=%d ci=%d co=%d m=%d n=%d s=%d mode=%s" % (B, ci, co, c["m"][0], c["n"][0], strides_of(c)[0], c["mode"])
    return {
        "conv": "C08 mc1 which=conv %s d=%s f=%s" % (h, A(x["d"]), A(x["f"])),
        "dadj": "C08 mc1 which=dadj %s y=%s f=%s" % (h, A(x["y"]), A(x["f"])),
        "fadj": "C08 mc1 which=fadj %s y=%s d=%s" % (h, A(x["y"]), A(x["d"])),
    }


def lines_2d(c, x):
    """the 2-D single-channel layer (theorems data_adjoint_2d / filter_adjoint_2d)"""
    if not (len(c["m"]) == 2 and not c["mc"] and not c["b"] and domain(c) == "normal"):
        return {}
    h = "m=%s n=%s s=%s mode=%s" % (L(c["m"]), L(c["n"]), L(strides_of(c)), c["mode"])
    return {
        "conv": "C08 c2 which=conv %s d=%s f=%s" % (h, A(x["d"]), A(x["f"])),
        "dadj": "C08 c2 which=dadj %s y=%s f=%s" % (h, A(x["y"]), A(x["f"])),
        "fadj": "C08 c2 which=fadj %s y=%s d=%s" % (h, A(x["y"]), A(x["d"])),
    }


def lines_nd(c, x):
    """the D-dimensional single-channel layer defined by recursion over the axes (theorem adjoint_nd)"""
    if not (not c["mc"] and not c["b"] and domain(c) == "normal"):
        return {}
    h = "m=%s n=%s s=%s mode=%s" % (L(c["m"]), L(c["n"]), L(strides_of(c)), c["mode"])
    return {
        "conv": "C08 cD which=conv %s d=%s f=%s" % (h, A(x["d"]), A(x["f"])),
        "conv#F": "C08 cD which=convF %s d=%s f=%s" % (h, A(x["d"]), A(x["f"])),
        "dadj": "C08 cD which=dadj %s y=%s f=%s" % (h, A(x["y"]), A(x["f"])),
        "fadj": "C08 cD which=fadj %s y=%s d=%s" % (h, A(x["y"]), A(x["d"])),
    }


def lines_mcD(c, x):
    """the D-dimensional batch / multi-channel layer with the translator-generated wiring
    (theorems data_adjoint_nd_mc / filter_adjoint_nd_mc / adjoint_nd_mc_code)"""
    if domain(c) == "mixed":
        return {}
    B = int(np.prod(c["b"])) if c["b"] else 1
    ci, co = (c["ci"], c["co"]) if c["mc"] else (1, 1)
    h = "B=%d ci=%d co=%d m=%s n=%s s=%s mode=%s" % (B, ci, co, L(c["m"]), L(c["n"]), L(strides_of(c)), c["mode"])
    return {
        "conv": "C08 mcD which=conv %s d=%s f=%s" % (h, A(x["d"]), A(x["f"])),
        "dadj": "C08 mcD which=dadj %s y=%s f=%s" % (h, A(x["y"]), A(x["f"])),
        "fadj": "C08 mcD which=fadj %s y=%s d=%s" % (h, A(x["y"]), A(x["d"])),
    }


def norm_shape(c, op):
    B = int(np.prod(c["b"])) if c["b"] else 1
    ci, co = (c["ci"], c["co"]) if c["mc"] else (1, 1)
    return {"conv": [B, co] + true_p(c), "dadj": [B, ci] + list(c["m"]), "fadj": [co, ci] + list(c["n"])}[op]


def ser(c, x):
    return dict(case=c, d=A(x["d"]), f=A(x["f"]), y=A(x["y"]))


def deser(cc):
    c = cc["case"]
    dsh, fsh = shapes(c)

    def arr(s, sh):
        vals = []
        if s != "-":
            for t in s.split(","):
                p = t.split(";")
                vals.append(complex(int(p[0]), int(p[1]) if len(p) > 1 else 0))
        return np.array(vals, dtype=np.complex128).reshape(sh)
    cd, cf, cy = c.get("mix") or [c["cplx"]] * 3
    fix = lambda a, cx: a if cx else a.real.copy()
    return c, dict(d=fix(arr(cc["d"], dsh), cd), f=fix(arr(cc["f"], fsh), cf), y=fix(arr(cc["y"], ysh_of(c)), cy))


def _run(ctx, cases, stream, rng, vias=None):
    lines, meta = [], []
    for c in cases:
        x = make_inputs(c, rng)
        for op, ln in lines_for(c, x).items():
            lines.append(ln)
            meta.append((c, x, op, "nd"))
        if c.get("mix"):   # whether the Linops can be constructed is a matter of shapes only: dtype-neutral forward call
            lines.append(lines_for(dict(c, mix=None), x)["conv"])
            meta.append((c, x, "probe", "nd"))
        for op, ln in lines_1d(c, x).items():
            lines.append(ln)
            meta.append((c, x, op, "1d"))
        for op, ln in lines_mc1(c, x).items():
            lines.append(ln)
            meta.append((c, x, op, "mc1"))
        for op, ln in lines_2d(c, x).items():
            lines.append(ln)
            meta.append((c, x, op, "2d"))
        for op, ln in lines_nd(c, x).items():
            lines.append(ln)
            meta.append((c, x, op.split("#")[0], "nD"))
        for op, ln in lines_mcD(c, x).items():
            lines.append(ln)
            meta.append((c, x, op, "mcD"))
    replies = ctx.driver(lines)
    bad = 0
    fwd = {}   # id(case) -> model reply of the forward call (decides whether the Linops can be constructed)
    for (c, x, op, layer), r in zip(meta, replies):
        if (op == "probe" or (op == "conv" and not c.get("mix"))) and layer == "nd":
            fwd[id(c)] = parse_reply(r)
    for (c, x, op, layer), ln, r in zip(meta, lines, replies):
        if op == "probe":
            continue
        model = parse_reply(r)
        dom = domain(c)
        for via in (vias or VIAS)[op] if layer == "nd" else ["fn"]:
            try:
                got = run_impl(c, x, op, via)
                impl = canon(np.reshape(got, norm_shape(c, op)) if layer in ("mc1", "mcD") else got)
            except Exception as e:  # noqa
                impl = err(e)
                if c.get("mix") and is_cast_error(e):
                    ctx.count("mixed-dtype-rejected:%s:%s" % (op, "".join("c" if v else "r" for v in dtypes_of(c))))
                    if layer != "nd":
                        continue   # the index-level layers carry no dtypes: nothing to compare
            want = model
            if via != "fn":
                # Linop contract (hand-written): the constructor calls _get_convolve_params and rejects a
                # non-positive entry in the advertised output shape (ValueError); otherwise it forwards to the function
                want = model if linop_view(fwd[id(c)]) == fwd[id(c)] and isinstance(fwd[id(c)], tuple) else "err ValueError"
            ctx.case((ln, via), nontrivial=True,
                     sample=dict(line=ln[:160], via=via, reply=r[:100]) if ctx.evaluations % 397 == 0 else None)
            ctx.count("%s:%s:D%d:%s:%s" % (op, c["mode"], len(c["m"]), dom, "mc" if c["mc"] else "sc"))
            if impl != want:
                bad += 1
                ctx.disagree(stream, dict(ser(c, x), op=op, via=via, layer=layer), impl, want)
    return bad


def correspond(ctx):
    ctx.rule = ("case = (D, data lengths m, filter lengths n, strides or None, mode, multi_channel, c_i, c_o, batch "
                "shape, real/complex) with random Gaussian-integer data, filter and output-side array; each case is run "
                "through convolve / convolve_data_adjoint / convolve_filter_adjoint as functions and through the Linops "
                "ConvolveData / ConvolveFilter (and .H, and the Adjoint classes directly) and compared exactly with the "
                "Lean model (N-D layer; for D=1 also the 1-D single-channel and 1-D batch/multi-channel layers the theorems are "
                "about); distinct by "
                "protocol line + entry point; D=1: lengths 1-5 x strides None,1-3 x modes x channel configs x batch "
                "exhaustively; D=2: (m,n,mode) exhaustive in the thorough tier, sampled in quick; D=3 sampled")
    ctx.assumptions += [
        "scipy.signal.convolve/correlate enter the model by their index contracts (convOff, corrShift, scipyLen), numpy "
        "slicing/broadcast/reshape by sliceLen/bcast/npReshape: hand-written, validated by the correspondence only",
        "translator-generated: the length formulas, the admission test, the adjoints' correlate-mode branches (Gen.ConvFormulas); "
        "the (batch, c_o, c_i) loop wiring, zero-stuffing statement, `+=`, `[slc]`, allocation dtypes of the three functions "
        "(Gen.ConvWiring); the argument passing of the four Linop classes (Gen.ConvLinops); how _get_convolve_params splits the "
        "shapes into b, m, n, c_i, c_o (Gen.ConvParams)",
        "numpy's casting rules (silent complex->real cast on item assignment, TypeError on in-place add of a complex term into a "
        "real array) are a hand-written contract (convDtypeRule / adjDtypeRule), validated by the mixed-dtype correspondence cases",
        "cuDNN paths are out of scope",
    ]
    rng = ctx.rng
    quick = ctx.tier == "quick"
    ex1 = list(exhaustive_1d())
    bad = _run(ctx, ex1, "1d-exhaustive", rng)
    ctx.oblige("correspondence:C08.1d", "correspondence", bad == 0, "%d disagreements" % bad)
    ex2 = []
    mn = list(mn_2d())
    if quick:
        mn = rng.sample(mn, 500)
    else:
        mn = mn * 4   # every (m, n, mode) with four stride / channel / batch configurations
    for m, n, mode in mn:
        mc, ci, co = rng.choice(CH)
        ex2.append(dict(m=m, n=n, s=None if rng.random() < 0.1 else [rng.randint(1, 3), rng.randint(1, 3)], mode=mode,
                        mc=mc, ci=ci, co=co, b=rng.choice([[], [2]]), cplx=True))
    for m, n, mode in (rng.sample(list(mn_2d()), 250) if quick else list(mn_2d())):   # single-channel, no batch
        ex2.append(dict(m=m, n=n, s=[rng.randint(1, 3), rng.randint(1, 3)], mode=mode, mc=False, ci=1, co=1, b=[],
                        cplx=True))
    bad = _run(ctx, ex2, "2d-grid", rng)
    ctx.oblige("correspondence:C08.2d", "correspondence", bad == 0, "%d disagreements" % bad)
    cases = gen_cases(rng, 400 if quick else 4000, 100 if quick else 1200)
    for _ in range(60 if quick else 500):   # single-channel, no batch, D = 3 (and a few D = 4): the recursive N-D layer
        c = rand_case(rng, 3 if rng.random() < 0.85 else 4, 3, smax=2, dom="normal")
        c.update(mc=False, ci=1, co=1, b=[])
        cases.append(c)
    bad = _run(ctx, cases, "random", rng)
    ctx.oblige("correspondence:C08.random", "correspondence", bad == 0, "%d disagreements" % bad)
    ctx.traces = ctx.evaluations


# ---- the property's own oracle (written from the statement; independent of the model) ---------------
def ref_conv(c, d, f):
    """every output sample is the sum over input channels and filter taps of data times flipped filter:
    out[b, co, k] = Σ_ci Σ_i d[b, ci, i] · f[co, ci, k·s + off - i], off = 0 ('full') or min(m, n) - 1 ('valid':
    the fully overlapping samples), k·s below the un-strided length."""
    m, n, s = c["m"], c["n"], strides_of(c)
    D = len(m)
    B = int(np.prod(c["b"])) if c["b"] else 1
    ci, co = (c["ci"], c["co"]) if c["mc"] else (1, 1)
    dd = d.reshape([B, ci] + m)
    ff = f.reshape([co, ci] + n)
    off = [0 if c["mode"] == "full" else min(a, b) - 1 for a, b in zip(m, n)]
    p = true_p(c)
    out = np.zeros([B, co] + p, dtype=np.complex128)
    for k in itertools.product(*[range(v) for v in p]):
        for i in itertools.product(*[range(v) for v in m]):
            j = tuple(kk * ss + oo - ii for kk, ss, oo, ii in zip(k, s, off, i))
            if all(0 <= jj < nn for jj, nn in zip(j, n)):
                for o in range(co):
                    for q in range(ci):
                        out[(slice(None), o) + k] += dd[(slice(None), q) + i] * ff[(o, q) + j]
    return out.reshape(list(c["b"]) + ([co] if c["mc"] else []) + p)


def exact_vdot(a, b):
    """Σ conj(a)·b over Gaussian integers, in Python integers"""
    a = np.asarray(a).astype(np.complex128).ravel()
    b = np.asarray(b).astype(np.complex128).ravel()
    if a.shape != b.shape:
        return None
    re = im = 0
    for u, v in zip(a, b):
        ur, ui, vr, vi = int(round(u.real)), int(round(u.imag)), int(round(v.real)), int(round(v.imag))
        re += ur * vr + ui * vi
        im += ur * vi - ui * vr
    return (re, im)


def key_of(c, op, via):
    if domain(c) == "filter-longer":
        return "C08:valid:filter-longer"
    name = {"conv": "convolve", "dadj": "data_adjoint", "fadj": "filter_adjoint"}[op]
    return "C08:%s:%s%s" % (name, c["mode"], "" if via == "fn" else ":linop")


def check_one(ctx, c, x, op, via, origin):
    """True = the property holds on this call"""
    dom = domain(c)
    if dom == "mixed":
        return True  # not admitted by the mode; the statement demands nothing (the model says: rejected)
    case = dict(ser(c, x), op=op, via=via)
    dsh, fsh = shapes(c)
    try:
        got = run_impl(c, x, op, via)
    except Exception as e:  # noqa
        if dom == "filter-longer":
            return True  # rejected
        if c.get("mix") and (isinstance(e, TypeError) or isinstance(e.__cause__, TypeError)):
            return True  # mixed dtypes rejected with a casting error (not silently wrong)
        ctx.fail(key_of(c, op, via), "%s (%s) raised %s on a shape combination it must compute" % (op, via, type(e).__name__),
                 case, observed=repr(e), expected="result", origin=origin)
        return False
    ref = ref_conv(c, x["d"], x["f"])
    what = "valid mode, filter longer than data on every axis: " if dom == "filter-longer" else ""
    if op == "conv":
        g = canon(got)
        w = canon(ref)
        if g != w:
            ctx.fail(key_of(c, op, via), what + "convolve returned an array that is not the convolution of the statement "
                     "(shape %s, expected shape %s)" % (list(np.shape(got)), w[0]), case, observed=g, expected=w, origin=origin)
            return False
        return True
    want_shape = dsh if op == "dadj" else fsh
    if list(np.shape(got)) != want_shape:
        ctx.fail(key_of(c, op, via), what + "%s returned shape %s, requested %s" % (op, list(np.shape(got)), want_shape),
                 case, observed=list(np.shape(got)), expected=want_shape, origin=origin)
        return False
    if canon(got) == "non-integer output":
        ctx.fail(key_of(c, op, via), what + "%s returned non-integer values on integer inputs" % op, case,
                 observed=np.asarray(got).ravel().tolist()[:20], expected="Gaussian integers", origin=origin)
        return False
    # <conv(d, f), y> = <d, adj_d(y)> = <f, adj_f(y)> for the given y and fresh random arguments of the other side
    rng = np.random.RandomState(zlib.crc32(A(x["y"]).encode()) % (2 ** 31))
    for t in range(3):
        if op == "dadj":
            u = x["d"] if t == 0 else rand_like(rng, x["d"])
            fw = ref_conv(c, u, x["f"])
        else:
            u = x["f"] if t == 0 else rand_like(rng, x["f"])
            fw = ref_conv(c, x["d"], u)
        lhs = exact_vdot(x["y"], fw)      # Σ conj(y)·conv
        rhs = exact_vdot(got, u)          # Σ conj(adj y)·u
        if lhs != rhs:
            ctx.fail(key_of(c, op, via), what + "%s is not the adjoint: <y, conv(u)> = %s but <adj(y), u> = %s" % (op, lhs, rhs),
                     dict(case, u=A(u)), observed=rhs, expected=lhs, origin=origin)
            return False
    return True


def rand_like(rng, a):
    re = rng.randint(-4, 5, size=a.shape).astype(np.float64)
    if np.iscomplexobj(a):
        return re + 1j * rng.randint(-4, 5, size=a.shape)
    return re


def check_case(ctx, c, x, origin, ops=None):
    ok = True
    for op in ops or ("conv", "dadj", "fadj"):
        for via in VIAS[op]:
            ctx.case(("oracle", head(c), op, via, A(x["y"])[:40]))
            ok = check_one(ctx, c, x, op, via, origin) and ok
    return ok


def search(ctx, budget):
    rng = ctx.rng
    for dgr in ctx.disagreements[:100]:
        cc = dgr["case"]
        c, x = deser(cc)
        check_one(ctx, c, x, cc["op"], cc["via"], "disagreement")
    # directed: every 1-D (m, n, s, mode) once with a random channel/batch configuration
    ex1 = list(exhaustive_1d())
    grid = {}
    for c in ex1:
        grid.setdefault((c["m"][0], c["n"][0], None if c["s"] is None else c["s"][0], c["mode"]), []).append(c)
    for k, lst in grid.items():
        c = rng.choice(lst)
        check_case(ctx, c, make_inputs(c, rng), "search-1d")
    for c in gen_cases(rng, int(120 * budget), int(20 * budget)):
        check_case(ctx, c, make_inputs(c, rng), "search")
    if budget > 1:
        for c in rng.sample(ex1, min(len(ex1), int(150 * budget))):
            check_case(ctx, c, make_inputs(c, rng), "search-1d")


def replay(path):
    r = json.load(open(path))
    print(json.dumps(r, indent=1)[:3000])
    if r.get("kind") != "failing-input":
        return 0
    cc = r["case"]
    c, x = deser(cc)
    ctx = common.Ctx(PROPERTY, "quick", 0)
    ok = check_one(ctx, c, x, cc["op"], cc["via"], "replay")
    ln = lines_for(c, x)[cc["op"]]
    print("model:", ctx.driver([ln])[0][:300])
    try:
        print("impl :", canon(run_impl(c, x, cc["op"], cc["via"])))
    except Exception as e:  # noqa
        print("impl : raised", repr(e))
    for f in ctx.failures:
        print("oracle:", f["what"])
    print("replay:", "property holds on this input" if ok else "property FAILS on this input")
    return 0 if ok else 1
