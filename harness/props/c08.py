"""C08 — convolve = the convolution definition (full/valid, strides, N-D, batch, channels); the two adjoint
functions are exact adjoints and return the requested shapes; admitted shape combinations are computed
correctly or rejected."""
import itertools
import json
import zlib

import numpy as np

from harness import common
from harness.translate import gen as G

PROPERTY = "C08"
LEAN_MODULES = ["SigpyVerif.Props.C08", "SigpyVerif.Props.C08Flat"]
THEOREMS = ["SigpyVerif.C08." + t for t in [
    "conv_out_len_full", "conv_out_len_valid", "conv_out_len", "conv_out_len_valid_any",
    "admit_iff", "admit_cases",
    "adj_buf_len", "data_adj_shift", "filt_adj_shift", "data_adj_shift_nd", "filt_adj_shift_nd", "data_adj_len", "filt_adj_len",
    "stuff_eq_sum", "conv1_entries", "data_adj_entries", "filt_adj_entries",
    "data_adjoint", "filter_adjoint", "data_adjoint_mc", "filter_adjoint_mc", "conv2_entries", "data_adj2_entries", "filt_adj2_entries",
    "data_adjoint_2d", "filter_adjoint_2d", "adjoint_nd", "mkAxes_ok", "data_adjoint_nd_code", "filter_adjoint_nd_code",
    "convD_comm", "mkAxes_swap", "code_len_counts", "data_adjoint_code_len", "filter_adjoint_code_len",
    "gi_model_is_star_ring",
    # translator-generated loop wiring (Gen.ConvWiring), any D x batch x channels, dtypes, Linop wrappers (Gen.ConvLinops)
    "wiring_flags", "wiring_loops", "conv_wiring", "data_adj_wiring", "filt_adj_wiring",
    "conv_out_len_any", "mkAxes_ok_admitted", "data_adjoint_nd_mc", "filter_adjoint_nd_mc", "mkAxes_p", "adjoint_nd_mc_code",
    "mkAxes_shapes", "split_mc", "split_sc",
    "dtype_rule", "complex_output_exact", "linop_adjoint_args_agree", "linop_double_adjoint",
    # Props/C08Flat.lean — the flat-array executable model (what the driver runs) = the index-level definitions;
    # generated guard table / strides block / reshape plumbing; every argument combination: computed shape or error;
    # the Linop classes interpreted from their generated descriptions, adjoint pairing through the generated wiring
    "guard_table", "strides_spec", "stridesOf_length", "getParams_eq", "splitShapes_inv", "getParams_inv",
    "npReshape_self", "npReshape_nonneg_some", "bcast_self", "bIdx_self", "mkAxes_true_fields", "mkAxes_fields",
    "sliceLen_counts", "sliceLen_eq_codeLen", "zipWith_sliceLen_eq", "adjL_eq", "adjOutcome_exact", "div_mem_allIdx",
    "sumList_allIdx", "loopSumL_eq", "convNDAt_eq_convD", "corrNDAt_eq_corrD", "corrD_congr", "stuffD_eq",
    "inBounds_iff_mem_allIdx", "readZ_map_allIdx",
    "convolve_eq_index", "data_adjoint_eq_index", "filter_adjoint_eq_index",
    "convolve_shape_or_raise", "adjoint_shape_or_raise", "convolve_raises_iff", "adjoint_raises_iff",
    "flat_data_adjoint_identity", "flat_filter_adjoint_identity",
    "linop_H_wiring", "linop_apply_wiring", "linop_data_pairing", "linop_filter_pairing",
]]


def translate(ctx):
    G.regenerate(ctx, ["ConvFormulas", "ConvWiring", "ConvLinops", "ConvParams"])


# ---- cases ----------------------------------------------------------------------------------------
# case = dict(m, n, s (list or None), mode, mc, ci, co, b, cplx)
CH = [(False, 1, 1), (True, 1, 1), (True, 1, 2), (True, 2, 1), (True, 2, 2)]   # (multi_channel, c_i, c_o)


def shapes(c):
    dsh = list(c["b"]) + ([c["ci"]] if c["mc"] else []) + list(c["m"])
    fsh = ([c["co"], c["ci"]] if c["mc"] else []) + list(c["n"])
    return dsh, fsh


def strides_of(c):
    return list(c["s"]) if c["s"] is not None else [1] * len(c["m"])


def domain(c):
    """'normal' (must compute), 'filter-longer' (compute correctly or reject), 'mixed' (not admitted)"""
    if c["mode"] == "full" or all(a >= b for a, b in zip(c["m"], c["n"])):
        return "normal"
    if all(a < b for a, b in zip(c["m"], c["n"])):
        return "filter-longer"
    return "mixed"


def true_p(c):
    """number of samples 0, s, 2s, … below the convolution length of the statement"""
    L = [a + b - 1 if c["mode"] == "full" else abs(a - b) + 1 for a, b in zip(c["m"], c["n"])]
    return [len(range(0, l, s)) for l, s in zip(L, strides_of(c))]


def ysh_of(c):
    return list(c["b"]) + ([c["co"]] if c["mc"] else []) + true_p(c)


def exhaustive_1d():
    for m in range(1, 6):
        for n in range(1, 6):
            for s in (None, 1, 2, 3):
                for mode in ("full", "valid"):
                    for mc, ci, co in CH:
                        for b in ((), (2,)):
                            yield dict(m=[m], n=[n], s=None if s is None else [s], mode=mode, mc=mc, ci=ci, co=co,
                                       b=list(b), cplx=True)


def mn_2d():
    for m in itertools.product(range(1, 6), repeat=2):
        for n in itertools.product(range(1, 6), repeat=2):
            for mode in ("full", "valid"):
                yield list(m), list(n), mode


def rand_case(rng, D, hi, smax=3, dom=None):
    while True:
        m = [rng.randint(1, hi) for _ in range(D)]
        n = [rng.randint(1, hi) for _ in range(D)]
        mode = rng.choice(["full", "valid"])
        mc, ci, co = rng.choice(CH)
        c = dict(m=m, n=n, s=None if rng.random() < 0.15 else [rng.randint(1, smax) for _ in range(D)], mode=mode,
                 mc=mc, ci=ci, co=co, b=rng.choice([[], [], [2], [2], [1, 2], [2, 3], [3, 2], [2, 1, 2]]) if D < 3 else rng.choice([[], [2], [2, 2]]),
                 cplx=rng.random() < 0.8)
        # mixed dtypes (real data with complex filter, complex output-side array with real filter, …):
        # "real or complex values" of the statement; a mixed call may be rejected with a TypeError (numpy
        # refuses to add a complex term into a real accumulator) but must never drop an imaginary part silently
        if rng.random() < 0.3:
            c["mix"] = rng.choice([[0, 1, 1], [1, 0, 1], [0, 0, 1], [1, 1, 0], [0, 1, 0], [1, 0, 0]])
        d = domain(c)
        if dom is not None and d != dom:
            continue
        if d == "mixed" and rng.random() < 0.7:
            continue
        return c


def gen_cases(rng, n2, n3):
    cases = []
    for _ in range(n2):
        cases.append(rand_case(rng, 2, 5))
    for _ in range(n3):
        cases.append(rand_case(rng, 3, 3, smax=2))
    for _ in range(max(4, n2 // 10)):   # filter longer than data with large strides (admitted, p formula ≤ 0)
        c = rand_case(rng, rng.choice([1, 2]), 4, dom="filter-longer")
        if rng.random() < 0.7:
            c["s"] = [max(1, b - a + rng.randint(0, 1)) for a, b in zip(c["m"], c["n"])]
        cases.append(c)
    return cases


BATCHES2 = [[2, 3], [3, 2], [2, 1, 2], [2, 2], [1, 2, 3]]   # two or more batch axes longer than 1


def directed_widened(rng):
    """every memory layout (on each single array and on all three) with two non-trivial batch axes, every magnitude
    (on each single array and on all three, plus the mixed 2^30-apart variant): one random admitted shape each"""
    out = []

    def base(multi_batch):
        c = rand_case(rng, rng.choice([1, 1, 2]), 4, dom="normal")
        c.pop("mix", None)
        c["b"] = rng.choice(BATCHES2) if multi_batch else rng.choice([[], [2], [2, 3]])
        return c
    for lay in LAYS[1:]:
        for which in (None, 0, 1, 2):
            c = base(True)
            c["lay"] = [lay] * 3 if which is None else [lay if i == which else "C" for i in range(3)]
            out.append(c)
    for e in SCALES + [-100]:
        for which in (None, 0, 1, 2):
            c = base(False)
            c["sc"] = [e] * 3 if which is None else [e if i == which else 0 for i in range(3)]
            out.append(c)
    for e in (-30, -40, -60):
        for which in range(3):
            for el in (False, True):
                c = base(False)
                if c["mc"] is False and not c["b"]:
                    c.update(mc=True, ci=2, co=2)
                c["sc"] = [e if i == which else 0 for i in range(3)]
                c.update(blk=NAMES[which], blkel=el)
                out.append(c)
    for spv in ([1, 1, 1], [1, 0, 1], [0, 1, 0]):
        c = base(False)
        c["sp"] = spv
        c["sc"] = [rng.choice([0] + SCALES) for _ in range(3)]
        out.append(c)
    for _ in range(4):
        c = decorate(base(True), rng, p_reuse=0)
        c["reuse"] = True
        out.append(c)
    return out


def widened_cases(rng, n1, n2, n3):
    """random cases carrying layouts / magnitudes / precisions / call histories; the 1-D ones take the shape grid of the
    exhaustive stream with batch shapes of two or more non-trivial axes"""
    ex1 = list(exhaustive_1d())
    out = directed_widened(rng)
    for c in rng.sample(ex1, n1):
        out.append(decorate(dict(c, b=rng.choice(BATCHES2 + [[2], []]), cplx=rng.random() < 0.8), rng, p_lay=0.75, p_sc=0.6))
    for _ in range(n2):
        out.append(decorate(rand_case(rng, 2, 4), rng, p_lay=0.75, p_sc=0.6))
    for _ in range(n3):
        out.append(decorate(rand_case(rng, 3, 3, smax=2), rng, p_lay=0.75, p_sc=0.6))
    return out


def rand_arr(rng, shape, cplx):
    size = int(np.prod(shape)) if len(shape) else 1
    re = np.array([rng.randint(-4, 4) for _ in range(size)], dtype=np.float64)
    if cplx:
        im = np.array([rng.randint(-4, 4) for _ in range(size)], dtype=np.float64)
        return (re + 1j * im).reshape(shape)
    return re.reshape(shape)


def make_inputs(c, rng):
    """integer 'mantissa' arrays (what the model and the reference see); the arrays handed to sigpy are
    mantissa * 2^c['sc'][i] in the precision c['sp'][i] and the memory layout c['lay'][i] (see `prep`)"""
    dsh, fsh = shapes(c)
    cd, cf, cy = c.get("mix") or [c["cplx"]] * 3
    x = dict(d=rand_arr(rng, dsh, cd), f=rand_arr(rng, fsh, cf), y=rand_arr(rng, ysh_of(c), cy))
    if c.get("blk"):
        # magnitudes that differ by 2^30 inside one array: whole (batch / channel) blocks, or single entries, of the
        # mantissa are multiplied by 2^30 (still exact integers < 2^53 after the bilinear map: at most one array per call)
        a = x[c["blk"]]
        D = len(c["m"])
        lead = a.shape[:a.ndim - D]
        if c.get("blkel") or not lead or int(np.prod(lead)) < 2:
            mask = np.array([rng.random() < 0.5 for _ in range(a.size)]).reshape(a.shape)
        else:
            bits = [rng.random() < 0.5 for _ in range(int(np.prod(lead)))]
            if all(bits) or not any(bits):
                bits[rng.randrange(len(bits))] ^= True
            mask = np.array(bits).reshape(lead + (1,) * D) & np.ones(a.shape, dtype=bool)
        x[c["blk"]] = np.where(mask, a * float(2 ** 30), a)
    return x


# ---- widening: magnitudes, precisions, memory layouts, call histories ------------------------------------
# The property quantifies over "all data and filter values", "real or complex dtypes", "batch shapes": the value of
# convolve / the adjoints is a function of the VALUES of the argument arrays only. A case may therefore carry
#   sc   = [e_d, e_f, e_y]  the array handed to sigpy is mantissa * 2^e (exact in binary floating point; by
#                           bilinearity the result is the integer result * 2^(e_a + e_b), again exact)
#   sp   = [0/1] * 3        the array is held in single precision (float32 / complex64); small integers * 2^e are exact
#   lay  = [l_d, l_f, l_y]  memory layout of the array object (same shape, same values), see LAYS
#   reuse                   the same callable (function with the same argument objects / the same Linop object) is
#                           first applied to another input of the same shape, then twice to the input; the last
#                           result counts
SCALES = [-40, -50, -60, 30]
LAYS = ["C", "F", "T", "S", "S0", "R", "P"]
NAMES = ["d", "f", "y"]
OPERANDS = {"conv": (0, 1), "dadj": (2, 1), "fadj": (2, 0)}   # which two arrays enter the bilinear map


def relayout(a, lay):
    """an array with the shape and values of `a` whose memory layout is `lay`:
    C contiguous; F Fortran-contiguous copy; T transposed view of a C-contiguous array; S / S0 strided view (every
    second element of the last / first axis of a larger buffer filled with other values); R view with negative strides
    on every axis; P axes-permuted view (neither C- nor F-contiguous when ndim >= 3)"""
    a = np.asarray(a)
    if lay == "C" or a.ndim == 0:
        return np.ascontiguousarray(a).copy()
    if lay == "F":
        return np.asfortranarray(a).copy(order="F")
    if lay == "T":
        return np.ascontiguousarray(a.T).T
    if lay in ("S", "S0"):
        ax = a.ndim - 1 if lay == "S" else 0
        sh = list(a.shape)
        sh[ax] = 2 * sh[ax] + 1
        buf = np.full(sh, 7, dtype=a.dtype)
        idx = [slice(None)] * a.ndim
        idx[ax] = slice(1, None, 2)
        v = buf[tuple(idx)]
        v[...] = a
        return v
    if lay == "R":
        rev = (slice(None, None, -1),) * a.ndim
        return np.ascontiguousarray(a[rev])[rev]
    if lay == "P":
        perm = list(range(1, a.ndim)) + [0]
        inv = [perm.index(i) for i in range(a.ndim)]
        return np.ascontiguousarray(a.transpose(perm)).transpose(inv)
    raise ValueError(lay)


def scale_arr(a, e):
    if not e:
        return a
    if np.iscomplexobj(a):
        out = np.empty(a.shape, dtype=np.complex128)
        out.real = np.ldexp(a.real, e)
        out.imag = np.ldexp(a.imag, e)
        return out
    return np.ldexp(a, e)


def unscale(a, e):
    """a * 2^-e in double precision (exact: power-of-two scaling)"""
    a = np.asarray(a)
    if np.iscomplexobj(a):
        return scale_arr(a.astype(np.complex128), -e)
    return scale_arr(a.astype(np.float64), -e)


def prep(c, x):
    """the three array objects handed to sigpy"""
    sc, sp, lay = c.get("sc") or [0, 0, 0], c.get("sp") or [0, 0, 0], c.get("lay") or ["C"] * 3
    out = {}
    for i, nm in enumerate(NAMES):
        a = scale_arr(x[nm].copy(), sc[i])
        if sp[i]:
            a = a.astype(np.complex64 if np.iscomplexobj(a) else np.float32)
        out[nm] = relayout(a, lay[i])
        assert out[nm].shape == x[nm].shape and np.array_equal(out[nm], a)
    return out


def result_exp(c, op):
    sc = c.get("sc") or [0, 0, 0]
    i, j = OPERANDS[op]
    return sc[i] + sc[j]


def extras(c):
    return tuple((k, json.dumps(c[k])) for k in ("sc", "sp", "lay", "reuse", "blk") if c.get(k))


def decorate(c, rng, p_lay=0.6, p_sc=0.5, p_sp=0.15, p_reuse=0.15):
    """add memory layouts / magnitudes / precisions / a call history to a case (shapes unchanged)"""
    c = dict(c)
    if rng.random() < p_lay:
        r = rng.random()
        if r < 0.25:
            c["lay"] = [rng.choice(["F", "T"])] * 3
        elif r < 0.4:
            c["lay"] = [rng.choice(LAYS[1:])] * 3
        else:
            c["lay"] = [rng.choice(LAYS) for _ in range(3)]
        if all(v == "C" for v in c["lay"]):
            c["lay"][rng.randrange(3)] = rng.choice(["F", "T"])
    single = rng.random() < p_sp
    if single:
        c["sp"] = rng.choice([[1, 1, 1], [1, 0, 1], [0, 1, 0], [1, 1, 0], [0, 0, 1]])
    if rng.random() < p_sc:
        r = rng.random()
        if r < 0.35:     # one array tiny / huge
            sc = [0, 0, 0]
            sc[rng.randrange(3)] = rng.choice(SCALES)
        elif r < 0.5:
            sc = [rng.choice(SCALES)] * 3
        else:
            sc = [rng.choice([0] + SCALES) for _ in range(3)]
        if not single and rng.random() < 0.1:
            sc[rng.randrange(3)] = -100
        if any(sc):
            c["sc"] = sc
        if not single and rng.random() < 0.4:
            # two magnitudes 2^30 apart inside one array, the smaller one tiny (<= 4 * 2^-30 < 1e-8)
            i = rng.randrange(3)
            sc[i] = rng.choice([-30, -40, -60])
            c["sc"] = sc
            c["blk"] = NAMES[i]
            c["blkel"] = rng.random() < 0.25
    if rng.random() < p_reuse:
        c["reuse"] = True
    return c


# ---- protocol -------------------------------------------------------------------------------------
def L(x):
    x = list(x)
    return ",".join(str(int(v)) for v in x) if x else "-"


def A(arr):
    out = []
    for v in np.asarray(arr).ravel():
        re, im = int(round(float(np.real(v)))), int(round(float(np.imag(v))))
        out.append("%d" % re if im == 0 else "%d;%d" % (re, im))
    return ",".join(out) if out else "-"


def dtypes_of(c):
    """(data, filter, output-side array) has a complex dtype"""
    return [bool(v) for v in (c.get("mix") or [c["cplx"]] * 3)]


def head(c):
    dsh, fsh = shapes(c)
    return "dsh=%s fsh=%s mode=%s st=%s mc=%d dt=%s" % (L(dsh), L(fsh), c["mode"], "none" if c["s"] is None else L(c["s"]),
                                                       1 if c["mc"] else 0, "".join("1" if v else "0" for v in dtypes_of(c)))


def parse_reply(r):
    if not r.startswith("ok "):
        return r
    shape, data = r[3:].split(" | ")
    shape = [] if shape == "-" else [int(v) for v in shape.split(",")]
    vals = []
    if data != "-":
        for t in data.split(","):
            p = t.split(";")
            vals.append((int(p[0]), int(p[1]) if len(p) > 1 else 0))
    return (shape, vals)


def canon(arr):
    """exact canonical form of an array of Gaussian integers; complex128 arithmetic on small integers is
    exact, and if scipy chooses its FFT method the rounding (≈1e-13) is removed by rounding to the nearest
    integer, which is accepted only within 1e-6 (semantic differences are ≥ 1)."""
    arr = np.asarray(arr)
    z = arr.astype(np.complex128).ravel()
    if not (np.isfinite(z.real).all() and np.isfinite(z.imag).all()):
        return "non-finite output"
    re, im = np.rint(z.real), np.rint(z.imag)
    if z.size and (np.abs(z.real - re).max() > 1e-6 or np.abs(z.imag - im).max() > 1e-6):
        return "non-integer output"
    return (list(arr.shape), [(int(a), int(b)) for a, b in zip(re, im)])


def is_cast_error(e):
    """numpy's casting TypeError (UFuncTypeError), raised directly or wrapped by Linop.apply"""
    return isinstance(e, TypeError) or isinstance(getattr(e, "__cause__", None), TypeError)


def err(e):
    if isinstance(e, RuntimeError) and e.__cause__ is not None and not is_cast_error(e):
        e = e.__cause__      # Linop.apply wraps every exception of _apply / the shape checks
    if is_cast_error(e):
        return "err TypeError"
    return "err ValueError" if isinstance(e, ValueError) else "err %s" % type(e).__name__


# (op, via) -> (class, number of .H, which shape is the constructor's shape argument, frozen array, input array):
# the request to the Lean interpretation of the generated Linop descriptions (Gen.ConvLinops; Model: linopApply)
LINOP_VIA = {
    ("conv", "linop"): ("data", 0, 0, "f", "d"), ("conv", "linop-filter"): ("filter", 0, 1, "d", "f"),
    ("conv", "adjH-data"): ("dataAdjoint", 1, 0, "f", "d"), ("conv", "adjH-filter"): ("filterAdjoint", 1, 1, "d", "f"),
    ("dadj", "linop"): ("data", 1, 0, "f", "y"), ("dadj", "linop-direct"): ("dataAdjoint", 0, 0, "f", "y"),
    ("fadj", "linop"): ("filter", 1, 1, "d", "y"), ("fadj", "linop-direct"): ("filterAdjoint", 0, 1, "d", "y"),
}


def line_linop(c, x, op, via):
    cls, h, which, arr, inp = LINOP_VIA[(op, via)]
    shp = shapes(c)
    dt = dict(zip(NAMES, dtypes_of(c)))
    return "C08 linop cls=%s H=%d sh=%s ash=%s mode=%s st=%s mc=%d ca=%d ci=%d ish=%s arr=%s x=%s" % (
        cls, h, L(shp[which]), L(x[arr].shape), c["mode"], "none" if c["s"] is None else L(c["s"]), 1 if c["mc"] else 0,
        1 if dt[arr] else 0, 1 if dt[inp] else 0, L(x[inp].shape), A(x[arr]), A(x[inp]))


def kw(c):
    return dict(mode=c["mode"], strides=None if c["s"] is None else tuple(c["s"]), multi_channel=c["mc"])


def entry(c, a, op, via):
    """(callable, name of the input array): the entry point `via` of `op` with its fixed arguments bound (a Linop is built once)"""
    import sigpy as sp
    from sigpy import linop
    dsh, fsh = shapes(c)
    d, f, y = a["d"], a["f"], a["y"]
    k = kw(c)
    if op == "conv":
        if via == "fn":
            return (lambda v: sp.convolve(v, f, **k)), "d"
        if via == "linop":
            return linop.ConvolveData(dsh, f, **k), "d"
        if via == "linop-filter":
            return linop.ConvolveFilter(fsh, d, **k), "f"
        if via == "adjH-data":      # the adjoint class's own `_adjoint_linop`
            return linop.ConvolveDataAdjoint(dsh, f, **k).H, "d"
        if via == "adjH-filter":
            return linop.ConvolveFilterAdjoint(fsh, d, **k).H, "f"
    if op == "dadj":
        if via == "fn":
            return (lambda v: sp.convolve_data_adjoint(v, f, dsh, **k)), "y"
        if via == "linop":
            return linop.ConvolveData(dsh, f, **k).H, "y"
        if via == "linop-direct":
            return linop.ConvolveDataAdjoint(dsh, f, **k), "y"
    if op == "fadj":
        if via == "fn":
            return (lambda v: sp.convolve_filter_adjoint(v, d, fsh, **k)), "y"
        if via == "linop":
            return linop.ConvolveFilter(fsh, d, **k).H, "y"
        if via == "linop-direct":
            return linop.ConvolveFilterAdjoint(fsh, d, **k), "y"
    raise ValueError((op, via))


def run_impl(c, x, op, via):
    """op in conv / dadj / fadj; via in fn / linop / linop-direct (adjoint classes built directly) /
    linop-filter (ConvolveFilter for conv) / adjH-data, adjH-filter (.H of the adjoint classes).
    Returns the result divided by the power of two the inputs were scaled with (double precision, exact)."""
    a = prep(c, x)
    fn, nm = entry(c, a, op, via)
    inp = a[nm]
    if c.get("reuse"):
        # same callable, same argument objects: another input of the same shape first, then the input twice
        other = (np.roll(np.asarray(inp).ravel(), 1) * 3).reshape(inp.shape)
        fn(relayout(other, (c.get("lay") or ["C"] * 3)[NAMES.index(nm)]))
        fn(inp)
    got = fn(inp)
    e = result_exp(c, op)
    return unscale(got, e) if e or any(c.get("sp") or []) else got


VIAS = {"conv": ["fn", "linop", "linop-filter", "adjH-data", "adjH-filter"], "dadj": ["fn", "linop", "linop-direct"],
        "fadj": ["fn", "linop", "linop-direct"]}


def lines_for(c, x):
    h = head(c)
    return {
        "conv": "C08 conv %s d=%s f=%s" % (h, A(x["d"]), A(x["f"])),
        "dadj": "C08 dadj %s ysh=%s y=%s f=%s" % (h, L(ysh_of(c)), A(x["y"]), A(x["f"])),
        "fadj": "C08 fadj %s ysh=%s y=%s d=%s" % (h, L(ysh_of(c)), A(x["y"]), A(x["d"])),
    }


def lines_1d(c, x):
    """the 1-D single-channel layer the theorems are about"""
    if not (len(c["m"]) == 1 and not c["mc"] and not c["b"] and domain(c) == "normal"):
        return {}
    h = "m=%d n=%d s=%d mode=%s" % (c["m"][0], c["n"][0], strides_of(c)[0], c["mode"])
    return {
        "conv": "C08 conv1 %s d=%s f=%s" % (h, A(x["d"]), A(x["f"])),
        "dadj": "C08 dadj1 %s y=%s f=%s" % (h, A(x["y"]), A(x["f"])),
        "fadj": "C08 fadj1 %s y=%s d=%s" % (h, A(x["y"]), A(x["d"])),
    }


def lines_mc1(c, x):
    """the 1-D batch / multi-channel layer (theorems data_adjoint_mc / filter_adjoint_mc)"""
    if not (len(c["m"]) == 1 and domain(c) == "normal"):
        return {}
    B = int(np.prod(c["b"])) if c["b"] else 1
    ci, co = (c["ci"], c["co"]) if c["mc"] else (1, 1)
    h = "B=%d ci=%d co=%d m=%d n=%d s=%d mode=%s" % (B, ci, co, c["m"][0], c["n"][0], strides_of(c)[0], c["mode"])
    return {
        "conv": "C08 mc1 which=conv %s d=%s f=%s" % (h, A(x["d"]), A(x["f"])),
        "dadj": "C08 mc1 which=dadj %s y=%s f=%s" % (h, A(x["y"]), A(x["f"])),
        "fadj": "C08 mc1 which=fadj %s y=%s d=%s" % (h, A(x["y"]), A(x["d"])),
    }


def lines_2d(c, x):
    """the 2-D single-channel layer (theorems data_adjoint_2d / filter_adjoint_2d)"""
    if not (len(c["m"]) == 2 and not c["mc"] and not c["b"] and domain(c) == "normal"):
        return {}
    h = "m=%s n=%s s=%s mode=%s" % (L(c["m"]), L(c["n"]), L(strides_of(c)), c["mode"])
    return {
        "conv": "C08 c2 which=conv %s d=%s f=%s" % (h, A(x["d"]), A(x["f"])),
        "dadj": "C08 c2 which=dadj %s y=%s f=%s" % (h, A(x["y"]), A(x["f"])),
        "fadj": "C08 c2 which=fadj %s y=%s d=%s" % (h, A(x["y"]), A(x["d"])),
    }


def lines_nd(c, x):
    """the D-dimensional single-channel layer defined by recursion over the axes (theorem adjoint_nd)"""
    if not (not c["mc"] and not c["b"] and domain(c) == "normal"):
        return {}
    h = "m=%s n=%s s=%s mode=%s" % (L(c["m"]), L(c["n"]), L(strides_of(c)), c["mode"])
    return {
        "conv": "C08 cD which=conv %s d=%s f=%s" % (h, A(x["d"]), A(x["f"])),
        "conv#F": "C08 cD which=convF %s d=%s f=%s" % (h, A(x["d"]), A(x["f"])),
        "dadj": "C08 cD which=dadj %s y=%s f=%s" % (h, A(x["y"]), A(x["f"])),
        "fadj": "C08 cD which=fadj %s y=%s d=%s" % (h, A(x["y"]), A(x["d"])),
    }


def lines_mcD(c, x):
    """the D-dimensional batch / multi-channel layer with the translator-generated wiring
    (theorems data_adjoint_nd_mc / filter_adjoint_nd_mc / adjoint_nd_mc_code)"""
    if domain(c) == "mixed":
        return {}
    B = int(np.prod(c["b"])) if c["b"] else 1
    ci, co = (c["ci"], c["co"]) if c["mc"] else (1, 1)
    h = "B=%d ci=%d co=%d m=%s n=%s s=%s mode=%s" % (B, ci, co, L(c["m"]), L(c["n"]), L(strides_of(c)), c["mode"])
    return {
        "conv": "C08 mcD which=conv %s d=%s f=%s" % (h, A(x["d"]), A(x["f"])),
        "dadj": "C08 mcD which=dadj %s y=%s f=%s" % (h, A(x["y"]), A(x["f"])),
        "fadj": "C08 mcD which=fadj %s y=%s d=%s" % (h, A(x["y"]), A(x["d"])),
    }


def norm_shape(c, op):
    B = int(np.prod(c["b"])) if c["b"] else 1
    ci, co = (c["ci"], c["co"]) if c["mc"] else (1, 1)
    return {"conv": [B, co] + true_p(c), "dadj": [B, ci] + list(c["m"]), "fadj": [co, ci] + list(c["n"])}[op]


def ser(c, x):
    return dict(case=c, d=A(x["d"]), f=A(x["f"]), y=A(x["y"]))


def deser(cc):
    c = cc["case"]
    dsh, fsh = shapes(c)

    def arr(s, sh):
        vals = []
        if s != "-":
            for t in s.split(","):
                p = t.split(";")
                vals.append(complex(int(p[0]), int(p[1]) if len(p) > 1 else 0))
        return np.array(vals, dtype=np.complex128).reshape(sh)
    cd, cf, cy = c.get("mix") or [c["cplx"]] * 3
    fix = lambda a, cx: a if cx else a.real.copy()
    return c, dict(d=fix(arr(cc["d"], dsh), cd), f=fix(arr(cc["f"], fsh), cf), y=fix(arr(cc["y"], ysh_of(c)), cy))


def count_extras(ctx, c, op):
    i, j = OPERANDS[op]
    if c.get("lay"):
        ctx.count("layout:%s:%s+%s:%s" % (op, c["lay"][i], c["lay"][j], "B>=2axes" if sum(1 for v in c["b"] if v > 1) >= 2 else "B<2axes"))
    if c.get("sc"):
        ctx.count("magnitude:%s:2^%d*2^%d%s" % (op, c["sc"][i], c["sc"][j], ":mixed-2^30" if c.get("blk") in (NAMES[i], NAMES[j]) else ""))
    if c.get("sp"):
        ctx.count("single-precision:%s:%d%d" % (op, c["sp"][i], c["sp"][j]))
    if c.get("reuse"):
        ctx.count("reuse:%s" % op)


def _run(ctx, cases, stream, rng, vias=None):
    lines, meta = [], []
    for c in cases:
        x = make_inputs(c, rng)
        for op, ln in lines_for(c, x).items():
            for via in (vias or VIAS)[op]:
                # the functions: the flat-array model of conv.py; the Linops: the generated class descriptions
                # (constructor, .H, _apply) interpreted in Lean on top of the same model
                lines.append(ln if via == "fn" else line_linop(c, x, op, via))
                meta.append((c, x, op, "nd", via))
        for layer, fn in (("1d", lines_1d), ("mc1", lines_mc1), ("2d", lines_2d), ("nD", lines_nd), ("mcD", lines_mcD)):
            for op, ln in fn(c, x).items():
                lines.append(ln)
                meta.append((c, x, op.split("#")[0], layer, "fn"))
    replies = ctx.driver(lines)
    bad = 0
    for (c, x, op, layer, via), ln, r in zip(meta, lines, replies):
        model = parse_reply(r)
        dom = domain(c)
        try:
            got = run_impl(c, x, op, via)
            impl = canon(np.reshape(got, norm_shape(c, op)) if layer in ("mc1", "mcD") else got)
        except Exception as e:  # noqa
            impl = err(e)
            if c.get("mix") and is_cast_error(e):
                ctx.count("mixed-dtype-rejected:%s:%s" % (op, "".join("c" if v else "r" for v in dtypes_of(c))))
                if layer != "nd":
                    continue   # the index-level layers carry no dtypes: nothing to compare
        ex = extras(c)
        ctx.case((ln, via, ex), nontrivial=True,
                 sample=dict(line=ln[:160], via=via, reply=r[:100], **dict(ex)) if ctx.evaluations % 397 == 0 else None)
        ctx.count("%s:%s:D%d:%s:%s" % (op, c["mode"], len(c["m"]), dom, "mc" if c["mc"] else "sc"))
        if ex and layer == "nd":
            count_extras(ctx, c, op)
        if impl != model:
            bad += 1
            ctx.disagree(stream, dict(ser(c, x), op=op, via=via, layer=layer), impl, model)
    return bad


# ---- error behaviour: argument combinations outside the admitted ones ------------------------------------
def error_cases(rng, n):
    """raw calls (data shape, filter shape, mode string, strides, multi_channel, shape of the output-side array):
    rank mismatch, channel mismatch, strides of the wrong length, mixed valid sizes, unknown mode, an output-side
    array of the wrong shape / size for the adjoints — plus the same generator's admitted calls as controls"""
    out = []
    for _ in range(n):
        c = rand_case(rng, rng.choice([1, 1, 2]), 4)
        c.pop("mix", None)
        c["cplx"] = True
        dsh, fsh = shapes(c)
        ysh = ysh_of(c) if domain(c) != "mixed" else list(c["b"]) + ([c["co"]] if c["mc"] else []) + [1] * len(c["m"])
        mode, st, mc = c["mode"], (None if c["s"] is None else list(c["s"])), c["mc"]
        D = len(c["m"])
        kind = rng.choice(["ok", "rank-data", "rank-filt", "channel", "strides-len", "mode", "ysh-p", "ysh-size", "ysh-batch",
                           "mixed"])
        if kind == "rank-data":       # data with fewer axes than the filter needs
            keep = rng.randint(0, D + (1 if mc else 0) - 1)
            dsh = dsh[len(dsh) - keep:] if keep else []
        elif kind == "rank-filt":     # a filter with one more spatial axis than the data has axes to give
            fsh = fsh + [rng.randint(1, 2)] * (len(dsh) - D - (1 if mc else 0) + 1)
        elif kind == "channel":
            if not mc:
                mc, dsh, fsh = True, list(c["b"]) + [2] + list(c["m"]), [2, 3] + list(c["n"])
            else:
                fsh = [fsh[0], fsh[1] + 1] + fsh[2:]
        elif kind == "strides-len":
            st = [1] * (D + rng.choice([-1, 1]))
        elif kind == "mode":
            mode = "other"
        elif kind == "ysh-p":         # one spatial extent of the output-side array off by one
            i = len(ysh) - 1 - rng.randrange(D)
            ysh = ysh[:i] + [ysh[i] + 1] + ysh[i + 1:]
        elif kind == "ysh-size":      # same number of axes, another element count
            ysh = ysh[:-1] + [ysh[-1] + 2]
        elif kind == "ysh-batch":     # flattened / re-split batch axes: same element count (reshape accepts it)
            ysh = [int(np.prod(ysh))] if rng.random() < 0.5 else [1] + ysh
        elif kind == "mixed":
            if D < 2:
                kind = "ok"
            else:
                c2 = rand_case(rng, 2, 4, dom="mixed")
                c2.pop("mix", None)
                c2["mode"] = "valid"
                dsh, fsh = shapes(c2)
                mode, st, mc = "valid", (None if c2["s"] is None else list(c2["s"])), c2["mc"]
                ysh = list(c2["b"]) + ([c2["co"]] if mc else []) + [1, 1]
        out.append(dict(kind=kind, dsh=[int(v) for v in dsh], fsh=[int(v) for v in fsh], mode=mode, st=st, mc=bool(mc),
                        ysh=[int(v) for v in ysh]))
    return out


def raw_call(e, x, op):
    import sigpy as sp
    k = dict(mode={"other": "same"}.get(e["mode"], e["mode"]), strides=None if e["st"] is None else tuple(e["st"]),
             multi_channel=e["mc"])
    if op == "conv":
        return sp.convolve(x["d"], x["f"], **k)
    if op == "dadj":
        return sp.convolve_data_adjoint(x["y"], x["f"], tuple(e["dsh"]), **k)
    return sp.convolve_filter_adjoint(x["y"], x["d"], tuple(e["fsh"]), **k)


def raw_lines(e, x):
    h = "dsh=%s fsh=%s mode=%s st=%s mc=%d dt=111" % (L(e["dsh"]), L(e["fsh"]), e["mode"], "none" if e["st"] is None else L(e["st"]),
                                                     1 if e["mc"] else 0)
    return {"conv": "C08 conv %s d=%s f=%s" % (h, A(x["d"]), A(x["f"])),
            "dadj": "C08 dadj %s ysh=%s y=%s f=%s" % (h, L(e["ysh"]), A(x["y"]), A(x["f"])),
            "fadj": "C08 fadj %s ysh=%s y=%s d=%s" % (h, L(e["ysh"]), A(x["y"]), A(x["d"]))}


UNMODELLED = ("err bad-rank", "err IndexError", "err domain")   # the model only says: raises


def run_errors(ctx, rng, n):
    es, lines, meta = error_cases(rng, n), [], []
    for e in es:
        x = dict(d=rand_arr(rng, e["dsh"], True), f=rand_arr(rng, e["fsh"], True), y=rand_arr(rng, e["ysh"], True))
        for op, ln in raw_lines(e, x).items():
            lines.append(ln)
            meta.append((e, x, op))
    bad = 0
    for (e, x, op), ln, r in zip(meta, lines, ctx.driver(lines)):
        model = parse_reply(r)
        try:
            impl = canon(raw_call(e, x, op))
        except Exception as ex:  # noqa
            impl = err(ex)
        ctx.case((ln,), nontrivial=True, sample=dict(line=ln[:160], reply=r[:100]) if ctx.evaluations % 397 == 0 else None)
        ctx.count("args:%s:%s:%s" % (op, e["kind"], "raises" if isinstance(impl, str) else "returns"))
        agree = impl == model or (isinstance(impl, str) and isinstance(model, str) and model in UNMODELLED)
        if not agree:
            bad += 1
            ctx.disagree("errors", dict(raw=e, op=op, d=A(x["d"]), f=A(x["f"]), y=A(x["y"])), impl, model)
    return bad


def correspond(ctx):
    ctx.rule = ("case = (D, data lengths m, filter lengths n, strides or None, mode, multi_channel, c_i, c_o, batch "
                "shape, real/complex) with random Gaussian-integer data, filter and output-side array; each case is run "
                "through convolve / convolve_data_adjoint / convolve_filter_adjoint as functions and through the Linops "
                "ConvolveData / ConvolveFilter (and .H, and the Adjoint classes directly) and compared exactly with the "
                "Lean model (N-D layer; for D=1 also the 1-D single-channel and 1-D batch/multi-channel layers the theorems are "
                "about); distinct by "
                "protocol line + entry point; D=1: lengths 1-5 x strides None,1-3 x modes x channel configs x batch "
                "exhaustively; D=2: (m,n,mode) exhaustive in the thorough tier, sampled in quick; D=3 sampled. Stream 'widened': the "
                "same integer arrays handed to sigpy times powers of two (2^-30..2^-100, 2^30; two magnitudes 2^30 apart "
                "inside one array), in single precision, in Fortran-ordered / transposed / strided / negative-stride / "
                "axes-permuted memory layouts (each array independently), with batch shapes of >= 2 non-trivial axes, and "
                "through a callable that was applied to another input before; results are divided by the power of two "
                "(exact) and compared exactly with the same model reply. Stream 'errors': raw calls of the three functions "
                "with a rank mismatch, a channel mismatch, strides of the wrong length, an unknown mode string, mixed valid "
                "sizes, an output-side array of a wrong extent / element count / re-split batch axes (and admitted controls): "
                "exception class or exact value")
    ctx.assumptions += [
        "scipy.signal.convolve/correlate enter the model by their index contracts (convOff, corrShift, scipyLen), numpy "
        "slicing/broadcast/reshape/np.zeros by sliceLen/bcast/npReshape and Linop.__init__/apply by their shape checks: "
        "hand-written, validated by the correspondence only",
        "translator-generated: the length formulas, the admission test, the adjoints' correlate-mode branches (Gen.ConvFormulas); "
        "the (batch, c_o, c_i) loop wiring, zero-stuffing statement, `+=`, `[slc]`, allocation dtypes, every reshape target "
        "(normalisation before the loops, final reshape per multi_channel branch) and the shape arguments of the "
        "_get_convolve_params call of the three functions (Gen.ConvWiring); constructor / _apply / _adjoint_linop of the four "
        "Linop classes (Gen.ConvLinops, interpreted by the model: linopShapes / linopAdjoint / linopApply); how "
        "_get_convolve_params splits the shapes, its strides default and length check, and its guard table - every `raise` in "
        "source order with its exception class (Gen.ConvParams)",
        "proved (Props/C08Flat.lean): the flat-array functions the driver runs equal the index-level definitions of the adjoint "
        "theorems on every admitted call; for every argument combination they return exactly the computed shape or an error; "
        "the Linop wiring pairs each class with its adjoint function",
        "numpy's casting rules (silent complex->real cast on item assignment, TypeError on in-place add of a complex term into a "
        "real array) are a hand-written contract (convDtypeRule / adjDtypeRule), validated by the mixed-dtype correspondence cases",
        "the model's domain is positive extents and strides (zero-size arrays / non-positive strides answer `err domain` and are "
        "never requested); argument combinations the model only classifies as `raises` (rank mismatch) are compared by "
        "raises / returns, all others by exception class and value",
        "widened stream: mantissa * 2^e is exact in binary floating point and the maps are bilinear, so the result of the real "
        "code divided by 2^(e_a + e_b) is compared exactly with the model reply for the integer mantissas (no underflow: "
        "|e_a + e_b| <= 200 in double, >= -120 in single precision; integers stay < 2^53); memory layout, precision and "
        "call history do not enter the model at all (the property is about array values)",
        "cuDNN paths are out of scope",
    ]
    rng = ctx.rng
    quick = ctx.tier == "quick"
    ex1 = list(exhaustive_1d())
    bad = _run(ctx, ex1, "1d-exhaustive", rng)
    ctx.oblige("correspondence:C08.1d", "correspondence", bad == 0, "%d disagreements" % bad)
    ex2 = []
    mn = list(mn_2d())
    if quick:
        mn = rng.sample(mn, 500)
    else:
        mn = mn * 4   # every (m, n, mode) with four stride / channel / batch configurations
    for m, n, mode in mn:
        mc, ci, co = rng.choice(CH)
        ex2.append(dict(m=m, n=n, s=None if rng.random() < 0.1 else [rng.randint(1, 3), rng.randint(1, 3)], mode=mode,
                        mc=mc, ci=ci, co=co, b=rng.choice([[], [2]]), cplx=True))
    for m, n, mode in (rng.sample(list(mn_2d()), 250) if quick else list(mn_2d())):   # single-channel, no batch
        ex2.append(dict(m=m, n=n, s=[rng.randint(1, 3), rng.randint(1, 3)], mode=mode, mc=False, ci=1, co=1, b=[],
                        cplx=True))
    bad = _run(ctx, ex2, "2d-grid", rng)
    ctx.oblige("correspondence:C08.2d", "correspondence", bad == 0, "%d disagreements" % bad)
    cases = gen_cases(rng, 400 if quick else 4000, 100 if quick else 1200)
    for _ in range(60 if quick else 500):   # single-channel, no batch, D = 3 (and a few D = 4): the recursive N-D layer
        c = rand_case(rng, 3 if rng.random() < 0.85 else 4, 3, smax=2, dom="normal")
        c.update(mc=False, ci=1, co=1, b=[])
        cases.append(c)
    bad = _run(ctx, cases, "random", rng)
    ctx.oblige("correspondence:C08.random", "correspondence", bad == 0, "%d disagreements" % bad)
    wid = widened_cases(rng, 250 if quick else 1500, 150 if quick else 1200, 30 if quick else 300)
    bad = _run(ctx, wid, "widened", rng)
    ctx.oblige("correspondence:C08.widened", "correspondence", bad == 0, "%d disagreements" % bad)
    bad = run_errors(ctx, rng, 400 if quick else 4000)
    ctx.oblige("correspondence:C08.errors", "correspondence", bad == 0, "%d disagreements" % bad)
    ctx.traces = ctx.evaluations


# ---- the property's own oracle (written from the statement; independent of the model) ---------------
def ref_conv(c, d, f):
    """every output sample is the sum over input channels and filter taps of data times flipped filter:
    out[b, co, k] = Σ_ci Σ_i d[b, ci, i] · f[co, ci, k·s + off - i], off = 0 ('full') or min(m, n) - 1 ('valid':
    the fully overlapping samples), k·s below the un-strided length."""
    m, n, s = c["m"], c["n"], strides_of(c)
    D = len(m)
    B = int(np.prod(c["b"])) if c["b"] else 1
    ci, co = (c["ci"], c["co"]) if c["mc"] else (1, 1)
    dd = d.reshape([B, ci] + m)
    ff = f.reshape([co, ci] + n)
    off = [0 if c["mode"] == "full" else min(a, b) - 1 for a, b in zip(m, n)]
    p = true_p(c)
    out = np.zeros([B, co] + p, dtype=np.complex128)
    for k in itertools.product(*[range(v) for v in p]):
        for i in itertools.product(*[range(v) for v in m]):
            j = tuple(kk * ss + oo - ii for kk, ss, oo, ii in zip(k, s, off, i))
            if all(0 <= jj < nn for jj, nn in zip(j, n)):
                for o in range(co):
                    for q in range(ci):
                        out[(slice(None), o) + k] += dd[(slice(None), q) + i] * ff[(o, q) + j]
    return out.reshape(list(c["b"]) + ([co] if c["mc"] else []) + p)


def exact_vdot(a, b):
    """Σ conj(a)·b over Gaussian integers, in Python integers"""
    a = np.asarray(a).astype(np.complex128).ravel()
    b = np.asarray(b).astype(np.complex128).ravel()
    if a.shape != b.shape:
        return None
    re = im = 0
    for u, v in zip(a, b):
        ur, ui, vr, vi = int(round(u.real)), int(round(u.imag)), int(round(v.real)), int(round(v.imag))
        re += ur * vr + ui * vi
        im += ur * vi - ui * vr
    return (re, im)


def key_of(c, op, via):
    if domain(c) == "filter-longer":
        return "C08:valid:filter-longer"
    name = {"conv": "convolve", "dadj": "data_adjoint", "fadj": "filter_adjoint"}[op]
    return "C08:%s:%s%s" % (name, c["mode"], "" if via == "fn" else ":linop")


def judge(c, x, op, via):
    """None = the property holds on this call, else dict(what, case, observed, expected)"""
    dom = domain(c)
    if dom == "mixed":
        return None  # not admitted by the mode; the statement demands nothing (the model says: rejected)
    case = dict(ser(c, x), op=op, via=via)
    dsh, fsh = shapes(c)
    try:
        got = run_impl(c, x, op, via)
    except Exception as e:  # noqa
        if dom == "filter-longer":
            return None  # rejected
        if c.get("mix") and (isinstance(e, TypeError) or isinstance(e.__cause__, TypeError)):
            return None  # mixed dtypes rejected with a casting error (not silently wrong)
        return dict(what="%s (%s) raised %s on a shape combination it must compute" % (op, via, type(e).__name__),
                    case=case, observed=repr(e), expected="result")
    ref = ref_conv(c, x["d"], x["f"])
    what = "valid mode, filter longer than data on every axis: " if dom == "filter-longer" else ""
    if op == "conv":
        g = canon(got)
        w = canon(ref)
        if g != w:
            return dict(what=what + "convolve returned an array that is not the convolution of the statement "
                        "(shape %s, expected shape %s)" % (list(np.shape(got)), w[0]), case=case, observed=g, expected=w)
        return None
    want_shape = dsh if op == "dadj" else fsh
    if list(np.shape(got)) != want_shape:
        return dict(what=what + "%s returned shape %s, requested %s" % (op, list(np.shape(got)), want_shape),
                    case=case, observed=list(np.shape(got)), expected=want_shape)
    if isinstance(canon(got), str):
        return dict(what=what + "%s returned %s on integer inputs (times a power of two)" % (op, canon(got)), case=case,
                    observed=repr(np.asarray(got).ravel().tolist()[:20]), expected="Gaussian integers")
    # <conv(d, f), y> = <d, adj_d(y)> = <f, adj_f(y)> for the given y and fresh random arguments of the other side
    rng = np.random.RandomState(zlib.crc32(A(x["y"]).encode()) % (2 ** 31))
    for t in range(3):
        if op == "dadj":
            u = x["d"] if t == 0 else rand_like(rng, x["d"])
            fw = ref_conv(c, u, x["f"])
        else:
            u = x["f"] if t == 0 else rand_like(rng, x["f"])
            fw = ref_conv(c, x["d"], u)
        lhs = exact_vdot(x["y"], fw)      # Σ conj(y)·conv
        rhs = exact_vdot(got, u)          # Σ conj(adj y)·u
        if lhs != rhs:
            return dict(what=what + "%s is not the adjoint: <y, conv(u)> = %s but <adj(y), u> = %s" % (op, lhs, rhs),
                        case=dict(case, u=A(u)), observed=rhs, expected=lhs)
    return None


WIDENINGS = [("reuse", "history"), ("sp", "single-precision"), ("sc", "magnitude"), ("lay", "layout")]


def check_one(ctx, c, x, op, via, origin):
    """True = the property holds on this call. A failing case is first reduced: every widening (call history,
    precision, power-of-two scaling, memory layout - then the layout of each single array) that is not needed for the
    failure is removed, and the finding key names the ones that are."""
    v = judge(c, x, op, via)
    if v is None:
        return True
    for k, _ in WIDENINGS:
        if c.get(k):
            t = {kk: vv for kk, vv in c.items() if kk != k}
            v2 = judge(t, x, op, via)
            if v2 is not None:
                c, v = t, v2
    if c.get("lay"):
        for i in range(3):
            if c["lay"][i] != "C":
                t = dict(c, lay=c["lay"][:i] + ["C"] + c["lay"][i + 1:])
                v2 = judge(t, x, op, via)
                if v2 is not None:
                    c, v = t, v2
    if c.get("sc"):
        for i in range(3):
            if c["sc"][i]:
                t = dict(c, sc=c["sc"][:i] + [0] + c["sc"][i + 1:])
                v2 = judge(t, x, op, via)
                if v2 is not None:
                    c, v = t, v2
    suffix = "".join(":" + nm for k, nm in WIDENINGS if c.get(k))
    what = v["what"]
    if suffix:
        what += " [needs%s; the same call with C-contiguous double-precision unscaled arrays and no call history is correct]" % suffix.replace(":", " ")
    ctx.fail(key_of(c, op, via) + suffix, what, v["case"], observed=v["observed"], expected=v["expected"], origin=origin)
    return False





def rand_like(rng, a):
    re = rng.randint(-4, 5, size=a.shape).astype(np.float64)
    if np.iscomplexobj(a):
        return re + 1j * rng.randint(-4, 5, size=a.shape)
    return re


def check_case(ctx, c, x, origin, ops=None):
    ok = True
    for op in ops or ("conv", "dadj", "fadj"):
        for via in VIAS[op]:
            ctx.case(("oracle", head(c), op, via, A(x["y"])[:40], extras(c)))
            ok = check_one(ctx, c, x, op, via, origin) and ok
    return ok


MUST_RAISE = {"rank-data": "data with too few axes for the filter", "rank-filt": "filter with more spatial axes than the data",
              "channel": "different channel counts in data and filter", "strides-len": "strides of the wrong length",
              "mode": "unknown mode string", "mixed": "valid mode, data longer on one axis and shorter on another",
              "ysh-p": "output-side array with a wrong spatial extent", "ysh-size": "output-side array with a wrong element count"}


def check_raw(ctx, e, x, op, origin):
    """the property on a raw call: a combination that is not admitted must be rejected (an exception), never answered
    with an array; an admitted one must give the requested / computed shape"""
    if op == "conv" and e["kind"].startswith("ysh"):
        return True
    try:
        got = raw_call(e, x, op)
    except Exception:  # noqa
        return True
    shape = list(np.shape(got))
    case = dict(raw=e, op=op, d=A(x["d"]), f=A(x["f"]), y=A(x["y"]))
    if e["kind"] in MUST_RAISE:
        ctx.fail("C08:args:%s:%s" % (e["kind"], op), "%s returned an array of shape %s for a call that must be rejected (%s)" % (
            op, shape, MUST_RAISE[e["kind"]]), case, observed=shape, expected="an exception", origin=origin)
        return False
    want = {"dadj": e["dsh"], "fadj": e["fsh"]}.get(op)
    if want is not None and shape != want:
        ctx.fail("C08:args:%s:%s" % (e["kind"], op), "%s returned shape %s, requested %s" % (op, shape, want), case,
                 observed=shape, expected=want, origin=origin)
        return False
    return True


def deser_raw(cc):
    e = cc["raw"]

    def arr(t, sh):
        vals = []
        if t != "-":
            for u in t.split(","):
                q = u.split(";")
                vals.append(complex(int(q[0]), int(q[1]) if len(q) > 1 else 0))
        return np.array(vals, dtype=np.complex128).reshape(sh)
    return e, dict(d=arr(cc["d"], e["dsh"]), f=arr(cc["f"], e["fsh"]), y=arr(cc["y"], e["ysh"]))


def search(ctx, budget):
    rng = ctx.rng
    for dgr in ctx.disagreements[:100]:
        cc = dgr["case"]
        if "raw" in cc:
            e, x = deser_raw(cc)
            check_raw(ctx, e, x, cc["op"], "disagreement")
            continue
        c, x = deser(cc)
        check_one(ctx, c, x, cc["op"], cc["via"], "disagreement")
    for e in error_cases(rng, int(150 * budget)):
        x = dict(d=rand_arr(rng, e["dsh"], True), f=rand_arr(rng, e["fsh"], True), y=rand_arr(rng, e["ysh"], True))
        for op in ("conv", "dadj", "fadj"):
            ctx.case(("oracle-args", json.dumps(e, sort_keys=True), op))
            check_raw(ctx, e, x, op, "search-args")
    # directed: every 1-D (m, n, s, mode) once with a random channel/batch configuration
    ex1 = list(exhaustive_1d())
    grid = {}
    for c in ex1:
        grid.setdefault((c["m"][0], c["n"][0], None if c["s"] is None else c["s"][0], c["mode"]), []).append(c)
    for k, lst in grid.items():
        c = rng.choice(lst)
        check_case(ctx, c, make_inputs(c, rng), "search-1d")
    for c in gen_cases(rng, int(120 * budget), int(20 * budget)):
        check_case(ctx, c, make_inputs(c, rng), "search")
    # the same value-level property with the arrays in other memory layouts / magnitudes / precisions / histories
    for c in widened_cases(rng, int(100 * budget), int(100 * budget), int(15 * budget)):
        check_case(ctx, c, make_inputs(c, rng), "search-widened")
    if budget > 1:
        for c in rng.sample(ex1, min(len(ex1), int(150 * budget))):
            check_case(ctx, c, make_inputs(c, rng), "search-1d")


def replay(path):
    r = json.load(open(path))
    print(json.dumps(r, indent=1)[:3000])
    if r.get("kind") != "failing-input":
        return 0
    cc = r["case"]
    ctx = common.Ctx(PROPERTY, "quick", 0)
    if "raw" in cc:
        e, x = deser_raw(cc)
        ok = check_raw(ctx, e, x, cc["op"], "replay")
        print("model:", ctx.driver([raw_lines(e, x)[cc["op"]]])[0][:300])
        for f in ctx.failures:
            print("oracle:", f["what"])
        print("replay:", "property holds on this input" if ok else "property FAILS on this input")
        return 0 if ok else 1
    c, x = deser(cc)
    ok = check_one(ctx, c, x, cc["op"], cc["via"], "replay")
    ln = lines_for(c, x)[cc["op"]]
    print("model:", ctx.driver([ln])[0][:300])
    try:
        print("impl :", canon(run_impl(c, x, cc["op"], cc["via"])))
    except Exception as e:  # noqa
        print("impl : raised", repr(e))
    for f in ctx.failures:
        print("oracle:", f["what"])
    print("replay:", "property holds on this input" if ok else "property FAILS on this input")
    return 0 if ok else 1
