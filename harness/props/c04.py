"""C04 — the normal operator A.N is A^H A.

Shares the model, the protocol and the generators with C01 (harness/props/c01.py):
correspond: the implementation's matrix of A.N (basis vectors + a Gaussian-integer vector) against
  the Lean model's `denote (normal e)` (third matrix of the `mats` reply), for every class and
  random trees;
search: A.N(x) vs A.H(A(x)) on the real objects — exact on Gaussian integers where the arithmetic is
  exact, 1e-6 relative for FFT / NUFFT(toeplitz=False) / wavelet / convolution leaves, and for the
  Toeplitz NUFFT normal a relative l2 error of at most twice the C06 bound (6 % at the default
  oversamp=1.25/width=4, 0.6 % at oversamp=2).
"""
import json
import warnings

import numpy as np

from harness import common
from harness.props import c01 as B
from harness.translate import gen as G

PROPERTY = "C04"
LEAN_MODULES = ["SigpyVerif.Props.C04", "SigpyVerif.Lemmas.C04Cover"]
THEOREMS = ["SigpyVerif.C04." + t for t in [
    "normal_eq_default", "normal_default", "normal_gram", "circshift_normal_axis",
    "b2a1_a2b1_cover_partial", "coverScatter_eq_coverPairs", "b2a1_a2b1_cover", "cover_tiling", "cover_overlap",
    "cover_gap", "cover_witness", "blocks_identity_wrong_witness",
]] + ["SigpyVerif.C01.applyF_compE", "SigpyVerif.C01.adj_denote"]


def translate(ctx):
    G.regenerate(ctx, ["Block", "UtilFormulas", "LinopFormulas", "Interp"])


def correspond(ctx):
    B.correspond(ctx, which=("MN",))
    ctx.assumptions.append("FFT/IFFT normal = Identity is C05's unitarity theorem; the Toeplitz NUFFT normal's accuracy is "
                           "inherited from C06 (search oracle with the stated tolerance only)")


def blocks_key(spec):
    ls = sorted(set(lf[1] for lf in B.leaves(spec)))
    tags = B.node_tags(spec)
    if ls == ["a2b"] and not tags:
        return "C04:ArrayToBlocks.N"
    if ls == ["b2a"] and not tags:
        return "C04:BlocksToArray.N"
    return None


def nkey(spec, what):
    k = blocks_key(spec)
    if k:
        return k
    k = B.class_key(spec)
    return "C04:%s.N:%s" % (B.CLASSNAME.get(k, k), what)


def toeplitz_tol(p):
    """twice the C06 relative bound for this oversamp/width"""
    if p["oversamp"] >= 2 and p["width"] >= 4:
        return 0.006
    if p["oversamp"] == 1.25 and p["width"] == 4:
        return 0.06
    return None  # other settings: the statement gives no number; only finiteness / shape are checked


def normal_oracle(ctx, spec, x=None, origin="search"):
    """A.N(x) == A.H(A(x)).  Returns True when the property holds."""
    exact = B.is_exact(spec)
    case = dict(spec=spec)
    with warnings.catch_warnings():
        warnings.simplefilter("ignore")
        try:
            A = B.build(spec)
            AH = A.H
        except Exception:
            return True  # construction / adjoint problems are C01's / C03's
        try:
            AN = A.N
        except Exception as e:
            ctx.fail(nkey(spec, "build"), "A.N cannot be constructed", case, observed=repr(e.__cause__ or e),
                     expected="normal operator", origin=origin)
            return False
        if B.oshp(AN) != B.ishp(A) or B.ishp(AN) != B.ishp(A):
            ctx.fail(nkey(spec, "shape"), "A.N is not ishape x ishape", case,
                     observed=dict(oshape=B.oshp(AN), ishape=B.ishp(AN)), expected=B.ishp(A), origin=origin)
            return False
        x = B.gvec(ctx.rng, A.ishape) if x is None else np.asarray(x)
        case["x"] = [[float(v.real), float(v.imag)] for v in np.asarray(x, dtype=np.complex128).reshape(-1)]
        try:
            want = np.asarray(AH(np.asarray(A(x.copy()))))
        except Exception:
            return True
        try:
            got = np.asarray(AN(x.copy()))
        except Exception as e:
            ctx.fail(nkey(spec, "apply"), "A.N raises although A.H(A(x)) works", case, observed=repr(e.__cause__ or e),
                     expected="A.H(A(x))", origin=origin)
            return False
    if got.shape != want.shape:
        ctx.fail(nkey(spec, "shape"), "A.N(x) has the wrong shape", case, observed=list(got.shape), expected=list(want.shape),
                 origin=origin)
        return False
    toep = [lf[2] for lf in B.leaves(spec) if lf[1] == "nufft" and lf[2].get("toeplitz")]
    err = float(np.linalg.norm(got - want))
    ref = float(np.linalg.norm(want))
    if toep:
        tol = toeplitz_tol(toep[0])
        if tol is None:
            ok = bool(np.all(np.isfinite(got)))
        else:
            ok = err <= tol * ref + 1e-9
        expect = "relative l2 error <= %s (twice the C06 bound)" % tol
    elif exact:
        ok = bool(np.array_equal(got, want))
        expect = "exactly equal"
    else:
        ok = err <= 1e-6 * max(ref, 1e-30) + 1e-12
        expect = "relative l2 error <= 1e-6"
    if not ok:
        ctx.fail(nkey(spec, "toeplitz" if toep else "value"), "A.N(x) != A.H(A(x))", case,
                 observed=dict(AN=got.reshape(-1).tolist()[:30], rel_err=err / max(ref, 1e-30)),
                 expected=dict(AHA=want.reshape(-1).tolist()[:30], tolerance=expect), origin=origin)
    return ok


def gen_toeplitz(rng):
    d = rng.choice([1, 2, 2])
    g = [rng.randint(4, 10) for _ in range(d)]
    npts = rng.randint(3, 30)
    coord = [[rng.uniform(-n / 2, n / 2) for n in g] for _ in range(npts)]
    ov, w = rng.choice([(1.25, 4), (1.25, 4), (2, 4), (2, 6), (1.5, 3)])
    return ["leaf", "nufft", dict(sh=g, pts=[npts], coord=coord, oversamp=ov, width=w, toeplitz=True)]


def exhaustive_blocks():
    for n in range(1, 8):
        for b in range(1, n + 1):
            for s in range(1, 4):
                yield ["leaf", "a2b", dict(sh=[n], blk=[b], str=[s])]
                yield ["leaf", "b2a", dict(sh=[n], blk=[b], str=[s])]


def search(ctx, budget):
    rng = ctx.rng
    warnings.simplefilter("ignore")
    for d in ctx.disagreements[:100]:
        normal_oracle(ctx, d["case"]["spec"], origin="disagreement")
    # the documented witness of the pinned defect and all small 1-D block layouts
    for spec in [["leaf", "a2b", dict(sh=[5], blk=[2], str=[1])], ["leaf", "b2a", dict(sh=[5], blk=[2], str=[1])]]:
        ctx.case(("oracle", json.dumps(spec)))
        normal_oracle(ctx, spec, x=np.arange(1, 1 + B.prod(B.build(spec).ishape), dtype=np.complex128).reshape(B.build(spec).ishape))
    blocks = list(exhaustive_blocks())
    for spec in (blocks if budget > 1 else rng.sample(blocks, 40)):
        ctx.case(("oracle", json.dumps(spec)))
        ctx.count("oracle:blocks-1d")
        normal_oracle(ctx, spec)
    for spec, _ in B.class_sweep(rng, max(2, int(3 * budget))):
        ctx.case(("oracle", json.dumps(spec)))
        ctx.count("oracle:class:" + spec[1])
        normal_oracle(ctx, spec)
    for i in range(int(250 * budget)):
        spec, _ = B.gen_tree(rng, rng.choice([1, 2, 3, 4]), None, stack_neg=B.probes()["neg_stack"])
        if rng.random() < 0.3:
            spec = ["N", spec] if rng.random() < 0.3 else spec
        ctx.case(("oracle", json.dumps(spec)))
        ctx.count("oracle:tree")
        normal_oracle(ctx, spec)
    for i in range(int(150 * budget)):
        spec, A = B.gen_opaque(rng)
        spec, A = B.wrap_opaque(rng, spec, A)
        ctx.case(("oracle", json.dumps(spec)))
        ctx.count("oracle:opaque:" + next(iter(B.leaves(spec)))[1])
        normal_oracle(ctx, spec)
    for i in range(int(25 * budget)):
        spec = gen_toeplitz(rng)
        ctx.case(("oracle", json.dumps(spec)))
        ctx.count("oracle:nufft-toeplitz:%s/%s" % (spec[2]["oversamp"], spec[2]["width"]))
        normal_oracle(ctx, spec)


def replay(path):
    def orc(ctx, c):
        x = None
        if "x" in c:
            try:
                A = B.build(c["spec"])
                x = np.array([complex(a, b) for a, b in c["x"]]).reshape(A.ishape)
            except Exception:
                x = None
        return normal_oracle(ctx, c["spec"], x=x, origin="replay")
    return B.replay(path, oracle=orc)
