"""C04 — the normal operator A.N is A^H A.

Shares the model, the protocol and the generators with C01 (harness/props/c01.py):
correspond: the implementation's matrix of A.N (basis vectors + a Gaussian-integer vector) against
  the Lean model's `denote (normal e)` (third matrix of the `mats` reply), for every class and
  random trees;
  plus (stream `cover`) the real `A.H(A(1))` / `A.N(1)` of ArrayToBlocks in 1-3 D against the product of
  the per-axis cover counts printed by the Lean driver (`C04.coverAxis`: `coverPairs` with the `num_blks`
  formula regenerated from ArrayToBlocks.__init__) - the statement of `b2a{1,2,3}_a2b{1,2,3}_cover`;
search: A.N(x) vs A.H(A(x)) on the real objects — exact on Gaussian integers where the arithmetic is
  exact, 1e-6 relative for FFT / NUFFT(toeplitz=False) / wavelet / convolution leaves, and for the
  Toeplitz NUFFT normal a relative l2 error of at most twice the C06 bound (6 % at the default
  oversamp=1.25/width=4, 0.6 % at oversamp=2).
"""
import json
import warnings

import numpy as np

from harness import common
from harness.props import c01 as B
from harness.translate import gen as G

PROPERTY = "C04"
LEAN_MODULES = ["SigpyVerif.Props.C04", "SigpyVerif.Lemmas.C04Cover", "SigpyVerif.Lemmas.C04CoverND",
                "SigpyVerif.Lemmas.C04CoverIff", "SigpyVerif.Props.C04Shortcut"]
THEOREMS = ["SigpyVerif.C04." + t for t in [
    "normal_eq_default", "normal_default", "normal_gram", "circshift_normal_axis",
    "b2a1_a2b1_cover_partial", "coverScatter_eq_coverPairs", "b2a1_a2b1_cover", "cover_tiling", "cover_overlap",
    "cover_gap", "cover_witness", "blocks_identity_wrong_witness",
    # Lemmas/C04CoverND.lean: 2-D / 3-D cover
    "a2b2_apply", "b2a2_apply", "b2a2_a2b2_cover", "a2b3_apply", "b2a3_apply", "b2a3_a2b3_cover",
    "blocks2_identity_wrong_witness",
    # Lemmas/C04CoverIff.lean: reverse directions
    "cover_pos_iff", "cover_le_one_iff", "cover_le_one_iff_array", "cover_single_block", "cover_one_iff_tiling",
    "cover_one_iff_tiling_proper", "cover2_one_iff_tiling", "cover3_one_iff_tiling", "cover_nondividing_witness", "a2b1_b2a1_apply", "b2a_normal_identity_iff",
    "coverAxis_all_one_iff",
    # Props/C04Shortcut.lean: the Identity overrides and the tree theorem
    "applyF_of_out_nodup", "perm_normal_id", "gather_permMat", "shortcutOK_of_perm",
    "shortcut_normal_is_identity_identity", "shortcut_normal_is_identity_reshape",
    "shortcut_normal_is_identity_transpose", "shortcut_normal_is_identity_circshift", "shortcut_normal_is_identity",
    "isAdj_apply", "normal_denote_leaves",
]] + ["SigpyVerif.C01.applyF_compE", "SigpyVerif.C01.adj_denote", "SigpyVerif.C01.adj_denote_leaves",
      "SigpyVerif.C01.transpose_pair", "SigpyVerif.C01.gatherE_axmap_perm", "SigpyVerif.C01.circshift_entries"]


def translate(ctx):
    G.regenerate(ctx, ["Block", "UtilFormulas", "LinopFormulas", "Interp"])


def block_layouts(rng, quick):
    """(shape, blk, str) of ArrayToBlocks in 1-3 D with a leading batch axis or not: every 1-D layout up to length 7
    with strides 1..4, the tiling-stride layouts whose block length does NOT divide the extent (stride == block is
    not enough for N = Identity), and random 2-D / 3-D layouts"""
    out = []
    for n in range(1, 8):
        for b in range(1, n + 1):
            for s in range(1, 5):
                out.append(([n], [b], [s]))
    fixed = [([5], [2], [2]), ([7], [3], [3]), ([2, 5], [2], [2]), ([4, 5], [2, 2], [2, 2]), ([5, 4], [2, 2], [2, 2]),
             ([6, 4], [3, 2], [3, 2]), ([3, 5], [2, 2], [1, 1]), ([2, 4, 5], [2, 2], [2, 2]), ([3, 4, 5], [2, 2, 2], [2, 2, 2]),
             ([2, 4, 2], [2, 2, 2], [2, 2, 2]), ([3, 3, 4], [2, 2, 2], [1, 2, 3]), ([2, 3, 3, 4], [2, 2, 2], [1, 1, 2]),
             ([4, 4], [4, 2], [3, 2]), ([6], [2], [2]), ([4, 6], [2, 3], [2, 3])]
    if quick:
        out = rng.sample(out, 50)
    out += fixed
    for _ in range(25 if quick else 200):
        d = rng.choice([2, 2, 3])
        lead = [rng.randint(1, 2)] if rng.random() < 0.4 else []
        nsh = [rng.randint(1, 5 if d == 2 else 4) for _ in range(d)]
        blk = [rng.randint(1, n) for n in nsh]
        st = [b if rng.random() < 0.4 else rng.randint(1, 4) for b in blk]
        out.append((lead + nsh, blk, st))
    return out


def brute_cover(L, Bk, S):
    """number of (block, offset) pairs landing on each index of an axis - straight from the property statement"""
    nb = (L - Bk + S) // S
    c = [0] * L
    for n in range(nb):
        for x in range(Bk):
            if n * S + x < L:
                c[n * S + x] += 1
    return c


def cover_array(shape, blk, st, axes_cover):
    d = len(blk)
    cov = np.ones(shape[len(shape) - d:], dtype=np.int64)
    for a in range(d):
        v = np.asarray(axes_cover[a], dtype=np.int64)
        cov = cov * v.reshape([-1 if i == a else 1 for i in range(d)])
    return np.broadcast_to(cov, shape)


def correspond_cover(ctx):
    """real A.H(A(1)) and A.N(1) of ArrayToBlocks vs the Lean cover counts (product over the block axes)"""
    from sigpy import linop as lo
    lays = block_layouts(ctx.rng, ctx.tier == "quick")
    lines = ["C04 cover L=%s B=%s S=%s" % (",".join(map(str, sh[len(sh) - len(blk):])), ",".join(map(str, blk)),
                                            ",".join(map(str, st))) for sh, blk, st in lays]
    replies = ctx.driver(lines)
    bad = 0
    for (sh, blk, st), ln, r in zip(lays, lines, replies):
        d = len(blk)
        tiling = all(s == b and n % b == 0 or b == n for n, b, s in zip(sh[len(sh) - d:], blk, st))
        ctx.count("cover:%dd:%s" % (d, "tiling" if tiling else "non-tiling"))
        ctx.case(ln, sample=dict(line=ln, reply=r[:120]) if ctx.evaluations % 17 == 0 else None)
        spec = ["leaf", "a2b", dict(sh=sh, blk=blk, str=st)]
        case = dict(spec=spec, oracle="cover")
        if not r.startswith("ok "):
            bad += 1
            ctx.disagree("cover", case, "ArrayToBlocks%s" % ((sh, blk, st),), r)
            continue
        model = [[int(v) for v in part.strip().split(",")] for part in r[3:].split("|")]
        want = cover_array(sh, blk, st, model)
        if all(all(v == 1 for v in ax) for ax in model) != tiling:      # coverAxis_all_one_iff
            bad += 1
            ctx.disagree("cover", case, "tiling=%s" % tiling, r)
        try:
            A = lo.ArrayToBlocks(sh, blk, st)
            one = np.ones(sh, dtype=np.complex128)
            aha = np.asarray(A.H(A(one)))
            an = np.asarray(A.N(one))
        except Exception as e:
            bad += 1
            ctx.disagree("cover", case, repr(e), r)
            continue
        if not (aha.shape == want.shape and np.array_equal(aha, want) and np.array_equal(an, want)):
            bad += 1
            ctx.disagree("cover", case, dict(AHA=aha.real.astype(int).reshape(-1).tolist()[:40],
                                             AN=an.real.astype(int).reshape(-1).tolist()[:40]),
                         want.reshape(-1).tolist()[:40])
    ctx.oblige("correspondence:C04.cover", "correspondence", bad == 0, "%d disagreements" % bad)


def correspond(ctx):
    B.correspond(ctx, which=("MN",))
    correspond_cover(ctx)
    ctx.notes.append("proved in Lean (Props/C04Shortcut.lean): the Identity overrides of Identity / Reshape / Transpose / "
                     "Circshift agree with A.H A at the entry level of the model (shortcut_normal_is_identity_*), and for "
                     "every tree over the C01.LeafProved classes A.N acts as x -> A^H(A x) with A^H the true adjoint "
                     "(normal_denote_leaves); 2-D / 3-D block cover = product of the per-axis counts (b2a2_a2b2_cover, "
                     "b2a3_a2b3_cover); cover = 1 everywhere iff (S = B and B | L) or B = L (cover_one_iff_tiling - a single "
                     "block that spans the axis is the one non-tiling case); BlocksToArray.N = Identity iff B <= S or a "
                     "single block (b2a_normal_identity_iff, cover_le_one_iff)")
    ctx.assumptions.append("FFT/IFFT normal = Identity is C05's unitarity theorem; the Toeplitz NUFFT normal's accuracy is "
                           "inherited from C06 (search oracle with the stated tolerance only)")


def blocks_key(spec):
    ls = sorted(set(lf[1] for lf in B.leaves(spec)))
    tags = B.node_tags(spec)
    if ls == ["a2b"] and not tags:
        return "C04:ArrayToBlocks.N"
    if ls == ["b2a"] and not tags:
        return "C04:BlocksToArray.N"
    return None


def nkey(spec, what):
    k = blocks_key(spec)
    if k:
        return k
    k = B.class_key(spec)
    return "C04:%s.N:%s" % (B.CLASSNAME.get(k, k), what)


def toeplitz_tol(p):
    """twice the C06 relative bound for this oversamp/width"""
    if p["oversamp"] >= 2 and p["width"] >= 4:
        return 0.006
    if p["oversamp"] == 1.25 and p["width"] == 4:
        return 0.06
    return None  # other settings: the statement gives no number; only finiteness / shape are checked


def normal_oracle(ctx, spec, x=None, origin="search"):
    """A.N(x) == A.H(A(x)).  Returns True when the property holds."""
    exact = B.is_exact(spec)
    case = dict(spec=spec)
    with warnings.catch_warnings():
        warnings.simplefilter("ignore")
        try:
            A = B.build(spec)
            AH = A.H
        except Exception:
            return True  # construction / adjoint problems are C01's / C03's
        try:
            AN = A.N
        except Exception as e:
            ctx.fail(nkey(spec, "build"), "A.N cannot be constructed", case, observed=repr(e.__cause__ or e),
                     expected="normal operator", origin=origin)
            return False
        if B.oshp(AN) != B.ishp(A) or B.ishp(AN) != B.ishp(A):
            ctx.fail(nkey(spec, "shape"), "A.N is not ishape x ishape", case,
                     observed=dict(oshape=B.oshp(AN), ishape=B.ishp(AN)), expected=B.ishp(A), origin=origin)
            return False
        x = B.gvec(ctx.rng, A.ishape) if x is None else np.asarray(x)
        case["x"] = [[float(v.real), float(v.imag)] for v in np.asarray(x, dtype=np.complex128).reshape(-1)]
        try:
            want = np.asarray(AH(np.asarray(A(x.copy()))))
        except Exception:
            return True
        try:
            got = np.asarray(AN(x.copy()))
        except Exception as e:
            ctx.fail(nkey(spec, "apply"), "A.N raises although A.H(A(x)) works", case, observed=repr(e.__cause__ or e),
                     expected="A.H(A(x))", origin=origin)
            return False
    if got.shape != want.shape:
        ctx.fail(nkey(spec, "shape"), "A.N(x) has the wrong shape", case, observed=list(got.shape), expected=list(want.shape),
                 origin=origin)
        return False
    toep = [lf[2] for lf in B.leaves(spec) if lf[1] == "nufft" and lf[2].get("toeplitz")]
    err = float(np.linalg.norm(got - want))
    ref = float(np.linalg.norm(want))
    if toep:
        tol = toeplitz_tol(toep[0])
        if tol is None:
            ok = bool(np.all(np.isfinite(got)))
        else:
            ok = err <= tol * ref + 1e-9
        expect = "relative l2 error <= %s (twice the C06 bound)" % tol
    elif exact:
        ok = bool(np.array_equal(got, want))
        expect = "exactly equal"
    else:
        ok = err <= 1e-6 * max(ref, 1e-30) + 1e-12
        expect = "relative l2 error <= 1e-6"
    if not ok:
        ctx.fail(nkey(spec, "toeplitz" if toep else "value"), "A.N(x) != A.H(A(x))", case,
                 observed=dict(AN=got.reshape(-1).tolist()[:30], rel_err=err / max(ref, 1e-30)),
                 expected=dict(AHA=want.reshape(-1).tolist()[:30], tolerance=expect), origin=origin)
    return ok


def cover_oracle(ctx, sh, blk, st, x=None, origin="search"):
    """ArrayToBlocks: A.H(A(x)) == A.N(x) == cover * x with cover = product over the block axes of the number of
    (block, offset) pairs landing on the index;  BlocksToArray (1-D): A.N = Identity iff B <= S or a single block."""
    from sigpy import linop as lo
    d = len(blk)
    spec = ["leaf", "a2b", dict(sh=sh, blk=blk, str=st)]
    case = dict(spec=spec, oracle="cover")
    try:
        A = lo.ArrayToBlocks(sh, blk, st)
    except Exception:
        return True
    x = B.gvec(ctx.rng, sh) if x is None else np.asarray(x).reshape(sh)
    case["x"] = [[float(v.real), float(v.imag)] for v in np.asarray(x, dtype=np.complex128).reshape(-1)]
    cov = cover_array(sh, blk, st, [brute_cover(n, b, s) for n, b, s in zip(sh[len(sh) - d:], blk, st)])
    want = cov * x
    ok = True
    for name, f in (("A.H(A(x))", lambda: A.H(A(x.copy()))), ("A.N(x)", lambda: A.N(x.copy()))):
        try:
            got = np.asarray(f())
        except Exception as e:
            ctx.fail("C04:ArrayToBlocks.N", "%s raises" % name, case, observed=repr(e), expected="cover * x", origin=origin)
            return False
        if got.shape != want.shape or not np.array_equal(got, want):
            ctx.fail("C04:ArrayToBlocks.N", "%s != cover * x (cover = product of per-axis block counts)" % name, case,
                     observed=got.reshape(-1).tolist()[:30], expected=dict(cover=cov.reshape(-1).tolist()[:30],
                                                                           value=want.reshape(-1).tolist()[:30]), origin=origin)
            ok = False
            break
    if d == 1 and len(sh) == 1 and ok:
        nb = (sh[0] - blk[0] + st[0]) // st[0]
        try:
            Bo = lo.BlocksToArray(sh, blk, st)
            one = np.ones(Bo.ishape, dtype=np.complex128)
            ident = bool(np.array_equal(np.asarray(Bo.N(one)), one))
        except Exception:
            return ok
        expect = blk[0] <= st[0] or nb <= 1
        if ident != expect:
            ctx.fail("C04:BlocksToArray.N", "BlocksToArray.N(1) == 1 must hold iff B <= S or a single block",
                     dict(spec=["leaf", "b2a", dict(sh=sh, blk=blk, str=st)]), observed=ident, expected=expect, origin=origin)
            ok = False
    return ok


def gen_toeplitz(rng):
    d = rng.choice([1, 2, 2])
    g = [rng.randint(4, 10) for _ in range(d)]
    npts = rng.randint(3, 30)
    coord = [[rng.uniform(-n / 2, n / 2) for n in g] for _ in range(npts)]
    ov, w = rng.choice([(1.25, 4), (1.25, 4), (2, 4), (2, 6), (1.5, 3)])
    return ["leaf", "nufft", dict(sh=g, pts=[npts], coord=coord, oversamp=ov, width=w, toeplitz=True)]


def exhaustive_blocks():
    for n in range(1, 8):
        for b in range(1, n + 1):
            for s in range(1, 4):
                yield ["leaf", "a2b", dict(sh=[n], blk=[b], str=[s])]
                yield ["leaf", "b2a", dict(sh=[n], blk=[b], str=[s])]


def search(ctx, budget):
    rng = ctx.rng
    warnings.simplefilter("ignore")
    for d in ctx.disagreements[:100]:
        normal_oracle(ctx, d["case"]["spec"], origin="disagreement")
    # the documented witness of the pinned defect and all small 1-D block layouts
    for spec in [["leaf", "a2b", dict(sh=[5], blk=[2], str=[1])], ["leaf", "b2a", dict(sh=[5], blk=[2], str=[1])]]:
        ctx.case(("oracle", json.dumps(spec)))
        normal_oracle(ctx, spec, x=np.arange(1, 1 + B.prod(B.build(spec).ishape), dtype=np.complex128).reshape(B.build(spec).ishape))
    for d in ctx.disagreements[:100]:
        c = d["case"]
        if c.get("oracle") == "cover":
            p = c["spec"][2]
            cover_oracle(ctx, p["sh"], p["blk"], p["str"], origin="disagreement")
    for sh, blk, st in block_layouts(rng, budget <= 1):
        ctx.case(("cover-oracle", json.dumps([sh, blk, st])))
        ctx.count("oracle:cover:%dd" % len(blk))
        cover_oracle(ctx, sh, blk, st)
    blocks = list(exhaustive_blocks())
    for spec in (blocks if budget > 1 else rng.sample(blocks, 40)):
        ctx.case(("oracle", json.dumps(spec)))
        ctx.count("oracle:blocks-1d")
        normal_oracle(ctx, spec)
    for spec, _ in B.class_sweep(rng, max(2, int(3 * budget))):
        ctx.case(("oracle", json.dumps(spec)))
        ctx.count("oracle:class:" + spec[1])
        normal_oracle(ctx, spec)
    for i in range(int(250 * budget)):
        spec, _ = B.gen_tree(rng, rng.choice([1, 2, 3, 4]), None, stack_neg=B.probes()["neg_stack"])
        if rng.random() < 0.3:
            spec = ["N", spec] if rng.random() < 0.3 else spec
        ctx.case(("oracle", json.dumps(spec)))
        ctx.count("oracle:tree")
        normal_oracle(ctx, spec)
    for i in range(int(150 * budget)):
        spec, A = B.gen_opaque(rng)
        spec, A = B.wrap_opaque(rng, spec, A)
        ctx.case(("oracle", json.dumps(spec)))
        ctx.count("oracle:opaque:" + next(iter(B.leaves(spec)))[1])
        normal_oracle(ctx, spec)
    for i in range(int(25 * budget)):
        spec = gen_toeplitz(rng)
        ctx.case(("oracle", json.dumps(spec)))
        ctx.count("oracle:nufft-toeplitz:%s/%s" % (spec[2]["oversamp"], spec[2]["width"]))
        normal_oracle(ctx, spec)


def replay(path):
    def orc(ctx, c):
        x = None
        if c.get("oracle") == "cover":
            p = c["spec"][2]
            xx = None
            if "x" in c:
                xx = np.array([complex(a, b) for a, b in c["x"]])
            return cover_oracle(ctx, p["sh"], p["blk"], p["str"], x=xx, origin="replay")
        if "x" in c:
            try:
                A = B.build(c["spec"])
                x = np.array([complex(a, b) for a, b in c["x"]]).reshape(A.ishape)
            except Exception:
                x = None
        return normal_oracle(ctx, c["spec"], x=x, origin="replay")
    return B.replay(path, oracle=orc)
