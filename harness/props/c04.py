"""C04 — the normal operator A.N is A^H A.

Shares the model, the protocol and the generators with C01 (harness/props/c01.py):
translate: Gen/LinopNormal.lean (harness/translate/gen_c04.py) - every `_normal_linop` of sigpy/linop.py, the default rule, the
  NUFFT Toeplitz operator chain and psf.shape - next to the generated `_adjoint_linop` table and the block / resize formulas;
  Props/C04Gen.lean, C04Toeplitz.lean, C04Stationary.lean are theorems about these generated definitions;
correspond: the implementation's matrix of A.N (basis vectors + a Gaussian-integer vector) against
  the Lean model's `denote (normal e)` (third matrix of the `mats` reply), for every class and
  random trees;
  plus (stream `cover`) the real `A.H(A(1))` / `A.N(1)` of ArrayToBlocks in 1-3 D against the product of
  the per-axis cover counts printed by the Lean driver (`C04.coverAxis`: `coverPairs` with the `num_blks`
  formula regenerated from ArrayToBlocks.__init__) - the statement of `b2a{1,2,3}_a2b{1,2,3}_cover`;
search: A.N(x) vs A.H(A(x)) on the real objects — exact on Gaussian integers where the arithmetic is
  exact, 1e-6 relative for FFT / NUFFT(toeplitz=False) / wavelet / convolution leaves, and for the
  Toeplitz NUFFT normal a relative l2 error of at most twice the C06 bound (6 % at the default
  oversamp=1.25/width=4, 0.6 % at oversamp=2) AND of the order of that NUFFT's own interpolation accuracy:
  `toeplitz_oracle` measures eps = max(|M - E|_F/|E|_F, |M^H M - E^H E|_F/|E^H E|_F) (M = matrix of the real
  NUFFT with the operator's coord/oversamp/width, E = exact non-uniform DFT on the same coordinates) and demands
  |A.N x - A.H A x| <= 40 * max(eps, 5e-6) * max(|A.H A x|, |E^H E|_F |x| / sqrt N)   (5e-6: toeplitz_psf works in
  complex64).  Calibration on the unchanged tree (110 seeds, 36000 steps of the generator below, plus 6500 cases of a
  21-kernel x 8-kinds-of-x grid): the ratio err / (max(eps, 5e-6) * scale) never exceeded 3.2, so the factor 40 leaves
  a margin > 10x.
  The Toeplitz cases are *histories*: several live NUFFT objects (same coordinate values - the same array object,
  an equal copy, another memory layout / dtype - with different batch shapes, kernels, grids, toeplitz flags, or other
  coordinate values of the same shape) used interleaved, each A.N re-used after other operators were built, the
  coordinate array of a dead operator re-used after an in-place change; x in complex128 / complex64 / float64 /
  float32 / int64, C / Fortran / strided / negative-stride layouts, magnitudes 1e-30 .. 1e30, random / one-hot /
  constant / one-batch-entry-only; coordinates uniform / on the FOV edge / on grid points / clustered, float64 /
  float32 / integer dtype, C / Fortran / strided, 1-D or 2-D point index.  The generic A.N oracle also draws x in these
  dtypes and layouts (`xvar`).
"""
import json
import warnings

import numpy as np

from harness import common
from harness.props import c01 as B
from harness.translate import gen as G

PROPERTY = "C04"
LEAN_MODULES = ["SigpyVerif.Props.C04", "SigpyVerif.Lemmas.C04Cover", "SigpyVerif.Lemmas.C04CoverND",
                "SigpyVerif.Lemmas.C04CoverIff", "SigpyVerif.Props.C04Shortcut", "SigpyVerif.Lemmas.C04B2aND",
                "SigpyVerif.Props.C04Gen", "SigpyVerif.Props.C04Toeplitz", "SigpyVerif.Props.C04Stationary"]
THEOREMS = ["SigpyVerif.C04." + t for t in [
    "normal_eq_default", "normal_default", "normal_gram", "circshift_normal_axis",
    "b2a1_a2b1_cover_partial", "coverScatter_eq_coverPairs", "b2a1_a2b1_cover", "cover_tiling", "cover_overlap",
    "cover_gap", "cover_witness", "blocks_identity_wrong_witness",
    # Lemmas/C04CoverND.lean: 2-D / 3-D cover
    "a2b2_apply", "b2a2_apply", "b2a2_a2b2_cover", "a2b3_apply", "b2a3_apply", "b2a3_a2b3_cover",
    "blocks2_identity_wrong_witness",
    # Lemmas/C04CoverIff.lean: reverse directions
    "cover_pos_iff", "cover_le_one_iff", "cover_le_one_iff_array", "cover_single_block", "cover_one_iff_tiling",
    "cover_one_iff_tiling_proper", "cover2_one_iff_tiling", "cover3_one_iff_tiling", "cover_nondividing_witness", "a2b1_b2a1_apply", "b2a_normal_identity_iff",
    "coverAxis_all_one_iff",
    # Props/C04Shortcut.lean: the Identity overrides and the tree theorem
    "applyF_of_out_nodup", "perm_normal_id", "gather_permMat", "shortcutOK_of_perm",
    "shortcut_normal_is_identity_identity", "shortcut_normal_is_identity_reshape",
    "shortcut_normal_is_identity_transpose", "shortcut_normal_is_identity_circshift", "shortcut_normal_is_identity",
    "isAdj_apply", "normal_denote_leaves",
    # Lemmas/C04B2aND.lean: BlocksToArray.N = Identity iff no overlap / one block on every axis, 2-D and 3-D loop nests
    "scatter_sum_unique", "scatter_sum_const", "a2b2_b2a2_apply", "b2a2_normal_identity_iff", "a2b3_b2a3_apply",
    "b2a3_normal_identity_iff",
    # Props/C04Gen.lean: about Gen/LinopNormal.lean (every `_normal_linop` of sigpy/linop.py, regenerated on every run)
    "normal_overrides", "normalLeaf_eq_gen", "normal_eq_gen", "gen_shortcut_iff", "gen_shortcuts_exact", "normal_denote",
    "compose_normal_nest", "fftTable_inv", "fft_shortcut_exact", "normalOpaque_table",
    # Props/C04Toeplitz.lean: the generated NUFFT Toeplitz chain with the exact psf = A^H A of the exact NUDFT
    "psfShape_eq", "chainMat1_gen", "toeplitz_chain_exact_1d", "chainMat2_gen", "toeplitz_chain_exact_2d", "chainMat3_gen",
    "toeplitz_chain_exact_3d", "nufft_toeplitz_switch",
    # Props/C04Stationary.lean: the normal equations are the stationarity condition / the minimisers of |Ax - y|^2
    "objective_expand", "normal_equations_iff_stationary", "normal_equations_iff_stationary_tree", "normal_equations_minimise",
    "minimiser_solves_normal_equations", "normal_equations_iff_minimiser_tree",
]] + ["SigpyVerif.C01.applyF_compE", "SigpyVerif.C01.adj_denote", "SigpyVerif.C01.adj_denote_leaves",
      "SigpyVerif.C01.transpose_pair", "SigpyVerif.C01.gatherE_axmap_perm", "SigpyVerif.C01.circshift_entries",
      "SigpyVerif.C01.adj_eq_gen", "SigpyVerif.C01.adjLeaf_eq_gen", "SigpyVerif.C05.fft_table_unitary",
      "SigpyVerif.C05.ifft_table_eq_conjTranspose", "SigpyVerif.C06.toeplitz_structure", "SigpyVerif.C06.toeplitz_structure_2d",
      "SigpyVerif.C06.toeplitz_structure_3d", "SigpyVerif.C06.toep_embed_len"]


def translate(ctx):
    # LinopNormal (harness/translate/gen_c04.py): every `_normal_linop` of sigpy/linop.py; it is stated over the generated
    # `_adjoint_linop` table (LinopAdjoint, gen_c01) and the psf-shape formula of toeplitz_psf (NufftFormulas, gen_c07)
    G.regenerate(ctx, ["Block", "UtilFormulas", "LinopFormulas", "Interp", "InterpKernels", "NufftFormulas", "Fourier", "LinopAdjoint",
                       "LinopNormal"])


def block_layouts(rng, quick):
    """(shape, blk, str) of ArrayToBlocks in 1-3 D with a leading batch axis or not: every 1-D layout up to length 7
    with strides 1..4, the tiling-stride layouts whose block length does NOT divide the extent (stride == block is
    not enough for N = Identity), and random 2-D / 3-D layouts"""
    out = []
    for n in range(1, 8):
        for b in range(1, n + 1):
            for s in range(1, 5):
                out.append(([n], [b], [s]))
    fixed = [([5], [2], [2]), ([7], [3], [3]), ([2, 5], [2], [2]), ([4, 5], [2, 2], [2, 2]), ([5, 4], [2, 2], [2, 2]),
             ([6, 4], [3, 2], [3, 2]), ([3, 5], [2, 2], [1, 1]), ([2, 4, 5], [2, 2], [2, 2]), ([3, 4, 5], [2, 2, 2], [2, 2, 2]),
             ([2, 4, 2], [2, 2, 2], [2, 2, 2]), ([3, 3, 4], [2, 2, 2], [1, 2, 3]), ([2, 3, 3, 4], [2, 2, 2], [1, 1, 2]),
             ([4, 4], [4, 2], [3, 2]), ([6], [2], [2]), ([4, 6], [2, 3], [2, 3])]
    if quick:
        out = rng.sample(out, 50)
    out += fixed
    for _ in range(25 if quick else 200):
        d = rng.choice([2, 2, 3])
        lead = [rng.randint(1, 2)] if rng.random() < 0.4 else []
        nsh = [rng.randint(1, 5 if d == 2 else 4) for _ in range(d)]
        blk = [rng.randint(1, n) for n in nsh]
        st = [b if rng.random() < 0.4 else rng.randint(1, 4) for b in blk]
        out.append((lead + nsh, blk, st))
    return out


def brute_cover(L, Bk, S):
    """number of (block, offset) pairs landing on each index of an axis - straight from the property statement"""
    nb = (L - Bk + S) // S
    c = [0] * L
    for n in range(nb):
        for x in range(Bk):
            if n * S + x < L:
                c[n * S + x] += 1
    return c


def cover_array(shape, blk, st, axes_cover):
    d = len(blk)
    cov = np.ones(shape[len(shape) - d:], dtype=np.int64)
    for a in range(d):
        v = np.asarray(axes_cover[a], dtype=np.int64)
        cov = cov * v.reshape([-1 if i == a else 1 for i in range(d)])
    return np.broadcast_to(cov, shape)


def correspond_cover(ctx):
    """real A.H(A(1)) and A.N(1) of ArrayToBlocks vs the Lean cover counts (product over the block axes)"""
    from sigpy import linop as lo
    lays = block_layouts(ctx.rng, ctx.tier == "quick")
    lines = ["C04 cover L=%s B=%s S=%s" % (",".join(map(str, sh[len(sh) - len(blk):])), ",".join(map(str, blk)),
                                            ",".join(map(str, st))) for sh, blk, st in lays]
    replies = ctx.driver(lines)
    bad = 0
    for (sh, blk, st), ln, r in zip(lays, lines, replies):
        d = len(blk)
        tiling = all(s == b and n % b == 0 or b == n for n, b, s in zip(sh[len(sh) - d:], blk, st))
        ctx.count("cover:%dd:%s" % (d, "tiling" if tiling else "non-tiling"))
        ctx.case(ln, sample=dict(line=ln, reply=r[:120]) if ctx.evaluations % 17 == 0 else None)
        spec = ["leaf", "a2b", dict(sh=sh, blk=blk, str=st)]
        case = dict(spec=spec, oracle="cover")
        if not r.startswith("ok "):
            bad += 1
            ctx.disagree("cover", case, "ArrayToBlocks%s" % ((sh, blk, st),), r)
            continue
        model = [[int(v) for v in part.strip().split(",")] for part in r[3:].split("|")]
        want = cover_array(sh, blk, st, model)
        if all(all(v == 1 for v in ax) for ax in model) != tiling:      # coverAxis_all_one_iff
            bad += 1
            ctx.disagree("cover", case, "tiling=%s" % tiling, r)
        try:
            A = lo.ArrayToBlocks(sh, blk, st)
            one = np.ones(sh, dtype=np.complex128)
            aha = np.asarray(A.H(A(one)))
            an = np.asarray(A.N(one))
        except Exception as e:
            bad += 1
            ctx.disagree("cover", case, repr(e), r)
            continue
        if not (aha.shape == want.shape and np.array_equal(aha, want) and np.array_equal(an, want)):
            bad += 1
            ctx.disagree("cover", case, dict(AHA=aha.real.astype(int).reshape(-1).tolist()[:40],
                                             AN=an.real.astype(int).reshape(-1).tolist()[:40]),
                         want.reshape(-1).tolist()[:40])
    ctx.oblige("correspondence:C04.cover", "correspondence", bad == 0, "%d disagreements" % bad)


def correspond(ctx):
    B.correspond(ctx, which=("MN",))
    correspond_cover(ctx)
    ctx.notes.append("proved in Lean (Props/C04Shortcut.lean): the Identity overrides of Identity / Reshape / Transpose / "
                     "Circshift agree with A.H A at the entry level of the model (shortcut_normal_is_identity_*), and for "
                     "every tree over the C01.LeafProved classes A.N acts as x -> A^H(A x) with A^H the true adjoint "
                     "(normal_denote_leaves); 2-D / 3-D block cover = product of the per-axis counts (b2a2_a2b2_cover, "
                     "b2a3_a2b3_cover); cover = 1 everywhere iff (S = B and B | L) or B = L (cover_one_iff_tiling - a single "
                     "block that spans the axis is the one non-tiling case); BlocksToArray.N = Identity iff B <= S or a "
                     "single block (b2a_normal_identity_iff, cover_le_one_iff)")
    ctx.notes.append("proved in Lean about Gen/LinopNormal.lean (every `_normal_linop` of sigpy/linop.py, regenerated on every run): "
                     "normal_overrides, normal_eq_gen, normal_denote, gen_shortcuts_exact, fft_shortcut_exact (FFT/IFFT.N = Identity "
                     "is A^H A: C05 unitarity), toeplitz_chain_exact_1d/_2d/_3d (generated Resize/FFT/Multiply chain with the exact "
                     "psf = A^H A of the exact NUDFT), b2a2/b2a3_normal_identity_iff, normal_equations_iff_minimiser_tree")
    ctx.assumptions.append("Toeplitz NUFFT normal: the structure (generated operator chain with the exact psf = exact Gram operator) is "
                           "proved; the accuracy of the psf COMPUTED by toeplitz_psf (complex64 Kaiser-Bessel transforms) is "
                           "inherited from C06 (search oracle only: twice the C06 bound and 40 x the NUFFT's own accuracy "
                           "measured against the exact non-uniform DFT on the same coordinates, floor 5e-6 for the complex64 psf)")
    ctx.rule += ("; search oracle, Toeplitz NUFFT: case = history of 1-4 live NUFFT operators (grid 1-3 D, 0-2 leading batch "
                 "axes, 18 oversamp/width kernels, coordinates uniform / FOV edge / grid points / clustered in float64 / "
                 "float32 / integer dtype and C / F / strided / negative-stride layout; later operators re-use the "
                 "coordinates of an earlier one - same array object, equal copy, other layout, rescaled in place - with "
                 "another batch shape / kernel / grid / toeplitz flag) + a sequence of steps (operator index, x values, "
                 "dtype, layout, magnitude); distinct = distinct (operators, steps) JSON")


def blocks_key(spec):
    ls = sorted(set(lf[1] for lf in B.leaves(spec)))
    tags = B.node_tags(spec)
    if ls == ["a2b"] and not tags:
        return "C04:ArrayToBlocks.N"
    if ls == ["b2a"] and not tags:
        return "C04:BlocksToArray.N"
    return None


def nkey(spec, what):
    k = blocks_key(spec)
    if k:
        return k
    k = B.class_key(spec)
    return "C04:%s.N:%s" % (B.CLASSNAME.get(k, k), what)


def toeplitz_tol(p):
    """twice the C06 relative bound for this oversamp/width"""
    if p["oversamp"] >= 2 and p["width"] >= 4:
        return 0.006
    if p["oversamp"] == 1.25 and p["width"] == 4:
        return 0.06
    return None  # other settings: the statement gives no number; only finiteness / shape are checked


XVARS = ["real", "f32", "c64", "int", "F", "view", "neg"]


def apply_xvar(x, var):
    """a fresh array with the values of the complex128 C-ordered x in another dtype / memory layout (the property
    quantifies over all x: real-dtype arrays for complex operators, single precision, integer data, Fortran-ordered,
    strided and negative-stride views)"""
    x = np.array(x, dtype=np.complex128)
    if var in (None, "C"):
        return x
    if var == "real":
        return x.real.copy()
    if var == "f32":
        return x.real.astype(np.float32)
    if var == "c64":
        return x.astype(np.complex64)
    if var == "int":
        return np.rint(x.real).astype(np.int64)
    if var == "F":
        return np.asfortranarray(x)
    if x.ndim == 0:
        return x
    if var == "view":
        big = np.zeros(x.shape[:-1] + (2 * x.shape[-1] + 1,), dtype=x.dtype)
        big[..., 1::2] = x
        return big[..., 1::2]
    if var == "neg":
        return np.ascontiguousarray(x[..., ::-1])[..., ::-1]
    raise ValueError(var)


def normal_oracle(ctx, spec, x=None, origin="search", xvar=None):
    """A.N(x) == A.H(A(x)).  Returns True when the property holds."""
    exact = B.is_exact(spec)
    case = dict(spec=spec)
    if xvar:
        case["xvar"] = xvar
    with warnings.catch_warnings():
        warnings.simplefilter("ignore")
        try:
            A = B.build(spec)
            AH = A.H
        except Exception:
            return True  # construction / adjoint problems are C01's / C03's
        try:
            AN = A.N
        except Exception as e:
            ctx.fail(nkey(spec, "build"), "A.N cannot be constructed", case, observed=repr(e.__cause__ or e),
                     expected="normal operator", origin=origin)
            return False
        if B.oshp(AN) != B.ishp(A) or B.ishp(AN) != B.ishp(A):
            ctx.fail(nkey(spec, "shape"), "A.N is not ishape x ishape", case,
                     observed=dict(oshape=B.oshp(AN), ishape=B.ishp(AN)), expected=B.ishp(A), origin=origin)
            return False
        x = B.gvec(ctx.rng, A.ishape) if x is None else np.asarray(x)
        if xvar in ("real", "f32", "int"):
            x = x.real + 0j
        case["x"] = [[float(v.real), float(v.imag)] for v in np.asarray(x, dtype=np.complex128).reshape(-1)]
        try:
            want = np.asarray(AH(np.asarray(A(apply_xvar(x, xvar)))))
        except Exception:
            return True
        try:
            got = np.asarray(AN(apply_xvar(x, xvar)))
        except Exception as e:
            ctx.fail(nkey(spec, "apply"), "A.N raises although A.H(A(x)) works", case, observed=repr(e.__cause__ or e),
                     expected="A.H(A(x))", origin=origin)
            return False
    if got.shape != want.shape:
        ctx.fail(nkey(spec, "shape"), "A.N(x) has the wrong shape", case, observed=list(got.shape), expected=list(want.shape),
                 origin=origin)
        return False
    toep = [lf[2] for lf in B.leaves(spec) if lf[1] == "nufft" and lf[2].get("toeplitz")]
    got, want = np.asarray(got, dtype=np.complex128), np.asarray(want, dtype=np.complex128)
    if not np.all(np.isfinite(want)):
        # A.H(A(x)) itself is not a number (e.g. NUFFT([4], oversamp=1.25, width=2) on float32 data: the apodisation
        # takes the root of a rounding-negative number) - nothing to compare A.N with; not this property's defect
        ctx.count("oracle:not-compared:reference-not-finite")
        return True
    err = float(np.linalg.norm(got - want))
    ref = float(np.linalg.norm(want))
    single = xvar in ("f32", "c64")      # single-precision data: floating-point accuracy is that of float32
    if toep:
        tol = toeplitz_tol(toep[0])
        if tol is None:
            ok = bool(np.all(np.isfinite(got)))
        else:
            ok = err <= tol * ref + 1e-9
        expect = "relative l2 error <= %s (twice the C06 bound)" % tol
    elif exact:
        ok = bool(np.array_equal(got, want)) or (single and err <= 1e-5 * ref)
        expect = "exactly equal" if not single else "equal within 1e-5 (float32 data)"
    else:
        rt = 1e-4 if single else 1e-6
        ok = err <= rt * max(ref, 1e-30) + 1e-12
        expect = "relative l2 error <= %g" % rt
    if not ok:
        ctx.fail(nkey(spec, "toeplitz" if toep else "value"), "A.N(x) != A.H(A(x))", case,
                 observed=dict(AN=got.reshape(-1).tolist()[:30], rel_err=err / max(ref, 1e-30)),
                 expected=dict(AHA=want.reshape(-1).tolist()[:30], tolerance=expect), origin=origin)
    return ok


def cover_oracle(ctx, sh, blk, st, x=None, origin="search", xvar=None):
    """ArrayToBlocks: A.H(A(x)) == A.N(x) == cover * x with cover = product over the block axes of the number of
    (block, offset) pairs landing on the index;  BlocksToArray (1-D): A.N = Identity iff B <= S or a single block."""
    from sigpy import linop as lo
    d = len(blk)
    spec = ["leaf", "a2b", dict(sh=sh, blk=blk, str=st)]
    case = dict(spec=spec, oracle="cover")
    try:
        A = lo.ArrayToBlocks(sh, blk, st)
    except Exception:
        return True
    x = B.gvec(ctx.rng, sh) if x is None else np.asarray(x).reshape(sh)
    if xvar:
        case["xvar"] = xvar
        if xvar in ("real", "f32", "int"):
            x = x.real + 0j
    case["x"] = [[float(v.real), float(v.imag)] for v in np.asarray(x, dtype=np.complex128).reshape(-1)]
    cov = cover_array(sh, blk, st, [brute_cover(n, b, s) for n, b, s in zip(sh[len(sh) - d:], blk, st)])
    want = cov * x      # small integers: exact in every dtype of `xvar`
    ok = True
    for name, f in (("A.H(A(x))", lambda: A.H(A(apply_xvar(x, xvar)))), ("A.N(x)", lambda: A.N(apply_xvar(x, xvar)))):
        try:
            got = np.asarray(f())
        except Exception as e:
            ctx.fail("C04:ArrayToBlocks.N", "%s raises" % name, case, observed=repr(e), expected="cover * x", origin=origin)
            return False
        if got.shape != want.shape or not np.array_equal(got, want):
            ctx.fail("C04:ArrayToBlocks.N", "%s != cover * x (cover = product of per-axis block counts)" % name, case,
                     observed=got.reshape(-1).tolist()[:30], expected=dict(cover=cov.reshape(-1).tolist()[:30],
                                                                           value=want.reshape(-1).tolist()[:30]), origin=origin)
            ok = False
            break
    if d == 1 and len(sh) == 1 and ok:
        nb = (sh[0] - blk[0] + st[0]) // st[0]
        try:
            Bo = lo.BlocksToArray(sh, blk, st)
            one = np.ones(Bo.ishape, dtype=np.complex128)
            ident = bool(np.array_equal(np.asarray(Bo.N(one)), one))
        except Exception:
            return ok
        expect = blk[0] <= st[0] or nb <= 1
        if ident != expect:
            ctx.fail("C04:BlocksToArray.N", "BlocksToArray.N(1) == 1 must hold iff B <= S or a single block",
                     dict(spec=["leaf", "b2a", dict(sh=sh, blk=blk, str=st)]), observed=ident, expected=expect, origin=origin)
            ok = False
    return ok


def gen_toeplitz(rng):
    d = rng.choice([1, 2, 2])
    g = [rng.randint(4, 10) for _ in range(d)]
    npts = rng.randint(3, 30)
    coord = [[rng.uniform(-n / 2, n / 2) for n in g] for _ in range(npts)]
    ov, w = rng.choice([(1.25, 4), (1.25, 4), (2, 4), (2, 6), (1.5, 3)])
    return ["leaf", "nufft", dict(sh=g, pts=[npts], coord=coord, oversamp=ov, width=w, toeplitz=True)]


# ---- Toeplitz NUFFT normal operator: histories of live operators, measured interpolation accuracy ------------------
TOEP_K = 40.0        # err <= TOEP_K * max(eps, TOEP_FLOOR) * scale; calibrated: ratio <= 3.2 over 36000 steps (110 seeds)
TOEP_FLOOR = 5e-6    # toeplitz_psf is computed in complex64 (observed floor of the Toeplitz error: <= 8e-6 * scale)
KERNELS = [(1.25, 4), (2, 4), (2, 6), (2, 8), (2, 7), (1.5, 6), (1.25, 6), (3, 5), (1.5, 3), (1.5, 4), (1.75, 5),
           (2, 5.5), (1.25, 8), (2.5, 6), (2, 3), (1.25, 3), (1.5, 8), (2.0, 6.0)]
SHARP = [(2, 6), (2, 8), (2, 7), (1.5, 6), (3, 5), (1.5, 8), (2.5, 6), (2, 5.5), (2.0, 6.0), (1.25, 8)]
MARGINS = []         # (err / (tol * scale), oversamp, width) of every compared step - diagnostics / evidence


def gen_coord(rng, g, npts, kind):
    """k-space coordinates inside [-n/2, n/2] (the documented domain of NUFFT): uniform, with entries on the FOV edge,
    on grid points (representable in integer dtypes), or clustered around one point"""
    if kind == "edge":
        return [[rng.choice([-n / 2, n / 2, rng.uniform(-n / 2, n / 2)]) for n in g] for _ in range(npts)]
    if kind == "int":
        return [[float(rng.randint(-(n // 2), (n - 1) // 2)) for n in g] for _ in range(npts)]
    if kind == "cluster":
        c0 = [rng.uniform(-n / 2, n / 2) for n in g]
        return [[min(n / 2, max(-n / 2, c + rng.uniform(-0.3, 0.3))) for c, n in zip(c0, g)] for _ in range(npts)]
    return [[rng.uniform(-n / 2, n / 2) for n in g] for _ in range(npts)]


def make_coord(p):
    """the coordinate array of an operator description: values `coord` reshaped to pts + [ndim], dtype `cdtype`,
    memory layout `clayout` (C, F, strided view of a wider array, negative strides)"""
    nd = len(p["coord"][0])
    a = np.array(p["coord"], dtype=np.float64).reshape(list(p["pts"]) + [nd])
    dt = p.get("cdtype", "float64")
    a = np.rint(a).astype(dt) if dt.startswith("int") else a.astype(dt)
    lay = p.get("clayout", "C")
    if lay == "F":
        a = np.asfortranarray(a)
    elif lay == "view":
        big = np.zeros((2 * a.shape[0] + 1,) + a.shape[1:-1] + (2 * nd + 1,), dtype=a.dtype)
        big[1::2, ..., 1::2] = a
        a = big[1::2, ..., 1::2]
    elif lay == "neg":
        a = np.ascontiguousarray(a[::-1])[::-1]
    return a


def ndft_matrix(g, coord):
    """exact non-uniform DFT of sigpy's convention: E[m, r] = exp(-2 pi i sum_d k_m[d] (r_d - n_d // 2) / n_d) / sqrt(N)"""
    coord = np.asarray(coord, dtype=np.float64).reshape(-1, len(g))
    grids = np.meshgrid(*[np.arange(n) - n // 2 for n in g], indexing="ij")
    ph = np.zeros((coord.shape[0],) + tuple(g))
    for d, (gr, n) in enumerate(zip(grids, g)):
        ph += coord[:, d].reshape((-1,) + (1,) * len(g)) * gr / n
    return (np.exp(-2j * np.pi * ph) / np.sqrt(float(B.prod(g)))).reshape(coord.shape[0], -1)


def nufft_accuracy(p, coord):
    """(eps, |E^H E|_F): the interpolation accuracy of the real NUFFT with this operator's coord array / oversamp / width,
    measured on all basis vectors against the exact non-uniform DFT (forward and Gram matrix, relative Frobenius)"""
    from sigpy import linop as lo
    nd = coord.shape[-1]
    g = list(p["sh"])[len(p["sh"]) - nd:]
    N = B.prod(g)
    E = ndft_matrix(g, coord)
    G = E.conj().T @ E
    gf = float(np.linalg.norm(G))
    try:
        Y = lo.NUFFT([N] + g, coord, oversamp=p["oversamp"], width=p["width"])
        M = np.asarray(Y(np.eye(N, dtype=np.complex128).reshape([N] + g)), dtype=np.complex128).reshape(N, -1).T
        eps = max(float(np.linalg.norm(M - E)) / float(np.linalg.norm(E)), float(np.linalg.norm(M.conj().T @ M - G)) / gf)
        if not np.isfinite(eps):
            eps = None
    except Exception:
        eps = None
    return eps, gf


def toep_key(case, what):
    return "C04:NUFFT.N:%s%s" % (what, "-history" if len(case["ops"]) > 1 else "")


def toeplitz_oracle(ctx, case, origin="search"):
    """Runs the history `case` = dict(ops=[operator descriptions], steps=[dict(op=i, x=..., xvar=...)]): operators are
    built when first used (coordinate array: own values, the same array object as an earlier operator (`share`), or the
    array object of a dead earlier operator after an in-place scaling (`inplace`)), and every step demands
    A.N(x) = A.H(A(x)) - exactly the same computation for toeplitz=False, within the measured interpolation accuracy
    of that NUFFT for toeplitz=True.  Returns True when the property holds on every step."""
    from sigpy import linop as lo
    ops, arrs, ops_built, yard = case["ops"], {}, {}, {}
    with warnings.catch_warnings():
        warnings.simplefilter("ignore")
        for k, st in enumerate(case["steps"]):
            i = st["op"]
            p = ops[i]
            info = dict(case, failed_step=k)
            if i not in ops_built:
                try:
                    if p.get("share") is not None:
                        c = arrs[p["share"]]
                    elif p.get("inplace") is not None:
                        c = arrs[p["inplace"][0]]
                        c *= p["inplace"][1]
                    else:
                        c = make_coord(p)
                    arrs[i] = c
                    A = lo.NUFFT(p["sh"], c, oversamp=p["oversamp"], width=p["width"], toeplitz=bool(p["toeplitz"]))
                    AH = A.H
                except Exception:
                    ctx.count("oracle:toeplitz:not-constructible")
                    return True     # construction / adjoint problems are C01's / C03's
                ops_built[i] = (A, AH)
            A, AH = ops_built[i]
            c = arrs[i]
            x = np.array([complex(a, b) for a, b in st["x"]], dtype=np.complex128).reshape(p["sh"])
            xvar = st.get("xvar")
            try:
                want = np.asarray(AH(np.asarray(A(apply_xvar(x, xvar)))))
            except Exception:
                ctx.count("oracle:toeplitz:forward-raises:%s/%s" % (p.get("cdtype", "float64"), xvar))
                continue            # A / A.H do not accept this input: not this property's business
            try:
                AN = A.N
            except Exception as e:
                ctx.fail(toep_key(case, "build"), "A.N cannot be constructed (step %d, operator %d)" % (k, i), info,
                         observed=repr(e.__cause__ or e), expected="normal operator", origin=origin)
                return False
            if B.oshp(AN) != B.ishp(A) or B.ishp(AN) != B.ishp(A):
                ctx.fail(toep_key(case, "shape"), "A.N is not ishape x ishape (step %d, operator %d)" % (k, i), info,
                         observed=dict(oshape=B.oshp(AN), ishape=B.ishp(AN)), expected=B.ishp(A), origin=origin)
                return False
            try:
                got = np.asarray(AN(apply_xvar(x, xvar)))
            except Exception as e:
                ctx.fail(toep_key(case, "apply"), "A.N raises although A.H(A(x)) works (step %d, operator %d)" % (k, i), info,
                         observed=repr(e.__cause__ or e), expected="A.H(A(x))", origin=origin)
                return False
            if got.shape != want.shape:
                ctx.fail(toep_key(case, "shape"), "A.N(x) has the wrong shape (step %d, operator %d)" % (k, i), info,
                         observed=list(got.shape), expected=list(want.shape), origin=origin)
                return False
            amp = float(np.max(np.abs(x))) if x.size else 0.0
            if not amp > 0 or not np.all(np.isfinite(np.asarray(want, dtype=np.complex128))):
                ctx.count("oracle:toeplitz:not-compared")
                continue
            w = np.asarray(want, dtype=np.complex128) / amp
            t = np.asarray(got, dtype=np.complex128) / amp
            if i not in yard:
                yard[i] = nufft_accuracy(p, c)
            eps, gf = yard[i]
            nd = c.shape[-1]
            N = B.prod(list(p["sh"])[len(p["sh"]) - nd:])
            scale = max(float(np.linalg.norm(w)), gf * float(np.linalg.norm(x / amp)) / np.sqrt(N))
            err = float(np.linalg.norm(t - w))
            if not p["toeplitz"]:
                tol, why = (1e-5 if xvar in ("f32", "c64") else 1e-9), "toeplitz=False: A.N is A.H * A"
            else:
                legacy = toeplitz_tol(p)
                tol = legacy if legacy is not None else 1.0
                why = "twice the C06 bound %s" % legacy
                if eps is not None and TOEP_K * max(eps, TOEP_FLOOR) < tol:
                    tol = TOEP_K * max(eps, TOEP_FLOOR)
                    why = "%g x max(measured NUFFT accuracy %.3g, %g)" % (TOEP_K, eps, TOEP_FLOOR)
                if tol >= 0.5:
                    ctx.count("oracle:toeplitz:kernel-too-coarse-to-compare")
            ok = bool(np.all(np.isfinite(t))) and (err <= tol * scale or tol >= 0.5)
            MARGINS.append((err / (tol * scale) if scale > 0 else 0.0, p["oversamp"], p["width"], why.split(" ")[0]))
            if not ok:
                what = "toeplitz" if p["toeplitz"] else "value"
                ctx.fail(toep_key(case, what), "A.N(x) != A.H(A(x)) (step %d, operator %d of the history)" % (k, i), info,
                         observed=dict(AN=got.reshape(-1).tolist()[:24], err_over_scale=err / scale if scale > 0 else None,
                                       nufft_accuracy=eps),
                         expected=dict(AHA=want.reshape(-1).tolist()[:24], tolerance="|A.N x - A.H A x| <= %.3g * max(|A.H A x|, "
                                       "|E^H E|_F |x| / sqrt N)  (%s)" % (tol, why)), origin=origin)
                return False
    return True


def gen_x(rng, sh, nd):
    """values (complex128 holder) and dtype/layout variant of one input: random Gaussian, one-hot, constant, or non-zero
    in a single batch entry only; magnitudes 1e-30 .. 1e30 (1e-12 .. 1e12 where sigpy computes in single precision: at
    1e-30 the float32 gridding of A.H underflows, which is no statement about A.N); real-dtype variants get real values"""
    n = B.prod(sh)
    kind = rng.choice(["rand"] * 5 + ["delta", "const", "onebatch", "onebatch"])
    xvar = rng.choice([None] * 6 + ["real", "f32", "c64", "c64", "int", "F", "view", "neg"])
    v = [complex(rng.gauss(0, 1), rng.gauss(0, 1)) for _ in range(n)]
    if kind == "delta":
        j = rng.randrange(n)
        v = [complex(1, 0) if q == j else 0j for q in range(n)]
    elif kind == "const":
        v = [complex(1, 0)] * n
    elif kind == "onebatch" and len(sh) > nd:
        per = B.prod(sh[len(sh) - nd:])
        b = rng.randrange(n // per)
        v = [z if q // per == b else 0j for q, z in enumerate(v)]
    if xvar in ("real", "f32", "int"):
        v = [complex(z.real, 0) for z in v]
    if xvar == "int":
        v = [complex(round(3 * z.real), 0) for z in v]
    else:
        # sigpy's fft turns every non-complex input into complex64, so only complex128 data is processed in double
        single = xvar in ("real", "f32", "c64")
        mag = rng.choice([1.0] * 6 + ([1e-12, 1e12] if single else [1e-30, 1e30, 1e-12, 1e12]))
        v = [z * mag for z in v]
    return dict(x=[[z.real, z.imag] for z in v], xvar=xvar, xkind=kind)


def gen_nufft_op(rng, quick=True, sharp=False):
    d = rng.choice([1, 2, 2, 2, 3])
    g = [rng.randint(2, (10 if quick else 16) if d < 3 else 6) for _ in range(d)]
    lead = rng.choice([[], [2], [3], [3], [2, 2], [1], [4], [1, 3]])
    pts = [rng.randint(1, 40)] if rng.random() < 0.8 else [rng.randint(1, 5), rng.randint(1, 6)]
    ckind = rng.choice(["unif", "unif", "unif", "edge", "int", "cluster"])
    coord = gen_coord(rng, g, B.prod(pts), ckind)
    ov, w = rng.choice(SHARP if sharp else KERNELS + [(1.25, 4)] * 3 + [(2, 4)])
    cdtype = rng.choice(["float64"] * 5 + ["float32", "float32"] + (["int64", "int32"] if ckind == "int" else []))
    return dict(sh=lead + g, pts=pts, coord=coord, ckind=ckind, cdtype=cdtype, clayout=rng.choice(["C", "C", "C", "F", "view", "neg"]),
                oversamp=ov, width=w, toeplitz=True)


def gen_toeplitz_single(rng, quick=True):
    p = gen_nufft_op(rng, quick, sharp=rng.random() < 0.5)
    nd = len(p["coord"][0])
    steps = [dict(op=0, **gen_x(rng, p["sh"], nd))]
    if rng.random() < 0.3:      # the cached A.N of the same object, used again
        steps.append(dict(op=0, **gen_x(rng, p["sh"], nd)))
    return dict(oracle="toeplitz", ops=[p], steps=steps)


def gen_toeplitz_history(rng, quick=True):
    """2-4 operators derived from one (grid, coordinates, kernel): another batch shape (always at least once), kernel,
    toeplitz flag, grid, memory layout of the coordinates, other coordinate values of the same shape, or the array
    object of an operator that is not used any more after an in-place rescaling; then steps that visit every operator
    in creation order and come back to operators that are still alive"""
    base = gen_nufft_op(rng, quick, sharp=rng.random() < 0.4)
    nd = len(base["coord"][0])
    ops, obj, kill = [base], [0], {}
    for j in range(1, rng.randint(2, 4)):
        alive = [q for q in range(len(ops)) if q not in kill]
        src = rng.choice(alive)
        p = json.loads(json.dumps(ops[src]))
        p.pop("share", None)
        p.pop("inplace", None)
        g = p["sh"][len(p["sh"]) - nd:]
        lead = p["sh"][:len(p["sh"]) - nd]
        change = "batch" if j == 1 else rng.choice(["batch", "batch", "kernel", "flag", "grid", "values", "inplace"])
        if change == "inplace" and sum(1 for q in alive if obj[q] == obj[src]) != 1:
            change = "batch"    # the array is still used by another live operator
        p["change"] = change
        mine = len(ops)
        if change == "batch":
            p["sh"] = rng.choice([q for q in ([], [2], [3], [2, 2], [1], [4], [2, 3], [5]) if q != lead]) + g
        elif change == "kernel":
            p["oversamp"], p["width"] = rng.choice([kw for kw in KERNELS if list(kw) != [p["oversamp"], p["width"]]])
        elif change == "flag":
            p["toeplitz"] = not p["toeplitz"]
        elif change == "grid":      # a larger grid: the same coordinates stay inside [-n/2, n/2]
            p["sh"] = lead + [n + rng.randint(0, 2) for n in g]
        elif change == "values":
            p["coord"] = gen_coord(rng, g, B.prod(p["pts"]), p["ckind"])
        elif change == "inplace":
            f = -1.0 if p["cdtype"].startswith("int") else rng.choice([0.5, 0.75, -1.0])
            p["inplace"] = [src, f]
            p["coord"] = [[v * f for v in row] for row in p["coord"]]
            kill[src] = len(ops)
            mine = obj[src]
        if change not in ("values", "inplace"):
            r = rng.random()
            if r < 0.4:
                p["share"] = src                                          # the same array object
                mine = obj[src]
            elif r < 0.6:
                p["clayout"] = rng.choice(["C", "F", "view", "neg"])      # equal values, other memory layout
        ops.append(p)
        obj.append(mine)
    steps = []
    for i in range(len(ops)):
        steps.append(i)
        if rng.random() < 0.5:
            steps.append(rng.choice([q for q in range(i + 1) if kill.get(q, len(ops)) > i]))
    alive = [q for q in range(len(ops)) if q not in kill]
    for _ in range(rng.randint(0, 2)):
        steps.append(rng.choice(alive))
    return dict(oracle="toeplitz", ops=ops, steps=[dict(op=i, **gen_x(rng, ops[i]["sh"], nd)) for i in steps])


def exhaustive_blocks():
    for n in range(1, 8):
        for b in range(1, n + 1):
            for s in range(1, 4):
                yield ["leaf", "a2b", dict(sh=[n], blk=[b], str=[s])]
                yield ["leaf", "b2a", dict(sh=[n], blk=[b], str=[s])]


def search(ctx, budget):
    rng = ctx.rng
    warnings.simplefilter("ignore")
    for d in ctx.disagreements[:100]:
        normal_oracle(ctx, d["case"]["spec"], origin="disagreement")
    # the documented witness of the pinned defect and all small 1-D block layouts
    for spec in [["leaf", "a2b", dict(sh=[5], blk=[2], str=[1])], ["leaf", "b2a", dict(sh=[5], blk=[2], str=[1])]]:
        ctx.case(("oracle", json.dumps(spec)))
        normal_oracle(ctx, spec, x=np.arange(1, 1 + B.prod(B.build(spec).ishape), dtype=np.complex128).reshape(B.build(spec).ishape))
    for d in ctx.disagreements[:100]:
        c = d["case"]
        if c.get("oracle") == "cover":
            p = c["spec"][2]
            cover_oracle(ctx, p["sh"], p["blk"], p["str"], origin="disagreement")
    for sh, blk, st in block_layouts(rng, budget <= 1):
        ctx.case(("cover-oracle", json.dumps([sh, blk, st])))
        ctx.count("oracle:cover:%dd" % len(blk))
        xv = rng.choice(XVARS) if rng.random() < 0.3 else None
        ctx.count("oracle:cover:x:%s" % (xv or "complex128-C"))
        cover_oracle(ctx, sh, blk, st, xvar=xv)
    blocks = list(exhaustive_blocks())
    for spec in (blocks if budget > 1 else rng.sample(blocks, 40)):
        ctx.case(("oracle", json.dumps(spec)))
        ctx.count("oracle:blocks-1d")
        normal_oracle(ctx, spec)
    def pick_xvar():
        xv = rng.choice(XVARS) if rng.random() < 0.35 else None
        ctx.count("oracle:x:%s" % (xv or "complex128-C"))
        return xv
    for spec, _ in B.class_sweep(rng, max(2, int(3 * budget))):
        ctx.case(("oracle", json.dumps(spec)))
        ctx.count("oracle:class:" + spec[1])
        normal_oracle(ctx, spec)
        xv = rng.choice(XVARS)
        ctx.case(("oracle", json.dumps(spec), xv))
        ctx.count("oracle:x:%s" % xv)
        normal_oracle(ctx, spec, xvar=xv)
    for i in range(int(250 * budget)):
        spec, _ = B.gen_tree(rng, rng.choice([1, 2, 3, 4]), None, stack_neg=B.probes()["neg_stack"])
        if rng.random() < 0.3:
            spec = ["N", spec] if rng.random() < 0.3 else spec
        xv = pick_xvar()
        ctx.case(("oracle", json.dumps(spec), xv))
        ctx.count("oracle:tree")
        normal_oracle(ctx, spec, xvar=xv)
    for i in range(int(150 * budget)):
        spec, A = B.gen_opaque(rng)
        spec, A = B.wrap_opaque(rng, spec, A)
        xv = pick_xvar()
        ctx.case(("oracle", json.dumps(spec), xv))
        ctx.count("oracle:opaque:" + next(iter(B.leaves(spec)))[1])
        normal_oracle(ctx, spec, xvar=xv)
    for i in range(int(25 * budget)):       # a Toeplitz NUFFT inside a small tree (C06 bound only)
        spec = gen_toeplitz(rng)
        if rng.random() < 0.4:
            try:
                spec, _ = B.wrap_opaque(rng, spec, B.build(spec))
            except Exception:
                pass
        ctx.case(("oracle", json.dumps(spec)))
        ctx.count("oracle:nufft-toeplitz-tree:%s/%s" % tuple(next(lf[2][k] for lf in B.leaves(spec) if lf[1] == "nufft")
                                                              for k in ("oversamp", "width")))
        normal_oracle(ctx, spec)
    # Toeplitz NUFFT normal operators: single operators first (smallest replay), then histories of live operators
    quick = budget <= 1
    for gen, n, tag in ((gen_toeplitz_single, int(120 * budget), "single"), (gen_toeplitz_history, int(60 * budget), "history")):
        for i in range(n):
            case = gen(rng, quick)
            ctx.case(("toeplitz", json.dumps(case)))
            for p_ in case["ops"]:
                nb = len(p_["sh"]) - len(p_["coord"][0])
                ctx.count("oracle:toeplitz-%s:kernel:%s/%s" % (tag, p_["oversamp"], p_["width"]))
                ctx.count("oracle:toeplitz-%s:batch:%s" % (tag, "none" if nb == 0 else "size-1" if B.prod(p_["sh"][:nb]) == 1
                                                            else "%d-axes" % nb))
                ctx.count("oracle:toeplitz:coord:%s" % p_["ckind"])
                ctx.count("oracle:toeplitz:coord-dtype:%s" % p_["cdtype"])
                ctx.count("oracle:toeplitz:coord-layout:%s" % p_["clayout"])
                if "change" in p_:
                    ctx.count("oracle:toeplitz-history:change:%s%s" % (p_["change"], ":same-array" if p_.get("share") is not None else ""))
            for st in case["steps"]:
                ctx.count("oracle:toeplitz:x:%s" % st["xkind"])
                ctx.count("oracle:toeplitz:x-dtype-layout:%s" % (st["xvar"] or "complex128-C"))
            toeplitz_oracle(ctx, case)
    if MARGINS:
        m = max(MARGINS)
        ctx.notes.append("Toeplitz NUFFT normal: %d steps compared, largest err / tolerance = %.3f (oversamp=%s, width=%s)"
                         % (len(MARGINS), m[0], m[1], m[2]))


def replay(path):
    r = json.load(open(path))
    if r.get("kind") == "failing-input" and r["case"].get("oracle") == "toeplitz":
        print(json.dumps(r, indent=1)[:3000])
        ctx = common.Ctx(PROPERTY, "quick", 0)
        ok = toeplitz_oracle(ctx, r["case"], origin="replay")
        for f in ctx.failures:
            print("observed:", f["observed"], "expected:", f["expected"])
        print("replay:", "property holds on this input" if ok else "property FAILS on this input")
        return 0 if ok else 1

    def orc(ctx, c):
        x = None
        if c.get("oracle") == "toeplitz":
            return toeplitz_oracle(ctx, c, origin="replay")
        if c.get("oracle") == "cover":
            p = c["spec"][2]
            xx = None
            if "x" in c:
                xx = np.array([complex(a, b) for a, b in c["x"]])
            return cover_oracle(ctx, p["sh"], p["blk"], p["str"], x=xx, origin="replay", xvar=c.get("xvar"))
        if "x" in c:
            try:
                A = B.build(c["spec"])
                x = np.array([complex(a, b) for a, b in c["x"]]).reshape(A.ishape)
            except Exception:
                x = None
        return normal_oracle(ctx, c["spec"], x=x, origin="replay", xvar=c.get("xvar"))
    return B.replay(path, oracle=orc)
