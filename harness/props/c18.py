"""C18 — Poisson-disc masks: binary, reproducible, calibrated, at the requested acceleration.

Real code: sigpy/mri/samp.py `poisson` (bisection driver) and `_poisson` (numba Bridson sampler).
Model: lean/SigpyVerif/Model/C18.lean assembled from Gen/Samp.lean (regenerated from the source each run).

"The mask depends only on the arguments and seed" is quantified over HISTORIES: besides single calls (and the identical
call repeated back to back) the oracle runs call SEQUENCES in which a request recurs with other calls in between (other
seeds, one argument swept and back, a second configuration interleaved, unseeded and must-raise calls, the caller
overwriting the arrays it got back, the same values passed as numpy integers / lists / dtype names).  A sequence is run
as the complete `poisson` history of a fresh process (a fork of an interpreter that has only imported the module and
compiled the numba kernel); identical (arguments, seed) must give bitwise identical outcomes within the sequence
(C18:history:same-process) and the same outcome as that request made as the very first call of a process
(C18:history:fresh-process).  Findings are minimised (typically to seed=a, seed=b, seed=a) and the replay runs the listed
calls again from a fresh process, so nothing outside the case dict is needed.  The correspondence driver stream also gets
traces of calls that had a history: the model's bisection starts every call from (slopeMin0, slopeMax0).
"""
import base64
import hashlib
import json
import os
import select
import signal
import subprocess
import sys
import time
import types
import warnings
from fractions import Fraction as F

import numpy as np

from harness import common
from harness.translate import gen as G

PROPERTY = "C18"
LEAN_MODULES = ["SigpyVerif.Props.C18"]
THEOREMS = ["SigpyVerif.C18." + t for t in [
    "structure_ok", "calib_block_bounds", "calib_block_size", "radX_max_at_zero", "cropKeep_iff_sq",
    "mask_binary", "mask_monotone", "calib_ones", "active_list_inv",
    "crop_keeps_calib", "crop_loses_calib_iff", "crop_counterexample_16_15",
    "crop_outside_zero", "crop_binary",
    "returned_within_tol", "raise_iff", "never_unbound", "bisection_direction", "exact_bisection_never_raises", "stall_exits", "interval_shrinks", "terminates",
    "deterministic", "global_rng_frame", "global_rng_frame_private",
]]

K_EDGE = "C18:crop_corner:calib-touches-edge"
K_STUCK = "C18:bisection:non-terminating"
K_HIST_SAME = "C18:history:same-process"      # same arguments + seed, two calls in one process, different earlier calls
K_HIST_FRESH = "C18:history:fresh-process"    # a call after other calls differs from the same call as first call of a process


def translate(ctx):
    G.regenerate(ctx, ["Samp"])


# =================================================================================================
# running the real code under observation
# =================================================================================================
class Stuck(Exception):
    pass


class Hang(Exception):
    pass


class Slow(Exception):
    pass


class Observer:
    """stands in for `samp._poisson` during one `poisson` call: forwards to the real numba kernel and
    records the bisection state found in the caller's frame.  It changes nothing except that a loop state
    that repeats (seeded call: the loop is then provably infinite — the defect repaired by the stall break)
    ends the call with `Stuck` instead of hanging the check."""

    def __init__(self, orig, seeded):
        self.orig, self.seeded = orig, seeded
        self.calls, self.r, self.repeat = [], None, 0

    def __call__(self, nx, ny, max_attempts, radius_x, radius_y, calib, seed):
        f = sys._getframe(1).f_locals
        if self.calls and "mask" in f:
            self.calls[-1]["sum"] = float(np.sum(f["mask"]))
        st = (float(f["slope_min"]), float(f["slope_max"]), float(f["slope"]))
        if self.r is None:
            self.r = np.array(f["r"], copy=True)
        if self.calls and self.calls[-1]["st"] == st:
            self.repeat += 1
            if self.seeded or self.repeat >= 60:
                raise Stuck()
        self.calls.append(dict(st=st, sum=None))
        return self.orig(nx, ny, max_attempts, radius_x, radius_y, calib, seed)


TICK = 15.0          # watchdog period [s]: no new `_poisson` call during a whole period = hang
SLOW_LIMIT = 60.0    # a call that is still making progress after this long is abandoned (never an alarm)


def samp_module():
    import sigpy.mri.samp as samp
    return samp


def set_prior(prior):
    """an arbitrary prior state of numpy's global generator"""
    k, n, g = prior
    np.random.seed(k)
    if n:
        np.random.random(n)
    if g:
        np.random.standard_normal(1)  # leaves a cached gaussian (has_gauss = 1)


def same_state(a, b):
    return a[0] == b[0] and np.array_equal(a[1], b[1]) and a[2:] == b[2:]


SEED_KINDS = ["int", "int64", "int32", "uint32"]   # the same seed *value* as a Python int or a numpy integer scalar
ARG_FORMS = ["tuple", "list", "npint"]              # img_shape / calib as tuple of ints, list of ints, tuple of np.int64
DTYPE_FORMS = ["type", "dtype", "name"]             # np.float32 / np.dtype("float32") / "float32"
CALL_LOG = []                                       # every case passed to the real `poisson` in this process, in order


def call_args(c):
    """the arguments of the real call for case c.  The optional keys seed_kind / arg_form / dtype_form change only the
    Python *form* in which a value is passed (all forms are accepted by the unchanged code and denote the same value)"""
    form = c.get("arg_form", "tuple")

    def seq(v):
        if form == "list":
            return [int(t) for t in v]
        if form == "npint":
            return tuple(np.int64(t) for t in v)
        return tuple(int(t) for t in v)

    seed, sk = c["seed"], c.get("seed_kind", "int")
    if seed is not None and sk != "int":
        seed = getattr(np, sk)(seed)
    dt, df = np.dtype(c["dtype"]), c.get("dtype_form", "type")
    dtype = dt.type if df == "type" else dt if df == "dtype" else dt.name
    return seq(c["shape"]), dict(calib=seq(c["calib"]), dtype=dtype, crop_corner=c["crop"], seed=seed,
                                 max_attempts=c["max_attempts"], tol=c["tol"])


def call_poisson(c):
    """one observed call of the real `poisson` under a watchdog.  Returns a record dict.
    outcome: returned | ValueError | error:<type> | stuck (state repeats) | hang (watchdog: no progress) |
    slow (progressing but over the time guard; inconclusive)"""
    samp = samp_module()
    obs = Observer(samp._poisson, c["seed"] is not None)
    rec = dict(outcome=None, mask=None, err=None)
    shape, kw = call_args(c)
    CALL_LOG.append(c)
    t0, seen = time.time(), [0]

    def tick(signum, frame):
        if len(obs.calls) == seen[0]:
            raise Hang()
        seen[0] = len(obs.calls)
        if time.time() - t0 > SLOW_LIMIT:
            raise Slow()

    samp._poisson = obs
    old = signal.signal(signal.SIGALRM, tick)
    signal.setitimer(signal.ITIMER_REAL, TICK, TICK)
    try:
        with warnings.catch_warnings():
            warnings.simplefilter("ignore")
            m = samp.poisson(shape, c["accel"], **kw)
        rec["outcome"], rec["mask"] = "returned", m
        if obs.calls:
            obs.calls[-1]["sum"] = float(np.sum(m.real))
    except Stuck:
        rec["outcome"] = "stuck"
    except Hang:
        rec["outcome"] = "hang"
    except Slow:
        rec["outcome"] = "slow"
    except ValueError as e:
        rec["outcome"], rec["err"] = "ValueError", str(e)
        tb = e.__traceback__
        while tb is not None:
            if tb.tb_frame.f_code.co_name == "poisson" and "mask" in tb.tb_frame.f_locals and obs.calls:
                obs.calls[-1]["sum"] = float(np.sum(tb.tb_frame.f_locals["mask"]))
            tb = tb.tb_next
    except Exception as e:  # noqa
        rec["outcome"], rec["err"] = "error:" + type(e).__name__, repr(e)
    finally:
        signal.setitimer(signal.ITIMER_REAL, 0)
        signal.signal(signal.SIGALRM, old)
        samp._poisson = obs.orig
    rec["calls"], rec["r"], rec["secs"] = obs.calls, obs.r, time.time() - t0
    return rec


# =================================================================================================
# the property's own oracle (written from the statement; exact rational geometry)
# =================================================================================================
def block_range(n, c):
    """the calibration index range the code documents: int(n/2 - c/2) .. int(n/2 + c/2) - 1"""
    return range(int(n / 2 - c / 2), int(n / 2 + c / 2))


def exact_coord(n, c):
    """normalised |k|-coordinate of every index, exactly: max(|i - n/2| - c/2, 0) / max_i(..)"""
    raw = [max(abs(F(i) - F(n, 2)) - F(c, 2), F(0)) for i in range(n)]
    mx = max(raw)
    return [v / mx for v in raw]


def outside_ellipse(c):
    """boolean (ny, nx): r >= 1 for certain.  Exact r² > 1, or r² = 1 with one coordinate zero (then the float
    computation sqrt(1² + 0²) is exact); Pythagorean r² = 1 points are left undecided (neither demanded)."""
    ny, nx = c["shape"]
    cy, cx = c["calib"]
    xs, ys = exact_coord(nx, cx), exact_coord(ny, cy)
    out = np.zeros((ny, nx), bool)
    for y in range(ny):
        for x in range(nx):
            r2 = xs[x] ** 2 + ys[y] ** 2
            out[y, x] = r2 > 1 or (r2 == 1 and (xs[x] == 0 or ys[y] == 0))
    return out


def edge_class(c):
    """the known-finding class: crop on, non-empty block, and the block reaches index 0 of an axis whose
    radius coordinate there is 1, i.e. n - c = 1 on some axis"""
    ny, nx = c["shape"]
    cy, cx = c["calib"]
    return bool(c["crop"]) and cx >= 1 and cy >= 1 and (nx - cx == 1 or ny - cy == 1)


def in_domain(c):
    ny, nx = c["shape"]
    cy, cx = c["calib"]
    return 0 <= cx < nx and 0 <= cy < ny and c["accel"] > 1 and c["tol"] > 0


def judge(c, rec, st0, st1, fail, count):
    """what C18 demands of ONE call of the real code (record `rec`, numpy global state before/after): global RNG
    untouched; returns or raises ValueError (no hang, no other exception); a returned mask has the requested shape/dtype,
    values in {0,1}, acceleration within tol, calibration block sampled, nothing outside the ellipse when cropping.
    `fail(key, what, observed, expected)` is called for every violated clause."""
    ny, nx = c["shape"]
    cy, cx = c["calib"]
    count("outcome:" + rec["outcome"].split(":")[0])
    if not same_state(st0, st1):
        fail("C18:global-rng", "numpy.random.get_state() differs before/after poisson(seed=%r)" % (c["seed"],),
             observed="pos %s -> %s, key equal: %s" % (st0[2], st1[2], np.array_equal(st0[1], st1[1])), expected="identical state")
    if rec["outcome"] in ("stuck", "hang"):
        if rec["outcome"] == "hang" or c["seed"] is not None:
            lo, hi, s = rec["calls"][-1]["st"] if rec["calls"] else (None, None, None)
            fail(K_STUCK, "poisson neither returns nor raises: " + (
                "the bisection state (slope_min, slope_max) repeats and the seeded sampler is deterministic, so the loop is infinite"
                if rec["outcome"] == "stuck" else "no progress for %.0f s (watchdog)" % TICK),
                 observed="after %d iterations slope_min=%r slope_max=%r slope=%r" % (len(rec["calls"]), lo, hi, s),
                 expected="a mask within tol or ValueError")
        else:
            count("inconclusive:unseeded-same-slope-60x")
        return
    if rec["outcome"] == "slow":
        count("inconclusive:slow-but-progressing")
        return
    if rec["outcome"].startswith("error"):
        fail("C18:exception", "poisson raised %s on a valid request" % rec["outcome"][6:], observed=rec["err"],
             expected="mask or ValueError")
        return
    if rec["outcome"] == "ValueError":
        return
    m = rec["mask"]
    if tuple(m.shape) != (ny, nx) or m.dtype != np.dtype(c["dtype"]):
        fail("C18:shape-dtype", "wrong shape/dtype", observed=(m.shape, str(m.dtype)), expected=((ny, nx), c["dtype"]))
        return
    vals = np.unique(m)
    if not all(v == 0 or v == 1 for v in vals):
        fail("C18:binary", "mask has values other than 0 and 1", observed=[complex(v) for v in vals][:8], expected="{0,1}")
    tot = F(float(np.sum(m.real)))
    if tot == 0 or not abs(F(nx * ny) / tot - F(c["accel"])) < F(c["tol"]) * (1 + F(1, 10 ** 9)):
        fail("C18:accel-tol", "returned mask is not within tol of the requested acceleration",
             observed="size/sum = %s" % (float(F(nx * ny) / tot) if tot else "inf"), expected="|. - %r| < %r" % (c["accel"], c["tol"]))
    # calibration block
    by, bx = block_range(ny, cy), block_range(nx, cx)
    out = outside_ellipse(c) if c["crop"] else None
    missing = [(y, x) for y in by for x in bx if m[y, x] != 1]
    if missing:
        if edge_class(c) and all(out[y, x] for y, x in missing):
            fail(K_EDGE, "calibration samples on the grid edge are cropped by crop_corner (their radius r is 1)",
                 observed="%d block points are 0, e.g. %s" % (len(missing), missing[:4]), expected="every calibration point sampled")
        else:
            fail("C18:calibration", "calibration block not fully sampled", observed="missing %s" % missing[:6],
                 expected="mask == 1 on rows %s cols %s" % ((by.start, by.stop), (bx.start, bx.stop)))
    if c["crop"]:
        bad = np.argwhere(out & (m != 0))
        if len(bad):
            fail("C18:crop", "sample outside the inscribed ellipse although crop_corner=True",
                 observed="%d points with r >= 1, e.g. %s" % (len(bad), bad[:4].tolist()), expected="0 wherever r >= 1")


def check_oracle(ctx, c, origin, repeats=1):
    """run the real code on case c and demand exactly what C18 states.  Returns (ok, record)."""
    ok = True

    def fail(key, what, observed=None, expected=None):
        nonlocal ok
        ok = False
        ctx.fail(key, what, c, observed=observed, expected=expected, origin=origin)

    set_prior(c["prior"])
    st0 = np.random.get_state()
    rec = call_poisson(c)
    st1 = np.random.get_state()
    judge(c, rec, st0, st1, fail, ctx.count)
    if rec["outcome"] == "returned" and c["seed"] is not None and (
            tuple(rec["mask"].shape) == tuple(c["shape"]) and rec["mask"].dtype == np.dtype(c["dtype"])):
        m = rec["mask"]
        for k in range(repeats):
            np.random.seed((c["prior"][0] + 17 + k) % 2 ** 32)  # disturb numpy's global generator in between
            np.random.random(5)
            rec2 = call_poisson(c)
            if rec2["outcome"] != "returned" or not np.array_equal(rec2["mask"], m):
                fail("C18:determinism", "two calls with identical arguments and seed differ",
                     observed=rec2["outcome"] if rec2["outcome"] != "returned" else "%d entries differ" % int(np.sum(rec2["mask"] != m)),
                     expected="bitwise identical mask")
                break
    return ok, rec


# =================================================================================================
# histories: "the mask depends only on the arguments and seed" over call sequences
# =================================================================================================
def req_key(c):
    """identity of a request by the VALUES of its arguments and seed (not by their Python form, not by the prior state
    of numpy.random, not by what was called before)"""
    return json.dumps([list(map(int, c["shape"])), float(c["accel"]), list(map(int, c["calib"])), float(c["tol"]), c["seed"],
                       bool(c["crop"]), str(np.dtype(c["dtype"])), c["max_attempts"]])


def mask_sig(m):
    return hashlib.sha1((str(m.dtype) + str(m.shape)).encode() + np.ascontiguousarray(m).tobytes()).hexdigest()


def run_calls(calls, scribble=False, keep=False):
    """run the calls in order in THIS process; one JSON-able result per call: outcome, bitwise signature of the mask,
    the violated single-call clauses (`judge`), timing.  scribble: after each call the caller overwrites the array it was
    handed (it owns it) — a later result must not change because of that."""
    out = []
    for c in calls:
        fails, counts = [], []
        set_prior(c["prior"])
        st0 = np.random.get_state()
        rec = call_poisson(c)
        st1 = np.random.get_state()
        judge(c, rec, st0, st1, lambda key, what, observed=None, expected=None: fails.append(
            [key, what, common._short(observed, 400), common._short(expected, 400)]), counts.append)
        res = dict(outcome=rec["outcome"], err=rec["err"], secs=round(rec["secs"], 4), iters=len(rec["calls"]), fails=fails,
                   counts=counts, slope=rec["calls"][-1]["st"][2] if rec["calls"] else None)
        if rec["outcome"] == "returned":
            m = rec["mask"]
            res.update(sig=mask_sig(m), sum=float(np.sum(m.real)), shape=list(m.shape), dtype=str(m.dtype),
                       nz=base64.b64encode(np.packbits(np.ascontiguousarray(m) != 0).tobytes()).decode())
            if scribble and m.flags.writeable:
                m[...] = (m == 0)
        if keep:
            res["rec"] = rec
        out.append(res)
    return out


FRESH_CODE = r"""
import sys, os, json, warnings, select, signal, time
sys.path.insert(0, sys.argv[1]); sys.path.insert(0, sys.argv[2])
warnings.simplefilter("ignore")
import numpy as np
from harness.props import c18
samp = c18.samp_module()
one = np.ones((2, 2))
samp._poisson(2, 2, 0, one, one, (0, 0), 0)       # compile the numba kernel (int and None seed) by direct kernel calls;
samp._poisson(2, 2, 0, one, one, (0, 0), None)    # `poisson` itself is NEVER called in this process, only in its forks
print("ready", flush=True)
for line in sys.stdin:
    req = json.loads(line)
    r, w = os.pipe()
    pid = os.fork()
    if pid == 0:
        try:
            os.close(r)
            res = c18.run_calls(req["calls"], req.get("scribble", False))
            with os.fdopen(w, "wb") as f:
                f.write(json.dumps(res).encode())
        finally:
            os._exit(0)
    os.close(w)
    chunks, t_end = [], time.time() + req["limit"]
    while True:
        left = t_end - time.time()
        if left <= 0 or not select.select([r], [], [], left)[0]:
            os.kill(pid, signal.SIGKILL)
            chunks = []
            break
        b = os.read(r, 1 << 16)
        if not b:
            break
        chunks.append(b)
    os.close(r)
    os.waitpid(pid, 0)
    print(b"".join(chunks).decode() or "null", flush=True)
"""


class Fresh:
    """a pristine interpreter that has imported sigpy.mri.samp and compiled the numba kernel but has never called
    `poisson`; every request is run in a fork of it, i.e. as the first `poisson` call(s) of a process.  A sequence run
    there has exactly the listed calls as its history, which makes every reported sequence self-contained."""

    def __init__(self):
        self.p, self.asked, self.lost = None, 0, 0

    def start(self):
        if self.p is not None and self.p.poll() is None:
            return True
        try:
            self.p = subprocess.Popen([sys.executable, "-c", FRESH_CODE, common.VERIF, common.REPO], stdin=subprocess.PIPE,
                                      stdout=subprocess.PIPE, stderr=subprocess.DEVNULL, text=True, bufsize=1)
        except OSError:
            self.p = None
            return False
        return True

    def _line(self, timeout):
        if not select.select([self.p.stdout], [], [], timeout)[0]:
            return None
        return self.p.stdout.readline()

    def ready(self):
        if getattr(self, "_ready", False) and self.p is not None and self.p.poll() is None:
            return True
        if not self.start():
            return False
        ln = self._line(180)
        self._ready = bool(ln) and ln.strip() == "ready"
        if not self._ready:
            self.close()
        return self._ready

    def run(self, calls, scribble=False, limit=None):
        """results of the calls run in order in a fork of the pristine interpreter, or None (inconclusive: too slow / lost)"""
        if not self.ready():
            self.lost += 1
            return None
        limit = limit or (20 + 2 * len(calls))
        try:
            self.p.stdin.write(json.dumps(dict(calls=calls, scribble=scribble, limit=limit)) + "\n")
            self.p.stdin.flush()
            ln = self._line(limit + 20)
        except (OSError, ValueError):
            ln = None
        self.asked += 1
        if ln is None or not ln.strip():
            self.close()
            self.lost += 1
            return None
        res = json.loads(ln)
        if res is None:
            self.lost += 1
        return res

    def close(self):
        if self.p is not None:
            try:
                self.p.kill()
                self.p.communicate(timeout=10)
            except Exception:  # noqa
                pass
        self.p, self._ready = None, False


FRESH = Fresh()
CONCLUSIVE = ("returned", "ValueError")


def differs(a, b):
    return a["outcome"] != b["outcome"] or (a["outcome"] == "returned" and a["sig"] != b["sig"])


def describe(a):
    if a["outcome"] != "returned":
        return "%s after %d sampler calls" % (a["outcome"], a["iters"])
    return "mask with %g samples (accepted slope %r after %d sampler calls)" % (a["sum"], a["slope"], a["iters"])


def n_diff(a, b):
    if a["outcome"] == b["outcome"] == "returned" and a["shape"] == b["shape"]:
        x = np.frombuffer(base64.b64decode(a["nz"]), np.uint8)
        y = np.frombuffer(base64.b64decode(b["nz"]), np.uint8)
        return int(np.unpackbits(x ^ y).sum())
    return None


def shrink(calls, scribble, pred, keep_first, t_box=25.0, trials=40):
    """greedy removal of calls (the last one, and the first one if keep_first, stay) while `pred(results)` still holds"""
    t_end = time.time() + t_box
    cur = list(calls)
    changed = True
    while changed and trials > 0 and time.time() < t_end:
        changed = False
        k = len(cur) - 2
        while k >= (1 if keep_first else 0) and trials > 0 and time.time() < t_end:
            cand = cur[:k] + cur[k + 1:]
            trials -= 1
            R = FRESH.run(cand, scribble)
            if R is not None and pred(R):
                cur, changed = cand, True
            k -= 1
    return cur


def session_case(s, calls, **extra):
    d = dict(kind="session", flavour=s.get("flavour", "?"), scribble=bool(s.get("scribble")), calls=calls)
    d.update(extra)
    return d


def check_session(ctx, s, origin, do_shrink=True):
    """a call sequence run as the complete `poisson` history of a fresh process.  Demands (i) every single call satisfies
    `judge`; (ii) any two calls with the same argument values and seed (seed not None) give the same outcome and bitwise
    the same mask, whatever was called in between; (iii) each of them equals the same request made as the very first call
    of a fresh process.  Returns True when nothing was violated (or the run was inconclusive)."""
    calls, scr = s["calls"], bool(s.get("scribble"))
    ctx.count("session:" + s.get("flavour", "?"))
    # only the first two findings of a run are minimised (each minimisation costs up to ~25 s of fresh-process runs)
    do_shrink = do_shrink and sum(1 for f in ctx.failures if f["key"] in (K_HIST_SAME, K_HIST_FRESH)) < 2
    R = FRESH.run(calls, scr)
    if R is None:
        ctx.count("session:inconclusive")
        return True
    ok = True
    for i, (c, res) in enumerate(zip(calls, R)):
        for k in res["counts"]:
            ctx.count(k)
        for key, what, obs, exp in res["fails"]:
            ok = False
            ctx.fail(key, what + " [call #%d of %d run in one fresh process]" % (i, len(calls)),
                     session_case(s, calls[:i + 1], at=i), observed=obs, expected=exp, origin=origin)
    groups = {}
    for i, (c, res) in enumerate(zip(calls, R)):
        if c["seed"] is not None and res["outcome"] in CONCLUSIVE:
            groups.setdefault(req_key(c), []).append(i)
    for key, idx in groups.items():
        i = idx[0]
        ctx.count("session:request")
        if len(idx) > 1:
            ctx.count("session:request-repeated")
        bad = [j for j in idx[1:] if differs(R[i], R[j])]
        if bad:
            ok = False
            j = bad[0]
            sub = calls[i:j + 1]
            if do_shrink:
                sub = shrink(sub, scr, lambda Q: Q[0]["outcome"] in CONCLUSIVE and Q[-1]["outcome"] in CONCLUSIVE and differs(Q[0], Q[-1]), True)
            Q = FRESH.run(sub, scr)
            if Q is None or len(Q) != len(sub) or not differs(Q[0], Q[-1]):
                sub, a, b = calls[:j + 1], R[i], R[j]   # the unshrunk prefix, exactly as it was run
            else:
                a, b = Q[0], Q[-1]
            nd = n_diff(a, b)
            ctx.fail(K_HIST_SAME, "the same arguments and seed give two different results in one process, depending on the calls made in between",
                     session_case(s, sub, shrunk_from=len(calls)),
                     observed="first occurrence: %s; last call of the sequence (same request): %s%s" % (
                         describe(a), describe(b), "; %d mask entries differ" % nd if nd is not None else ""),
                     expected="bitwise identical outcome for identical (arguments, seed)", origin=origin)
            continue
        if i == 0 or not s.get("fresh", True):
            continue   # call #0 IS the first call of a fresh process, and every repetition was compared with it above
        one = FRESH.run([calls[i]], scr)
        if one is None or one[0]["outcome"] not in CONCLUSIVE:
            ctx.count("session:fresh-ref-inconclusive")
            continue
        ctx.count("session:fresh-ref")
        ref = one[0]
        bad = [j for j in idx if differs(ref, R[j])]
        if bad:
            ok = False
            j = bad[0]
            sub = calls[:j + 1]
            if do_shrink:
                sub = shrink(sub, scr, lambda Q: Q[-1]["outcome"] in CONCLUSIVE and differs(ref, Q[-1]), False)
            Q = FRESH.run(sub, scr)
            if Q is None or len(Q) != len(sub) or not differs(ref, Q[-1]):
                sub, Q = calls[:j + 1], R[:j + 1]
            nd = n_diff(ref, Q[-1])
            ctx.fail(K_HIST_FRESH, "the last call of the sequence gives a different result than the same call made as the first call of a process",
                     session_case(s, sub, shrunk_from=len(calls)),
                     observed="as first call of a fresh process: %s; after the %d listed calls: %s%s" % (
                         describe(ref), len(sub) - 1, describe(Q[-1]), "; %d mask entries differ" % nd if nd is not None else ""),
                     expected="bitwise identical outcome for identical (arguments, seed)", origin=origin)
    return ok


def check_warm(ctx, c, rec, origin):
    """a single seeded call that this (long-running, many earlier `poisson` calls) process just made, against the same
    call as first call of a fresh process.  A difference is turned into a self-contained sequence by replaying suffixes of
    this process's call log in a fresh process."""
    if c["seed"] is None or rec["outcome"] not in CONCLUSIVE or rec["secs"] > 2.0:
        return True
    if sum(1 for f in ctx.failures if f["key"] in (K_HIST_SAME, K_HIST_FRESH)) >= 3:
        return True   # history dependence is already reported with concrete sequences; turning more of it up costs minutes
    one = FRESH.run([c])
    if one is None or one[0]["outcome"] not in CONCLUSIVE:
        ctx.count("warm-vs-fresh:inconclusive")
        return True
    ctx.count("warm-vs-fresh")
    ref = one[0]
    mine = dict(outcome=rec["outcome"], sig=mask_sig(rec["mask"]) if rec["outcome"] == "returned" else None)
    if not differs(ref, mine):
        return True
    try:
        pos = max(k for k, d in enumerate(CALL_LOG) if d is c)
    except ValueError:
        pos = len(CALL_LOG)
    hist, found, k = [strip_history(x) for x in CALL_LOG[:pos]], None, 1
    t_end = time.time() + 60
    while time.time() < t_end:
        k = min(k, len(hist))
        Q = FRESH.run(hist[len(hist) - k:] + [c], limit=30 + 2 * k)
        if Q is not None and Q[-1]["outcome"] in CONCLUSIVE and differs(ref, Q[-1]):
            found = hist[len(hist) - k:] + [c]
            break
        if k >= len(hist):
            break
        k *= 2
    if found is not None:
        sub = shrink(found, False, lambda Q: Q[-1]["outcome"] in CONCLUSIVE and differs(ref, Q[-1]), False, t_box=40, trials=60)
        case = session_case(dict(flavour="call-log-suffix"), sub, shrunk_from=len(found))
        what = "the last call of the sequence gives a different result than the same call made as the first call of a process"
    else:
        case = session_case(dict(flavour="warm-process-unreproduced"), [c],
                            note="observed in the check's own process after %d earlier poisson calls; no suffix of the call log "
                                 "reproduced it in a fresh process, so this replay may not fail" % len(hist))
        what = "a call made after many other calls differs from the same call made as the first call of a process"
    ctx.fail(K_HIST_FRESH, what, case,
             observed="as first call of a fresh process: %s; in the running process: %s" % (
                 describe(ref), rec["outcome"] if rec["outcome"] != "returned" else "mask with %g samples" % float(np.sum(rec["mask"].real))),
             expected="bitwise identical outcome for identical (arguments, seed)", origin=origin)
    return False


# =================================================================================================
# case generation
# =================================================================================================
DTYPES = ["complex128", "complex64", "float64", "float32", "int64", "uint8", "bool"]


def gen_case(rng, big=True):
    kind = rng.random()
    hi = 128 if big else 40
    if kind < 0.45:
        n = rng.choice([16, 17, 20, 24, 25, 32, 33, 48, 64, 65, 96, 128]) if big else rng.randint(16, 40)
        ny, nx = n, n
    else:
        ny, nx = rng.randint(16, hi), rng.randint(16, hi)
        if rng.random() < 0.3:
            ny, nx = rng.choice([(16, 128), (128, 16), (16, 64), (96, 24), (31, 17), (17, 64)])
    if not big:
        ny, nx = min(ny, 40), min(nx, 40)
    ck = rng.random()
    if ck < 0.2:
        cy, cx = 0, 0
    elif ck < 0.75:
        cy, cx = rng.randint(0, ny // 3), rng.randint(0, nx // 3)
    elif ck < 0.9:
        cy, cx = rng.randint(0, ny - 1), rng.randint(0, nx - 1)
    else:  # near the edge (n - c in {1, 2, 3}) on one or both axes
        cy = ny - rng.choice([1, 1, 2, 3]) if rng.random() < 0.6 else rng.randint(1, ny // 2)
        cx = nx - rng.choice([1, 1, 2, 3]) if rng.random() < 0.6 else rng.randint(1, nx // 2)
    # accelerations above size/(calibration samples) cannot be met; still in the domain (must raise), keep some
    cap = nx * ny / max(1, cx * cy)
    a = rng.random()
    if a < 0.15:
        accel = round(rng.uniform(1.01, 12.0), rng.choice([1, 2, 3]))
    else:
        accel = round(rng.uniform(1.3, max(1.4, min(12.0, 0.9 * cap))), rng.choice([0, 1, 2, 3]))
    accel = min(max(accel, 1.01), 12.0)
    if float(accel).is_integer() and rng.random() < 0.5:
        accel = int(accel)
    tol = rng.choice([0.1, 0.1, 0.1, 0.2, 0.05, 0.5, 0.3, 0.02, 1.0])
    seed = rng.choice([0, 0, 1, 80, None, rng.randint(0, 2 ** 31 - 1), rng.randint(0, 10 ** 4), rng.randint(0, 10 ** 4)])
    ma = rng.choice([30, 30, 30, 10, 5, 2, 1, 60])
    if nx * ny > 24 * 24:
        # an acceleration below what the densest pattern (slope 0) gives makes the bisection walk slope_max down
        # to the denormals (~1075 dense sampler calls: minutes on large grids) before it raises — correct but too
        # slow for the search, so on grids above 24x24 the request stays above a conservative estimate of that
        # minimum (calibration block + a fraction of the rest); the full range (1, 12] is exercised up to 24x24.
        cal, size = cx * cy, nx * ny
        dens = (0.42 if ma >= 10 else 0.3 if ma >= 5 else 0.18)
        accel = round(min(12.0, max(accel, 1.15 * size / (cal + dens * (size - cal)))), 3)
    if nx * ny > 64 * 64 and ma > 30:
        ma = 30
    return dict(shape=[ny, nx], accel=accel, calib=[cy, cx], tol=tol, seed=seed, crop=rng.random() < 0.6,
                dtype=rng.choice(DTYPES), max_attempts=ma,
                prior=[rng.randint(0, 2 ** 32 - 1), rng.choice([0, 0, 1, 7, 623, 624, 1000]), rng.random() < 0.4])


def fresh_prior(rng):
    return [rng.randint(0, 2 ** 32 - 1), rng.choice([0, 0, 1, 7, 623, 624, 1000]), rng.random() < 0.4]


def vary_form(rng, c):
    """the same request (same values) with a new prior numpy.random state and, sometimes, another Python form"""
    d = {k: v for k, v in c.items() if k not in ("seed_kind", "arg_form", "dtype_form")}
    if d["seed"] is not None and rng.random() < 0.15:
        d["seed_kind"] = rng.choice(SEED_KINDS[1:])
    if rng.random() < 0.1:
        d["arg_form"] = rng.choice(ARG_FORMS[1:])
    if rng.random() < 0.1:
        d["dtype_form"] = rng.choice(DTYPE_FORMS[1:])
    d["prior"] = fresh_prior(rng)
    return d


def session_base(rng, big):
    """a seeded request on a grid up to 64x64, mostly attainable (so that whole sequences stay cheap), with a tolerance
    biased to the tight side: the accepted slope then differs between seeds / neighbouring parameters, which is what makes
    remembered state visible"""
    while True:
        c = gen_case(rng, big=big)
        ny, nx = c["shape"]
        if not in_domain(c) or nx * ny > 64 * 64:
            continue
        cy, cx = c["calib"]
        c["seed"] = rng.choice([0, 0, 1, 80, rng.randint(0, 10 ** 4), rng.randint(0, 2 ** 31 - 1)])
        c["tol"] = rng.choice([0.02, 0.05, 0.05, 0.1, 0.1, 0.1, 0.2])
        return attainable(c)


def attainable(c):
    """the request with its acceleration raised, if necessary, above a conservative estimate of what the densest pattern
    (slope 0) gives for ITS grid / calibration / max_attempts.  Below that, `poisson` walks slope_max down to the denormals
    (~1080 dense sampler calls, seconds to minutes) before it raises: correct, exercised by the single-call search on
    grids up to 24x24, but too slow for sequences of a dozen calls."""
    (ny, nx), (cy, cx) = c["shape"], c["calib"]
    cal, size = cx * cy, nx * ny
    dens = (0.42 if c["max_attempts"] >= 10 else 0.3 if c["max_attempts"] >= 5 else 0.18)
    lo = round(min(12.0, 1.15 * size / (cal + dens * (size - cal))), 3)
    return c if c["accel"] >= lo else dict(c, accel=lo)


def clip_calib(shape, calib):
    return [max(0, min(int(cv), n - 1)) for cv, n in zip(calib, shape)]


def param_values(rng, base, param):
    """neighbouring values of one argument (the first is the base's own)"""
    ny, nx = base["shape"]
    cy, cx = base["calib"]
    if param == "seed":
        vals = [base["seed"]]
        while len(vals) < rng.randint(3, 5):
            v = rng.choice([0, 1, 2, 3, 80, rng.randint(0, 10 ** 4), rng.randint(0, 2 ** 31 - 1)])
            if v not in vals:
                vals.append(v)
        return vals
    if param == "accel":
        a = float(base["accel"])
        vals = [base["accel"]] + [round(min(12.0, max(1.01, a * f)), 3) for f in rng.sample([0.9, 0.95, 0.97, 1.03, 1.1, 1.25, 1.5], 3)]
    elif param == "tol":
        vals = [base["tol"]] + rng.sample([0.02, 0.05, 0.1, 0.2, 0.5, 1.0], 3)
    elif param == "calib":
        vals = [[cy, cx], [0, 0], [cy, 0], [0, cx], [cy + 1, cx + 2], [cx, cy], [max(cy, 2), max(cx, 2)], [1, 1]]
        vals = [vals[0]] + rng.sample(vals[1:], 3)
        vals = [clip_calib(base["shape"], v) for v in vals]
    elif param == "max_attempts":
        vals = [base["max_attempts"]] + rng.sample([30, 10, 5, 3, 2], 3)
    elif param == "crop":
        vals = [base["crop"], not base["crop"]]
    elif param == "dtype":
        vals = [base["dtype"]] + rng.sample(DTYPES, 3)
    elif param == "shape":
        vals = [[ny, nx], [nx, ny], [ny, ny], [nx, nx], [ny, max(16, nx - 1)], [min(64, ny + 1), nx]]
        vals = [vals[0]] + rng.sample(vals[1:], 3)
    out = []
    for v in vals:
        if v not in out:
            out.append(v)
    return out


def with_param(base, param, v):
    d = dict(base)
    d[param] = v
    if param == "shape":
        d["calib"] = clip_calib(v, base["calib"])
    return d


SWEEPS = ["accel", "tol", "calib", "max_attempts", "crop", "dtype", "shape"]


def gen_session(rng, big=True, flavour=None):
    """a call sequence in which requests recur with different calls in between.
    seeds      one configuration, 3-5 seeds, generated in one order and regenerated in another (frames of a dynamic scan)
    sweep:<p>  one argument stepped through neighbouring values and back, the seed (or two alternating seeds) fixed
    interleave two configurations (often the same shape, calibration zero / non-zero on an axis, or transposed) alternating
    walk       random walk: each step changes one argument of the previous request or returns to an earlier request
    plus, at random positions, unseeded calls (they advance the sampler's private generator) and requests that must raise."""
    flavour = flavour or rng.choice(["seeds", "seeds", "seeds", "sweep", "sweep", "interleave", "walk"])
    base = session_base(rng, big)
    if flavour == "seeds":
        reqs = [with_param(base, "seed", v) for v in param_values(rng, base, "seed")]
        second = list(reversed(reqs)) if rng.random() < 0.5 else rng.sample(reqs, len(reqs))
        calls = reqs + second + (reqs if rng.random() < 0.3 else [])
    elif flavour == "sweep":
        p = rng.choice(SWEEPS)
        flavour = "sweep:" + p
        reqs = [with_param(base, p, v) for v in param_values(rng, base, p)]
        if rng.random() < 0.4:
            s2 = rng.choice([x for x in [0, 1, 7, 80, 4242] if x != base["seed"]])
            reqs = [with_param(r, "seed", s2) if k % 2 else r for k, r in enumerate(reqs)] + \
                   [r if k % 2 else with_param(r, "seed", s2) for k, r in enumerate(reqs)]
        calls = reqs + list(reversed(reqs))
    elif flavour == "interleave":
        other = dict(session_base(rng, big), dtype=base["dtype"])
        k = rng.random()
        if k < 0.35:     # same grid, calibration differs (zero / non-zero per axis)
            other = with_param(base, "calib", rng.choice(param_values(rng, base, "calib")[1:] or [[0, 0]]))
        elif k < 0.55:   # transposed grid: the axis lengths recur on the other axis
            other = with_param(with_param(base, "shape", base["shape"][::-1]), "calib", clip_calib(base["shape"][::-1], other["calib"]))
        elif k < 0.75:   # same grid, otherwise unrelated request
            other = dict(other, shape=base["shape"], calib=clip_calib(base["shape"], other["calib"]))
        s2 = rng.choice([x for x in [0, 1, 7, 80, 4242] if x != base["seed"]])
        reqs = [base, other, with_param(base, "seed", s2), with_param(other, "seed", s2)]
        calls = reqs + [rng.choice(reqs) for _ in range(rng.randint(3, 6))] + list(reversed(reqs))
    else:
        reqs, calls, cur = [base], [base], base
        for _ in range(rng.randint(6, 10)):
            if rng.random() < 0.45 and len(reqs) > 1:
                cur = rng.choice(reqs)
            else:
                p = rng.choice(SWEEPS + ["seed", "seed"])
                vals = param_values(rng, cur, p)
                cur = with_param(cur, p, rng.choice(vals[1:] or vals))
                reqs.append(cur)
            calls.append(cur)
        calls += [base, rng.choice(reqs)]
    calls = [attainable(c) for c in calls if in_domain(c)][:14]
    # disturbers
    if rng.random() < 0.4:
        for _ in range(rng.randint(1, 2)):
            calls.insert(rng.randint(1, len(calls)), with_param(rng.choice(calls), "seed", None))
    if rng.random() < 0.3:
        calls.insert(rng.randint(1, len(calls)), with_param(rng.choice(calls), "tol", 1e-4))   # (almost surely) must raise
    return dict(kind="session", flavour=flavour, scribble=rng.random() < 0.5, calls=[vary_form(rng, c) for c in calls])


def pinned_cases():
    """deterministic instances run in every tier: the known finding, the two formerly hanging inputs, defaults"""
    base = dict(tol=0.1, seed=0, crop=True, dtype="complex128", max_attempts=30, prior=[12345, 3, True])
    return [
        dict(base, shape=[16, 16], accel=2, calib=[4, 15]),       # finding #12 (n=16, c=15)
        dict(base, shape=[16, 16], accel=4.03, calib=[0, 0], tol=0.005),  # formerly non-terminating (fixed: raises)
        dict(base, shape=[20, 20], accel=11.9, calib=[2, 1], max_attempts=10, seed=80),  # formerly non-terminating, default tol
        dict(base, shape=[60, 60], accel=6, calib=[0, 0], seed=80),
        dict(base, shape=[32, 48], accel=3, calib=[8, 6], seed=None, dtype="float32"),
        dict(base, shape=[17, 17], accel=2, calib=[16, 5]),        # n odd, c = n-1
        dict(base, shape=[24, 20], accel=2.5, calib=[6, 18], crop=True),  # n - c = 2: block keeps r < 1
    ]


# =================================================================================================
# correspondence
# =================================================================================================
def Q(x):
    f = F(x)
    return "%d/%d" % (f.numerator, f.denominator) if f.denominator != 1 else "%d" % f.numerator


def driver_line(c, rec):
    ny, nx = c["shape"]
    calls = rec["calls"]
    mids = ";".join("%s|%s|%s" % (Q(a), Q(b), Q(s)) for a, b, s in dict.fromkeys(cl["st"] for cl in calls)) or "-"
    sums = ";".join("%s|%s" % (Q(cl["st"][2]), Q(cl["sum"])) for cl in calls if cl["sum"] is not None) or "-"
    fuel = len(calls) + (1 if rec["outcome"] == "stuck" else 2)
    return "C18 driver nx=%d ny=%d accel=%s tol=%s fuel=%d mids=%s sums=%s" % (nx, ny, Q(c["accel"]), Q(c["tol"]), fuel, mids, sums)


def driver_impl(c, rec):
    calls = rec["calls"]
    st = [(cl["st"][0], cl["st"][1]) for cl in calls]
    if rec["outcome"] == "stuck":
        st.append(st[-1])
        o = "running"
    elif rec["outcome"] == "returned":
        o = "returned:%s" % Q(calls[-1]["sum"])
    else:
        o = "raised"
    return "ok states=%s outcome=%s mid-is-rounded-midpoint=1" % (";".join("%s|%s" % (Q(a), Q(b)) for a, b in st) or "-", o)


def decision_tie(c, rec):
    """float and exact decisions may differ only when an exact comparison is (nearly) an equality"""
    ny, nx = c["shape"]
    for cl in rec["calls"]:
        if cl["sum"] in (None, 0):
            continue
        a = F(nx * ny) / F(cl["sum"])
        d = abs(a - F(c["accel"]))
        if abs(d - F(c["tol"])) <= F(1, 10 ** 11) * max(1, F(c["accel"])) or d <= F(1, 10 ** 11):
            return True
    return False


def correspond_driver(ctx, cases_recs):
    lines, meta = [], []
    for c, rec in cases_recs:
        if rec["outcome"] not in ("returned", "ValueError", "stuck") or not rec["calls"]:
            continue
        if c["seed"] is None and len({cl["st"][2] for cl in rec["calls"]}) != len(rec["calls"]):
            continue  # unseeded: the same slope may give different masks, the model's sampler is a function of slope
        if any(cl["sum"] is None for cl in rec["calls"][:-1]) or (rec["outcome"] != "stuck" and rec["calls"][-1]["sum"] is None):
            continue
        if decision_tie(c, rec):
            ctx.count("driver:skipped-tie")
            continue
        lines.append(driver_line(c, rec))
        meta.append((c, rec))
    bad = 0
    for (c, rec), ln, r in zip(meta, lines, ctx.driver(lines)):
        impl = driver_impl(c, rec)
        ctx.case(("driver", ln), sample=dict(line=ln[:160], reply=r[:160]) if len(ctx.samples) < 4 else None)
        ctx.count("driver:" + rec["outcome"])
        if any(cl["sum"] == 0 for cl in rec["calls"]):
            ctx.count("driver:zero-sum-iteration")
        if impl != r:
            bad += 1
            ctx.disagree("driver", c, impl, r)
    ctx.oblige("correspondence:C18.driver", "correspondence", bad == 0,
               "%d disagreements over %d real bisection traces" % (bad, len(lines)))
    # radius field / crop flags
    lines, meta = [], []
    seen = set()
    for c, rec in cases_recs:
        k = (tuple(c["shape"]), tuple(c["calib"]))
        if rec["r"] is None or k in seen:
            continue
        seen.add(k)
        lines.append("C18 keep nx=%d ny=%d cx=%d cy=%d" % (c["shape"][1], c["shape"][0], c["calib"][1], c["calib"][0]))
        meta.append((c, rec))
    bad = 0
    for (c, rec), ln, r in zip(meta, lines, ctx.driver(lines)):
        ny, nx = c["shape"]
        ctx.case(("keep", ln))
        ctx.count("keep")
        ok = r.startswith("ok ")
        if ok:
            parts = r.split(" ")
            bits = np.array([ch == "1" for ch in parts[1]]).reshape(ny, nx)
            ties = [] if parts[2] == "ties=-" else [int(v) for v in parts[2][5:].split(",")]
            lost = [] if parts[3] == "lost=-" else [int(v) for v in parts[3][5:].split(",")]
            impl = rec["r"] < 1
            xs, ys = exact_coord(nx, c["calib"][1]), exact_coord(ny, c["calib"][0])
            skip = np.zeros((ny, nx), bool)
            for t in ties:
                if xs[t % nx] != 0 and ys[t // nx] != 0:
                    skip[t // nx, t % nx] = True
            ok = bool(np.all((bits == impl) | skip))
            # the model's statement of which calibration points the crop removes vs the arithmetic class
            cls = c["calib"][0] >= 1 and c["calib"][1] >= 1 and (nx - c["calib"][1] == 1 or ny - c["calib"][0] == 1)
            ok = ok and (bool(lost) == cls)
        if not ok:
            bad += 1
            ctx.disagree("keep", c, "r<1 of the real call", r[:200])
    ctx.oblige("correspondence:C18.keep", "correspondence", bad == 0,
               "%d disagreements over %d radius fields (model r²<1 vs the real call's r<1)" % (bad, len(lines)))


def correspond_calib(ctx, n_pairs):
    """slice bounds: the real numba kernel with max_attempts=0 returns exactly the calibration fill"""
    samp = samp_module()
    rng = ctx.rng
    pairs = [(n, c) for n in range(1, 21) for c in range(0, n + 1)]
    pairs += [(rng.randint(16, 130), None) for _ in range(n_pairs)]
    lines, meta = [], []
    for n, c in pairs:
        if c is None:
            c = rng.choice([rng.randint(0, n), n, n - 1, n - 2, 0, 1])
        m = rng.randint(1, 9)
        cm = rng.randint(0, m)
        if rng.random() < 0.5:
            ny, nx, cy, cx = n, m, c, cm
        else:
            ny, nx, cy, cx = m, n, cm, c
        ones = np.ones((ny, nx))
        mask = samp._poisson(nx, ny, 0, ones, ones, (cy, cx), 0)
        lines += ["C18 calib ax=y n=%d c=%d" % (ny, cy), "C18 calib ax=x n=%d c=%d" % (nx, cx)]
        meta.append((ny, nx, cy, cx, mask))
    rep = ctx.driver(lines)
    bad = 0
    for k, (ny, nx, cy, cx, mask) in enumerate(meta):
        ry, rx = rep[2 * k], rep[2 * k + 1]
        ctx.case(("calib", ny, nx, cy, cx))
        ctx.count("calib-fill")
        want = np.zeros((ny, nx))
        try:
            loy, hiy = [int(v) for v in ry.split()[1:]]
            lox, hix = [int(v) for v in rx.split()[1:]]
            for y in range(loy, hiy):
                for x in range(lox, hix):
                    want[y, x] = 1
            good = np.array_equal(want, mask) and 0 <= loy <= hiy <= ny and 0 <= lox <= hix <= nx
        except Exception:  # noqa
            good = False
        if not good:
            bad += 1
            ctx.disagree("calib", dict(ny=ny, nx=nx, cy=cy, cx=cx), "ones at %s" % np.argwhere(mask == 1)[:6].tolist(), (ry, rx))
    ctx.oblige("correspondence:C18.calib", "correspondence", bad == 0,
               "%d disagreements over %d calibration fills of the real numba kernel (max_attempts=0)" % (bad, len(meta)))


# ---- sampler: `_poisson.py_func` body run with a scripted numpy namespace -----------------------------------
VS = []  # (u, v) with v = (3u+1)**0.5 exactly, both dyadic
for a_ in range(16, 33):
    if (a_ * a_ - 256) % 3 == 0:
        u_ = (a_ * a_ - 256) / 768.0
        if (u_ * 3 + 1) ** 0.5 == a_ / 16.0 and F(u_) * 3 + 1 == F(a_, 16) ** 2:
            VS.append((u_, a_ / 16.0))
CS = [k / 8.0 for k in range(-8, 9)]
RADII = [1.0, 1.0, 1.0, 1.5, 2.0, 2.0, 3.0, 4.0]


class RecArr:
    def __init__(self, n, log, name):
        self.a, self.log, self.name = np.zeros(n, np.int32), log, name

    def __getitem__(self, i):
        return self.a[i]

    def __setitem__(self, i, v):
        self.log.append(("set", self.name, int(i), isinstance(v, float), v))
        self.a[i] = v


class FakeNp:
    """source of what `_poisson` sees as `np` (see run_scripted): scripted random/randint/cos/sin, logged `empty`"""

    def __init__(self, rng):
        self.rng, self.log = rng, []
        self._phase = 0
        self._names = ["pxs", "pys"]

    def empty(self, n, dt):
        return RecArr(n, self.log, self._names.pop(0))

    def seed(self, s):
        self.log.append(("seed", s))

    def randint(self, lo, hi):
        v = self.rng.randrange(lo, hi)
        self.log.append(("int", v))
        return v

    def _random(self):
        self._phase ^= 1
        if self._phase:
            u, v = self.rng.choice(VS)
            self.log.append(("v", v))
            return u
        return self.rng.random()

    def cos(self, t):
        c = self.rng.choice(CS)
        self.log.append(("c", c))
        return c

    def sin(self, t):
        s = self.rng.choice(CS)
        self.log.append(("s", s))
        return s


def run_scripted(rng, nx, ny, cx, cy, ma, rxa, rya):
    samp = samp_module()
    pf = samp._poisson.py_func
    fake = FakeNp(rng)
    fake_random = types.SimpleNamespace(seed=fake.seed, randint=fake.randint, random=fake._random)
    ns = types.SimpleNamespace(pi=np.pi, int32=np.int32, zeros=np.zeros, empty=fake.empty, cos=fake.cos, sin=fake.sin,
                               random=fake_random)
    g = dict(pf.__globals__)
    g["np"] = ns
    fn = types.FunctionType(pf.__code__, g, "_poisson_scripted", pf.__defaults__, pf.__closure__)
    mask = fn(nx, ny, ma, rxa, rya, (cy, cx), 0)
    return mask, fake.log


def decode_log(log):
    """-> p0, draws [(i, [(v,c,s)..])], trace [(attempts, done)], final active lists"""
    ev = [e for e in log if e[0] != "seed"]
    assert [e[0] for e in ev[:4]] == ["int", "set", "int", "set"], ev[:4]
    p0 = (ev[0][1], ev[2][1])
    pxs, pys = [p0[0]], [p0[1]]
    k = 4
    draws, trace = [], []
    while k < len(ev):
        assert ev[k][0] == "int", ev[k]
        i = ev[k][1]
        k += 1
        cands = []
        while k < len(ev) and ev[k][0] == "v":
            assert ev[k + 1][0] == "c" and ev[k + 2][0] == "s"
            cands.append((ev[k][1], ev[k + 1][1], ev[k + 2][1]))
            k += 3
        sx, sy = ev[k], ev[k + 1]
        assert sx[0] == "set" and sy[0] == "set" and sx[1] == "pxs" and sy[1] == "pys"
        k += 2
        done = sx[3]
        if done:
            assert sx[2] == len(pxs)
            pxs.append(int(sx[4]))
            pys.append(int(sy[4]))
        else:
            assert sx[2] == i
            pxs[i], pys[i] = pxs[-1], pys[-1]
            pxs.pop()
            pys.pop()
        draws.append((i, cands))
        trace.append((len(cands), done))
    return p0, draws, trace, pxs, pys


def correspond_sampler(ctx, n):
    rng = ctx.rng
    lines, meta = [], []
    for _ in range(n):
        nx, ny = rng.randint(2, 7), rng.randint(2, 7)
        cx, cy = rng.randint(0, nx), rng.randint(0, ny)
        if rng.random() < 0.4:
            cx, cy = rng.randint(0, 1), rng.randint(0, 1)
        ma = rng.choice([1, 2, 3, 4, 6])
        flat = rng.random() < 0.4
        rxa = np.array([[1.0 if flat else rng.choice(RADII) for _ in range(nx)] for _ in range(ny)])
        rya = np.array([[1.0 if flat else rng.choice(RADII) for _ in range(nx)] for _ in range(ny)])
        try:
            mask, log = run_scripted(rng, nx, ny, cx, cy, ma, rxa, rya)
            p0, draws, trace, pxs, pys = decode_log(log)
        except Exception as e:  # the scripted body no longer runs / its event order changed
            lines.append("C18 sampler-undecodable")
            meta.append((dict(nx=nx, ny=ny, cx=cx, cy=cy, ma=ma), "err %r" % (e,), 0))
            continue
        ds = ";".join(":".join([str(i)] + ["%s|%s|%s" % (Q(v), Q(c_), Q(s)) for v, c_, s in cs]) for i, cs in draws) or "-"
        ln = "C18 sampler nx=%d ny=%d cx=%d cy=%d ma=%d rx=%s ry=%s p0=%d,%d draws=%s" % (
            nx, ny, cx, cy, ma, ",".join(Q(v) for v in rxa.ravel()), ",".join(Q(v) for v in rya.ravel()), p0[0], p0[1], ds)
        impl = "ok mask=%s trace=%s px=%s py=%s live=0" % (
            ",".join(Q(v) for v in mask.ravel()), ",".join("%d:%d" % (k, d) for k, d in trace) or "-",
            ",".join(map(str, pxs)) or "-", ",".join(map(str, pys)) or "-")
        lines.append(ln)
        acc = sum(1 for _, d in trace if d)
        meta.append((dict(nx=nx, ny=ny, cx=cx, cy=cy, ma=ma, rx=rxa.tolist(), ry=rya.tolist(), p0=p0, draws=draws), impl,
                     acc - int(mask.sum() - np.sum(mask[int(ny / 2 - cy / 2):int(ny / 2 + cy / 2), int(nx / 2 - cx / 2):int(nx / 2 + cx / 2)]))))
    bad = 0
    for (c, impl, rehits), ln, r in zip(meta, lines, ctx.driver(lines)):
        nontriv = len(c.get("draws", [])) >= 2
        ctx.case(("sampler", ln), nontrivial=nontriv,
                 sample=dict(line=ln[:200], reply=r[:120]) if len(ctx.samples) < 8 else None)
        ctx.count("sampler")
        if rehits > 0:
            ctx.count("sampler:accepted-on-occupied-or-calibration-cell")
        if impl != r:
            bad += 1
            ctx.disagree("sampler", c, impl, r)
    ctx.oblige("correspondence:C18.sampler", "correspondence", bad == 0,
               "%d disagreements over %d scripted runs of _poisson.py_func (mask, per-iteration attempts/accept, active list)" % (bad, len(lines)))


def correspond(ctx):
    ctx.rule = ("four streams. calib: (n, c) pairs, all n ≤ 20 exhaustively + random n ≤ 130, real numba kernel with "
                "max_attempts=0 vs generated slice bounds; sampler: random small grids (2..7)², variable radii from "
                "{1,1.5,2,3,4}, scripted dyadic draws (v=sqrt(3u+1) exact, cos/sin multiples of 1/8) through "
                "_poisson.py_func vs the Lean machine on the same stream, distinct by the full protocol line, non-trivial "
                "when ≥ 2 outer iterations; driver/keep: real `poisson` calls (shapes 16..40 quick, random accel/calib/tol/"
                "seed/max_attempts, plus call SEQUENCES in which requests recur: seed lists regenerated in another order, one "
                "argument swept and back, two configurations interleaved) observed at `_poisson` entry, bisection states and "
                "outcome vs the Lean driver fed with the real mask sums, and the real r<1 field vs the model's exact r²<1. "
                "search: single calls as before + call sequences (seeds / sweep:<arg> / interleave / walk, with unseeded and "
                "must-raise calls in between, argument forms int|np.int64|list|dtype-name, returned arrays overwritten by the "
                "caller) run as the complete history of a fresh process and compared request-by-request with each other and "
                "with the same request as first call of a fresh process")
    quick = ctx.tier == "quick"
    correspond_calib(ctx, 300 if quick else 3000)
    correspond_sampler(ctx, 300 if quick else 2500)
    FRESH.start()   # the pristine interpreter used by the history oracle of `search` warms up meanwhile
    recs = []
    cases = pinned_cases() + [gen_case(ctx.rng, big=False) for _ in range(90 if quick else 500)]
    for c in cases:
        if not in_domain(c):
            continue
        set_prior(c["prior"])
        recs.append((c, call_poisson(c)))
    # call sequences: the model's bisection starts every call from (slopeMin0, slopeMax0) and every slope is the midpoint,
    # whatever was called before; a real trace that starts elsewhere after some history disagrees with it.  Each case
    # carries the calls made before it in its sequence ("after") so that the search can re-run it with its history.
    for _ in range(5 if quick else 30):
        ses = gen_session(ctx.rng, big=False, flavour=ctx.rng.choice(["seeds", "seeds", "sweep", "interleave"]))
        ctx.count("driver:sequence")
        for k, res in enumerate(run_calls(ses["calls"], ses["scribble"], keep=True)):
            recs.append((dict(ses["calls"][k], after=ses["calls"][:k], scribble=ses["scribble"]), res["rec"]))
            if k:
                ctx.count("driver:call-with-history")
    correspond_driver(ctx, recs)
    ctx.traces = ctx.evaluations
    ctx.assumptions += [
        "numba's nopython np.random.* uses a generator private to numba (not numpy's global one): not modelled, "
        "checked on the real code by the search oracle (numpy.random.get_state() before/after, seeded and unseeded)",
        "termination of the bisection is proved for any midpoint function with lo <= mid <= hi over a finite grid of slope "
        "values (theorems stall_exits / interval_shrinks / terminates); that float64 (a+b)/2 has this property is IEEE "
        "arithmetic, not proved, checked on every real trace by the driver stream (flag mid-is-rounded-midpoint)",
        "float geometry of the sampler (sqrt, cos, sin, rounding of the neighbour test) is abstracted by the draw stream; "
        "the correspondence uses draws on which float and exact arithmetic coincide",
        "history independence (the model has no state between calls: translator obligation on module-level state) is checked "
        "on the real code by call sequences; 'a fresh process' is a fork of an interpreter that imported sigpy.mri.samp and "
        "compiled `_poisson` by two direct kernel calls with max_attempts=0 (seed 0 and None) and never called `poisson`",
    ]


# =================================================================================================
# search
# =================================================================================================
def search(ctx, budget):
    rng = ctx.rng
    try:
        _search(ctx, budget)
    finally:
        ctx.count("fresh-process:runs", FRESH.asked)
        if FRESH.lost:
            ctx.count("fresh-process:inconclusive", FRESH.lost)
        FRESH.close()


def strip_history(c):
    return {k: v for k, v in c.items() if k not in ("after", "scribble")}


def _search(ctx, budget):
    rng = ctx.rng
    FRESH.start()
    # disagreeing calls that had a history: re-run the longest disagreeing prefix of each sequence (it contains the others)
    longest = {}
    for d in ctx.disagreements:
        c = d["case"]
        if isinstance(c, dict) and c.get("after") and in_domain(c):
            sid = json.dumps(strip_history(c["after"][0]), sort_keys=True)
            if sid not in longest or len(c["after"]) > len(longest[sid]["after"]):
                longest[sid] = c
    for c in list(longest.values())[:8]:
        ses = dict(kind="session", flavour="disagreement", scribble=bool(c.get("scribble")),
                   calls=[strip_history(x) for x in c["after"]] + [strip_history(c)])
        ctx.case(("session", json.dumps(ses, sort_keys=True)))
        check_session(ctx, ses, "disagreement")
    for d in ctx.disagreements[:60]:
        c = d["case"]
        if isinstance(c, dict) and "shape" in c and in_domain(c):
            check_oracle(ctx, strip_history(c), "disagreement")
    hang_regressions(ctx)
    t_seq = ctx.elapsed()
    # histories: call sequences as the complete history of a fresh process
    ns = int(26 * budget)
    t_end = ctx.elapsed() + (45 if budget <= 1 else 90 if budget <= 4 else 240 if budget <= 8 else 400)
    for k in range(ns):
        if ctx.elapsed() > t_end:
            ctx.notes.append("sequence search stopped by its time box after %d of %d sequences" % (k, ns))
            break
        if sum(1 for f in ctx.failures if f["key"] in (K_HIST_SAME, K_HIST_FRESH)) >= 6:
            ctx.notes.append("sequence search stopped after 6 history findings (%d sequences)" % k)
            break
        ses = gen_session(rng, big=rng.random() < 0.5)
        ctx.case(("session", json.dumps(ses, sort_keys=True)), nontrivial=len(ses["calls"]) >= 3)
        check_session(ctx, ses, "search")
    ctx.notes.append("search: sequences took %.0f s (started at %.0f s)" % (ctx.elapsed() - t_seq, t_seq))
    for c in pinned_cases():
        ctx.case(("oracle", json.dumps(c, sort_keys=True)))
        check_oracle(ctx, c, "pinned")
    n = int(220 * budget)
    t_end = ctx.elapsed() + (90 if budget <= 1 else 150 if budget <= 4 else 520 if budget <= 8 else 800)
    for k in range(n):
        if ctx.elapsed() > t_end:
            ctx.notes.append("search stopped by its time box after %d of %d cases" % (k, n))
            break
        c = gen_case(rng, big=True)
        if not in_domain(c):
            continue
        ctx.case(("oracle", json.dumps(c, sort_keys=True)))
        ctx.count("crop:%s" % c["crop"])
        ctx.count("seed:%s" % ("None" if c["seed"] is None else "int"))
        if edge_class(c):
            ctx.count("class:calib-touches-edge")
        ok, rec = check_oracle(ctx, c, "search")
        if ok and k < int(110 * budget):
            check_warm(ctx, c, rec, "search")
    ctx.notes.append("search: finished at %.0f s" % ctx.elapsed())


HANG_CODE = """
import sys, json, warnings
sys.path.insert(0, sys.argv[1])
warnings.simplefilter("ignore")
import numpy as np
import sigpy.mri.samp as samp
c = json.loads(sys.argv[2])
try:
    m = samp.poisson(tuple(c["shape"]), c["accel"], calib=tuple(c["calib"]), crop_corner=c["crop"], seed=c["seed"],
                     max_attempts=c["max_attempts"], tol=c["tol"])
    print("returned", float(np.sum(m.real)))
except ValueError:
    print("ValueError")
"""
HANG_TIMEOUT = 75  # s, hard; covers a cold numba compile (~20 s); the calls themselves take < 1 s


def hang_regressions(ctx):
    """the two inputs on which `poisson` used to loop forever, run on the *unobserved* real code in a subprocess
    with a hard timeout: a return of the old behaviour is a failing input, never a hang of the check"""
    cases = [c for c in pinned_cases() if c.get("tol") == 0.005 or c["accel"] == 11.9]
    procs = []
    for c in cases:
        procs.append((c, subprocess.Popen([sys.executable, "-c", HANG_CODE, common.REPO, json.dumps(c)],
                                          stdout=subprocess.PIPE, stderr=subprocess.PIPE, text=True)))
    for c, p in procs:
        ctx.case(("hang-regression", json.dumps(c, sort_keys=True)))
        try:
            out, err = p.communicate(timeout=HANG_TIMEOUT)
        except subprocess.TimeoutExpired:
            p.kill()
            p.communicate()
            ctx.count("hang-regression:timeout")
            ctx.fail(K_STUCK, "poisson neither returns nor raises within %d s (plain call in a subprocess)" % HANG_TIMEOUT, c,
                     observed="no result after %d s" % HANG_TIMEOUT, expected="a mask within tol or ValueError", origin="pinned-subprocess")
            continue
        res = out.strip().split()
        ctx.count("hang-regression:" + (res[0] if res else "error"))
        if not res:
            ctx.fail("C18:exception", "poisson raised an unexpected exception on a valid request", c,
                     observed=err[-400:], expected="mask or ValueError", origin="pinned-subprocess")
        elif res[0] == "returned":
            ny, nx = c["shape"]
            tot = F(float(res[1]))
            if tot == 0 or not abs(F(nx * ny) / tot - F(c["accel"])) < F(c["tol"]):
                ctx.fail("C18:accel-tol", "returned mask is not within tol of the requested acceleration", c,
                         observed="sum %s" % res[1], expected="|size/sum - %r| < %r" % (c["accel"], c["tol"]), origin="pinned-subprocess")


def replay(path):
    r = json.load(open(path))
    print(json.dumps(r, indent=1)[:3000])
    if r.get("kind") != "failing-input":
        return 0
    ctx = common.Ctx(PROPERTY, "quick", 0)
    if r["case"].get("kind") == "session":
        # the listed calls are run, in order, as the complete `poisson` history of a fresh process
        try:
            ok = check_session(ctx, r["case"], "replay", do_shrink=False)
        finally:
            FRESH.close()
    else:
        ok, rec = check_oracle(ctx, r["case"], "replay", repeats=6)
    for f in ctx.failures:
        print("  %s: %s | observed %s | expected %s" % (f["key"], f["what"], f["observed"], f["expected"]))
    print("replay:", "property holds on this input" if ok else "property FAILS on this input")
    return 0 if ok else 1
