"""C18 — Poisson-disc masks: binary, reproducible, calibrated, at the requested acceleration.

Real code: sigpy/mri/samp.py `poisson` (bisection driver) and `_poisson` (numba Bridson sampler).
Model: lean/SigpyVerif/Model/C18.lean assembled from Gen/Samp.lean (regenerated from the source each run).
"""
import json
import os
import signal
import subprocess
import sys
import time
import types
import warnings
from fractions import Fraction as F

import numpy as np

from harness import common
from harness.translate import gen as G

PROPERTY = "C18"
LEAN_MODULES = ["SigpyVerif.Props.C18"]
THEOREMS = ["SigpyVerif.C18." + t for t in [
    "structure_ok", "calib_block_bounds", "calib_block_size", "radX_max_at_zero", "cropKeep_iff_sq",
    "mask_binary", "mask_monotone", "calib_ones", "active_list_inv",
    "crop_keeps_calib", "crop_loses_calib_iff", "crop_counterexample_16_15",
    "crop_outside_zero", "crop_binary",
    "returned_within_tol", "raise_iff", "never_unbound", "bisection_direction", "exact_bisection_never_raises", "stall_exits", "interval_shrinks", "terminates",
    "deterministic", "global_rng_frame", "global_rng_frame_private",
]]

K_EDGE = "C18:crop_corner:calib-touches-edge"
K_STUCK = "C18:bisection:non-terminating"


def translate(ctx):
    G.regenerate(ctx, ["Samp"])


# =================================================================================================
# running the real code under observation
# =================================================================================================
class Stuck(Exception):
    pass


class Hang(Exception):
    pass


class Slow(Exception):
    pass


class Observer:
    """stands in for `samp._poisson` during one `poisson` call: forwards to the real numba kernel and
    records the bisection state found in the caller's frame.  It changes nothing except that a loop state
    that repeats (seeded call: the loop is then provably infinite — the defect repaired by the stall break)
    ends the call with `Stuck` instead of hanging the check."""

    def __init__(self, orig, seeded):
        self.orig, self.seeded = orig, seeded
        self.calls, self.r, self.repeat = [], None, 0

    def __call__(self, nx, ny, max_attempts, radius_x, radius_y, calib, seed):
        f = sys._getframe(1).f_locals
        if self.calls and "mask" in f:
            self.calls[-1]["sum"] = float(np.sum(f["mask"]))
        st = (float(f["slope_min"]), float(f["slope_max"]), float(f["slope"]))
        if self.r is None:
            self.r = np.array(f["r"], copy=True)
        if self.calls and self.calls[-1]["st"] == st:
            self.repeat += 1
            if self.seeded or self.repeat >= 60:
                raise Stuck()
        self.calls.append(dict(st=st, sum=None))
        return self.orig(nx, ny, max_attempts, radius_x, radius_y, calib, seed)


TICK = 15.0          # watchdog period [s]: no new `_poisson` call during a whole period = hang
SLOW_LIMIT = 60.0    # a call that is still making progress after this long is abandoned (never an alarm)


def samp_module():
    import sigpy.mri.samp as samp
    return samp


def set_prior(prior):
    """an arbitrary prior state of numpy's global generator"""
    k, n, g = prior
    np.random.seed(k)
    if n:
        np.random.random(n)
    if g:
        np.random.standard_normal(1)  # leaves a cached gaussian (has_gauss = 1)


def same_state(a, b):
    return a[0] == b[0] and np.array_equal(a[1], b[1]) and a[2:] == b[2:]


def call_poisson(c):
    """one observed call of the real `poisson` under a watchdog.  Returns a record dict.
    outcome: returned | ValueError | error:<type> | stuck (state repeats) | hang (watchdog: no progress) |
    slow (progressing but over the time guard; inconclusive)"""
    samp = samp_module()
    obs = Observer(samp._poisson, c["seed"] is not None)
    rec = dict(outcome=None, mask=None, err=None)
    kw = dict(calib=tuple(c["calib"]), dtype=np.dtype(c["dtype"]).type, crop_corner=c["crop"], seed=c["seed"],
              max_attempts=c["max_attempts"], tol=c["tol"])
    t0, seen = time.time(), [0]

    def tick(signum, frame):
        if len(obs.calls) == seen[0]:
            raise Hang()
        seen[0] = len(obs.calls)
        if time.time() - t0 > SLOW_LIMIT:
            raise Slow()

    samp._poisson = obs
    old = signal.signal(signal.SIGALRM, tick)
    signal.setitimer(signal.ITIMER_REAL, TICK, TICK)
    try:
        with warnings.catch_warnings():
            warnings.simplefilter("ignore")
            m = samp.poisson(tuple(c["shape"]), c["accel"], **kw)
        rec["outcome"], rec["mask"] = "returned", m
        if obs.calls:
            obs.calls[-1]["sum"] = float(np.sum(m.real))
    except Stuck:
        rec["outcome"] = "stuck"
    except Hang:
        rec["outcome"] = "hang"
    except Slow:
        rec["outcome"] = "slow"
    except ValueError as e:
        rec["outcome"], rec["err"] = "ValueError", str(e)
        tb = e.__traceback__
        while tb is not None:
            if tb.tb_frame.f_code.co_name == "poisson" and "mask" in tb.tb_frame.f_locals and obs.calls:
                obs.calls[-1]["sum"] = float(np.sum(tb.tb_frame.f_locals["mask"]))
            tb = tb.tb_next
    except Exception as e:  # noqa
        rec["outcome"], rec["err"] = "error:" + type(e).__name__, repr(e)
    finally:
        signal.setitimer(signal.ITIMER_REAL, 0)
        signal.signal(signal.SIGALRM, old)
        samp._poisson = obs.orig
    rec["calls"], rec["r"] = obs.calls, obs.r
    return rec


# =================================================================================================
# the property's own oracle (written from the statement; exact rational geometry)
# =================================================================================================
def block_range(n, c):
    """the calibration index range the code documents: int(n/2 - c/2) .. int(n/2 + c/2) - 1"""
    return range(int(n / 2 - c / 2), int(n / 2 + c / 2))


def exact_coord(n, c):
    """normalised |k|-coordinate of every index, exactly: max(|i - n/2| - c/2, 0) / max_i(..)"""
    raw = [max(abs(F(i) - F(n, 2)) - F(c, 2), F(0)) for i in range(n)]
    mx = max(raw)
    return [v / mx for v in raw]


def outside_ellipse(c):
    """boolean (ny, nx): r >= 1 for certain.  Exact r² > 1, or r² = 1 with one coordinate zero (then the float
    computation sqrt(1² + 0²) is exact); Pythagorean r² = 1 points are left undecided (neither demanded)."""
    ny, nx = c["shape"]
    cy, cx = c["calib"]
    xs, ys = exact_coord(nx, cx), exact_coord(ny, cy)
    out = np.zeros((ny, nx), bool)
    for y in range(ny):
        for x in range(nx):
            r2 = xs[x] ** 2 + ys[y] ** 2
            out[y, x] = r2 > 1 or (r2 == 1 and (xs[x] == 0 or ys[y] == 0))
    return out


def edge_class(c):
    """the known-finding class: crop on, non-empty block, and the block reaches index 0 of an axis whose
    radius coordinate there is 1, i.e. n - c = 1 on some axis"""
    ny, nx = c["shape"]
    cy, cx = c["calib"]
    return bool(c["crop"]) and cx >= 1 and cy >= 1 and (nx - cx == 1 or ny - cy == 1)


def in_domain(c):
    ny, nx = c["shape"]
    cy, cx = c["calib"]
    return 0 <= cx < nx and 0 <= cy < ny and c["accel"] > 1 and c["tol"] > 0


def check_oracle(ctx, c, origin, repeats=1):
    """run the real code on case c and demand exactly what C18 states.  Returns (ok, record)."""
    ok = True

    def fail(key, what, observed=None, expected=None):
        nonlocal ok
        ok = False
        ctx.fail(key, what, c, observed=observed, expected=expected, origin=origin)

    ny, nx = c["shape"]
    cy, cx = c["calib"]
    set_prior(c["prior"])
    st0 = np.random.get_state()
    rec = call_poisson(c)
    st1 = np.random.get_state()
    ctx.count("outcome:" + rec["outcome"].split(":")[0])
    if not same_state(st0, st1):
        fail("C18:global-rng", "numpy.random.get_state() differs before/after poisson(seed=%r)" % (c["seed"],),
             observed="pos %s -> %s, key equal: %s" % (st0[2], st1[2], np.array_equal(st0[1], st1[1])), expected="identical state")
    if rec["outcome"] in ("stuck", "hang"):
        if rec["outcome"] == "hang" or c["seed"] is not None:
            lo, hi, s = rec["calls"][-1]["st"] if rec["calls"] else (None, None, None)
            fail(K_STUCK, "poisson neither returns nor raises: " + (
                "the bisection state (slope_min, slope_max) repeats and the seeded sampler is deterministic, so the loop is infinite"
                if rec["outcome"] == "stuck" else "no progress for %.0f s (watchdog)" % TICK),
                 observed="after %d iterations slope_min=%r slope_max=%r slope=%r" % (len(rec["calls"]), lo, hi, s),
                 expected="a mask within tol or ValueError")
        else:
            ctx.count("inconclusive:unseeded-same-slope-60x")
        return ok, rec
    if rec["outcome"] == "slow":
        ctx.count("inconclusive:slow-but-progressing")
        return ok, rec
    if rec["outcome"].startswith("error"):
        fail("C18:exception", "poisson raised %s on a valid request" % rec["outcome"][6:], observed=rec["err"],
             expected="mask or ValueError")
        return ok, rec
    if rec["outcome"] == "ValueError":
        return ok, rec
    m = rec["mask"]
    if tuple(m.shape) != (ny, nx) or m.dtype != np.dtype(c["dtype"]):
        fail("C18:shape-dtype", "wrong shape/dtype", observed=(m.shape, str(m.dtype)), expected=((ny, nx), c["dtype"]))
        return ok, rec
    vals = np.unique(m)
    if not all(v == 0 or v == 1 for v in vals):
        fail("C18:binary", "mask has values other than 0 and 1", observed=[complex(v) for v in vals][:8], expected="{0,1}")
    tot = F(float(np.sum(m.real)))
    if tot == 0 or not abs(F(nx * ny) / tot - F(c["accel"])) < F(c["tol"]) * (1 + F(1, 10 ** 9)):
        fail("C18:accel-tol", "returned mask is not within tol of the requested acceleration",
             observed="size/sum = %s" % (float(F(nx * ny) / tot) if tot else "inf"), expected="|. - %r| < %r" % (c["accel"], c["tol"]))
    # calibration block
    by, bx = block_range(ny, cy), block_range(nx, cx)
    out = outside_ellipse(c) if c["crop"] else None
    missing = [(y, x) for y in by for x in bx if m[y, x] != 1]
    if missing:
        if edge_class(c) and all(out[y, x] for y, x in missing):
            fail(K_EDGE, "calibration samples on the grid edge are cropped by crop_corner (their radius r is 1)",
                 observed="%d block points are 0, e.g. %s" % (len(missing), missing[:4]), expected="every calibration point sampled")
        else:
            fail("C18:calibration", "calibration block not fully sampled", observed="missing %s" % missing[:6],
                 expected="mask == 1 on rows %s cols %s" % ((by.start, by.stop), (bx.start, bx.stop)))
    if c["crop"]:
        bad = np.argwhere(out & (m != 0))
        if len(bad):
            fail("C18:crop", "sample outside the inscribed ellipse although crop_corner=True",
                 observed="%d points with r >= 1, e.g. %s" % (len(bad), bad[:4].tolist()), expected="0 wherever r >= 1")
    if c["seed"] is not None:
        for k in range(repeats):
            np.random.seed((c["prior"][0] + 17 + k) % 2 ** 32)  # disturb numpy's global generator in between
            np.random.random(5)
            rec2 = call_poisson(c)
            if rec2["outcome"] != "returned" or not np.array_equal(rec2["mask"], m):
                fail("C18:determinism", "two calls with identical arguments and seed differ",
                     observed=rec2["outcome"] if rec2["outcome"] != "returned" else "%d entries differ" % int(np.sum(rec2["mask"] != m)),
                     expected="bitwise identical mask")
                break
    return ok, rec


# =================================================================================================
# case generation
# =================================================================================================
DTYPES = ["complex128", "complex64", "float64", "float32", "int64", "uint8", "bool"]


def gen_case(rng, big=True):
    kind = rng.random()
    hi = 128 if big else 40
    if kind < 0.45:
        n = rng.choice([16, 17, 20, 24, 25, 32, 33, 48, 64, 65, 96, 128]) if big else rng.randint(16, 40)
        ny, nx = n, n
    else:
        ny, nx = rng.randint(16, hi), rng.randint(16, hi)
        if rng.random() < 0.3:
            ny, nx = rng.choice([(16, 128), (128, 16), (16, 64), (96, 24), (31, 17), (17, 64)])
    if not big:
        ny, nx = min(ny, 40), min(nx, 40)
    ck = rng.random()
    if ck < 0.2:
        cy, cx = 0, 0
    elif ck < 0.75:
        cy, cx = rng.randint(0, ny // 3), rng.randint(0, nx // 3)
    elif ck < 0.9:
        cy, cx = rng.randint(0, ny - 1), rng.randint(0, nx - 1)
    else:  # near the edge (n - c in {1, 2, 3}) on one or both axes
        cy = ny - rng.choice([1, 1, 2, 3]) if rng.random() < 0.6 else rng.randint(1, ny // 2)
        cx = nx - rng.choice([1, 1, 2, 3]) if rng.random() < 0.6 else rng.randint(1, nx // 2)
    # accelerations above size/(calibration samples) cannot be met; still in the domain (must raise), keep some
    cap = nx * ny / max(1, cx * cy)
    a = rng.random()
    if a < 0.15:
        accel = round(rng.uniform(1.01, 12.0), rng.choice([1, 2, 3]))
    else:
        accel = round(rng.uniform(1.3, max(1.4, min(12.0, 0.9 * cap))), rng.choice([0, 1, 2, 3]))
    accel = min(max(accel, 1.01), 12.0)
    if float(accel).is_integer() and rng.random() < 0.5:
        accel = int(accel)
    tol = rng.choice([0.1, 0.1, 0.1, 0.2, 0.05, 0.5, 0.3, 0.02, 1.0])
    seed = rng.choice([0, 0, 1, 80, None, rng.randint(0, 2 ** 31 - 1), rng.randint(0, 10 ** 4), rng.randint(0, 10 ** 4)])
    ma = rng.choice([30, 30, 30, 10, 5, 2, 1, 60])
    if nx * ny > 24 * 24:
        # an acceleration below what the densest pattern (slope 0) gives makes the bisection walk slope_max down
        # to the denormals (~1075 dense sampler calls: minutes on large grids) before it raises — correct but too
        # slow for the search, so on grids above 24x24 the request stays above a conservative estimate of that
        # minimum (calibration block + a fraction of the rest); the full range (1, 12] is exercised up to 24x24.
        cal, size = cx * cy, nx * ny
        dens = (0.42 if ma >= 10 else 0.3 if ma >= 5 else 0.18)
        accel = round(min(12.0, max(accel, 1.15 * size / (cal + dens * (size - cal)))), 3)
    if nx * ny > 64 * 64 and ma > 30:
        ma = 30
    return dict(shape=[ny, nx], accel=accel, calib=[cy, cx], tol=tol, seed=seed, crop=rng.random() < 0.6,
                dtype=rng.choice(DTYPES), max_attempts=ma,
                prior=[rng.randint(0, 2 ** 32 - 1), rng.choice([0, 0, 1, 7, 623, 624, 1000]), rng.random() < 0.4])


def pinned_cases():
    """deterministic instances run in every tier: the known finding, the two formerly hanging inputs, defaults"""
    base = dict(tol=0.1, seed=0, crop=True, dtype="complex128", max_attempts=30, prior=[12345, 3, True])
    return [
        dict(base, shape=[16, 16], accel=2, calib=[4, 15]),       # finding #12 (n=16, c=15)
        dict(base, shape=[16, 16], accel=4.03, calib=[0, 0], tol=0.005),  # formerly non-terminating (fixed: raises)
        dict(base, shape=[20, 20], accel=11.9, calib=[2, 1], max_attempts=10, seed=80),  # formerly non-terminating, default tol
        dict(base, shape=[60, 60], accel=6, calib=[0, 0], seed=80),
        dict(base, shape=[32, 48], accel=3, calib=[8, 6], seed=None, dtype="float32"),
        dict(base, shape=[17, 17], accel=2, calib=[16, 5]),        # n odd, c = n-1
        dict(base, shape=[24, 20], accel=2.5, calib=[6, 18], crop=True),  # n - c = 2: block keeps r < 1
    ]


# =================================================================================================
# correspondence
# =================================================================================================
def Q(x):
    f = F(x)
    return "%d/%d" % (f.numerator, f.denominator) if f.denominator != 1 else "%d" % f.numerator


def driver_line(c, rec):
    ny, nx = c["shape"]
    calls = rec["calls"]
    mids = ";".join("%s|%s|%s" % (Q(a), Q(b), Q(s)) for a, b, s in dict.fromkeys(cl["st"] for cl in calls)) or "-"
    sums = ";".join("%s|%s" % (Q(cl["st"][2]), Q(cl["sum"])) for cl in calls if cl["sum"] is not None) or "-"
    fuel = len(calls) + (1 if rec["outcome"] == "stuck" else 2)
    return "C18 driver nx=%d ny=%d accel=%s tol=%s fuel=%d mids=%s sums=%s" % (nx, ny, Q(c["accel"]), Q(c["tol"]), fuel, mids, sums)


def driver_impl(c, rec):
    calls = rec["calls"]
    st = [(cl["st"][0], cl["st"][1]) for cl in calls]
    if rec["outcome"] == "stuck":
        st.append(st[-1])
        o = "running"
    elif rec["outcome"] == "returned":
        o = "returned:%s" % Q(calls[-1]["sum"])
    else:
        o = "raised"
    return "ok states=%s outcome=%s mid-is-rounded-midpoint=1" % (";".join("%s|%s" % (Q(a), Q(b)) for a, b in st) or "-", o)


def decision_tie(c, rec):
    """float and exact decisions may differ only when an exact comparison is (nearly) an equality"""
    ny, nx = c["shape"]
    for cl in rec["calls"]:
        if cl["sum"] in (None, 0):
            continue
        a = F(nx * ny) / F(cl["sum"])
        d = abs(a - F(c["accel"]))
        if abs(d - F(c["tol"])) <= F(1, 10 ** 11) * max(1, F(c["accel"])) or d <= F(1, 10 ** 11):
            return True
    return False


def correspond_driver(ctx, cases_recs):
    lines, meta = [], []
    for c, rec in cases_recs:
        if rec["outcome"] not in ("returned", "ValueError", "stuck") or not rec["calls"]:
            continue
        if c["seed"] is None and len({cl["st"][2] for cl in rec["calls"]}) != len(rec["calls"]):
            continue  # unseeded: the same slope may give different masks, the model's sampler is a function of slope
        if any(cl["sum"] is None for cl in rec["calls"][:-1]) or (rec["outcome"] != "stuck" and rec["calls"][-1]["sum"] is None):
            continue
        if decision_tie(c, rec):
            ctx.count("driver:skipped-tie")
            continue
        lines.append(driver_line(c, rec))
        meta.append((c, rec))
    bad = 0
    for (c, rec), ln, r in zip(meta, lines, ctx.driver(lines)):
        impl = driver_impl(c, rec)
        ctx.case(("driver", ln), sample=dict(line=ln[:160], reply=r[:160]) if len(ctx.samples) < 4 else None)
        ctx.count("driver:" + rec["outcome"])
        if any(cl["sum"] == 0 for cl in rec["calls"]):
            ctx.count("driver:zero-sum-iteration")
        if impl != r:
            bad += 1
            ctx.disagree("driver", c, impl, r)
    ctx.oblige("correspondence:C18.driver", "correspondence", bad == 0,
               "%d disagreements over %d real bisection traces" % (bad, len(lines)))
    # radius field / crop flags
    lines, meta = [], []
    seen = set()
    for c, rec in cases_recs:
        k = (tuple(c["shape"]), tuple(c["calib"]))
        if rec["r"] is None or k in seen:
            continue
        seen.add(k)
        lines.append("C18 keep nx=%d ny=%d cx=%d cy=%d" % (c["shape"][1], c["shape"][0], c["calib"][1], c["calib"][0]))
        meta.append((c, rec))
    bad = 0
    for (c, rec), ln, r in zip(meta, lines, ctx.driver(lines)):
        ny, nx = c["shape"]
        ctx.case(("keep", ln))
        ctx.count("keep")
        ok = r.startswith("ok ")
        if ok:
            parts = r.split(" ")
            bits = np.array([ch == "1" for ch in parts[1]]).reshape(ny, nx)
            ties = [] if parts[2] == "ties=-" else [int(v) for v in parts[2][5:].split(",")]
            lost = [] if parts[3] == "lost=-" else [int(v) for v in parts[3][5:].split(",")]
            impl = rec["r"] < 1
            xs, ys = exact_coord(nx, c["calib"][1]), exact_coord(ny, c["calib"][0])
            skip = np.zeros((ny, nx), bool)
            for t in ties:
                if xs[t % nx] != 0 and ys[t // nx] != 0:
                    skip[t // nx, t % nx] = True
            ok = bool(np.all((bits == impl) | skip))
            # the model's statement of which calibration points the crop removes vs the arithmetic class
            cls = c["calib"][0] >= 1 and c["calib"][1] >= 1 and (nx - c["calib"][1] == 1 or ny - c["calib"][0] == 1)
            ok = ok and (bool(lost) == cls)
        if not ok:
            bad += 1
            ctx.disagree("keep", c, "r<1 of the real call", r[:200])
    ctx.oblige("correspondence:C18.keep", "correspondence", bad == 0,
               "%d disagreements over %d radius fields (model r²<1 vs the real call's r<1)" % (bad, len(lines)))


def correspond_calib(ctx, n_pairs):
    """slice bounds: the real numba kernel with max_attempts=0 returns exactly the calibration fill"""
    samp = samp_module()
    rng = ctx.rng
    pairs = [(n, c) for n in range(1, 21) for c in range(0, n + 1)]
    pairs += [(rng.randint(16, 130), None) for _ in range(n_pairs)]
    lines, meta = [], []
    for n, c in pairs:
        if c is None:
            c = rng.choice([rng.randint(0, n), n, n - 1, n - 2, 0, 1])
        m = rng.randint(1, 9)
        cm = rng.randint(0, m)
        if rng.random() < 0.5:
            ny, nx, cy, cx = n, m, c, cm
        else:
            ny, nx, cy, cx = m, n, cm, c
        ones = np.ones((ny, nx))
        mask = samp._poisson(nx, ny, 0, ones, ones, (cy, cx), 0)
        lines += ["C18 calib ax=y n=%d c=%d" % (ny, cy), "C18 calib ax=x n=%d c=%d" % (nx, cx)]
        meta.append((ny, nx, cy, cx, mask))
    rep = ctx.driver(lines)
    bad = 0
    for k, (ny, nx, cy, cx, mask) in enumerate(meta):
        ry, rx = rep[2 * k], rep[2 * k + 1]
        ctx.case(("calib", ny, nx, cy, cx))
        ctx.count("calib-fill")
        want = np.zeros((ny, nx))
        try:
            loy, hiy = [int(v) for v in ry.split()[1:]]
            lox, hix = [int(v) for v in rx.split()[1:]]
            for y in range(loy, hiy):
                for x in range(lox, hix):
                    want[y, x] = 1
            good = np.array_equal(want, mask) and 0 <= loy <= hiy <= ny and 0 <= lox <= hix <= nx
        except Exception:  # noqa
            good = False
        if not good:
            bad += 1
            ctx.disagree("calib", dict(ny=ny, nx=nx, cy=cy, cx=cx), "ones at %s" % np.argwhere(mask == 1)[:6].tolist(), (ry, rx))
    ctx.oblige("correspondence:C18.calib", "correspondence", bad == 0,
               "%d disagreements over %d calibration fills of the real numba kernel (max_attempts=0)" % (bad, len(meta)))


# ---- sampler: `_poisson.py_func` body run with a scripted numpy namespace -----------------------------------
VS = []  # (u, v) with v = (3u+1)**0.5 exactly, both dyadic
for a_ in range(16, 33):
    if (a_ * a_ - 256) % 3 == 0:
        u_ = (a_ * a_ - 256) / 768.0
        if (u_ * 3 + 1) ** 0.5 == a_ / 16.0 and F(u_) * 3 + 1 == F(a_, 16) ** 2:
            VS.append((u_, a_ / 16.0))
CS = [k / 8.0 for k in range(-8, 9)]
RADII = [1.0, 1.0, 1.0, 1.5, 2.0, 2.0, 3.0, 4.0]


class RecArr:
    def __init__(self, n, log, name):
        self.a, self.log, self.name = np.zeros(n, np.int32), log, name

    def __getitem__(self, i):
        return self.a[i]

    def __setitem__(self, i, v):
        self.log.append(("set", self.name, int(i), isinstance(v, float), v))
        self.a[i] = v


class FakeNp:
    """source of what `_poisson` sees as `np` (see run_scripted): scripted random/randint/cos/sin, logged `empty`"""

    def __init__(self, rng):
        self.rng, self.log = rng, []
        self._phase = 0
        self._names = ["pxs", "pys"]

    def empty(self, n, dt):
        return RecArr(n, self.log, self._names.pop(0))

    def seed(self, s):
        self.log.append(("seed", s))

    def randint(self, lo, hi):
        v = self.rng.randrange(lo, hi)
        self.log.append(("int", v))
        return v

    def _random(self):
        self._phase ^= 1
        if self._phase:
            u, v = self.rng.choice(VS)
            self.log.append(("v", v))
            return u
        return self.rng.random()

    def cos(self, t):
        c = self.rng.choice(CS)
        self.log.append(("c", c))
        return c

    def sin(self, t):
        s = self.rng.choice(CS)
        self.log.append(("s", s))
        return s


def run_scripted(rng, nx, ny, cx, cy, ma, rxa, rya):
    samp = samp_module()
    pf = samp._poisson.py_func
    fake = FakeNp(rng)
    fake_random = types.SimpleNamespace(seed=fake.seed, randint=fake.randint, random=fake._random)
    ns = types.SimpleNamespace(pi=np.pi, int32=np.int32, zeros=np.zeros, empty=fake.empty, cos=fake.cos, sin=fake.sin,
                               random=fake_random)
    g = dict(pf.__globals__)
    g["np"] = ns
    fn = types.FunctionType(pf.__code__, g, "_poisson_scripted", pf.__defaults__, pf.__closure__)
    mask = fn(nx, ny, ma, rxa, rya, (cy, cx), 0)
    return mask, fake.log


def decode_log(log):
    """-> p0, draws [(i, [(v,c,s)..])], trace [(attempts, done)], final active lists"""
    ev = [e for e in log if e[0] != "seed"]
    assert [e[0] for e in ev[:4]] == ["int", "set", "int", "set"], ev[:4]
    p0 = (ev[0][1], ev[2][1])
    pxs, pys = [p0[0]], [p0[1]]
    k = 4
    draws, trace = [], []
    while k < len(ev):
        assert ev[k][0] == "int", ev[k]
        i = ev[k][1]
        k += 1
        cands = []
        while k < len(ev) and ev[k][0] == "v":
            assert ev[k + 1][0] == "c" and ev[k + 2][0] == "s"
            cands.append((ev[k][1], ev[k + 1][1], ev[k + 2][1]))
            k += 3
        sx, sy = ev[k], ev[k + 1]
        assert sx[0] == "set" and sy[0] == "set" and sx[1] == "pxs" and sy[1] == "pys"
        k += 2
        done = sx[3]
        if done:
            assert sx[2] == len(pxs)
            pxs.append(int(sx[4]))
            pys.append(int(sy[4]))
        else:
            assert sx[2] == i
            pxs[i], pys[i] = pxs[-1], pys[-1]
            pxs.pop()
            pys.pop()
        draws.append((i, cands))
        trace.append((len(cands), done))
    return p0, draws, trace, pxs, pys


def correspond_sampler(ctx, n):
    rng = ctx.rng
    lines, meta = [], []
    for _ in range(n):
        nx, ny = rng.randint(2, 7), rng.randint(2, 7)
        cx, cy = rng.randint(0, nx), rng.randint(0, ny)
        if rng.random() < 0.4:
            cx, cy = rng.randint(0, 1), rng.randint(0, 1)
        ma = rng.choice([1, 2, 3, 4, 6])
        flat = rng.random() < 0.4
        rxa = np.array([[1.0 if flat else rng.choice(RADII) for _ in range(nx)] for _ in range(ny)])
        rya = np.array([[1.0 if flat else rng.choice(RADII) for _ in range(nx)] for _ in range(ny)])
        try:
            mask, log = run_scripted(rng, nx, ny, cx, cy, ma, rxa, rya)
            p0, draws, trace, pxs, pys = decode_log(log)
        except Exception as e:  # the scripted body no longer runs / its event order changed
            lines.append("C18 sampler-undecodable")
            meta.append((dict(nx=nx, ny=ny, cx=cx, cy=cy, ma=ma), "err %r" % (e,), 0))
            continue
        ds = ";".join(":".join([str(i)] + ["%s|%s|%s" % (Q(v), Q(c_), Q(s)) for v, c_, s in cs]) for i, cs in draws) or "-"
        ln = "C18 sampler nx=%d ny=%d cx=%d cy=%d ma=%d rx=%s ry=%s p0=%d,%d draws=%s" % (
            nx, ny, cx, cy, ma, ",".join(Q(v) for v in rxa.ravel()), ",".join(Q(v) for v in rya.ravel()), p0[0], p0[1], ds)
        impl = "ok mask=%s trace=%s px=%s py=%s live=0" % (
            ",".join(Q(v) for v in mask.ravel()), ",".join("%d:%d" % (k, d) for k, d in trace) or "-",
            ",".join(map(str, pxs)) or "-", ",".join(map(str, pys)) or "-")
        lines.append(ln)
        acc = sum(1 for _, d in trace if d)
        meta.append((dict(nx=nx, ny=ny, cx=cx, cy=cy, ma=ma, rx=rxa.tolist(), ry=rya.tolist(), p0=p0, draws=draws), impl,
                     acc - int(mask.sum() - np.sum(mask[int(ny / 2 - cy / 2):int(ny / 2 + cy / 2), int(nx / 2 - cx / 2):int(nx / 2 + cx / 2)]))))
    bad = 0
    for (c, impl, rehits), ln, r in zip(meta, lines, ctx.driver(lines)):
        nontriv = len(c.get("draws", [])) >= 2
        ctx.case(("sampler", ln), nontrivial=nontriv,
                 sample=dict(line=ln[:200], reply=r[:120]) if len(ctx.samples) < 8 else None)
        ctx.count("sampler")
        if rehits > 0:
            ctx.count("sampler:accepted-on-occupied-or-calibration-cell")
        if impl != r:
            bad += 1
            ctx.disagree("sampler", c, impl, r)
    ctx.oblige("correspondence:C18.sampler", "correspondence", bad == 0,
               "%d disagreements over %d scripted runs of _poisson.py_func (mask, per-iteration attempts/accept, active list)" % (bad, len(lines)))


def correspond(ctx):
    ctx.rule = ("four streams. calib: (n, c) pairs, all n ≤ 20 exhaustively + random n ≤ 130, real numba kernel with "
                "max_attempts=0 vs generated slice bounds; sampler: random small grids (2..7)², variable radii from "
                "{1,1.5,2,3,4}, scripted dyadic draws (v=sqrt(3u+1) exact, cos/sin multiples of 1/8) through "
                "_poisson.py_func vs the Lean machine on the same stream, distinct by the full protocol line, non-trivial "
                "when ≥ 2 outer iterations; driver/keep: real `poisson` calls (shapes 16..40 quick, random accel/calib/tol/"
                "seed/max_attempts) observed at `_poisson` entry, bisection states and outcome vs the Lean driver fed with "
                "the real mask sums, and the real r<1 field vs the model's exact r²<1")
    quick = ctx.tier == "quick"
    correspond_calib(ctx, 300 if quick else 3000)
    correspond_sampler(ctx, 300 if quick else 2500)
    recs = []
    cases = pinned_cases() + [gen_case(ctx.rng, big=False) for _ in range(90 if quick else 500)]
    for c in cases:
        if not in_domain(c):
            continue
        set_prior(c["prior"])
        recs.append((c, call_poisson(c)))
    correspond_driver(ctx, recs)
    ctx.traces = ctx.evaluations
    ctx.assumptions += [
        "numba's nopython np.random.* uses a generator private to numba (not numpy's global one): not modelled, "
        "checked on the real code by the search oracle (numpy.random.get_state() before/after, seeded and unseeded)",
        "termination of the bisection is proved for any midpoint function with lo <= mid <= hi over a finite grid of slope "
        "values (theorems stall_exits / interval_shrinks / terminates); that float64 (a+b)/2 has this property is IEEE "
        "arithmetic, not proved, checked on every real trace by the driver stream (flag mid-is-rounded-midpoint)",
        "float geometry of the sampler (sqrt, cos, sin, rounding of the neighbour test) is abstracted by the draw stream; "
        "the correspondence uses draws on which float and exact arithmetic coincide",
    ]


# =================================================================================================
# search
# =================================================================================================
def search(ctx, budget):
    rng = ctx.rng
    for d in ctx.disagreements[:60]:
        c = d["case"]
        if isinstance(c, dict) and "shape" in c and in_domain(c):
            check_oracle(ctx, c, "disagreement")
    hang_regressions(ctx)
    for c in pinned_cases():
        ctx.case(("oracle", json.dumps(c, sort_keys=True)))
        check_oracle(ctx, c, "pinned")
    n = int(220 * budget)
    t_end = ctx.elapsed() + (90 if budget <= 1 else 150 if budget <= 4 else 520 if budget <= 8 else 800)
    for k in range(n):
        if ctx.elapsed() > t_end:
            ctx.notes.append("search stopped by its time box after %d of %d cases" % (k, n))
            break
        c = gen_case(rng, big=True)
        if not in_domain(c):
            continue
        ctx.case(("oracle", json.dumps(c, sort_keys=True)))
        ctx.count("crop:%s" % c["crop"])
        ctx.count("seed:%s" % ("None" if c["seed"] is None else "int"))
        if edge_class(c):
            ctx.count("class:calib-touches-edge")
        check_oracle(ctx, c, "search")


HANG_CODE = """
import sys, json, warnings
sys.path.insert(0, sys.argv[1])
warnings.simplefilter("ignore")
import numpy as np
import sigpy.mri.samp as samp
c = json.loads(sys.argv[2])
try:
    m = samp.poisson(tuple(c["shape"]), c["accel"], calib=tuple(c["calib"]), crop_corner=c["crop"], seed=c["seed"],
                     max_attempts=c["max_attempts"], tol=c["tol"])
    print("returned", float(np.sum(m.real)))
except ValueError:
    print("ValueError")
"""
HANG_TIMEOUT = 75  # s, hard; covers a cold numba compile (~20 s); the calls themselves take < 1 s


def hang_regressions(ctx):
    """the two inputs on which `poisson` used to loop forever, run on the *unobserved* real code in a subprocess
    with a hard timeout: a return of the old behaviour is a failing input, never a hang of the check"""
    cases = [c for c in pinned_cases() if c.get("tol") == 0.005 or c["accel"] == 11.9]
    procs = []
    for c in cases:
        procs.append((c, subprocess.Popen([sys.executable, "-c", HANG_CODE, common.REPO, json.dumps(c)],
                                          stdout=subprocess.PIPE, stderr=subprocess.PIPE, text=True)))
    for c, p in procs:
        ctx.case(("hang-regression", json.dumps(c, sort_keys=True)))
        try:
            out, err = p.communicate(timeout=HANG_TIMEOUT)
        except subprocess.TimeoutExpired:
            p.kill()
            p.communicate()
            ctx.count("hang-regression:timeout")
            ctx.fail(K_STUCK, "poisson neither returns nor raises within %d s (plain call in a subprocess)" % HANG_TIMEOUT, c,
                     observed="no result after %d s" % HANG_TIMEOUT, expected="a mask within tol or ValueError", origin="pinned-subprocess")
            continue
        res = out.strip().split()
        ctx.count("hang-regression:" + (res[0] if res else "error"))
        if not res:
            ctx.fail("C18:exception", "poisson raised an unexpected exception on a valid request", c,
                     observed=err[-400:], expected="mask or ValueError", origin="pinned-subprocess")
        elif res[0] == "returned":
            ny, nx = c["shape"]
            tot = F(float(res[1]))
            if tot == 0 or not abs(F(nx * ny) / tot - F(c["accel"])) < F(c["tol"]):
                ctx.fail("C18:accel-tol", "returned mask is not within tol of the requested acceleration", c,
                         observed="sum %s" % res[1], expected="|size/sum - %r| < %r" % (c["accel"], c["tol"]), origin="pinned-subprocess")


def replay(path):
    r = json.load(open(path))
    print(json.dumps(r, indent=1)[:3000])
    if r.get("kind") != "failing-input":
        return 0
    ctx = common.Ctx(PROPERTY, "quick", 0)
    ok, rec = check_oracle(ctx, r["case"], "replay", repeats=6)
    for f in ctx.failures:
        print("  %s: %s | observed %s | expected %s" % (f["key"], f["what"], f["observed"], f["expected"]))
    print("replay:", "property holds on this input" if ok else "property FAILS on this input")
    return 0 if ok else 1
