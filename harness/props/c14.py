"""C14 — LinearLeastSquares returns the documented minimiser whatever the solver.

translate   Gen/C14Select.lean (`_get_alg`) and Gen/C14Setup.lean (the four `_get_<Solver>` set-ups: the arguments
            handed to the solver classes as Lean terms with the source's branch structure) are regenerated
            from sigpy/app.py by harness/translate/gen_c14.py; the theorems are about these definitions
correspond  (model = the generated definitions, executed over exact rationals by the driver)
  sel     full cross product of options on the real constructor vs the decision table generated from
          `_get_alg` (which solver class is built / ValueError)
  setup   the real set-ups probed from outside: the solver classes and MaxEig in `sigpy.app` are
          wrapped by recording subclasses, the recorded operators / closures / prox objects are applied
          to basis and probe vectors and compared with the model's description (exact dyadic data;
          1e-12 relative against the exact rational model value)
  run     the real app driven step by step vs the model machines over exact rationals (1e-9)
  obj     `objective()` vs the model
search     objective gap to an independently computed optimum (exact linear solve for quadratic cases,
          active-set enumeration verified by KKT otherwise), y/z byte snapshots, rejected combinations
"""
import contextlib
import inspect
import itertools
import json
import math
from fractions import Fraction as Fr

import numpy as np

from harness import common
from harness.translate import gen as G_

PROPERTY = "C14"
LEAN_MODULES = ["SigpyVerif.Props.C14", "SigpyVerif.Props.C14Cplx", "SigpyVerif.Props.C14Join", "SigpyVerif.Props.C14Power"]
THEOREMS = ["SigpyVerif.C14." + t for t in [
    "select_default", "select_named", "rejects_iff", "select_total",
    "obj_expand", "cgArgs_sys", "cgArgs_rhs", "cgSys_cgRhs_eq_normal", "lin_zero_of_quad_nonneg", "cg_normal_eq",
    "cg_unique_minimiser",
    "gm_gradient", "gmArgs_eig", "gmArgs_alpha", "gmEigOp_eq_hessian", "gm_fixed_point_iff_minimiser",
    "userTree_isProx", "l2reg_is_prox", "data_conj_biconj", "proxfc_data_is_prox", "data_dual_fixed",
    "conj_fixed_point", "kkt_is_minimiser",
    "pdhgArgs_parts_noG", "pdhgArgs_parts_G", "pdhgArgs_steps", "primal_eval_noG", "primal_eval_G", "scale_help",
    "primal_fixed_noG", "primal_fixed_G", "pdhg_fixed_point_kkt_noG", "pdhg_fixed_point_kkt_G",
    "admmV_fixed", "admmArgs_noG", "admmArgs_G", "admm_fixed_point_kkt_noG", "admm_fixed_point_kkt_G",
    "hessian_quad", "gm_convex_grad", "default_steps_gm", "pdhgArgs_eig_noG", "pdhgArgs_eig_G",
    "default_steps_pdhg_primal_noG", "default_steps_pdhg_primal_G", "default_steps_pdhg_dual_noG",
    "default_steps_pdhg_dual_G", "default_steps",
    # complex data (Props/C14Cplx.lean): transfer lemma + the theorems over 𝕜 = ℝ or ℂ
    "reInner_complex", "isAdj_restrict", "real_smul_eq", "restrict_coe", "cgArgs_sys_rc", "cgArgs_rhs_rc",
    "cgSys_cgRhs_eq_normal_rc", "obj_expand_rc", "cg_normal_eq_rc", "cg_unique_minimiser_rc", "gm_gradient_rc",
    "gm_fixed_point_iff_minimiser_rc", "isKKTK_iff", "kkt_is_minimiser_rc", "pdhg_fixed_point_kkt_noG_rc",
    "pdhg_fixed_point_kkt_G_rc", "admm_fixed_point_kkt_noG_rc", "admm_fixed_point_kkt_G_rc", "default_steps_gm_rc",
    "cg_unique_minimiser_complex", "gm_fixed_point_iff_minimiser_complex",
    # end-to-end joins with C12 / C13 (Props/C14Join.lean)
    "cgSysK_apply", "cgSysK_eq", "cgSysK_symm", "cgSysK_quad", "cgSysK_psd", "pd_of_reg_or_inj", "cgSysK_hpd",
    "cg_npd_false_of_regular", "cg_route_reaches_minimiser", "cg_route_psd_partial", "gm_route_rate",
    "ista_descent_relaxed", "pdStep_both_pos", "proxfc_data_proxOf", "pdhg_route_fejer_noG_partial",
    # the power method behind `max_eig` (Props/C14Power.lean, generated step Gen/C14Power.lean)
    "pm_update_iter", "pm_iter_counts", "pm_done_iff", "maxEig_passes", "pm_step", "pm_zero", "pm_unit",
    "sq_norm_le_of_symm", "pm_nondegenerate", "pm_estimate_ge_rayleigh", "pm_mono_step", "psd_cauchy_schwarz",
    "opnorm_le_of_rayleigh", "pm_estimate_le_lmax", "pm_estimate_mono", "pm_estimate_rayleigh_sandwich",
    "maxeig_default_alpha_gap",
]]

SOLVERS = ["ConjugateGradient", "GradientMethod", "PrimalDualHybridGradient", "ADMM"]
SHORT = {"ConjugateGradient": "cg", "GradientMethod": "gm", "PrimalDualHybridGradient": "pdhg", "ADMM": "admm"}


def translate(ctx):
    G_.regenerate(ctx, ["C14Select", "C14Setup", "C14Power"])


# ---- rationals -----------------------------------------------------------------------------------
def F(s):
    if isinstance(s, Fr):
        return s
    if isinstance(s, (int, np.integer)):
        return Fr(int(s))
    if isinstance(s, float):
        return Fr(s)
    return Fr(s)


def fs(x):
    x = F(x)
    return str(x.numerator) if x.denominator == 1 else "%d/%d" % (x.numerator, x.denominator)


def fvec(v):
    v = list(v)
    return ",".join(fs(t) for t in v) if v else "-"


def fvecs(vs):
    vs = list(vs)
    return "|".join(fvec(v) for v in vs) if vs else "-"


def pvec(s):
    return [] if s == "-" else [Fr(t) for t in s.split(",")]


def pvecs(s):
    return [] if s == "-" else [pvec(t) for t in s.split("|")]


def fl(v):
    return np.array([float(F(t)) for t in v], dtype=np.float64)


def kvs(reply):
    return dict(t.split("=", 1) for t in reply.split()[1:] if "=" in t)


# ---- cases ---------------------------------------------------------------------------------------
def dy(rng, lo, hi, den=1):
    return Fr(rng.randint(lo * den, hi * den), den)


def gen_matrix(rng, m, n, well=True):
    """integer/dyadic matrix with full column rank and moderate condition number"""
    for _ in range(100):
        A = [[Fr(0)] * n for _ in range(m)]
        for i in range(m):
            for j in range(n):
                A[i][j] = Fr(rng.randint(-2, 2), 2)
        for j in range(n):
            A[j % m][j] += rng.choice([2, 3, -2])
        a = np.array([[float(t) for t in r] for r in A])
        s = np.linalg.svd(a, compute_uv=False)
        if m >= n and s[-1] > 0.7 and s[0] / s[-1] < 6:
            return A
        if m < n and not well:
            return A
    raise RuntimeError("no matrix")


def gen_case(rng, solver=None, force=None):
    """one configuration of the option cross product on a small well-posed instance"""
    force = force or {}
    n = force.get("n", rng.choice([2, 3, 3, 4]))
    akind = force.get("akind", rng.choice(["matmul", "matmul", "matmul", "diag", "identity", "reshape", "mul1"]))
    if akind == "matmul":
        m = n + rng.choice([0, 1, 2])
        A = gen_matrix(rng, m, n)
    elif akind == "diag":
        m = n
        d = [Fr(rng.choice([2, 3, 4, 5, 6]), 2) * rng.choice([1, -1]) for _ in range(n)]
        A = [[d[i] if i == j else Fr(0) for j in range(n)] for i in range(n)]
    else:
        m = n
        A = [[Fr(int(i == j)) for j in range(n)] for i in range(n)]
    y = [dy(rng, -4, 4, 2) for _ in range(m)]
    if all(t == 0 for t in y):
        y[0] = Fr(1)
    lam = force.get("lam", rng.choice([Fr(0), Fr(0), Fr(1, 2), Fr(1), Fr(2)]))
    z = None if rng.random() < 0.4 else [dy(rng, -3, 3, 2) for _ in range(n)]
    if "z" in force:
        z = force["z"]
    gkind = force.get("gkind", rng.choice([None, None, "dense", "fd"]))
    pk = force.get("prox", rng.choice([None, "l1", "l2", "box"]))
    if solver is None and "solver" not in force:
        solver = rng.choice([None] + SOLVERS)
    solver = force.get("solver", solver)
    # mostly supported combinations (the rejection table is the `sel` stream's business)
    if solver == "ConjugateGradient" and "prox" not in force and rng.random() < 0.85:
        pk = None
    if solver == "GradientMethod" and "gkind" not in force and rng.random() < 0.85:
        gkind = None
    Gm = None
    p = n
    if gkind == "dense":
        p = rng.choice([1, 2, n])
        while True:
            Gm = [[Fr(rng.randint(-2, 2)) for _ in range(n)] for _ in range(p)]
            if all(any(t != 0 for t in r) for r in Gm):
                break
    elif gkind == "fd":
        p = n
    prox = None
    if pk == "l1":
        prox = ["l1", fs(rng.choice([Fr(1, 4), Fr(1, 2), Fr(1), Fr(2)]))]
    elif pk == "l2":
        prox = ["l2", fs(rng.choice([Fr(1, 2), Fr(1), Fr(2)]))]
    elif pk == "box":
        prox = ["box", fs(-rng.choice([Fr(1, 4), Fr(1, 2), Fr(1)])), fs(rng.choice([Fr(1, 4), Fr(1, 2), Fr(3, 2)]))]
    c = dict(n=n, m=m, akind=akind, A=[[fs(t) for t in r] for r in A], y=[fs(t) for t in y], lam=fs(lam),
             z=None if z is None else [fs(t) for t in z], prox=prox, gkind=gkind,
             G=None if Gm is None else [[fs(t) for t in r] for r in Gm], solver=solver,
             x0=None if rng.random() < 0.5 else [fs(dy(rng, -2, 2, 2)) for _ in range(n)],
             P=None, alpha=None, tau=None, sigma=None, rho="1", acc=rng.random() < 0.6, seed=rng.randint(0, 10 ** 6))
    if rng.random() < 0.3:
        c["P"] = [fs(rng.choice([Fr(1, 2), Fr(1), Fr(2)])) for _ in range(n)]
    if rng.random() < 0.5:
        c["rho"] = fs(rng.choice([Fr(1, 2), Fr(2), Fr(4)]))
    c.update({k: v for k, v in force.items() if k in ("x0", "P", "alpha", "tau", "sigma", "rho", "acc")})
    return c


def pow2_below(v):
    """largest power of two <= v, as a Fraction"""
    e = math.floor(math.log2(v))
    return Fr(2) ** e


def explicit_steps(c, rng, alpha=False, tau=False, sigma=False):
    """step sizes a caller may legitimately pass: alpha <= 1/L, tau*sigma*||K||^2 <= 1 (dyadic)"""
    A = dense_A(c)
    n = c["n"]
    lam = float(F(c["lam"]))
    if alpha:
        L = np.linalg.eigvalsh(A.T @ A + lam * np.eye(n)).max()
        c["alpha"] = fs(pow2_below(0.9 / L) / rng.choice([1, 1, 2]))
    Gd = None
    if c["gkind"] == "dense":
        Gd = np.array([[float(F(t)) for t in r] for r in c["G"]])
    elif c["gkind"] == "fd":
        Gd = fd_matrix(n)
    K = A if Gd is None else np.vstack([A, Gd])
    L2 = np.linalg.eigvalsh(K.T @ K).max()
    if tau and sigma:
        sg = rng.choice([Fr(1, 4), Fr(1, 2), Fr(1)])
        c["sigma"] = fs(sg)
        c["tau"] = fs(pow2_below(0.9 / (float(sg) * L2)))
    elif tau:
        c["tau"] = fs(pow2_below(0.9 / L2) * rng.choice([1, 2]))
    elif sigma:
        c["sigma"] = fs(rng.choice([Fr(1, 4), Fr(1, 2), Fr(2)]))


def dense_A(c):
    return np.array([[float(F(t)) for t in r] for r in c["A"]], dtype=np.float64)


def fd_matrix(n):
    D = np.zeros((n, n))
    for i in range(n):
        D[i, i] += 1
        D[i, (i - 1) % n] -= 1
    return D


class Built:
    pass


def build(c, dtype=np.float64):
    """the real sigpy objects of a case (fresh arrays every time)"""
    from sigpy import linop, prox
    n, m = c["n"], c["m"]
    b = Built()
    a = dense_A(c).astype(dtype)
    if c.get("cplx"):
        a = a + 1j * np.array(c["Aim"], dtype=np.float64)
    xs = [n, 1]
    if c["akind"] == "matmul":
        b.A = linop.MatMul(xs, a)
        ys = [m, 1]
    elif c["akind"] == "diag":
        b.A = linop.Multiply(xs, np.diag(a).copy().reshape(n, 1))
        ys = [n, 1]
    elif c["akind"] == "identity":
        b.A = linop.Identity(xs)
        ys = [n, 1]
    elif c["akind"] == "reshape":
        b.A = linop.Reshape([n], xs)
        ys = [n]
    elif c["akind"] == "mul1":
        b.A = linop.Multiply(xs, 1)
        ys = [n, 1]
    else:
        raise ValueError(c["akind"])
    b.y = fl(c["y"]).astype(dtype).reshape(ys)
    if c.get("cplx"):
        b.y = b.y + 1j * np.array(c["yim"], dtype=np.float64).reshape(ys)
    b.z = None if c["z"] is None else fl(c["z"]).astype(dtype).reshape(xs)
    if c.get("cplx") and b.z is not None:
        b.z = b.z + 1j * np.array(c["zim"], dtype=np.float64).reshape(xs)
    b.G = None
    if c["gkind"] == "dense":
        g = np.array([[float(F(t)) for t in r] for r in c["G"]], dtype=dtype)
        b.G = linop.MatMul(xs, g)
    elif c["gkind"] == "fd":
        b.G = linop.FiniteDifference(xs, axes=[0])
    gs = xs if b.G is None else list(b.G.oshape)
    b.gshape = gs
    b.proxg, b.g = None, None
    if c["prox"] is not None:
        k = c["prox"][0]
        if k == "l1":
            cc = float(F(c["prox"][1]))
            b.proxg = prox.L1Reg(gs, cc)
            b.g = lambda v: cc * float(np.sum(np.abs(v)))
        elif k == "l2":
            cc = float(F(c["prox"][1]))
            b.proxg = prox.L2Reg(gs, cc)
            b.g = lambda v: cc / 2 * float(np.linalg.norm(v)) ** 2
        else:
            lo, hi = float(F(c["prox"][1])), float(F(c["prox"][2]))
            b.proxg = prox.BoxConstraint(gs, lo, hi)
            b.g = lambda v: 0.0 if (np.all(v >= lo) and np.all(v <= hi)) else math.inf
    b.x0 = None if c["x0"] is None else fl(c["x0"]).astype(dtype).reshape(xs)
    b.P = None if c["P"] is None else linop.Multiply(xs, fl(c["P"]).reshape(xs))
    b.xs = xs
    return b


def optf(s):
    return None if s is None else float(F(s))


def make_app(c, b, max_iter, max_cg_iter=10, **over):
    from sigpy import app
    kw = dict(x=b.x0, proxg=b.proxg, lamda=float(F(c["lam"])), G=b.G, g=b.g, z=b.z, solver=c["solver"],
              max_iter=max_iter, P=b.P, alpha=optf(c["alpha"]), accelerate=c["acc"], tau=optf(c["tau"]),
              sigma=optf(c["sigma"]), rho=float(F(c["rho"])), max_cg_iter=max_cg_iter, show_pbar=False)
    kw.update(over)
    return app.LinearLeastSquares(b.A, b.y, **kw)


def dense_G(c, b=None):
    """dense matrix of the real G (probed on the basis) — the model treats G as this matrix"""
    if c["gkind"] is None:
        return None
    if c["gkind"] == "dense":
        return np.array([[float(F(t)) for t in r] for r in c["G"]])
    b = b or build(c)
    n = c["n"]
    cols = [np.asarray(b.G(np.eye(n)[:, j].reshape(b.xs))).ravel() for j in range(n)]
    return np.array(cols).T


def inst_tokens(c, Gd=None):
    Gd = dense_G(c) if Gd is None and c["gkind"] is not None else Gd
    t = ["n=%d" % c["n"], "A=" + fvecs(c["A"]), "y=" + fvec(c["y"]), "lam=" + c["lam"],
         "z=" + ("none" if c["z"] is None else fvec(c["z"])),
         "prox=" + ("none" if c["prox"] is None else ":".join(c["prox"])),
         "G=" + ("none" if Gd is None else fvecs([[Fr(float(t)) for t in r] for r in Gd]))]
    return " ".join(t)


# ---- recording wrappers around the classes `sigpy.app` instantiates -------------------------------
@contextlib.contextmanager
def recording(rec):
    import sigpy.app as appmod
    saved = {}

    def wrap(name):
        orig = getattr(appmod, name)
        saved[name] = orig
        sig = inspect.signature(orig.__init__)

        class Rec(orig):
            def __init__(self, *a, **k):
                ba = sig.bind(self, *a, **k)
                ba.apply_defaults()
                self._rec = dict(ba.arguments)
                self._rec.pop("self", None)
                rec.append((name, self))
                orig.__init__(self, *a, **k)
        Rec.__name__ = orig.__name__
        Rec.__qualname__ = orig.__qualname__
        setattr(appmod, name, Rec)

    for nme in SOLVERS + ["MaxEig"]:
        wrap(nme)
    try:
        yield
    finally:
        for k, v in saved.items():
            setattr(appmod, k, v)


def close(impl, model, tol=1e-12):
    """float vector vs exact rational vector"""
    impl = np.asarray(impl, dtype=np.float64).ravel()
    if len(impl) != len(model):
        return False
    for a, mdl in zip(impl, model):
        mf = float(mdl)
        if not (abs(a - mf) <= tol * (1 + abs(mf))):
            return False
    return True


def probe_cols(op, n, shape):
    return [np.asarray(op(np.eye(n)[:, j].reshape(shape).copy())).ravel() for j in range(n)]


def rprobes(rng, k, dim):
    return [[Fr(rng.randint(-6, 6), 2) for _ in range(dim)] for _ in range(k)]


# ---- correspondence streams ---------------------------------------------------------------------
def real_outcome(c):
    try:
        b = build(c)
        a = make_app(c, b, 2)
    except ValueError as e:
        return "raised", repr(e)
    except Exception as e:  # shape conventions etc.
        return "error:" + type(e).__name__, repr(e)
    return "built " + type(a.alg).__name__, ""


def stream_sel(ctx):
    bad = 0
    rng = ctx.rng
    combos = list(itertools.product([None] + SOLVERS + ["Foo", "conjugategradient"], [None, "l1", "l2", "box"],
                                    [None, "dense", "fd"], ["0", "1"], [False, True]))
    lines, meta = [], []
    for solver, pk, gk, lam, zg in combos:
        c = gen_case(rng, force=dict(n=3, akind="matmul", solver=solver, prox=pk, gkind=gk, lam=Fr(lam)))
        if not zg:
            c["z"] = None
        elif c["z"] is None:
            c["z"] = ["1", "0", "-1"]
        lines.append("C14 sel solver=%s proxg=%d G=%d" % (solver or "none", pk is not None, gk is not None))
        meta.append(c)
    replies = ctx.driver(lines)
    for c, ln, r in zip(meta, lines, replies):
        impl, msg = real_outcome(c)
        ctx.case(("sel", ln, c["lam"], c["z"] is None, c["prox"] and c["prox"][0], c["gkind"]),
                 sample=dict(line=ln, model=r, impl=impl) if ctx.evaluations % 61 == 0 else None)
        model = r[3:] if r.startswith("ok ") else r
        model_c = "raised" if model.startswith("raised") else model
        ctx.count("sel:" + model_c.split()[0])
        if impl != model_c:
            bad += 1
            ctx.disagree("sel", dict(kind="sel", case=c), impl + " " + msg, model)
    ctx.oblige("correspondence:C14.sel", "correspondence", bad == 0, "%d disagreements over %d option combinations" % (bad, len(lines)))


def setup_check(ctx, c, rng):
    """build the real app under the recorder, probe what it built, compare with the model's set-up.
    Returns list of mismatch descriptions (empty = agree) or None when the combination is rejected."""
    b = build(c)
    rec = []
    n, m = c["n"], c["m"]
    np.random.seed(c["seed"] % (2 ** 31))
    with recording(rec):
        try:
            a = make_app(c, b, 3)
        except Exception:
            return None
        name = type(a.alg).__name__
        short = SHORT[name]
        Gd = dense_G(c, b)
        inst = inst_tokens(c, Gd)
        p = 0 if Gd is None else Gd.shape[0]
        mism = []
        me = [r for r in rec if r[0] == "MaxEig"]
        maxeig = None
        if short == "cg":
            r = kvs(ctx.driver(["C14 cg-setup " + inst])[0])
            if not r:
                return ["model error"]
            cols = probe_cols(a.alg.A, n, b.xs)
            for j, (ci, cm) in enumerate(zip(cols, pvecs(r["M"]))):
                if not close(ci, cm):
                    mism.append("CG system column %d: impl %s model %s" % (j, ci.tolist(), [float(t) for t in cm]))
            if not close(a.alg.b, pvec(r["b"])):
                mism.append("CG rhs: impl %s model %s" % (np.ravel(a.alg.b).tolist(), [float(t) for t in pvec(r["b"])]))
            if (a.alg.P is None) != (c["P"] is None):
                mism.append("P not forwarded")
        elif short == "gm":
            px = rprobes(rng, 3, n)
            if c["alpha"] is None:
                if len(me) != 1:
                    return ["GradientMethod default alpha: MaxEig instantiated %d times" % len(me)]
                maxeig = me[0][1].alg.max_eig
                Eimpl = probe_cols(me[0][1]._rec["A"], n, b.xs)
            r = kvs(ctx.driver(["C14 gm-setup %s px=%s alpha=%s maxeig=%s" % (
                inst, fvecs(px), c["alpha"] or "none", fs(Fr(float(maxeig))) if maxeig is not None else "1")])[0])
            if not r:
                return ["model error"]
            for x, gm in zip(px, pvecs(r["g"])):
                gi = a.alg.gradf(fl(x).reshape(b.xs))
                if not close(gi, gm):
                    mism.append("gradf(%s): impl %s model %s" % ([float(t) for t in x], np.ravel(gi).tolist(), [float(t) for t in gm]))
            if (r["side"] == "primal") != (c["alpha"] is None) or (c["alpha"] is not None and me):
                mism.append("MaxEig: impl ran it %d times (alpha=%s), model side=%s" % (len(me), c["alpha"], r["side"]))
            if c["alpha"] is None:
                if len(pvecs(r["E"])) != len(Eimpl):
                    mism.append("operator given to MaxEig acts on dimension %d, model %d" % (len(Eimpl), len(pvecs(r["E"]))))
                for j, (ci, cm) in enumerate(zip(Eimpl, pvecs(r["E"]))):
                    if not close(ci, cm):
                        mism.append("operator given to MaxEig, column %d: impl %s model %s" % (j, ci.tolist(), [float(t) for t in cm]))
            if not close([a.alg.alpha], [Fr(r["alpha"])]):
                mism.append("alpha: impl %r model %s" % (a.alg.alpha, r["alpha"]))
            if (a.alg.proxg is None) != (c["prox"] is None):
                mism.append("proxg not forwarded")
            if bool(a.alg.accelerate) != bool(c["acc"]):
                mism.append("accelerate not forwarded")
        elif short == "pdhg":
            d = m + p
            pa = [Fr(1, 2), Fr(1), Fr(3), Fr(1, 4)]
            pu, px = rprobes(rng, 4, d), rprobes(rng, 4, n)
            Eimpl = None
            if c["tau"] is None or c["sigma"] is None:
                if len(me) != 1:
                    return ["PDHG default steps: MaxEig instantiated %d times" % len(me)]
                maxeig = me[0][1].alg.max_eig
                op = me[0][1]._rec["A"]
                Eimpl = probe_cols(op, int(np.prod(op.ishape)), list(op.ishape))
            r = kvs(ctx.driver(["C14 pdhg-setup %s tau=%s sigma=%s maxeig=%s pa=%s pu=%s px=%s" % (
                inst, c["tau"] or "none", c["sigma"] or "none",
                fs(Fr(float(maxeig))) if maxeig is not None else "1", fvec(pa), fvecs(pu), fvecs(px))])[0])
            if not r:
                return ["model error"]
            K = probe_cols(a.alg.A, n, b.xs)
            for j, (ci, cm) in enumerate(zip(K, pvecs(r["K"]))):
                if not close(ci, cm):
                    mism.append("K column %d: impl %s model %s" % (j, ci.tolist(), [float(t) for t in cm]))
            KH = [np.asarray(a.alg.AH(np.eye(d)[:, j].reshape(a.alg.u.shape).copy())).ravel() for j in range(d)]
            for j, (ci, cm) in enumerate(zip(KH, pvecs(r["KH"]))):
                if not close(ci, cm):
                    mism.append("K^H column %d: impl %s model %s" % (j, ci.tolist(), [float(t) for t in cm]))
            for al, u, fm in zip(pa, pu, pvecs(r["fc"])):
                fi = a.alg.proxfc(float(al), fl(u).reshape(a.alg.u.shape))
                if not close(fi, fm):
                    mism.append("proxfc(%s, %s): impl %s model %s" % (al, [float(t) for t in u], np.ravel(fi).tolist(), [float(t) for t in fm]))
            for al, x, gm in zip(pa, px, pvecs(r["pg"])):
                gi = a.alg.proxg(float(al), fl(x).reshape(b.xs))
                if not close(gi, gm):
                    mism.append("proxg(%s, %s): impl %s model %s" % (al, [float(t) for t in x], np.ravel(gi).tolist(), [float(t) for t in gm]))
            if not close([a.alg.gamma_primal], [Fr(r["gp"])]):
                mism.append("gamma_primal: impl %r model %s" % (a.alg.gamma_primal, r["gp"]))
            if not close([a.alg.gamma_dual], [Fr(r["gd"])]):
                mism.append("gamma_dual: impl %r model %s" % (a.alg.gamma_dual, r["gd"]))
            if Eimpl is None and (me or r["side"] != "none"):
                mism.append("MaxEig: impl ran it %d times with tau and sigma given, model side=%s" % (len(me), r["side"]))
            if Eimpl is not None:
                Em = pvecs(r["E"])
                if len(Em) != len(Eimpl):
                    mism.append("operator given to MaxEig acts on dimension %d, model %s (%d)" % (len(Eimpl), r["side"], len(Em)))
                else:
                    for j, (ci, cm) in enumerate(zip(Eimpl, Em)):
                        if not close(ci, cm):
                            mism.append("operator given to MaxEig (%s), column %d: impl %s model %s" % (r["side"], j, ci.tolist(), [float(t) for t in cm]))
            # step sizes as handed to the solver (tau is rescaled in place by later updates; none ran yet)
            if not close([a.alg.tau], [Fr(r["tau"])]):
                mism.append("tau: impl %r model %s" % (a.alg.tau, r["tau"]))
            if not close([a.alg.sigma], [Fr(r["sigma"])]):
                mism.append("sigma: impl %r model %s" % (a.alg.sigma, r["sigma"]))
            if not (np.all(a.alg.u == 0) and a.alg.u.size == d):
                mism.append("dual variable not zeros(%d)" % d)
        else:  # admm
            q = n if Gd is None else p
            px, pv, pu = rprobes(rng, 3, n), rprobes(rng, 3, q), rprobes(rng, 3, q)
            alg = a.alg
            xinit = [Fr(float(t)) for t in np.ravel(alg.x)]
            r = kvs(ctx.driver(["C14 admm-setup %s rho=%s px=%s pv=%s pu=%s x0=%s" % (
                inst, c["rho"], fvecs(px), fvecs(pv), fvecs(pu), fvec(xinit))])[0])
            if not r:
                return ["model error"]
            if not close(alg.z, pvec(r["v00"])):
                mism.append("ADMM initial v: impl %s model %s" % (np.ravel(alg.z).tolist(), [float(t) for t in pvec(r["v00"])]))
            if not np.all(np.asarray(alg.u) == 0):
                mism.append("ADMM initial u is not zero")
            if np.shares_memory(alg.z, alg.x):
                mism.append("ADMM initial v shares memory with x")
            for i, (x, v, u) in enumerate(zip(px, pv, pu)):
                alg.x[...] = fl(x).reshape(alg.x.shape)
                alg.z[...] = fl(v).reshape(alg.z.shape)
                alg.u[...] = fl(u).reshape(alg.u.shape)
                del rec[:]
                alg.minL_x()
                cgs = [t for t in rec if t[0] == "ConjugateGradient"]
                if len(cgs) != 1:
                    return ["ADMM minL_x built %d ConjugateGradient objects" % len(cgs)]
                cg = cgs[0][1]
                if i == 0:
                    for j, (ci, cm) in enumerate(zip(probe_cols(cg._rec["A"], n, b.xs), pvecs(r["M"]))):
                        if not close(ci, cm):
                            mism.append("ADMM x-system column %d: impl %s model %s" % (j, ci.tolist(), [float(t) for t in cm]))
                    if (cg._rec["P"] is None) != (c["P"] is None):
                        mism.append("P not forwarded to the inner CG")
                rm = pvecs(r["r"])[i]
                if not close(cg._rec["b"], rm):
                    mism.append("ADMM x-rhs(v=%s,u=%s): impl %s model %s" % ([float(t) for t in v], [float(t) for t in u],
                                                                          np.ravel(cg._rec["b"]).tolist(), [float(t) for t in rm]))
                # v-update and multiplier update at (x, u)
                alg.x[...] = fl(x).reshape(alg.x.shape)
                alg.u[...] = fl(u).reshape(alg.u.shape)
                alg.minL_z()
                vm = pvecs(r["v"])[i]
                if not close(alg.z, vm):
                    mism.append("ADMM v-update(x=%s,u=%s): impl %s model %s" % ([float(t) for t in x], [float(t) for t in u],
                                                                             np.ravel(alg.z).tolist(), [float(t) for t in vm]))
                unew = alg.u + alg.A(alg.x) + alg.B(alg.z) - alg.c
                um = pvecs(r["u"])[i]
                if not close(unew, um):
                    mism.append("ADMM u-update: impl %s model %s" % (np.ravel(unew).tolist(), [float(t) for t in um]))
        return mism


def stream_setup(ctx, ncases):
    rng = ctx.rng
    bad = rejected = 0
    for i in range(ncases):
        solver = ([None] + SOLVERS)[i % 5]
        c = gen_case(rng, solver=solver)
        r_ = rng.random()
        explicit_steps(c, rng, alpha=rng.random() < 0.5, tau=r_ < 0.5, sigma=r_ < 0.3 or 0.5 <= r_ < 0.7)
        try:
            mism = setup_check(ctx, c, rng)
        except Exception as e:  # the constructor accepted it, so its parts must be usable
            mism = ["probing the set-up raised %r" % (e,)]
        key = (c["solver"], c["lam"] != "0", c["z"] is not None, c["prox"] and c["prox"][0], c["gkind"], c["akind"])
        if mism is None:
            rejected += 1
            ctx.count("setup:rejected")
            ctx.case(("setup-rej", json.dumps(c, sort_keys=True)), nontrivial=False)
            continue
        ctx.case(("setup", json.dumps(c, sort_keys=True)),
                 sample=dict(stream="setup", case=dict(solver=c["solver"], lam=c["lam"], prox=c["prox"], gkind=c["gkind"], akind=c["akind"]),
                             agree=not mism) if i % 23 == 0 else None)
        ctx.count("setup:%s|lam%s|z%d|prox=%s|G=%s" % (c["solver"], ">0" if c["lam"] != "0" else "=0", c["z"] is not None,
                                                      c["prox"] and c["prox"][0], c["gkind"]))
        if mism:
            bad += 1
            ctx.disagree("setup", dict(kind="setup", case=c), mism[:3], "model set-up")
    ctx.oblige("correspondence:C14.setup", "correspondence", bad == 0,
               "%d of %d set-ups differ from the model (%d rejected combinations)" % (bad, ncases, rejected))


def model_run_line(c, short, iters, Gd, x0, tau=None, sigma=None, alpha=None, maxcg=10):
    t = "C14 run solver=%s %s x0=%s iters=%d P=%s" % (short, inst_tokens(c, Gd), fvec(x0), iters,
                                                     "none" if c["P"] is None else fvec(c["P"]))
    if short == "gm":
        t += " alpha=%s acc=%d" % (alpha, c["acc"])
    if short == "pdhg":
        t += " tau=%s sigma=%s" % (tau, sigma)
    if short == "admm":
        t += " rho=%s maxcg=%d" % (c["rho"], maxcg)
    return t


def run_check(ctx, c, iters=5, tol=1e-9):
    """the real app driven update by update vs the model machine.  None = rejected."""
    b = build(c)
    y0, z0 = b.y.tobytes(), None if b.z is None else b.z.tobytes()
    try:
        a = make_app(c, b, iters, max_cg_iter=10)
    except Exception:
        return None
    short = SHORT[type(a.alg).__name__]
    Gd = dense_G(c, b)
    x0 = c["x0"] or ["0"] * c["n"]
    traj = []
    if short == "cg":
        # final iterates for max_iter = 1..iters (fresh app each), as CG branches on max_iter
        lines = []
        for k in range(1, iters + 1):
            bk = build(c)
            ak = make_app(c, bk, k)
            traj.append(np.ravel(ak.run()).copy())
            lines.append(model_run_line(c, "cg", k, Gd, x0))
        model = [pvec(r[3:]) if r.startswith("ok ") else None for r in ctx.driver(lines)]
    else:
        while not a.alg.done():
            a.alg.update()
            traj.append(np.ravel(a.x).copy())
        ln = model_run_line(c, short, iters, Gd, x0, tau=c["tau"], sigma=c["sigma"], alpha=c["alpha"])
        r = ctx.driver([ln])[0]
        model = pvecs(r[3:]) if r.startswith("ok ") else [None] * iters
    mism = []
    for k, (ti, tm) in enumerate(zip(traj, model)):
        if tm is None or not close(ti, tm, tol):
            mism.append("x after %d updates: impl %s model %s" % (k + 1, ti.tolist(), None if tm is None else [float(t) for t in tm]))
            break
    if len(traj) < len(model) and traj and not mism:
        # tol=0: the real solver stops early only when its residual is exactly 0, i.e. at a fixed point;
        # the model (which runs the full count) must then stay where the real run stopped
        for k in range(len(traj), len(model)):
            if model[k] is None or not close(traj[-1], model[k], tol):
                mism.append("real run stopped after %d updates but the model still moves at update %d" % (len(traj), k + 1))
                break
    elif len(traj) != len(model):
        mism.append("%d updates ran, model %d" % (len(traj), len(model)))
    if b.y.tobytes() != y0 or (b.z is not None and b.z.tobytes() != z0):
        mism.append("y or z was modified")
    return mism


def stream_run(ctx, ncases):
    rng = ctx.rng
    bad = rejected = 0
    for i in range(ncases):
        solver = SOLVERS[i % 4]
        c = gen_case(rng, solver=solver)
        explicit_steps(c, rng, alpha=True, tau=True, sigma=True)
        if solver == "ADMM" and c["P"] is not None and rng.random() < 0.5:
            c["P"] = None
        try:
            mism = run_check(ctx, c, iters=rng.choice([3, 4, 6]))
        except Exception as e:
            mism = ["stepping the real app raised %r" % (e,)]
        if mism is None:
            rejected += 1
            ctx.count("run:rejected")
            continue
        ctx.traces += 1
        ctx.case(("run", json.dumps(c, sort_keys=True)),
                 sample=dict(stream="run", solver=solver, akind=c["akind"], agree=not mism) if i % 17 == 0 else None)
        ctx.count("run:%s|A=%s" % (SHORT[solver], c["akind"]))
        if mism:
            bad += 1
            ctx.disagree("run", dict(kind="run", case=c), mism[:3], "model trajectory")
    ctx.oblige("correspondence:C14.run", "correspondence", bad == 0,
               "%d of %d step-by-step runs differ from the model (%d rejected)" % (bad, ncases, rejected))


def stream_obj(ctx, ncases):
    rng = ctx.rng
    bad = 0
    for i in range(ncases):
        c = gen_case(rng, solver=rng.choice(["PrimalDualHybridGradient", "ADMM"]))
        if c["prox"] and c["prox"][0] == "box":
            c["prox"] = ["l1", "1/2"]
        withg = rng.random() < 0.8
        b = build(c)
        x = [Fr(rng.randint(-4, 4), 2) for _ in range(c["n"])]
        try:
            a = make_app(c, b, 1, x=fl(x).reshape(b.xs), **({} if withg else {"g": None}))
        except Exception:
            continue
        try:
            impl = a.objective()
        except ValueError:
            impl = "raise"
        r = ctx.driver(["C14 obj %s x=%s g=%d" % (inst_tokens(c, dense_G(c, b)), fvec(x), withg)])[0]
        model = r[3:] if r.startswith("ok ") else r
        ok = (impl == "raise") == (model == "raise") and (impl == "raise" or close([impl], [Fr(model)]))
        ctx.case(("obj", json.dumps(c, sort_keys=True), fvec(x), withg))
        ctx.count("obj")
        if not ok:
            bad += 1
            ctx.disagree("obj", dict(kind="obj", case=c, x=[fs(t) for t in x], g=withg), impl, model)
    ctx.oblige("correspondence:C14.objective", "correspondence", bad == 0, "%d disagreements" % bad)


def sym_psd(rng, n, general=False):
    """small dyadic matrix: B^T B + c I (symmetric positive definite), or a general one"""
    while True:
        B = [[Fr(rng.randint(-3, 3), 2) for _ in range(n)] for _ in range(n)]
        if general:
            if any(any(t != 0 for t in r) for r in B):
                return B
            continue
        c = Fr(rng.choice([0, 1, 2]), 2)
        T = [[sum(B[k][i] * B[k][j] for k in range(n)) + (c if i == j else 0) for j in range(n)] for i in range(n)]
        if any(T[i][i] != 0 for i in range(n)):
            return T


def stream_power(ctx, ncases):
    """the real `alg.PowerMethod` (built directly, or the one inside a real `app.MaxEig`) driven update by update vs the
    GENERATED `Gen.C14.pmUpdate` (rational, sqrt to 2^-64).  Every update is compared ONE STEP AT A TIME from the real
    object's own state before the update (a whole-run comparison would be a false alarm: when the start vector is
    almost orthogonal to the dominant eigenvector, floating-point rounding re-introduces that component and the float
    run and the exact run separate by (lambda_1/lambda_2)^k).  Counters / done() / the default budget / what `run()`
    returns are compared on the whole run (they do not depend on the numbers)."""
    import sigpy.alg as algmod
    import sigpy.app as appmod
    from sigpy import linop, util
    rng = ctx.rng
    bad = 0
    for i in range(ncases):
        n = rng.choice([2, 3, 4])
        general = i % 4 == 3
        T = sym_psd(rng, n, general)
        Tn = np.array([[float(t) for t in r] for r in T])
        viaapp = i % 2 == 1
        iters = rng.choice([1, 2, 3, 5, 8, 30]) if not viaapp else rng.choice([0, 1, 2, 5, 30, None])
        extra = {}
        if viaapp:
            A = linop.MatMul([n, 1], Tn)
            seed = rng.randint(0, 2 ** 31 - 1)
            np.random.seed(seed)
            x0 = np.array(util.randn([n, 1], dtype=np.float64)).copy()
            kw = {} if iters is None else {"max_iter": iters}
            np.random.seed(seed)
            a = appmod.MaxEig(A, dtype=np.float64, show_pbar=False, **kw)
            np.random.seed(seed)
            a2 = appmod.MaxEig(A, dtype=np.float64, show_pbar=False, **kw)
            if not np.array_equal(np.asarray(a.x), x0):
                ctx.oblige("correspondence:C14.power.seed", "correspondence", False, "MaxEig start vector is not util.randn(A.ishape) under the same seed")
                return
            pm = a.alg
            mi = int(pm.max_iter)
            extra = dict(run_out=float(a2.run()), run_iter=int(a2.alg.iter), max_iter=mi, norm_func=pm.norm_func is None)
        else:
            A = linop.MatMul([n, 1], Tn) if i % 3 else (lambda v, Tn=Tn: Tn @ v)
            x0 = np.array([[float(Fr(rng.randint(-6, 6), 2))] for _ in range(n)])
            pm = algmod.PowerMethod(A, x0.copy(), max_iter=iters)
            mi = iters
        ests, xs_, its, dns, lines = [], [], [], [], []
        mat = fvecs(T)
        degenerate = not np.any(Tn @ x0)
        while not pm.done() and not degenerate:
            xb = np.ravel(np.asarray(pm.x)).copy()
            if not np.all(np.isfinite(xb)) or not np.any(Tn @ xb):
                degenerate = True
                break
            pm.update()
            ests.append(float(pm.max_eig))
            xs_.append(np.ravel(np.asarray(pm.x)).tolist())
            its.append(int(pm.iter))
            dns.append(bool(pm.done()))
            lines.append("C14 power n=%d M=%s x0=%s iters=1 mi=%d" % (n, mat, fvec([Fr(float(t)) for t in xb]), mi))
        if degenerate or not (np.all(np.isfinite(ests)) and all(np.all(np.isfinite(v)) for v in xs_)):
            continue   # a division by zero (T x = 0): outside the modelled domain
        steps = len(ests)
        lines.append("C14 power n=%d M=%s x0=%s iters=%d mi=%d" % (n, mat, fvec([Fr(float(t)) for t in np.ravel(x0)]), steps, mi))
        rs = ctx.driver(lines)
        impl = dict(est=ests, x=xs_, iter=its, done=dns, final=float(pm.max_eig), **extra)
        case = dict(kind="power", T=[[fs(t) for t in r_] for r_ in T], x0=np.ravel(x0).tolist(), iters=iters, viaapp=viaapp)
        ok = all(r.startswith("ok ") for r in rs)
        model = rs[-1][:300]
        if ok:
            mest, mx = [], []
            for r in rs[:-1]:
                k = kvs(r)
                mest.append(float(Fr(k["est"])))
                mx.append([float(t) for t in pvecs(k["x"])[0]])
            k = kvs(rs[-1])
            mit = [] if k["iter"] == "-" else [int(t) for t in k["iter"].split(",")]
            mdn = [] if k["done"] == "-" else [t == "1" for t in k["done"].split(",")]
            model = dict(est=mest, x=mx, iter=mit, done=mdn, default=int(k["def"]), out_is_inf=k["out"] == "inf")
            ok = (mit == its and mdn == dns and
                  all(abs(a_ - b_) <= 1e-9 * max(1.0, abs(b_)) for a_, b_ in zip(ests, mest)) and
                  all(abs(a_ - b_) <= 1e-9 for u, v in zip(xs_, mx) for a_, b_ in zip(u, v)) and
                  (steps > 0) == (not model["out_is_inf"]) and steps == max(mi, 0))
            if ok and viaapp:
                ok = (extra["run_iter"] == steps and extra["norm_func"] and
                      (iters is not None or mi == model["default"]) and
                      ((steps == 0 and math.isinf(extra["run_out"])) or extra["run_out"] == impl["final"]))
        moved = len(ests) >= 2 and abs(ests[-1] - ests[0]) > 1e-6
        ctx.case(("power", json.dumps(case, sort_keys=True)), nontrivial=bool(moved),
                 sample=dict(request=lines[0][:300] if lines else "", model=str(model)[:300], impl=str(impl)[:300]))
        ctx.count("power")
        if not ok:
            bad += 1
            ctx.disagree("power", case, impl, model)
    ctx.oblige("correspondence:C14.power", "correspondence", bad == 0, "%d disagreements" % bad)


def correspond(ctx):
    ctx.rule = ("cases = one configuration of the option cross product {solver} x {lamda=0,>0} x {z None/array} x "
                "{proxg None/L1Reg/L2Reg/BoxConstraint} x {G None/dense/FiniteDifference} x {P/alpha/tau/sigma/rho given or "
                "defaulted} x {x given or not} on a small dyadic-rational instance with A a dense MatMul, a diagonal "
                "Multiply, Identity, Reshape or Multiply-by-1; distinct by the full case; non-trivial = the real "
                "constructor accepted it (rejected combinations are counted separately); power stream: small dyadic symmetric PSD "
                "(B^T B + c I) or general matrices, PowerMethod (built directly from a dyadic start vector, or the one inside a real "
                "MaxEig with its seeded util.randn start vector) compared update by update from the real object's own state, "
                "max_iter in {0,1,2,3,5,8,30,default}; non-trivial = the estimate moves between updates")
    ctx.assumptions += [
        "the solver classes (ConjugateGradient, GradientMethod, PrimalDualHybridGradient, ADMM, PowerMethod) are taken as "
        "given (C12/C13/C15); C14's theorems are about what LinearLeastSquares hands to them",
        "A.N is A^H A and A.H is the adjoint (C01/C04); theorems hold over real AND complex inner-product spaces "
        "(Props/C14Cplx.lean: transfer lemma isAdj_restrict, complex space = real space with re<.,.>); the executable model "
        "and the correspondence use real (rational) data, complex data on the real code is exercised by the search",
        "end-to-end joins with C12/C13 (Props/C14Join.lean) are in exact arithmetic; the PDHG route is joined in part "
        "(pdhg_route_fejer_noG_partial: no G, lamda > 0, default tau; primal-prox and saddle hypotheses remain); accelerated "
        "PDHG variants are outside C13's theorems",
        "MaxEig / PowerMethod: the step is translator-generated (Gen/C14Power.lean) and compared with the real classes; the "
        "theorems (estimate <= lambda_max, monotone) need a Hermitian PSD operator and T x0 != 0; the start vector is random",
        "floating point: the model is exact rational arithmetic; sqrt (Nesterov t, PDHG theta) is a 2^-64 approximation in "
        "the executable machines; the power-method estimate of the largest eigenvalue is an input of the model's step rule",
    ]
    q = ctx.tier == "quick"
    stream_sel(ctx)
    stream_setup(ctx, 300 if q else 2000)
    stream_run(ctx, 160 if q else 1200)
    stream_obj(ctx, 60 if q else 400)
    stream_power(ctx, 60 if q else 400)


# ---- the property's own oracle -------------------------------------------------------------------
def smooth_parts(c, b):
    """dense complex/real matrices of the instance for the reference computation"""
    n = c["n"]
    cols = [np.asarray(b.A(np.eye(n)[:, j].reshape(b.xs).astype(b.y.dtype))).ravel() for j in range(n)]
    A = np.array(cols).T
    Gd = None
    if b.G is not None:
        Gd = np.array([np.asarray(b.G(np.eye(n)[:, j].reshape(b.xs).astype(b.y.dtype))).ravel() for j in range(n)]).T
    return A, Gd


def objective_value(c, A, Gd, y, z, x, with_g=True):
    lam = float(F(c["lam"]))
    x = np.ravel(x)
    o = 0.5 * np.linalg.norm(A @ x - y) ** 2
    if lam != 0:
        o += lam / 2 * np.linalg.norm(x - (0 if z is None else z)) ** 2
    infeas = 0.0
    if c["prox"] is not None and c["prox"][0] == "box":
        v = x if Gd is None else Gd @ x
        lo, hi = float(F(c["prox"][1])), float(F(c["prox"][2]))
        infeas = float(np.max(np.maximum(np.maximum(lo - v.real, v.real - hi), 0)))
    if c["prox"] is not None and with_g:
        v = x if Gd is None else Gd @ x
        k = c["prox"][0]
        if k == "l1":
            o += float(F(c["prox"][1])) * np.sum(np.abs(v))
        elif k == "l2":
            o += float(F(c["prox"][1])) / 2 * np.linalg.norm(v) ** 2
        elif infeas > 0:
            o = math.inf
    return float(o), infeas


def reference(c, A, Gd, y, z):
    """(x*, F*) of the documented objective, written from the statement; None when no certified optimum.
    quadratic cases: linear solve; l1 / box: enumeration of sign / active patterns, each candidate from
    its KKT system, accepted only if it satisfies the full KKT conditions (convex problem => optimal)."""
    n = c["n"]
    lam = float(F(c["lam"]))
    H = A.conj().T @ A + lam * np.eye(n)
    rhs = A.conj().T @ y + (0 if z is None else lam * z)
    Gm = np.eye(n) if Gd is None else Gd
    k = None if c["prox"] is None else c["prox"][0]
    if np.linalg.eigvalsh(H + (Gm.conj().T @ Gm if k == "l2" else 0)).min() < 1e-3:
        return None
    if k is None:
        x = np.linalg.solve(H, rhs)
        return x, objective_value(c, A, Gd, y, z, x)[0]
    if k == "l2":
        cc = float(F(c["prox"][1]))
        x = np.linalg.solve(H + cc * Gm.conj().T @ Gm, rhs)
        return x, objective_value(c, A, Gd, y, z, x)[0]
    if np.iscomplexobj(A) or np.iscomplexobj(y):
        return None
    p = Gm.shape[0]
    best = None
    tol = 1e-9
    for pat in itertools.product((-1, 0, 1), repeat=p):
        pat = np.array(pat)
        if k == "l1":
            cc = float(F(c["prox"][1]))
            act = np.where(pat == 0)[0]          # (Gx)_i = 0 with multiplier in [-cc, cc]
            lin = cc * Gm[pat != 0].T @ pat[pat != 0] if np.any(pat != 0) else np.zeros(n)
            target = np.zeros(len(act))
        else:
            lo, hi = float(F(c["prox"][1])), float(F(c["prox"][2]))
            act = np.where(pat != 0)[0]          # at lower (-1) / upper (+1) bound
            lin = np.zeros(n)
            target = np.where(pat[act] < 0, lo, hi)
        Ga = Gm[act]
        na = len(act)
        KKT = np.block([[H, Ga.T], [Ga, np.zeros((na, na))]])
        sol = np.linalg.lstsq(KKT, np.concatenate([rhs - lin, target]), rcond=None)[0]
        x, mu = sol[:n], sol[n:]
        if np.linalg.norm(KKT @ sol - np.concatenate([rhs - lin, target])) > tol:
            continue
        v = Gm @ x
        if k == "l1":
            if np.any(np.sign(np.where(np.abs(v) < tol, 0, v))[pat != 0] != pat[pat != 0]):
                continue
            if np.any(np.abs(mu) > cc + tol):
                continue
        else:
            if np.any(v < lo - tol) or np.any(v > hi + tol):
                continue
            # multiplier sign: at lower bound the constraint force pushes up (mu <= 0), at upper mu >= 0
            if np.any(mu[pat[act] < 0] > tol) or np.any(mu[pat[act] > 0] < -tol):
                continue
        f = objective_value(c, A, Gd, y, z, x, with_g=(k == "l1"))[0]
        if best is None or f < best[1]:
            best = (x, f)
    return best


SCHEDULE = {"cg": [40], "gm": [400, 1600, 6400], "pdhg": [1500, 6000, 24000], "admm": [300, 1200, 4800]}
TOL = 1e-6


def finding_key(c, short, what, y_changed):
    if y_changed and short in ("cg", "admm"):
        return "C14:CG/ADMM:AHy-inplace"
    if short == "pdhg" and c["gkind"] is not None and c["lam"] != "0" and what != "y-modified":
        return "C14:PDHG:G-and-lamda"
    return "C14:%s:%s:G%d:lam%s:prox%d" % (short.upper(), what, c["gkind"] is not None, "+" if c["lam"] != "0" else "0",
                                           c["prox"] is not None)


def oracle(ctx, c, origin, budget_scale=1.0):
    """runs the real app on case c; reports a failure through ctx.fail; returns a status string."""
    try:
        b = build(c)
    except Exception:
        return "rejected"
    np.random.seed(c["seed"] % (2 ** 31))
    y0 = b.y.tobytes()
    z0 = None if b.z is None else b.z.tobytes()
    yv, zv = b.y.copy().ravel(), None if b.z is None else b.z.copy().ravel()
    A, Gd = smooth_parts(c, b)
    try:
        a = make_app(c, b, 1)
    except Exception as e:
        if c["solver"] is None:
            # solver=None is documented to choose a solver that supports the given proxg/G, and one exists
            # for every combination (the generator only builds shape-consistent instances)
            ctx.fail("C14:None:rejected", "solver=None raised %s instead of choosing an applicable solver" % type(e).__name__,
                     dict(kind="oracle", case=c), observed=repr(e), expected="a solver that supports proxg=%s, G=%s" % (
                         c["prox"] and c["prox"][0], c["gkind"]), origin=origin)
            return "fail"
        return "rejected"
    short = SHORT[type(a.alg).__name__]
    ref = reference(c, A, Gd, yv, zv)
    if ref is None:
        return "no-reference"
    xstar, fstar = ref
    box = c["prox"] is not None and c["prox"][0] == "box"
    scale = max(1.0, abs(fstar))
    sched = [int(N) for N in SCHEDULE[short]]
    if b.y.tobytes() != y0:   # already the constructor wrote into y
        a = None
    else:
        b = build(c)
        np.random.seed(c["seed"] % (2 ** 31))
        a = make_app(c, b, sched[0])
    gaps = []
    status = None
    total = 0
    x = None
    infeas = 0.0
    for N in sched if a is not None else []:
        try:
            a.alg.max_iter = N      # later stages continue the same run
            x = a.run()
        except Exception as e:
            ctx.fail(finding_key(c, short, "exception", False), "run() raised %s on a combination the constructor accepted" % type(e).__name__,
                     dict(kind="oracle", case=c), observed=repr(e), expected="minimiser", origin=origin)
            return "fail"
        total = N
        f, infeas = objective_value(c, A, Gd, yv, zv, x, with_g=not box)
        gap = f - fstar
        gaps.append(gap)
        fin = np.all(np.isfinite(x))
        if fin and gap <= TOL * scale and infeas <= 1e-5 and (not box or gap >= -1e-4 * scale):
            status = "ok"
            break
    y_changed = b.y.tobytes() != y0 or (b.z is not None and b.z.tobytes() != z0)
    if y_changed:
        ctx.fail(finding_key(c, short, "y-modified", True), "run() modified the caller's y or z",
                 dict(kind="oracle", case=c), observed="y/z bytes differ after run()", expected="y, z unchanged", origin=origin)
        return "fail"
    if status == "ok":
        # the app's own objective() must be the documented objective (it is what save_objective_values records)
        fdoc, inf2 = objective_value(c, A, Gd, yv, zv, x)
        if math.isfinite(fdoc) and not box:   # (box: g is the harness's own 0/inf indicator, rounding-sensitive)
            try:
                fapp = a.objective()
            except Exception as e:
                fapp = repr(e)
            if not (isinstance(fapp, float) and abs(fapp - fdoc) <= 1e-9 * max(1.0, abs(fdoc))):
                ctx.fail("C14:objective", "objective() differs from the documented objective at the returned x",
                         dict(kind="oracle", case=c), observed=fapp, expected=fdoc, origin=origin)
                return "fail"
        return "ok"
    # not within tolerance after the longest run: a violation only when it is not merely slow —
    # the gap stopped shrinking (plateau at another problem's minimiser) or the iterates blew up
    fin = x is not None and np.all(np.isfinite(x))
    slow = fin and len(gaps) >= 2 and gaps[-1] > 0 and gaps[-1] < 0.25 * gaps[-2] and infeas <= 1e-3
    if slow:
        return "slow"
    ctx.fail(finding_key(c, short, "gap", False),
             "objective at the returned x is not within tolerance of the optimum of 0.5||Ax-y||^2+g(Gx)+lamda/2||x-z||^2",
             dict(kind="oracle", case=c),
             observed=dict(x=None if x is None else np.ravel(x).tolist(), objective_gaps=gaps, infeasibility=infeas, iterations=total),
             expected=dict(x=np.ravel(xstar).tolist(), objective=fstar, tol=TOL * scale), origin=origin)
    return "fail"


def cplx_case(rng):
    c = gen_case(rng, force=dict(akind="matmul", prox=rng.choice([None, "l2"]), gkind=rng.choice([None, "dense"])))
    n, m = c["n"], c["m"]
    c["cplx"] = True
    c["Aim"] = [[rng.randint(-1, 1) / 2 for _ in range(n)] for _ in range(m)]
    c["yim"] = [rng.randint(-4, 4) / 2 for _ in range(m)]
    if c["z"] is not None:
        c["zim"] = [rng.randint(-3, 3) / 2 for _ in range(n)]
    c["x0"] = None
    return c


def observe_power_gap(ctx, ncases):
    """OBSERVATION (not part of the property): how far the real default step `alpha = 1/MaxEig(...)` exceeds `1/lambda_max`
    (Props/C14Power.lean: the power method under-estimates), and whether an un-accelerated GradientMethod update of the
    real app ever increases the documented objective because of it (C13's `ista_descent` needs alpha*L <= 1;
    `ista_descent_relaxed` shows descent survives up to alpha*L <= 2)."""
    rng = ctx.rng
    worst, over, incr, worst_incr, runs = 1.0, 0, 0, 0.0, 0
    for _ in range(ncases):
        c = gen_case(rng, solver="GradientMethod", force=dict(akind="matmul", gkind=None,
                                                               prox=rng.choice([None, "l1", "l2"])))
        if _ % 2:   # directed: nearly equal top eigenvalues, where 30 power iterations are visibly short of lambda_max
            c = gen_case(rng, solver="GradientMethod", force=dict(akind="diag", gkind=None, prox=rng.choice([None, "l1"]), n=4))
            d = [Fr(2), Fr(rng.choice([255, 254, 252]), 128), Fr(rng.choice([253, 250, 248]), 128), Fr(1)]
            c["A"] = [[d[i] if i == j else Fr(0) for j in range(4)] for i in range(4)]
        c["alpha"], c["acc"], c["x0"] = None, False, None
        try:
            b = build(c)
            np.random.seed(c["seed"] % (2 ** 31))
            a = make_app(c, b, 60)
        except Exception:
            continue
        A, Gd = smooth_parts(c, b)
        lam = float(F(c["lam"]))
        lmax = float(np.linalg.eigvalsh(A.conj().T @ A + lam * np.eye(c["n"]))[-1])
        ratio = float(a.alg.alpha) * lmax
        runs += 1
        worst = max(worst, ratio)
        over += ratio > 1 + 1e-12
        yv, zv = b.y.copy().ravel(), None if b.z is None else b.z.copy().ravel()
        prev, _ = objective_value(c, A, Gd, yv, zv, np.asarray(a.x))
        for _k in range(60):
            a.alg.update()
            cur, _ = objective_value(c, A, Gd, yv, zv, np.asarray(a.x))
            if cur > prev + 1e-10 * max(1.0, abs(prev)):
                incr += 1
                worst_incr = max(worst_incr, cur - prev)
            prev = cur
    ctx.counts["power-gap:runs"] = runs
    ctx.counts["power-gap:alpha>1/L"] = int(over)
    ctx.counts["power-gap:objective-increases"] = int(incr)
    ctx.notes.append("observation (power-method gap, real code, alpha=None, accelerate=False, %d runs x 60 updates): "
                     "alpha*lambda_max exceeded 1 in %d runs, worst 1+%.3e (hypothesis alpha*L<=1 of C13.ista_rate/ista_descent "
                     "fails there; ista_descent_relaxed needs <=2); objective increases observed: %d (worst %.3g)"
                     % (runs, over, worst - 1.0, incr, worst_incr))


def search(ctx, budget):
    rng = ctx.rng
    # 1. the disagreeing cases first
    for d in ctx.disagreements[:40]:
        cc = d["case"]
        if "case" in cc:
            st = oracle(ctx, cc["case"], "disagreement")
            ctx.count("oracle:" + st)
    if any(d["stream"] == "power" for d in ctx.disagreements):
        # the power method disagrees with its model: the set-ups that divide by MaxEig's result (default alpha / tau)
        for i in range(int(40 * budget)):
            c = gen_case(rng, solver=["GradientMethod", "PrimalDualHybridGradient"][i % 2])
            c["alpha"], c["tau"], c["sigma"] = None, None, None
            if len(ctx.failures) >= 8:
                break
            st = oracle(ctx, c, "disagreement")
            ctx.count("oracle:" + st)
    observe_power_gap(ctx, int(12 * budget))
    # 2. budgeted search over the cross product
    n = int(300 * budget)
    for i in range(n):
        solver = ([None] + SOLVERS)[i % 5]
        if i % 12 == 11:
            c = cplx_case(rng)
            c["solver"] = solver
        else:
            c = gen_case(rng, solver=solver)
            if i % 3 == 0:   # operators whose .H returns its input, with lamda and z
                c2 = gen_case(rng, solver=solver, force=dict(akind=rng.choice(["identity", "reshape"]), n=c["n"]))
                c = c2
        r_ = rng.random()
        if not c.get("cplx"):
            explicit_steps(c, rng, alpha=rng.random() < 0.3, tau=r_ < 0.3, sigma=r_ < 0.2 or 0.3 <= r_ < 0.4)
        if len(ctx.failures) >= 8:
            ctx.notes.append("search stopped after 8 failing inputs")
            break
        st = oracle(ctx, c, "search")
        ctx.case(("oracle", json.dumps(c, sort_keys=True)), nontrivial=st not in ("rejected", "no-reference"))
        ctx.count("oracle:" + st)
        ctx.count("oracle-solver:%s" % c["solver"])
    ctx.notes.append("oracle outcomes: " + ", ".join("%s=%d" % (k[7:], v) for k, v in sorted(ctx.counts.items()) if k.startswith("oracle:")))


def replay(path):
    r = json.load(open(path))
    print(json.dumps(r, indent=1)[:4000])
    if r.get("kind") != "failing-input":
        return 0
    cc = r["case"]
    ctx = common.Ctx(PROPERTY, "quick", 0)
    st = oracle(ctx, cc["case"], "replay")
    for f in ctx.failures:
        print("observed:", f["observed"])
        print("expected:", f["expected"])
    print("replay:", "property holds on this input" if st != "fail" else "property FAILS on this input (%s)" % ctx.failures[0]["what"])
    return 1 if st == "fail" else 0
