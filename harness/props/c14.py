"""C14 — LinearLeastSquares returns the documented minimiser whatever the solver.

translate   Gen/C14Select.lean (`_get_alg`) and Gen/C14Setup.lean (the four `_get_<Solver>` set-ups: the arguments
            handed to the solver classes as Lean terms with the source's branch structure) are regenerated
            from sigpy/app.py by harness/translate/gen_c14.py; the theorems are about these definitions
correspond  (model = the generated definitions, executed over exact rationals by the driver)
  sel     full cross product of options on the real constructor vs the decision table generated from
          `_get_alg` (which solver class is built / ValueError)
  setup   the real set-ups probed from outside: the solver classes and MaxEig in `sigpy.app` are
          wrapped by recording subclasses, the recorded operators / closures / prox objects are applied
          to basis and probe vectors and compared with the model's description (exact dyadic data;
          1e-12 relative against the exact rational model value)
  run     the real app driven step by step vs the model machines over exact rationals (1e-9)
  obj     `objective()` vs the model
search     objective gap to an independently computed optimum (exact linear solve for quadratic cases,
          active-set enumeration verified by KKT otherwise), y/z byte snapshots, rejected combinations

Input classes beyond the plain option cross product (the property quantifies over "every supported combination of
solver, lamda, z, proxg, G, preconditioner or step-size arguments and initial x; all small real/complex A, y", it is
a statement about each CALL, so nothing may depend on the memory layout, the Python type of an argument, or on what
was solved before with the same objects):
  P        Linop or callable; diagonal, dense SPD, or the trivial preconditioner in the three forms that hand back the
           very array they receive (Identity, Multiply by 1, `lambda r: r`)        [setup/run streams + search]
  steps    tau / sigma as arrays (uniform: setup stream vs the scalar of the model; non-uniform, one defaulted or both
           given with ||S^1/2 K T^1/2||^2 <= 0.9: search), on operators whose dominant entries are off the diagonal
  layout   y, z, x0 and the matrices of A and G as strided / reversed / offset views, Fortran order, read-only y and z
  dtype    complex data with a real operator, complex start vector, single precision, integer-dtype matrix
  scalars  lamda / rho as Python ints, z as the documented float, data scaled by 2^+-20, 2^+-40 (exact homothety)
  alias    G = Identity / Multiply by 1 / Reshape / the very object passed as A; proxg = NoOp (returns its input)
  saveobj  save_objective_values=True (must be read-only; the last recorded value is the documented objective)
  history  2-4 solves that share the A / G / prox / P OBJECTS while lamda, z, y, solver, proxg, step sizes, rho or the
           operator (another object of the same shape) change; sequential (optionally warm-started with the array the
           previous solve returned) or interleaved (all constructed first, then advanced in turn).  A step that fails
           is re-run alone on fresh objects to tell a history-dependent finding (key ...:history, the whole history is
           the replay) from an ordinary one.  The setup stream does the same at the set-up level (follow-up set-ups on
           the objects of the previous one vs the model of the follow-up call alone).
"""
import contextlib
import inspect
import itertools
import json
import math
from fractions import Fraction as Fr

import numpy as np

from harness import common
from harness.translate import gen as G_

PROPERTY = "C14"
LEAN_MODULES = ["SigpyVerif.Props.C14", "SigpyVerif.Props.C14Cplx", "SigpyVerif.Props.C14Join", "SigpyVerif.Props.C14Power"]
THEOREMS = ["SigpyVerif.C14." + t for t in [
    "select_default", "select_named", "rejects_iff", "select_total",
    "obj_expand", "cgArgs_sys", "cgArgs_rhs", "cgSys_cgRhs_eq_normal", "lin_zero_of_quad_nonneg", "cg_normal_eq",
    "cg_unique_minimiser",
    "gm_gradient", "gmArgs_eig", "gmArgs_alpha", "gmEigOp_eq_hessian", "gm_fixed_point_iff_minimiser",
    "userTree_isProx", "l2reg_is_prox", "data_conj_biconj", "proxfc_data_is_prox", "data_dual_fixed",
    "conj_fixed_point", "kkt_is_minimiser",
    "pdhgArgs_parts_noG", "pdhgArgs_parts_G", "pdhgArgs_steps", "primal_eval_noG", "primal_eval_G", "scale_help",
    "primal_fixed_noG", "primal_fixed_G", "pdhg_fixed_point_kkt_noG", "pdhg_fixed_point_kkt_G",
    "admmV_fixed", "admmArgs_noG", "admmArgs_G", "admm_fixed_point_kkt_noG", "admm_fixed_point_kkt_G",
    "hessian_quad", "gm_convex_grad", "default_steps_gm", "pdhgArgs_eig_noG", "pdhgArgs_eig_G",
    "default_steps_pdhg_primal_noG", "default_steps_pdhg_primal_G", "default_steps_pdhg_dual_noG",
    "default_steps_pdhg_dual_G", "default_steps",
    # complex data (Props/C14Cplx.lean): transfer lemma + the theorems over 𝕜 = ℝ or ℂ
    "reInner_complex", "isAdj_restrict", "real_smul_eq", "restrict_coe", "cgArgs_sys_rc", "cgArgs_rhs_rc",
    "cgSys_cgRhs_eq_normal_rc", "obj_expand_rc", "cg_normal_eq_rc", "cg_unique_minimiser_rc", "gm_gradient_rc",
    "gm_fixed_point_iff_minimiser_rc", "isKKTK_iff", "kkt_is_minimiser_rc", "pdhg_fixed_point_kkt_noG_rc",
    "pdhg_fixed_point_kkt_G_rc", "admm_fixed_point_kkt_noG_rc", "admm_fixed_point_kkt_G_rc", "default_steps_gm_rc",
    "cg_unique_minimiser_complex", "gm_fixed_point_iff_minimiser_complex",
    # end-to-end joins with C12 / C13 (Props/C14Join.lean)
    "cgSysK_apply", "cgSysK_eq", "cgSysK_symm", "cgSysK_quad", "cgSysK_psd", "pd_of_reg_or_inj", "cgSysK_hpd",
    "cg_npd_false_of_regular", "cg_route_reaches_minimiser", "cg_route_psd_partial", "gm_route_rate",
    "ista_descent_relaxed", "pdStep_both_pos", "proxfc_data_proxOf", "pdhg_route_fejer_noG_partial",
    # the power method behind `max_eig` (Props/C14Power.lean, generated step Gen/C14Power.lean)
    "pm_update_iter", "pm_iter_counts", "pm_done_iff", "maxEig_passes", "pm_step", "pm_zero", "pm_unit",
    "sq_norm_le_of_symm", "pm_nondegenerate", "pm_estimate_ge_rayleigh", "pm_mono_step", "psd_cauchy_schwarz",
    "opnorm_le_of_rayleigh", "pm_estimate_le_lmax", "pm_estimate_mono", "pm_estimate_rayleigh_sandwich",
    "maxeig_default_alpha_gap",
]]

SOLVERS = ["ConjugateGradient", "GradientMethod", "PrimalDualHybridGradient", "ADMM"]
# realisations of the preconditioner P.  "diag"/"funcdiag"/"identity"/"mul1"/"func" are a diagonal matrix for the model
# (c["P"] = its diagonal); "dense" (a dense symmetric positive definite MatMul) is explored by the search oracle only.
PKINDS_MODEL = ["diag", "diag", "funcdiag", "identity", "mul1", "func"]
P_RETURNS_INPUT = ("identity", "mul1", "func")
SHORT = {"ConjugateGradient": "cg", "GradientMethod": "gm", "PrimalDualHybridGradient": "pdhg", "ADMM": "admm"}


def translate(ctx):
    G_.regenerate(ctx, ["C14Select", "C14Setup", "C14Power"])


# ---- rationals -----------------------------------------------------------------------------------
def F(s):
    if isinstance(s, Fr):
        return s
    if isinstance(s, (int, np.integer)):
        return Fr(int(s))
    if isinstance(s, float):
        return Fr(s)
    return Fr(s)


def fs(x):
    x = F(x)
    return str(x.numerator) if x.denominator == 1 else "%d/%d" % (x.numerator, x.denominator)


def fvec(v):
    v = list(v)
    return ",".join(fs(t) for t in v) if v else "-"


def fvecs(vs):
    vs = list(vs)
    return "|".join(fvec(v) for v in vs) if vs else "-"


def pvec(s):
    return [] if s == "-" else [Fr(t) for t in s.split(",")]


def pvecs(s):
    return [] if s == "-" else [pvec(t) for t in s.split("|")]


def fl(v):
    return np.array([float(F(t)) for t in v], dtype=np.float64)


def kvs(reply):
    return dict(t.split("=", 1) for t in reply.split()[1:] if "=" in t)


# ---- cases ---------------------------------------------------------------------------------------
def dy(rng, lo, hi, den=1):
    return Fr(rng.randint(lo * den, hi * den), den)


def gen_matrix(rng, m, n, well=True):
    """integer/dyadic matrix with full column rank and moderate condition number"""
    for _ in range(100):
        A = [[Fr(0)] * n for _ in range(m)]
        for i in range(m):
            for j in range(n):
                A[i][j] = Fr(rng.randint(-2, 2), 2)
        for j in range(n):
            A[j % m][j] += rng.choice([2, 3, -2])
        a = np.array([[float(t) for t in r] for r in A])
        s = np.linalg.svd(a, compute_uv=False)
        if m >= n and s[-1] > 0.7 and s[0] / s[-1] < 6:
            return A
        if m < n and not well:
            return A
    raise RuntimeError("no matrix")


def gen_case(rng, solver=None, force=None):
    """one configuration of the option cross product on a small well-posed instance"""
    force = force or {}
    n = force.get("n", rng.choice([2, 3, 3, 4]))
    akind = force.get("akind", rng.choice(["matmul", "matmul", "matmul", "diag", "identity", "reshape", "mul1"]))
    if akind == "matmul":
        m = n + rng.choice([0, 1, 2])
        A = gen_matrix(rng, m, n)
    elif akind == "diag":
        m = n
        d = [Fr(rng.choice([2, 3, 4, 5, 6]), 2) * rng.choice([1, -1]) for _ in range(n)]
        A = [[d[i] if i == j else Fr(0) for j in range(n)] for i in range(n)]
    else:
        m = n
        A = [[Fr(int(i == j)) for j in range(n)] for i in range(n)]
    y = [dy(rng, -4, 4, 2) for _ in range(m)]
    if all(t == 0 for t in y):
        y[0] = Fr(1)
    lam = force.get("lam", rng.choice([Fr(0), Fr(0), Fr(1, 2), Fr(1), Fr(2)]))
    z = None if rng.random() < 0.4 else [dy(rng, -3, 3, 2) for _ in range(n)]
    if "z" in force:
        z = force["z"]
    gkind = force.get("gkind", rng.choice([None, None, "dense", "fd"]))
    pk = force.get("prox", rng.choice([None, "l1", "l2", "box"]))
    if solver is None and "solver" not in force:
        solver = rng.choice([None] + SOLVERS)
    solver = force.get("solver", solver)
    # mostly supported combinations (the rejection table is the `sel` stream's business)
    if solver == "ConjugateGradient" and "prox" not in force and rng.random() < 0.85:
        pk = None
    if solver == "GradientMethod" and "gkind" not in force and rng.random() < 0.85:
        gkind = None
    Gm = None
    p = n
    if gkind == "dense":
        p = rng.choice([1, 2, n])
        while True:
            Gm = [[Fr(rng.randint(-2, 2)) for _ in range(n)] for _ in range(p)]
            if all(any(t != 0 for t in r) for r in Gm):
                break
    elif gkind == "fd":
        p = n
    prox = None
    if pk == "l1":
        prox = ["l1", fs(rng.choice([Fr(1, 4), Fr(1, 2), Fr(1), Fr(2)]))]
    elif pk == "l2":
        prox = ["l2", fs(rng.choice([Fr(1, 2), Fr(1), Fr(2)]))]
    elif pk == "box":
        prox = ["box", fs(-rng.choice([Fr(1, 4), Fr(1, 2), Fr(1)])), fs(rng.choice([Fr(1, 4), Fr(1, 2), Fr(3, 2)]))]
    c = dict(n=n, m=m, akind=akind, A=[[fs(t) for t in r] for r in A], y=[fs(t) for t in y], lam=fs(lam),
             z=None if z is None else [fs(t) for t in z], prox=prox, gkind=gkind,
             G=None if Gm is None else [[fs(t) for t in r] for r in Gm], solver=solver,
             x0=None if rng.random() < 0.5 else [fs(dy(rng, -2, 2, 2)) for _ in range(n)],
             P=None, alpha=None, tau=None, sigma=None, rho="1", acc=rng.random() < 0.6, seed=rng.randint(0, 10 ** 6))
    if rng.random() < (0.45 if solver in ("ConjugateGradient", "ADMM") else 0.3):
        c["P"] = [fs(rng.choice([Fr(1, 2), Fr(1), Fr(2)])) for _ in range(n)]
        # how the (symmetric positive definite) preconditioner is realised: the documented `P (Linop)` / the solver's
        # `P (function or None)`; the trivial preconditioner in the three forms that hand back the very array they get
        pk_ = rng.choice(PKINDS_MODEL)
        if pk_ != "diag":
            c["Pkind"] = pk_
        if pk_ in P_RETURNS_INPUT:
            c["P"] = ["1"] * n
    if rng.random() < 0.5:
        c["rho"] = fs(rng.choice([Fr(1, 2), Fr(2), Fr(4)]))
    c.update({k: v for k, v in force.items() if k in ("x0", "P", "Pkind", "alpha", "tau", "sigma", "rho", "acc")})
    return c


def pow2_below(v):
    """largest power of two <= v, as a Fraction"""
    e = math.floor(math.log2(v))
    return Fr(2) ** e


def explicit_steps(c, rng, alpha=False, tau=False, sigma=False):
    """step sizes a caller may legitimately pass: alpha <= 1/L, tau*sigma*||K||^2 <= 1 (dyadic)"""
    A = dense_A(c)
    n = c["n"]
    lam = float(F(c["lam"]))
    if alpha:
        L = np.linalg.eigvalsh(A.T @ A + lam * np.eye(n)).max()
        c["alpha"] = fs(pow2_below(0.9 / L) / rng.choice([1, 1, 2]))
    Gd = None
    if c["gkind"] == "dense":
        Gd = np.array([[float(F(t)) for t in r] for r in c["G"]])
    elif c["gkind"] == "fd":
        Gd = fd_matrix(n)
    elif c["gkind"] == "A":
        Gd = A
    elif c["gkind"] is not None:
        Gd = np.eye(n)
    K = A if Gd is None else np.vstack([A, Gd])
    L2 = np.linalg.eigvalsh(K.T @ K).max()
    if tau and sigma:
        sg = rng.choice([Fr(1, 4), Fr(1, 2), Fr(1)])
        c["sigma"] = fs(sg)
        c["tau"] = fs(pow2_below(0.9 / (float(sg) * L2)))
    elif tau:
        c["tau"] = fs(pow2_below(0.9 / L2) * rng.choice([1, 2]))
    elif sigma:
        c["sigma"] = fs(rng.choice([Fr(1, 4), Fr(1, 2), Fr(2)]))


def dense_A(c):
    return np.array([[float(F(t)) for t in r] for r in c["A"]], dtype=np.float64)


def fd_matrix(n):
    D = np.zeros((n, n))
    for i in range(n):
        D[i, i] += 1
        D[i, (i - 1) % n] -= 1
    return D


class Built:
    pass


def lay(arr, kind):
    """the same values in another memory layout (the property quantifies over arrays, not over C-contiguous arrays)"""
    if kind in (None, "c"):
        return arr
    if kind == "strided":       # every other row of a larger buffer
        buf = np.zeros((2 * arr.shape[0],) + arr.shape[1:], dtype=arr.dtype)
        v = buf[::2]
        v[...] = arr
        return v
    if kind == "neg":           # negative stride along the first axis
        return arr[::-1].copy()[::-1]
    if kind == "f":             # Fortran order (differs from C order for matrices only)
        return np.asfortranarray(arr)
    if kind == "offset":        # a slice in the middle of a larger buffer (contiguous, but not owning its memory)
        buf = np.zeros((arr.shape[0] + 3,) + arr.shape[1:], dtype=arr.dtype)
        v = buf[2:2 + arr.shape[0]]
        v[...] = arr
        return v
    if kind == "readonly":      # an input the solver has no business writing to
        a = arr.copy()
        a.flags.writeable = False
        return a
    raise ValueError(kind)


def scale_of(c):
    """2**yscale: exact homothety of the data (y, z, x0, the l1 weight and the box bounds are multiplied by it, so
    the minimiser is multiplied by it and the objective by its square)"""
    return 2.0 ** int(c.get("yscale") or 0)


def unscaled(c):
    """the case the reference optimum is computed for: data not scaled, double precision"""
    if not c.get("yscale") and not c.get("single"):
        return c
    c = dict(c)
    c["yscale"] = 0
    c["single"] = False
    return c


def shared_get(shared, key, make):
    """objects of a call history: the same specification gives the SAME Python object within one history"""
    if shared is None:
        return make()
    k = json.dumps(key, sort_keys=True, default=str)
    if k not in shared:
        shared[k] = make()
    return shared[k]


def build(c, dtype=np.float64, shared=None):
    """the real sigpy objects of a case (fresh arrays every time; the operator / prox / preconditioner OBJECTS are
    taken from `shared` when a call history is being built)"""
    from sigpy import linop, prox
    n, m = c["n"], c["m"]
    L = c.get("layout") or {}
    s = scale_of(c)
    b = Built()

    def cast(arr):      # single precision data (dyadic values: exactly representable)
        if not c.get("single"):
            return arr
        return arr.astype(np.complex64 if np.iscomplexobj(arr) else np.float32)
    a = dense_A(c).astype(dtype)
    if c.get("cplx"):
        a = a + 1j * np.array(c["Aim"], dtype=np.float64)
    elif c.get("Aint"):     # an integer-dtype matrix (selection / mask / incidence matrices are given that way)
        a = a.astype(np.int64)
    a = cast(a)
    xs = [n, 1]

    def mkA():
        if c["akind"] == "matmul":
            return linop.MatMul(xs, lay(a, L.get("A")))
        if c["akind"] == "diag":
            return linop.Multiply(xs, lay(np.diag(a).copy().reshape(n, 1), L.get("A")))
        if c["akind"] == "identity":
            return linop.Identity(xs)
        if c["akind"] == "reshape":
            return linop.Reshape([n], xs)
        if c["akind"] == "mul1":
            return linop.Multiply(xs, 1)
        raise ValueError(c["akind"])
    b.A = shared_get(shared, ("A", c["akind"], c["A"], c.get("Aim"), L.get("A")), mkA)
    ys = [n] if c["akind"] == "reshape" else [m if c["akind"] == "matmul" else n, 1]
    cy = c.get("cplx") or c.get("ycplx")
    y = fl(c["y"]).astype(dtype).reshape(ys)
    if cy:
        y = y + 1j * np.array(c["yim"], dtype=np.float64).reshape(ys)
    b.y = lay(cast(y * s), L.get("y"))
    b.z = None
    if c["z"] is not None:
        z = fl(c["z"]).astype(dtype).reshape(xs)
        if cy and c.get("zim") is not None:
            z = z + 1j * np.array(c["zim"], dtype=np.float64).reshape(xs)
        b.z = lay(cast(z * s), L.get("z"))
        if c.get("zscalar"):      # documented: `z (float or array)`
            b.z = float(F(c["z"][0])) * s
    b.G = None
    if c["gkind"] == "dense":
        g = cast(np.array([[float(F(t)) for t in r] for r in c["G"]], dtype=dtype))
        b.G = shared_get(shared, ("G", "dense", c["G"], L.get("G")), lambda: linop.MatMul(xs, lay(g, L.get("G"))))
    elif c["gkind"] == "fd":
        b.G = shared_get(shared, ("G", "fd", n), lambda: linop.FiniteDifference(xs, axes=[0]))
    elif c["gkind"] == "identity":
        b.G = shared_get(shared, ("G", "identity", n), lambda: linop.Identity(xs))
    elif c["gkind"] == "mul1":
        b.G = shared_get(shared, ("G", "mul1", n), lambda: linop.Multiply(xs, 1))
    elif c["gkind"] == "reshape":
        b.G = shared_get(shared, ("G", "reshape", n), lambda: linop.Reshape([n], xs))
    elif c["gkind"] == "A":     # g(A x): the regularisation operator is the very object passed as A
        b.G = b.A
    elif c["gkind"] is not None:
        raise ValueError(c["gkind"])
    gs = xs if b.G is None else list(b.G.oshape)
    b.gshape = gs
    b.proxg, b.g = None, None
    if c["prox"] is not None:
        k = c["prox"][0]
        if k == "l1":
            cc = float(F(c["prox"][1])) * s
            b.proxg = shared_get(shared, ("prox", c["prox"], gs, s), lambda: prox.L1Reg(gs, cc))
            b.g = lambda v: cc * float(np.sum(np.abs(v)))
        elif k == "l2":
            cc = float(F(c["prox"][1]))
            b.proxg = shared_get(shared, ("prox", c["prox"], gs), lambda: prox.L2Reg(gs, cc))
            b.g = lambda v: cc / 2 * float(np.linalg.norm(v)) ** 2
        elif k == "noop":       # g = 0 given as a Prox object (returns its input)
            b.proxg = shared_get(shared, ("prox", c["prox"], gs), lambda: prox.NoOp(gs))
            b.g = lambda v: 0.0
        else:
            lo, hi = float(F(c["prox"][1])) * s, float(F(c["prox"][2])) * s
            b.proxg = shared_get(shared, ("prox", c["prox"], gs, s), lambda: prox.BoxConstraint(gs, lo, hi))
            b.g = lambda v: 0.0 if (np.all(v >= lo) and np.all(v <= hi)) else math.inf
    b.x0 = None
    if c["x0"] is not None:
        x0 = fl(c["x0"]).astype(dtype).reshape(xs)
        if cy:
            x0 = x0 + 1j * np.array(c.get("x0im") or [0.0] * n, dtype=np.float64).reshape(xs)
        b.x0 = lay(cast(x0 * s), L.get("x0"))
    b.P = None
    if c["P"] is not None:
        pk = c.get("Pkind") or "diag"
        pv = fl(c["P"]).reshape(xs)

        def mkP():
            if pk == "diag":
                return linop.Multiply(xs, pv)
            if pk == "funcdiag":
                return lambda r: pv * r
            if pk == "identity":
                return linop.Identity(xs)
            if pk == "mul1":
                return linop.Multiply(xs, 1)
            if pk == "func":
                return lambda r: r
            if pk == "dense":
                return linop.MatMul(xs, np.array([[float(F(t)) for t in r] for r in c["Pmat"]]))
            raise ValueError(pk)
        b.P = shared_get(shared, ("P", pk, c["P"], c.get("Pmat")), mkP)
    # step sizes: scalars, or arrays (diagonal preconditioners; fresh arrays, the solver rescales them in place)
    b.tau = optf(c["tau"])
    if c.get("tau_arr") is not None:
        b.tau = fl(c["tau_arr"]).reshape(xs)
    b.sigma = optf(c["sigma"])
    if c.get("sigma_arr") is not None:
        ds = ys if b.G is None else [int(np.prod(ys)) + int(np.prod(gs))]
        b.sigma = fl(c["sigma_arr"]).reshape(ds)
    b.xs = xs
    return b


def optf(s):
    return None if s is None else float(F(s))


def numarg(c, key):
    """a scalar option as the caller passes it: a Python int when the case says so (lamda=1, rho=2), else a float"""
    v = F(c[key])
    if c.get("intargs") and v.denominator == 1:
        return int(v)
    return float(v)


def make_app(c, b, max_iter, max_cg_iter=10, **over):
    from sigpy import app
    kw = dict(x=b.x0, proxg=b.proxg, lamda=numarg(c, "lam"), G=b.G, g=b.g, z=b.z, solver=c["solver"],
              max_iter=max_iter, P=b.P, alpha=optf(c["alpha"]), accelerate=c["acc"], tau=b.tau,
              sigma=b.sigma, rho=numarg(c, "rho"), max_cg_iter=max_cg_iter, show_pbar=False)
    if c.get("saveobj"):
        kw["save_objective_values"] = True
    kw.update(over)
    return app.LinearLeastSquares(b.A, b.y, **kw)


def dense_G(c, b=None):
    """dense matrix of the real G (probed on the basis) — the model treats G as this matrix"""
    if c["gkind"] is None:
        return None
    if c["gkind"] == "dense":
        return np.array([[float(F(t)) for t in r] for r in c["G"]])
    if c["gkind"] == "A":
        return dense_A(c)
    b = b or build(c)
    n = c["n"]
    cols = [np.asarray(b.G(np.eye(n)[:, j].reshape(b.xs))).ravel() for j in range(n)]
    return np.array(cols).T


def inst_tokens(c, Gd=None):
    Gd = dense_G(c) if Gd is None and c["gkind"] is not None else Gd
    t = ["n=%d" % c["n"], "A=" + fvecs(c["A"]), "y=" + fvec(c["y"]), "lam=" + c["lam"],
         "z=" + ("none" if c["z"] is None else fvec(c["z"])),
         "prox=" + ("none" if c["prox"] is None else ":".join(c["prox"])),
         "G=" + ("none" if Gd is None else fvecs([[Fr(float(t)) for t in r] for r in Gd]))]
    return " ".join(t)


# ---- recording wrappers around the classes `sigpy.app` instantiates -------------------------------
@contextlib.contextmanager
def recording(rec):
    import sigpy.app as appmod
    saved = {}

    def wrap(name):
        orig = getattr(appmod, name)
        saved[name] = orig
        sig = inspect.signature(orig.__init__)

        class Rec(orig):
            def __init__(self, *a, **k):
                ba = sig.bind(self, *a, **k)
                ba.apply_defaults()
                self._rec = dict(ba.arguments)
                self._rec.pop("self", None)
                rec.append((name, self))
                orig.__init__(self, *a, **k)
        Rec.__name__ = orig.__name__
        Rec.__qualname__ = orig.__qualname__
        setattr(appmod, name, Rec)

    for nme in SOLVERS + ["MaxEig"]:
        wrap(nme)
    try:
        yield
    finally:
        for k, v in saved.items():
            setattr(appmod, k, v)


def close(impl, model, tol=1e-12):
    """float vector vs exact rational vector"""
    impl = np.asarray(impl, dtype=np.float64).ravel()
    if len(impl) != len(model):
        return False
    for a, mdl in zip(impl, model):
        mf = float(mdl)
        if not (abs(a - mf) <= tol * (1 + abs(mf))):
            return False
    return True


def probe_cols(op, n, shape):
    return [np.asarray(op(np.eye(n)[:, j].reshape(shape).copy())).ravel() for j in range(n)]


def rprobes(rng, k, dim):
    return [[Fr(rng.randint(-6, 6), 2) for _ in range(dim)] for _ in range(k)]


# ---- correspondence streams ---------------------------------------------------------------------
def real_outcome(c):
    try:
        b = build(c)
        a = make_app(c, b, 2)
    except ValueError as e:
        return "raised", repr(e)
    except Exception as e:  # shape conventions etc.
        return "error:" + type(e).__name__, repr(e)
    return "built " + type(a.alg).__name__, ""


def stream_sel(ctx):
    bad = 0
    rng = ctx.rng
    combos = list(itertools.product([None] + SOLVERS + ["Foo", "conjugategradient"], [None, "l1", "l2", "box"],
                                    [None, "dense", "fd"], ["0", "1"], [False, True]))
    lines, meta = [], []
    for solver, pk, gk, lam, zg in combos:
        c = gen_case(rng, force=dict(n=3, akind="matmul", solver=solver, prox=pk, gkind=gk, lam=Fr(lam)))
        if not zg:
            c["z"] = None
        elif c["z"] is None:
            c["z"] = ["1", "0", "-1"]
        lines.append("C14 sel solver=%s proxg=%d G=%d" % (solver or "none", pk is not None, gk is not None))
        meta.append(c)
    replies = ctx.driver(lines)
    for c, ln, r in zip(meta, lines, replies):
        impl, msg = real_outcome(c)
        ctx.case(("sel", ln, c["lam"], c["z"] is None, c["prox"] and c["prox"][0], c["gkind"]),
                 sample=dict(line=ln, model=r, impl=impl) if ctx.evaluations % 61 == 0 else None)
        model = r[3:] if r.startswith("ok ") else r
        model_c = "raised" if model.startswith("raised") else model
        ctx.count("sel:" + model_c.split()[0])
        if impl != model_c:
            bad += 1
            ctx.disagree("sel", dict(kind="sel", case=c), impl + " " + msg, model)
    ctx.oblige("correspondence:C14.sel", "correspondence", bad == 0, "%d disagreements over %d option combinations" % (bad, len(lines)))


def setup_check(ctx, c, rng, shared=None):
    """build the real app under the recorder, probe what it built, compare with the model's set-up.
    Returns list of mismatch descriptions (empty = agree) or None when the combination is rejected.
    `shared`: operator / prox / preconditioner objects of earlier set-ups of the same call history (the set-up of a
    call must not depend on what was set up before with the same objects)."""
    b = build(c, shared=shared)
    rec = []
    n, m = c["n"], c["m"]
    np.random.seed(c["seed"] % (2 ** 31))
    with recording(rec):
        try:
            a = make_app(c, b, 3)
        except Exception:
            return None
        name = type(a.alg).__name__
        short = SHORT[name]
        Gd = dense_G(c, b)
        inst = inst_tokens(c, Gd)
        p = 0 if Gd is None else Gd.shape[0]
        mism = []
        me = [r for r in rec if r[0] == "MaxEig"]
        maxeig = None
        if short == "cg":
            r = kvs(ctx.driver(["C14 cg-setup " + inst])[0])
            if not r:
                return ["model error"]
            cols = probe_cols(a.alg.A, n, b.xs)
            for j, (ci, cm) in enumerate(zip(cols, pvecs(r["M"]))):
                if not close(ci, cm):
                    mism.append("CG system column %d: impl %s model %s" % (j, ci.tolist(), [float(t) for t in cm]))
            if not close(a.alg.b, pvec(r["b"])):
                mism.append("CG rhs: impl %s model %s" % (np.ravel(a.alg.b).tolist(), [float(t) for t in pvec(r["b"])]))
            if (a.alg.P is None) != (c["P"] is None):
                mism.append("P not forwarded")
        elif short == "gm":
            px = rprobes(rng, 3, n)
            if c["alpha"] is None:
                if len(me) != 1:
                    return ["GradientMethod default alpha: MaxEig instantiated %d times" % len(me)]
                maxeig = me[0][1].alg.max_eig
                Eimpl = probe_cols(me[0][1]._rec["A"], n, b.xs)
            r = kvs(ctx.driver(["C14 gm-setup %s px=%s alpha=%s maxeig=%s" % (
                inst, fvecs(px), c["alpha"] or "none", fs(Fr(float(maxeig))) if maxeig is not None else "1")])[0])
            if not r:
                return ["model error"]
            for x, gm in zip(px, pvecs(r["g"])):
                gi = a.alg.gradf(fl(x).reshape(b.xs))
                if not close(gi, gm):
                    mism.append("gradf(%s): impl %s model %s" % ([float(t) for t in x], np.ravel(gi).tolist(), [float(t) for t in gm]))
            if (r["side"] == "primal") != (c["alpha"] is None) or (c["alpha"] is not None and me):
                mism.append("MaxEig: impl ran it %d times (alpha=%s), model side=%s" % (len(me), c["alpha"], r["side"]))
            if c["alpha"] is None:
                if len(pvecs(r["E"])) != len(Eimpl):
                    mism.append("operator given to MaxEig acts on dimension %d, model %d" % (len(Eimpl), len(pvecs(r["E"]))))
                for j, (ci, cm) in enumerate(zip(Eimpl, pvecs(r["E"]))):
                    if not close(ci, cm):
                        mism.append("operator given to MaxEig, column %d: impl %s model %s" % (j, ci.tolist(), [float(t) for t in cm]))
            if not close([a.alg.alpha], [Fr(r["alpha"])]):
                mism.append("alpha: impl %r model %s" % (a.alg.alpha, r["alpha"]))
            if (a.alg.proxg is None) != (c["prox"] is None):
                mism.append("proxg not forwarded")
            if bool(a.alg.accelerate) != bool(c["acc"]):
                mism.append("accelerate not forwarded")
        elif short == "pdhg":
            d = m + p
            pa = [Fr(1, 2), Fr(1), Fr(3), Fr(1, 4)]
            pu, px = rprobes(rng, 4, d), rprobes(rng, 4, n)
            Eimpl = None
            if c["tau"] is None or c["sigma"] is None:
                if len(me) != 1:
                    return ["PDHG default steps: MaxEig instantiated %d times" % len(me)]
                maxeig = me[0][1].alg.max_eig
                op = me[0][1]._rec["A"]
                Eimpl = probe_cols(op, int(np.prod(op.ishape)), list(op.ishape))
            r = kvs(ctx.driver(["C14 pdhg-setup %s tau=%s sigma=%s maxeig=%s pa=%s pu=%s px=%s" % (
                inst, c["tau"] or "none", c["sigma"] or "none",
                fs(Fr(float(maxeig))) if maxeig is not None else "1", fvec(pa), fvecs(pu), fvecs(px))])[0])
            if not r:
                return ["model error"]
            K = probe_cols(a.alg.A, n, b.xs)
            for j, (ci, cm) in enumerate(zip(K, pvecs(r["K"]))):
                if not close(ci, cm):
                    mism.append("K column %d: impl %s model %s" % (j, ci.tolist(), [float(t) for t in cm]))
            KH = [np.asarray(a.alg.AH(np.eye(d)[:, j].reshape(a.alg.u.shape).copy())).ravel() for j in range(d)]
            for j, (ci, cm) in enumerate(zip(KH, pvecs(r["KH"]))):
                if not close(ci, cm):
                    mism.append("K^H column %d: impl %s model %s" % (j, ci.tolist(), [float(t) for t in cm]))
            for al, u, fm in zip(pa, pu, pvecs(r["fc"])):
                fi = a.alg.proxfc(float(al), fl(u).reshape(a.alg.u.shape))
                if not close(fi, fm):
                    mism.append("proxfc(%s, %s): impl %s model %s" % (al, [float(t) for t in u], np.ravel(fi).tolist(), [float(t) for t in fm]))
            for al, x, gm in zip(pa, px, pvecs(r["pg"])):
                gi = a.alg.proxg(float(al), fl(x).reshape(b.xs))
                if not close(gi, gm):
                    mism.append("proxg(%s, %s): impl %s model %s" % (al, [float(t) for t in x], np.ravel(gi).tolist(), [float(t) for t in gm]))
            if not close([a.alg.gamma_primal], [Fr(r["gp"])]):
                mism.append("gamma_primal: impl %r model %s" % (a.alg.gamma_primal, r["gp"]))
            if not close([a.alg.gamma_dual], [Fr(r["gd"])]):
                mism.append("gamma_dual: impl %r model %s" % (a.alg.gamma_dual, r["gd"]))
            if Eimpl is None and (me or r["side"] != "none"):
                mism.append("MaxEig: impl ran it %d times with tau and sigma given, model side=%s" % (len(me), r["side"]))
            if Eimpl is not None:
                Em = pvecs(r["E"])
                if len(Em) != len(Eimpl):
                    mism.append("operator given to MaxEig acts on dimension %d, model %s (%d)" % (len(Eimpl), r["side"], len(Em)))
                else:
                    for j, (ci, cm) in enumerate(zip(Eimpl, Em)):
                        if not close(ci, cm):
                            mism.append("operator given to MaxEig (%s), column %d: impl %s model %s" % (r["side"], j, ci.tolist(), [float(t) for t in cm]))
            # step sizes as handed to the solver (tau is rescaled in place by later updates; none ran yet)
            # (a uniform array step size is the scalar of the model in every entry)
            if not close(np.ravel(a.alg.tau), [Fr(r["tau"])] * np.size(a.alg.tau)):
                mism.append("tau: impl %r model %s" % (a.alg.tau, r["tau"]))
            if not close(np.ravel(a.alg.sigma), [Fr(r["sigma"])] * np.size(a.alg.sigma)):
                mism.append("sigma: impl %r model %s" % (a.alg.sigma, r["sigma"]))
            if not (np.all(a.alg.u == 0) and a.alg.u.size == d):
                mism.append("dual variable not zeros(%d)" % d)
        else:  # admm
            q = n if Gd is None else p
            px, pv, pu = rprobes(rng, 3, n), rprobes(rng, 3, q), rprobes(rng, 3, q)
            alg = a.alg
            xinit = [Fr(float(t)) for t in np.ravel(alg.x)]
            r = kvs(ctx.driver(["C14 admm-setup %s rho=%s px=%s pv=%s pu=%s x0=%s" % (
                inst, c["rho"], fvecs(px), fvecs(pv), fvecs(pu), fvec(xinit))])[0])
            if not r:
                return ["model error"]
            if not close(alg.z, pvec(r["v00"])):
                mism.append("ADMM initial v: impl %s model %s" % (np.ravel(alg.z).tolist(), [float(t) for t in pvec(r["v00"])]))
            if not np.all(np.asarray(alg.u) == 0):
                mism.append("ADMM initial u is not zero")
            if np.shares_memory(alg.z, alg.x):
                mism.append("ADMM initial v shares memory with x")
            for i, (x, v, u) in enumerate(zip(px, pv, pu)):
                alg.x[...] = fl(x).reshape(alg.x.shape)
                alg.z[...] = fl(v).reshape(alg.z.shape)
                alg.u[...] = fl(u).reshape(alg.u.shape)
                del rec[:]
                alg.minL_x()
                cgs = [t for t in rec if t[0] == "ConjugateGradient"]
                if len(cgs) != 1:
                    return ["ADMM minL_x built %d ConjugateGradient objects" % len(cgs)]
                cg = cgs[0][1]
                if i == 0:
                    for j, (ci, cm) in enumerate(zip(probe_cols(cg._rec["A"], n, b.xs), pvecs(r["M"]))):
                        if not close(ci, cm):
                            mism.append("ADMM x-system column %d: impl %s model %s" % (j, ci.tolist(), [float(t) for t in cm]))
                    if (cg._rec["P"] is None) != (c["P"] is None):
                        mism.append("P not forwarded to the inner CG")
                rm = pvecs(r["r"])[i]
                if not close(cg._rec["b"], rm):
                    mism.append("ADMM x-rhs(v=%s,u=%s): impl %s model %s" % ([float(t) for t in v], [float(t) for t in u],
                                                                          np.ravel(cg._rec["b"]).tolist(), [float(t) for t in rm]))
                # v-update and multiplier update at (x, u)
                alg.x[...] = fl(x).reshape(alg.x.shape)
                alg.u[...] = fl(u).reshape(alg.u.shape)
                alg.minL_z()
                vm = pvecs(r["v"])[i]
                if not close(alg.z, vm):
                    mism.append("ADMM v-update(x=%s,u=%s): impl %s model %s" % ([float(t) for t in x], [float(t) for t in u],
                                                                             np.ravel(alg.z).tolist(), [float(t) for t in vm]))
                unew = alg.u + alg.A(alg.x) + alg.B(alg.z) - alg.c
                um = pvecs(r["u"])[i]
                if not close(unew, um):
                    mism.append("ADMM u-update: impl %s model %s" % (np.ravel(unew).tolist(), [float(t) for t in um]))
        return mism


def follow_up(c, rng):
    """the next call of a history on the same operator objects: same A / G / prox / P specification (hence, within a
    history, the same objects), another lamda / z / solver / step-size choice"""
    c = json.loads(json.dumps(c))
    c["seed"] = rng.randint(0, 10 ** 6)
    lam = F(c["lam"])
    c["lam"] = fs(rng.choice([t for t in [Fr(0), Fr(1, 2), Fr(1), Fr(2), Fr(4), Fr(8)] if t != lam]))
    if rng.random() < 0.3:
        c["z"] = None if c["z"] is not None else [fs(dy(rng, -3, 3, 2)) for _ in range(c["n"])]
    c["alpha"], c["tau"], c["sigma"] = None, None, None
    c.pop("tau_arr", None)
    r_ = rng.random()
    if r_ < 0.3:
        explicit_steps(c, rng, alpha=rng.random() < 0.5, tau=rng.random() < 0.5, sigma=rng.random() < 0.5)
    if rng.random() < 0.25:
        s_ = rng.choice(SOLVERS)
        if not (s_ == "ConjugateGradient" and c["prox"] is not None) and not (s_ == "GradientMethod" and c["gkind"] is not None):
            c["solver"] = s_
    return c


def stream_setup(ctx, ncases):
    rng = ctx.rng
    bad = rejected = 0
    hist, shared = [], None
    for i in range(ncases):
        solver = ([None] + SOLVERS)[i % 5]
        if hist and len(hist) < 3 and i % 4 != 0:
            # call history: the previous set-up's operator objects are reused with other options
            c = follow_up(hist[-1], rng)
        else:
            hist, shared = [], ({} if i % 4 == 0 else None)
            c = gen_case(rng, solver=solver)
            r_ = rng.random()
            explicit_steps(c, rng, alpha=rng.random() < 0.5, tau=r_ < 0.5, sigma=r_ < 0.3 or 0.5 <= r_ < 0.7)
            if c["tau"] is not None and rng.random() < 0.25:     # the step size given as a (uniform) array
                c["tau_arr"] = [c["tau"]] * c["n"]
        try:
            mism = setup_check(ctx, c, rng, shared=shared)
        except Exception as e:  # the constructor accepted it, so its parts must be usable
            mism = ["probing the set-up raised %r" % (e,)]
        if shared is not None:
            hist.append(c)
        key = (c["solver"], c["lam"] != "0", c["z"] is not None, c["prox"] and c["prox"][0], c["gkind"], c["akind"])
        if mism is None:
            rejected += 1
            ctx.count("setup:rejected")
            ctx.case(("setup-rej", json.dumps(c, sort_keys=True)), nontrivial=False)
            continue
        ctx.case(("setup", json.dumps(c, sort_keys=True)),
                 sample=dict(stream="setup", case=dict(solver=c["solver"], lam=c["lam"], prox=c["prox"], gkind=c["gkind"], akind=c["akind"]),
                             agree=not mism) if i % 23 == 0 else None)
        ctx.count("setup:%s|lam%s|z%d|prox=%s|G=%s" % (c["solver"], ">0" if c["lam"] != "0" else "=0", c["z"] is not None,
                                                      c["prox"] and c["prox"][0], c["gkind"]))
        ctx.count("setup:history-position-%d" % (len(hist) if shared is not None else 0))
        if mism:
            bad += 1
            dc = dict(kind="setup", case=c)
            if shared is not None and len(hist) > 1:
                dc["history"] = dict(kind="history", sweep="setup", mode="sequential", warm=False, steps=list(hist))
            ctx.disagree("setup", dc, mism[:3], "model set-up")
    ctx.oblige("correspondence:C14.setup", "correspondence", bad == 0,
               "%d of %d set-ups differ from the model (%d rejected combinations)" % (bad, ncases, rejected))


def model_run_line(c, short, iters, Gd, x0, tau=None, sigma=None, alpha=None, maxcg=10):
    t = "C14 run solver=%s %s x0=%s iters=%d P=%s" % (short, inst_tokens(c, Gd), fvec(x0), iters,
                                                     "none" if c["P"] is None else fvec(c["P"]))
    if short == "gm":
        t += " alpha=%s acc=%d" % (alpha, c["acc"])
    if short == "pdhg":
        t += " tau=%s sigma=%s" % (tau, sigma)
    if short == "admm":
        t += " rho=%s maxcg=%d" % (c["rho"], maxcg)
    return t


def run_check(ctx, c, iters=5, tol=1e-9):
    """the real app driven update by update vs the model machine.  None = rejected."""
    b = build(c)
    y0, z0 = b.y.tobytes(), None if b.z is None else b.z.tobytes()
    try:
        a = make_app(c, b, iters, max_cg_iter=10)
    except Exception:
        return None
    short = SHORT[type(a.alg).__name__]
    Gd = dense_G(c, b)
    x0 = c["x0"] or ["0"] * c["n"]
    traj = []
    if short == "cg":
        # final iterates for max_iter = 1..iters (fresh app each), as CG branches on max_iter
        lines = []
        for k in range(1, iters + 1):
            bk = build(c)
            ak = make_app(c, bk, k)
            traj.append(np.ravel(ak.run()).copy())
            lines.append(model_run_line(c, "cg", k, Gd, x0))
        model = [pvec(r[3:]) if r.startswith("ok ") else None for r in ctx.driver(lines)]
    else:
        while not a.alg.done():
            a.alg.update()
            traj.append(np.ravel(a.x).copy())
        ln = model_run_line(c, short, iters, Gd, x0, tau=c["tau"], sigma=c["sigma"], alpha=c["alpha"])
        r = ctx.driver([ln])[0]
        model = pvecs(r[3:]) if r.startswith("ok ") else [None] * iters
    mism = []
    for k, (ti, tm) in enumerate(zip(traj, model)):
        if tm is None or not close(ti, tm, tol):
            mism.append("x after %d updates: impl %s model %s" % (k + 1, ti.tolist(), None if tm is None else [float(t) for t in tm]))
            break
    if len(traj) < len(model) and traj and not mism:
        # tol=0: the real solver stops early only when its residual is exactly 0, i.e. at a fixed point;
        # the model (which runs the full count) must then stay where the real run stopped
        for k in range(len(traj), len(model)):
            if model[k] is None or not close(traj[-1], model[k], tol):
                mism.append("real run stopped after %d updates but the model still moves at update %d" % (len(traj), k + 1))
                break
    elif len(traj) != len(model):
        mism.append("%d updates ran, model %d" % (len(traj), len(model)))
    if b.y.tobytes() != y0 or (b.z is not None and b.z.tobytes() != z0):
        mism.append("y or z was modified")
    return mism


def stream_run(ctx, ncases):
    rng = ctx.rng
    bad = rejected = 0
    for i in range(ncases):
        solver = SOLVERS[i % 4]
        c = gen_case(rng, solver=solver)
        explicit_steps(c, rng, alpha=True, tau=True, sigma=True)
        if solver == "ADMM" and c["P"] is not None and rng.random() < 0.5:
            c["P"] = None
        try:
            mism = run_check(ctx, c, iters=rng.choice([3, 4, 6]))
        except Exception as e:
            mism = ["stepping the real app raised %r" % (e,)]
        if mism is None:
            rejected += 1
            ctx.count("run:rejected")
            continue
        ctx.traces += 1
        ctx.case(("run", json.dumps(c, sort_keys=True)),
                 sample=dict(stream="run", solver=solver, akind=c["akind"], agree=not mism) if i % 17 == 0 else None)
        ctx.count("run:%s|A=%s" % (SHORT[solver], c["akind"]))
        if mism:
            bad += 1
            ctx.disagree("run", dict(kind="run", case=c), mism[:3], "model trajectory")
    ctx.oblige("correspondence:C14.run", "correspondence", bad == 0,
               "%d of %d step-by-step runs differ from the model (%d rejected)" % (bad, ncases, rejected))


def stream_obj(ctx, ncases):
    rng = ctx.rng
    bad = 0
    for i in range(ncases):
        c = gen_case(rng, solver=rng.choice(["PrimalDualHybridGradient", "ADMM"]))
        if c["prox"] and c["prox"][0] == "box":
            c["prox"] = ["l1", "1/2"]
        withg = rng.random() < 0.8
        b = build(c)
        x = [Fr(rng.randint(-4, 4), 2) for _ in range(c["n"])]
        try:
            a = make_app(c, b, 1, x=fl(x).reshape(b.xs), **({} if withg else {"g": None}))
        except Exception:
            continue
        try:
            impl = a.objective()
        except ValueError:
            impl = "raise"
        r = ctx.driver(["C14 obj %s x=%s g=%d" % (inst_tokens(c, dense_G(c, b)), fvec(x), withg)])[0]
        model = r[3:] if r.startswith("ok ") else r
        ok = (impl == "raise") == (model == "raise") and (impl == "raise" or close([impl], [Fr(model)]))
        ctx.case(("obj", json.dumps(c, sort_keys=True), fvec(x), withg))
        ctx.count("obj")
        if not ok:
            bad += 1
            ctx.disagree("obj", dict(kind="obj", case=c, x=[fs(t) for t in x], g=withg), impl, model)
    ctx.oblige("correspondence:C14.objective", "correspondence", bad == 0, "%d disagreements" % bad)


def sym_psd(rng, n, general=False):
    """small dyadic matrix: B^T B + c I (symmetric positive definite), or a general one"""
    while True:
        B = [[Fr(rng.randint(-3, 3), 2) for _ in range(n)] for _ in range(n)]
        if general:
            if any(any(t != 0 for t in r) for r in B):
                return B
            continue
        c = Fr(rng.choice([0, 1, 2]), 2)
        T = [[sum(B[k][i] * B[k][j] for k in range(n)) + (c if i == j else 0) for j in range(n)] for i in range(n)]
        if any(T[i][i] != 0 for i in range(n)):
            return T


def stream_power(ctx, ncases):
    """the real `alg.PowerMethod` (built directly, or the one inside a real `app.MaxEig`) driven update by update vs the
    GENERATED `Gen.C14.pmUpdate` (rational, sqrt to 2^-64).  Every update is compared ONE STEP AT A TIME from the real
    object's own state before the update (a whole-run comparison would be a false alarm: when the start vector is
    almost orthogonal to the dominant eigenvector, floating-point rounding re-introduces that component and the float
    run and the exact run separate by (lambda_1/lambda_2)^k).  Counters / done() / the default budget / what `run()`
    returns are compared on the whole run (they do not depend on the numbers)."""
    import sigpy.alg as algmod
    import sigpy.app as appmod
    from sigpy import linop, util
    rng = ctx.rng
    bad = 0
    for i in range(ncases):
        n = rng.choice([2, 3, 4])
        general = i % 4 == 3
        T = sym_psd(rng, n, general)
        Tn = np.array([[float(t) for t in r] for r in T])
        viaapp = i % 2 == 1
        iters = rng.choice([1, 2, 3, 5, 8, 30]) if not viaapp else rng.choice([0, 1, 2, 5, 30, None])
        extra = {}
        if viaapp:
            A = linop.MatMul([n, 1], Tn)
            seed = rng.randint(0, 2 ** 31 - 1)
            np.random.seed(seed)
            x0 = np.array(util.randn([n, 1], dtype=np.float64)).copy()
            kw = {} if iters is None else {"max_iter": iters}
            np.random.seed(seed)
            a = appmod.MaxEig(A, dtype=np.float64, show_pbar=False, **kw)
            np.random.seed(seed)
            a2 = appmod.MaxEig(A, dtype=np.float64, show_pbar=False, **kw)
            if not np.array_equal(np.asarray(a.x), x0):
                ctx.oblige("correspondence:C14.power.seed", "correspondence", False, "MaxEig start vector is not util.randn(A.ishape) under the same seed")
                return
            pm = a.alg
            mi = int(pm.max_iter)
            extra = dict(run_out=float(a2.run()), run_iter=int(a2.alg.iter), max_iter=mi, norm_func=pm.norm_func is None)
        else:
            A = linop.MatMul([n, 1], Tn) if i % 3 else (lambda v, Tn=Tn: Tn @ v)
            x0 = np.array([[float(Fr(rng.randint(-6, 6), 2))] for _ in range(n)])
            pm = algmod.PowerMethod(A, x0.copy(), max_iter=iters)
            mi = iters
        ests, xs_, its, dns, lines = [], [], [], [], []
        mat = fvecs(T)
        degenerate = not np.any(Tn @ x0)
        while not pm.done() and not degenerate:
            xb = np.ravel(np.asarray(pm.x)).copy()
            if not np.all(np.isfinite(xb)) or not np.any(Tn @ xb):
                degenerate = True
                break
            pm.update()
            ests.append(float(pm.max_eig))
            xs_.append(np.ravel(np.asarray(pm.x)).tolist())
            its.append(int(pm.iter))
            dns.append(bool(pm.done()))
            lines.append("C14 power n=%d M=%s x0=%s iters=1 mi=%d" % (n, mat, fvec([Fr(float(t)) for t in xb]), mi))
        if degenerate or not (np.all(np.isfinite(ests)) and all(np.all(np.isfinite(v)) for v in xs_)):
            continue   # a division by zero (T x = 0): outside the modelled domain
        steps = len(ests)
        lines.append("C14 power n=%d M=%s x0=%s iters=%d mi=%d" % (n, mat, fvec([Fr(float(t)) for t in np.ravel(x0)]), steps, mi))
        rs = ctx.driver(lines)
        impl = dict(est=ests, x=xs_, iter=its, done=dns, final=float(pm.max_eig), **extra)
        case = dict(kind="power", T=[[fs(t) for t in r_] for r_ in T], x0=np.ravel(x0).tolist(), iters=iters, viaapp=viaapp)
        ok = all(r.startswith("ok ") for r in rs)
        model = rs[-1][:300]
        if ok:
            mest, mx = [], []
            for r in rs[:-1]:
                k = kvs(r)
                mest.append(float(Fr(k["est"])))
                mx.append([float(t) for t in pvecs(k["x"])[0]])
            k = kvs(rs[-1])
            mit = [] if k["iter"] == "-" else [int(t) for t in k["iter"].split(",")]
            mdn = [] if k["done"] == "-" else [t == "1" for t in k["done"].split(",")]
            model = dict(est=mest, x=mx, iter=mit, done=mdn, default=int(k["def"]), out_is_inf=k["out"] == "inf")
            ok = (mit == its and mdn == dns and
                  all(abs(a_ - b_) <= 1e-9 * max(1.0, abs(b_)) for a_, b_ in zip(ests, mest)) and
                  all(abs(a_ - b_) <= 1e-9 for u, v in zip(xs_, mx) for a_, b_ in zip(u, v)) and
                  (steps > 0) == (not model["out_is_inf"]) and steps == max(mi, 0))
            if ok and viaapp:
                ok = (extra["run_iter"] == steps and extra["norm_func"] and
                      (iters is not None or mi == model["default"]) and
                      ((steps == 0 and math.isinf(extra["run_out"])) or extra["run_out"] == impl["final"]))
        moved = len(ests) >= 2 and abs(ests[-1] - ests[0]) > 1e-6
        ctx.case(("power", json.dumps(case, sort_keys=True)), nontrivial=bool(moved),
                 sample=dict(request=lines[0][:300] if lines else "", model=str(model)[:300], impl=str(impl)[:300]))
        ctx.count("power")
        if not ok:
            bad += 1
            ctx.disagree("power", case, impl, model)
    ctx.oblige("correspondence:C14.power", "correspondence", bad == 0, "%d disagreements" % bad)


def correspond(ctx):
    ctx.rule = ("cases = one configuration of the option cross product {solver} x {lamda=0,>0} x {z None/array} x "
                "{proxg None/L1Reg/L2Reg/BoxConstraint} x {G None/dense/FiniteDifference} x {P/alpha/tau/sigma/rho given or "
                "defaulted} x {x given or not} on a small dyadic-rational instance with A a dense MatMul, a diagonal "
                "Multiply, Identity, Reshape or Multiply-by-1; distinct by the full case; non-trivial = the real "
                "constructor accepted it (rejected combinations are counted separately); power stream: small dyadic symmetric PSD "
                "(B^T B + c I) or general matrices, PowerMethod (built directly from a dyadic start vector, or the one inside a real "
                "MaxEig with its seeded util.randn start vector) compared update by update from the real object's own state, "
                "max_iter in {0,1,2,3,5,8,30,default}; non-trivial = the estimate moves between updates; "
                "P realised as Multiply(array) / callable / Identity / Multiply by 1 / lambda r: r (same diagonal in the model); "
                "setup stream: every 4th case starts a call history whose next two set-ups reuse the same operator / prox / P "
                "objects with another lamda / z / solver / steps (compared with the model of that call alone), a given tau is "
                "passed as a uniform array in a quarter of the cases; search: the plain cross product, then one widened input "
                "class per case in turn (P forms, array tau / sigma, memory layouts, dtypes, scalar types and data magnitudes, "
                "aliasing G / prox, save_objective_values, permuted A) and call histories on shared objects (module docstring)")
    ctx.assumptions += [
        "the solver classes (ConjugateGradient, GradientMethod, PrimalDualHybridGradient, ADMM, PowerMethod) are taken as "
        "given (C12/C13/C15); C14's theorems are about what LinearLeastSquares hands to them",
        "A.N is A^H A and A.H is the adjoint (C01/C04); theorems hold over real AND complex inner-product spaces "
        "(Props/C14Cplx.lean: transfer lemma isAdj_restrict, complex space = real space with re<.,.>); the executable model "
        "and the correspondence use real (rational) data, complex data on the real code is exercised by the search",
        "end-to-end joins with C12/C13 (Props/C14Join.lean) are in exact arithmetic; the PDHG route is joined in part "
        "(pdhg_route_fejer_noG_partial: no G, lamda > 0, default tau; primal-prox and saddle hypotheses remain); accelerated "
        "PDHG variants are outside C13's theorems",
        "MaxEig / PowerMethod: the step is translator-generated (Gen/C14Power.lean) and compared with the real classes; the "
        "theorems (estimate <= lambda_max, monotone) need a Hermitian PSD operator and T x0 != 0; the start vector is random",
        "floating point: the model is exact rational arithmetic; sqrt (Nesterov t, PDHG theta) is a 2^-64 approximation in "
        "the executable machines; the power-method estimate of the largest eigenvalue is an input of the model's step rule",
    ]
    q = ctx.tier == "quick"
    stream_sel(ctx)
    stream_setup(ctx, 300 if q else 2000)
    stream_run(ctx, 160 if q else 1200)
    stream_obj(ctx, 60 if q else 400)
    stream_power(ctx, 60 if q else 400)


# ---- the property's own oracle -------------------------------------------------------------------
def smooth_parts(c, b):
    """dense complex/real matrices of the instance for the reference computation"""
    n = c["n"]
    cols = [np.asarray(b.A(np.eye(n)[:, j].reshape(b.xs).astype(b.y.dtype))).ravel() for j in range(n)]
    A = np.array(cols).T
    Gd = None
    if b.G is not None:
        Gd = np.array([np.asarray(b.G(np.eye(n)[:, j].reshape(b.xs).astype(b.y.dtype))).ravel() for j in range(n)]).T
    return A, Gd


def objective_value(c, A, Gd, y, z, x, with_g=True):
    lam = float(F(c["lam"]))
    x = np.ravel(x)
    o = 0.5 * np.linalg.norm(A @ x - y) ** 2
    if lam != 0:
        o += lam / 2 * np.linalg.norm(x - (0 if z is None else z)) ** 2
    infeas = 0.0
    if c["prox"] is not None and c["prox"][0] == "box":
        v = x if Gd is None else Gd @ x
        lo, hi = float(F(c["prox"][1])), float(F(c["prox"][2]))
        infeas = float(np.max(np.maximum(np.maximum(lo - v.real, v.real - hi), 0)))
    if c["prox"] is not None and c["prox"][0] != "noop" and with_g:
        v = x if Gd is None else Gd @ x
        k = c["prox"][0]
        if k == "l1":
            o += float(F(c["prox"][1])) * np.sum(np.abs(v))
        elif k == "l2":
            o += float(F(c["prox"][1])) / 2 * np.linalg.norm(v) ** 2
        elif infeas > 0:
            o = math.inf
    return float(o), infeas


def reference(c, A, Gd, y, z):
    """(x*, F*) of the documented objective, written from the statement; None when no certified optimum.
    quadratic cases: linear solve; l1 / box: enumeration of sign / active patterns, each candidate from
    its KKT system, accepted only if it satisfies the full KKT conditions (convex problem => optimal)."""
    n = c["n"]
    lam = float(F(c["lam"]))
    H = A.conj().T @ A + lam * np.eye(n)
    rhs = A.conj().T @ y + (0 if z is None else lam * z)
    Gm = np.eye(n) if Gd is None else Gd
    k = None if c["prox"] is None or c["prox"][0] == "noop" else c["prox"][0]
    if np.linalg.eigvalsh(H + (Gm.conj().T @ Gm if k == "l2" else 0)).min() < 1e-3:
        return None
    if k is None:
        x = np.linalg.solve(H, rhs)
        return x, objective_value(c, A, Gd, y, z, x)[0]
    if k == "l2":
        cc = float(F(c["prox"][1]))
        x = np.linalg.solve(H + cc * Gm.conj().T @ Gm, rhs)
        return x, objective_value(c, A, Gd, y, z, x)[0]
    if np.iscomplexobj(A) or np.iscomplexobj(y):
        return None
    p = Gm.shape[0]
    best = None
    tol = 1e-9
    for pat in itertools.product((-1, 0, 1), repeat=p):
        pat = np.array(pat)
        if k == "l1":
            cc = float(F(c["prox"][1]))
            act = np.where(pat == 0)[0]          # (Gx)_i = 0 with multiplier in [-cc, cc]
            lin = cc * Gm[pat != 0].T @ pat[pat != 0] if np.any(pat != 0) else np.zeros(n)
            target = np.zeros(len(act))
        else:
            lo, hi = float(F(c["prox"][1])), float(F(c["prox"][2]))
            act = np.where(pat != 0)[0]          # at lower (-1) / upper (+1) bound
            lin = np.zeros(n)
            target = np.where(pat[act] < 0, lo, hi)
        Ga = Gm[act]
        na = len(act)
        KKT = np.block([[H, Ga.T], [Ga, np.zeros((na, na))]])
        sol = np.linalg.lstsq(KKT, np.concatenate([rhs - lin, target]), rcond=None)[0]
        x, mu = sol[:n], sol[n:]
        if np.linalg.norm(KKT @ sol - np.concatenate([rhs - lin, target])) > tol:
            continue
        v = Gm @ x
        if k == "l1":
            if np.any(np.sign(np.where(np.abs(v) < tol, 0, v))[pat != 0] != pat[pat != 0]):
                continue
            if np.any(np.abs(mu) > cc + tol):
                continue
        else:
            if np.any(v < lo - tol) or np.any(v > hi + tol):
                continue
            # multiplier sign: at lower bound the constraint force pushes up (mu <= 0), at upper mu >= 0
            if np.any(mu[pat[act] < 0] > tol) or np.any(mu[pat[act] > 0] < -tol):
                continue
        f = objective_value(c, A, Gd, y, z, x, with_g=(k == "l1"))[0]
        if best is None or f < best[1]:
            best = (x, f)
    return best


SCHEDULE = {"cg": [40], "gm": [400, 1600, 6400], "pdhg": [1500, 6000, 24000], "admm": [300, 1200, 4800]}
TOL = 1e-6


def feature_tags(c, short):
    """the part of a finding key that names the input class beyond the option cross product (empty for the plain cases,
    so keys of plain cases are unchanged)"""
    t = ""
    if short in ("cg", "admm") and c["P"] is not None and (c.get("Pkind") or "diag") != "diag":
        t += ":P=" + c["Pkind"]
    if short == "pdhg" and (c.get("tau_arr") is not None or c.get("sigma_arr") is not None):
        t += ":steps=" + "+".join(k for k in ("tau", "sigma") if c.get(k + "_arr") is not None) + "-array"
    if c.get("saveobj"):
        t += ":save_objective_values"
    return t


def finding_key(c, short, what, y_changed):
    if y_changed and short in ("cg", "admm"):
        return "C14:CG/ADMM:AHy-inplace"
    if short == "pdhg" and c["gkind"] is not None and c["lam"] != "0" and what != "y-modified" and not feature_tags(c, short):
        return "C14:PDHG:G-and-lamda"
    return "C14:%s:%s:G%d:lam%s:prox%d%s" % (short.upper(), what, c["gkind"] is not None, "+" if c["lam"] != "0" else "0",
                                             c["prox"] is not None, feature_tags(c, short))


class Run:
    """one LinearLeastSquares solve under the oracle: built, constructed, advanced stage by stage, judged"""
    pass


def start(ctx, c, origin, shared=None, case=None, tag="", warm=None):
    """build the objects of case c, the reference optimum and the real app.  Returns a Run, or a status string
    ('rejected', 'no-reference', 'fail')."""
    case = case or dict(kind="oracle", case=c)
    try:
        b = build(c, shared=shared)
    except Exception:
        return "rejected"
    if warm is not None:      # the array returned by the previous solve of a history, handed in as the start vector
        b.x0 = warm.copy()
    np.random.seed(c["seed"] % (2 ** 31))
    r = Run()
    r.c, r.case, r.tag, r.origin = c, case, tag, origin
    r.y0 = b.y.tobytes()
    r.z0 = b.z.tobytes() if isinstance(b.z, np.ndarray) else None
    s = scale_of(c)
    # the reference problem is the unscaled one (exact homothety: x -> x / 2^k, objective / 4^k)
    bu = build(unscaled(c))
    r.yv = np.array(bu.y).ravel()
    r.zv = None if bu.z is None else (np.array(bu.z).ravel() if isinstance(bu.z, np.ndarray) else np.full(c["n"], bu.z))
    r.A, r.Gd = smooth_parts(c, bu)
    r.s = s
    try:
        a = make_app(c, b, 1)
    except Exception as e:
        if c["solver"] is None:
            # solver=None is documented to choose a solver that supports the given proxg/G, and one exists
            # for every combination (the generator only builds shape-consistent instances)
            ctx.fail("C14:None:rejected" + tag, "solver=None raised %s instead of choosing an applicable solver" % type(e).__name__,
                     case, observed=repr(e), expected="a solver that supports proxg=%s, G=%s" % (
                         c["prox"] and c["prox"][0], c["gkind"]), origin=origin)
            return "fail"
        if wide_supported(c):
            # a documented argument form (array step size, callable / Linop preconditioner, scalar z, any memory layout)
            # on a combination whose plain form the constructor accepts
            short = SHORT.get(c["solver"], "x")
            ctx.fail(finding_key(c, short, "rejected", False) + tag,
                     "the constructor raised %s on a supported combination of documented arguments" % type(e).__name__,
                     case, observed=repr(e), expected="minimiser", origin=origin)
            return "fail"
        return "rejected"
    r.short = SHORT[type(a.alg).__name__]
    ref = reference(unscaled(c), r.A, r.Gd, r.yv, r.zv)
    if ref is None:
        return "no-reference"
    r.xstar, r.fstar = ref
    r.box = c["prox"] is not None and c["prox"][0] == "box"
    r.scale = max(1.0, abs(r.fstar))
    r.sched = [int(N) for N in SCHEDULE[r.short]]
    if b.y.tobytes() != r.y0:   # already the constructor wrote into y
        r.a = None
    else:
        b = build(c, shared=shared)
        if warm is not None:
            b.x0 = warm       # the very array object
        np.random.seed(c["seed"] % (2 ** 31))
        r.a = make_app(c, b, r.sched[0])
    r.b = b
    r.gaps, r.infs, r.status, r.total, r.x, r.infeas, r.stage = [], [], None, 0, None, 0.0, 0
    return r


def wide_supported(c):
    """the case differs from a plain (accepted) one only by a documented form of an argument"""
    if c["solver"] not in SOLVERS:
        return False
    if c["solver"] == "ConjugateGradient" and c["prox"] is not None:
        return False
    if c["solver"] == "GradientMethod" and c["gkind"] is not None:
        return False
    return bool(c.get("wide"))


def advance(ctx, r):
    """run the next stage of the schedule (the same app continues).  Returns True when the run is over
    (converged, failed or out of stages)."""
    if r.a is None or r.status is not None or r.stage >= len(r.sched):
        return True
    N = r.sched[r.stage]
    r.stage += 1
    c = r.c
    try:
        r.a.alg.max_iter = N      # later stages continue the same run
        with np.errstate(all="ignore"):
            x = r.a.run()
    except Exception as e:
        ctx.fail(finding_key(c, r.short, "exception", False) + r.tag,
                 "run() raised %s on a combination the constructor accepted" % type(e).__name__,
                 r.case, observed=repr(e), expected="minimiser", origin=r.origin)
        r.status = "fail"
        return True
    r.total = N
    r.x = x
    with np.errstate(all="ignore"):
        f, r.infeas = objective_value(unscaled(c), r.A, r.Gd, r.yv, r.zv, np.asarray(x) / r.s, with_g=not r.box)
    gap = f - r.fstar
    r.gaps.append(gap)
    r.infs.append(r.infeas)
    fin = np.all(np.isfinite(x))
    if fin and gap <= TOL * r.scale and r.infeas <= 1e-5 and (not r.box or gap >= -1e-4 * r.scale):
        r.status = "ok"
        return True
    return r.stage >= len(r.sched)


def conclude(ctx, r):
    """judge a finished run; returns the status string"""
    c, b, x = r.c, r.b, r.x
    if r.status == "fail":
        return "fail"
    y_changed = b.y.tobytes() != r.y0 or (r.z0 is not None and b.z.tobytes() != r.z0)
    if y_changed:
        ctx.fail(finding_key(c, r.short, "y-modified", True) + r.tag, "run() modified the caller's y or z",
                 r.case, observed="y/z bytes differ after run()", expected="y, z unchanged", origin=r.origin)
        return "fail"
    if r.status == "ok":
        # the app's own objective() must be the documented objective (it is what save_objective_values records)
        cu = unscaled(c)
        fdoc, inf2 = objective_value(cu, r.A, r.Gd, r.yv, r.zv, np.asarray(x) / r.s)
        fdoc = fdoc * r.s * r.s
        if math.isfinite(fdoc) and not r.box:   # (box: g is the harness's own 0/inf indicator, rounding-sensitive)
            try:
                fapp = r.a.objective()
            except Exception as e:
                fapp = repr(e)
            otol = 1e-4 if c.get("single") else 1e-9    # (single: observed 1e-7, a wrong term is O(1))
            if not (isinstance(fapp, float) and abs(fapp - fdoc) <= otol * max(r.s * r.s, abs(fdoc))):
                ctx.fail("C14:objective" + r.tag, "objective() differs from the documented objective at the returned x",
                         r.case, observed=fapp, expected=fdoc, origin=r.origin)
                return "fail"
            if c.get("saveobj"):
                ov = getattr(r.a, "objective_values", None)
                if not (isinstance(ov, list) and len(ov) >= 2 and abs(ov[-1] - fdoc) <= otol * max(r.s * r.s, abs(fdoc))):
                    ctx.fail("C14:objective_values" + r.tag, "save_objective_values: the last recorded value is not the documented "
                             "objective at the returned x", r.case, observed=None if not isinstance(ov, list) else ov[-3:],
                             expected=fdoc, origin=r.origin)
                    return "fail"
        return "ok"
    if r.a is None:
        return "fail"
    # not within tolerance after the longest run: a violation only when it is not merely slow —
    # the gap stopped shrinking (plateau at another problem's minimiser) or the iterates blew up
    gaps = r.gaps
    fin = x is not None and np.all(np.isfinite(x))
    slow = fin and len(gaps) >= 2 and gaps[-1] > 0 and gaps[-1] < 0.25 * gaps[-2] and r.infeas <= 1e-3
    if slow:
        return "slow"
    # box constraint approached from outside (the smooth part is then BELOW the optimum): still converging when both
    # the distance to the box and the objective difference keep shrinking at that rate
    if (fin and r.box and len(gaps) >= 2 and 0 < r.infeas <= 1e-3 and r.infs[-1] < 0.25 * r.infs[-2]
            and abs(gaps[-1]) < 0.25 * abs(gaps[-2])):
        return "slow"
    ctx.fail(finding_key(c, r.short, "gap", False) + r.tag,
             "objective at the returned x is not within tolerance of the optimum of 0.5||Ax-y||^2+g(Gx)+lamda/2||x-z||^2",
             r.case,
             observed=dict(x=None if x is None else np.ravel(x).tolist(), objective_gaps=gaps, infeasibility=r.infeas,
                           iterations=r.total, data_scale=r.s),
             expected=dict(x=(np.ravel(r.xstar) * r.s).tolist(), objective=r.fstar, tol=TOL * r.scale,
                           note="objective / gaps are those of the problem with the data divided by data_scale"), origin=r.origin)
    return "fail"


def oracle(ctx, c, origin, budget_scale=1.0, shared=None, case=None, tag="", warm=None, out=None):
    """runs the real app on case c; reports a failure through ctx.fail; returns a status string."""
    r = start(ctx, c, origin, shared=shared, case=case, tag=tag, warm=warm)
    if out is not None:
        out.append(r)
    if isinstance(r, str):
        return r
    if r.a is None:
        ctx.fail(finding_key(c, r.short, "y-modified", True) + tag, "the constructor modified the caller's y",
                 r.case, observed="y bytes differ after LinearLeastSquares(...)", expected="y unchanged", origin=origin)
        return "fail"
    while not advance(ctx, r):
        pass
    return conclude(ctx, r)


# ---- call histories: several solves that share operator / prox / preconditioner objects ------------------------------
def quiet_ctx():
    return common.Ctx(PROPERTY, "quick", 0)


def oracle_history(ctx, h, origin):
    """h = dict(kind='history', steps=[case, ...], mode='sequential' | 'interleaved').
    Every solve of the history must return the minimiser of ITS OWN problem (the property is about each call; nothing
    in it depends on what was solved before with the same Linop / Prox objects).
    sequential : the solves run one after the other.
    interleaved: all apps are constructed first, then advanced in turn (two or more live objects).
    A step that fails is re-run alone on fresh objects: if it then holds, the finding is history-dependent and the whole
    history is the failing input; otherwise the step alone is reported."""
    steps = h["steps"]
    shared = {}
    case = dict(kind="history", history=h)
    statuses = []
    probe = quiet_ctx()

    def report(k):
        f = probe.failures[-1]
        alone = quiet_ctx()
        st = oracle(alone, steps[k], origin)
        if st == "fail":
            fa = alone.failures[0]
            ctx.fail(fa["key"], fa["what"], dict(kind="oracle", case=steps[k]), fa["observed"], fa["expected"], origin)
        else:
            ctx.fail(f["key"] + ":history", f["what"] + " — in solve #%d of a %s history that shares the operator objects "
                     "(the same call alone on fresh objects: %s)" % (k + 1, h["mode"], st),
                     dict(kind="history", history=h, failing_step=k), f["observed"], f["expected"], origin)

    if h["mode"] == "sequential":
        prev = None
        for k, c in enumerate(steps):
            n0 = len(probe.failures)
            out = []
            warm = prev if (h.get("warm") and prev is not None and c["x0"] is not None) else None
            st = oracle(probe, c, origin, shared=shared, case=case, warm=warm, out=out)
            prev = out[0].x if (st == "ok" and isinstance(out[0].x, np.ndarray)) else None
            statuses.append(st)
            if st == "fail" and len(probe.failures) > n0:
                report(k)
                return "fail"
        return "ok" if all(t == "ok" for t in statuses) else ",".join(sorted(set(statuses)))
    runs = []
    for k, c in enumerate(steps):
        n0 = len(probe.failures)
        r = start(probe, c, origin, shared=shared, case=case)
        if isinstance(r, str):
            if r == "fail" and len(probe.failures) > n0:
                report(k)
                return "fail"
            statuses.append(r)
            continue
        if r.a is None:
            probe.fail(finding_key(c, r.short, "y-modified", True), "the constructor modified the caller's y", case)
            report(k)
            return "fail"
        runs.append((k, r))
    live = list(runs)
    while live:
        nxt = []
        for k, r in live:
            n0 = len(probe.failures)
            over = advance(probe, r)
            if len(probe.failures) > n0:
                report(k)
                return "fail"
            if not over:
                nxt.append((k, r))
        live = nxt
    for k, r in runs:
        n0 = len(probe.failures)
        st = conclude(probe, r)
        statuses.append(st)
        if st == "fail" and len(probe.failures) > n0:
            report(k)
            return "fail"
    return "ok" if all(t == "ok" for t in statuses) else ",".join(sorted(set(statuses)))


def cplx_case(rng):
    c = gen_case(rng, force=dict(akind="matmul", prox=rng.choice([None, "l2"]), gkind=rng.choice([None, "dense"])))
    n, m = c["n"], c["m"]
    c["cplx"] = True
    c["Aim"] = [[rng.randint(-1, 1) / 2 for _ in range(n)] for _ in range(m)]
    c["yim"] = [rng.randint(-4, 4) / 2 for _ in range(m)]
    if c["z"] is not None:
        c["zim"] = [rng.randint(-3, 3) / 2 for _ in range(n)]
    c["x0"] = None
    return c


def observe_power_gap(ctx, ncases):
    """OBSERVATION (not part of the property): how far the real default step `alpha = 1/MaxEig(...)` exceeds `1/lambda_max`
    (Props/C14Power.lean: the power method under-estimates), and whether an un-accelerated GradientMethod update of the
    real app ever increases the documented objective because of it (C13's `ista_descent` needs alpha*L <= 1;
    `ista_descent_relaxed` shows descent survives up to alpha*L <= 2)."""
    rng = ctx.rng
    worst, over, incr, worst_incr, runs = 1.0, 0, 0, 0.0, 0
    for _ in range(ncases):
        c = gen_case(rng, solver="GradientMethod", force=dict(akind="matmul", gkind=None,
                                                               prox=rng.choice([None, "l1", "l2"])))
        if _ % 2:   # directed: nearly equal top eigenvalues, where 30 power iterations are visibly short of lambda_max
            c = gen_case(rng, solver="GradientMethod", force=dict(akind="diag", gkind=None, prox=rng.choice([None, "l1"]), n=4))
            d = [Fr(2), Fr(rng.choice([255, 254, 252]), 128), Fr(rng.choice([253, 250, 248]), 128), Fr(1)]
            c["A"] = [[d[i] if i == j else Fr(0) for j in range(4)] for i in range(4)]
        c["alpha"], c["acc"], c["x0"] = None, False, None
        try:
            b = build(c)
            np.random.seed(c["seed"] % (2 ** 31))
            a = make_app(c, b, 60)
        except Exception:
            continue
        A, Gd = smooth_parts(c, b)
        lam = float(F(c["lam"]))
        lmax = float(np.linalg.eigvalsh(A.conj().T @ A + lam * np.eye(c["n"]))[-1])
        ratio = float(a.alg.alpha) * lmax
        runs += 1
        worst = max(worst, ratio)
        over += ratio > 1 + 1e-12
        yv, zv = b.y.copy().ravel(), None if b.z is None else b.z.copy().ravel()
        prev, _ = objective_value(c, A, Gd, yv, zv, np.asarray(a.x))
        for _k in range(60):
            a.alg.update()
            cur, _ = objective_value(c, A, Gd, yv, zv, np.asarray(a.x))
            if cur > prev + 1e-10 * max(1.0, abs(prev)):
                incr += 1
                worst_incr = max(worst_incr, cur - prev)
            prev = cur
    ctx.counts["power-gap:runs"] = runs
    ctx.counts["power-gap:alpha>1/L"] = int(over)
    ctx.counts["power-gap:objective-increases"] = int(incr)
    ctx.notes.append("observation (power-method gap, real code, alpha=None, accelerate=False, %d runs x 60 updates): "
                     "alpha*lambda_max exceeded 1 in %d runs, worst 1+%.3e (hypothesis alpha*L<=1 of C13.ista_rate/ista_descent "
                     "fails there; ista_descent_relaxed needs <=2); objective increases observed: %d (worst %.3g)"
                     % (runs, over, worst - 1.0, incr, worst_incr))


# ---- widened input classes (search oracle) ----------------------------------------------------------------------------
WIDE_FOCUS = ["P", "tau", "sigma", "tausigma", "layout", "dtype", "scalars", "alias", "saveobj", "perm", "tau", "P"]


def permute_A(c, rng):
    """a dense A whose dominant entries are NOT on the diagonal (column permutation: same singular values)"""
    if c["akind"] != "matmul":
        return
    n = c["n"]
    perm = list(range(n))
    while perm == list(range(n)):
        perm = rng.choice([perm[::-1], rng.sample(perm, n)])
    c["A"] = [[r[j] for j in perm] for r in c["A"]]
    if c.get("Aim"):
        c["Aim"] = [[r[j] for j in perm] for r in c["Aim"]]


def spread(rng, k, vals=(Fr(1, 8), Fr(1, 4), Fr(1, 2), Fr(1), Fr(2), Fr(4))):
    """k positive dyadic values, not all equal (a diagonal step-size preconditioner)"""
    while True:
        v = [rng.choice(vals) for _ in range(k)]
        if len(set(v)) > 1:
            return v


def kmatrix(c):
    A = dense_A(c)
    Gd = dense_G(c)
    return A if Gd is None else np.vstack([A, Gd])


def widen(c, rng, focus):
    """takes a plain case to a neighbouring input class the property equally quantifies over (DESIGN.md §3 C14 R:
    every supported combination of solver, lamda, z, proxg, G, preconditioner or step-size arguments and initial x;
    all small real/complex A, y).  Everything needed to rebuild the inputs is written into the case."""
    c["wide"] = focus
    n, m = c["n"], c["m"]
    if focus == "P":
        # preconditioner forms: Linop / callable, returning a fresh array or the very array it was given; dense SPD
        if c["solver"] not in ("ConjugateGradient", "ADMM"):
            c["solver"] = rng.choice(["ConjugateGradient", "ADMM"])
        if c["solver"] == "ConjugateGradient":
            c["prox"] = None
        kind = rng.choice(["identity", "mul1", "func", "funcdiag", "dense", "identity", "func"])
        c["Pkind"] = kind
        c["P"] = ["1"] * n if kind in P_RETURNS_INPUT else [fs(rng.choice([Fr(1, 2), Fr(1), Fr(2)])) for _ in range(n)]
        if kind == "dense":
            while True:
                B = np.array([[rng.randint(-1, 1) / 2 for _ in range(n)] for _ in range(n)])
                Pm = B.T @ B + np.eye(n)
                if np.linalg.cond(Pm) < 8:
                    break
            c["Pmat"] = [[fs(Fr(float(t))) for t in r] for r in Pm]
        if rng.random() < 0.5:
            permute_A(c, rng)
    elif focus in ("tau", "sigma", "tausigma"):
        # array step sizes (diagonal preconditioners) for the primal-dual solver, the other one defaulted or given
        c["solver"] = "PrimalDualHybridGradient" if (c["prox"] is None or c["gkind"] is None or rng.random() < 0.7) else None
        if rng.random() < 0.7:
            permute_A(c, rng)       # couples coefficients that carry different step sizes
        c["tau"], c["sigma"] = None, None
        if focus == "tausigma" and c["gkind"] is not None and c["prox"] is not None and c["prox"][0] == "box" and c["lam"] == "0":
            # (a box on G x without strong convexity reaches feasibility only in the limit: too slow for the schedule
            # when both step arrays are unbalanced)
            c["lam"] = "1/2"
        K = kmatrix(c)
        d = K.shape[0]
        uniform = rng.random() < 0.15
        if focus == "tau":
            c["tau_arr"] = [fs(t) for t in ([rng.choice([Fr(1, 4), Fr(1), Fr(2)])] * n if uniform else spread(rng, n))]
        elif focus == "sigma":
            c["sigma_arr"] = [fs(t) for t in ([rng.choice([Fr(1, 4), Fr(1), Fr(2)])] * d if uniform else spread(rng, d))]
        else:
            # (both given: a moderate spread, so that "enough iterations" stays within the oracle's schedule)
            t, w = spread(rng, n, (Fr(1, 2), Fr(1), Fr(2), Fr(4))), spread(rng, d, (Fr(1, 2), Fr(1), Fr(2)))
            M = np.diag([float(x) ** 0.5 for x in w]) @ K @ np.diag([float(x) ** 0.5 for x in t])
            sc = pow2_below(0.9 / np.linalg.eigvalsh(M.T @ M).max())     # ||S^1/2 K T^1/2||^2 <= 0.9
            c["tau_arr"] = [fs(x) for x in t]
            c["sigma_arr"] = [fs(x * sc) for x in w]
    elif focus == "layout":
        c["layout"] = dict(y=rng.choice(["strided", "neg", "offset", "readonly"]),
                           z=rng.choice(["c", "strided", "neg", "readonly"]),
                           x0=rng.choice(["c", "strided", "neg", "offset"]),
                           A=rng.choice(["c", "f", "strided", "neg"]),
                           G=rng.choice(["c", "f", "strided"]))
        if c["x0"] is None and rng.random() < 0.6:
            c["x0"] = [fs(dy(rng, -2, 2, 2)) for _ in range(n)]
    elif focus == "dtype":
        # complex data with a real operator; complex data with a complex start vector
        if not c.get("cplx"):
            c["ycplx"] = True
            c["yim"] = [rng.randint(-4, 4) / 2 for _ in range(m)]
            if c["z"] is not None and rng.random() < 0.6:
                c["zim"] = [rng.randint(-3, 3) / 2 for _ in range(n)]
            if c["prox"] is not None and c["prox"][0] in ("l1", "box"):
                c["prox"] = ["l2", "1"]
        if rng.random() < 0.6:
            c["x0"] = [fs(dy(rng, -2, 2, 2)) for _ in range(n)]
            c["x0im"] = [rng.randint(-2, 2) / 2 for _ in range(n)]
        r_ = rng.random()
        if r_ < 0.35:
            # single precision data; real single precision data keeps every prox kind
            c["single"] = True
            if r_ < 0.2 and c.get("ycplx"):
                c["ycplx"] = False
                c.pop("zim", None)
                c.pop("x0im", None)
        elif r_ < 0.6 and not c.get("cplx") and c["akind"] in ("matmul", "diag"):
            c["A"] = [[fs(2 * F(t)) for t in r] for r in c["A"]]
            c["Aint"] = True
    elif focus == "scalars":
        # scalar options as Python ints, z as the documented float, data of very small / very large magnitude
        c["intargs"] = True
        if rng.random() < 0.6:
            c["lam"] = fs(rng.choice([Fr(1), Fr(2), Fr(3)]))
        if rng.random() < 0.5:
            c["rho"] = fs(rng.choice([Fr(1), Fr(2), Fr(4)]))
        if c["lam"] != "0" and rng.random() < 0.5:
            c["z"] = [fs(dy(rng, -3, 3, 2))] * n
            c["zscalar"] = True
        if rng.random() < 0.7:
            c["yscale"] = rng.choice([-40, -20, 20, 40])
    elif focus == "alias":
        # regularisation operators / prox objects that hand back their input, G the very object passed as A
        c["gkind"] = rng.choice(["identity", "mul1", "reshape", "A"])
        c["G"] = None
        if c["solver"] == "GradientMethod":
            c["solver"] = rng.choice([None, "PrimalDualHybridGradient", "ADMM"])
        if c["solver"] == "ConjugateGradient":
            c["prox"] = None
        elif rng.random() < 0.3:
            c["prox"] = ["noop"]
        if c["gkind"] == "A" and c["akind"] == "reshape":
            c["gkind"] = "reshape"
    elif focus == "saveobj":
        c["saveobj"] = True
        if rng.random() < 0.5:
            c["akind"] = rng.choice(["identity", "mul1", "reshape"])
            c["m"] = n
            c["A"] = [[fs(Fr(int(i == j))) for j in range(n)] for i in range(n)]
            c["y"] = (c["y"] + ["1"] * n)[:n]
    elif focus == "perm":
        permute_A(c, rng)
        c["alpha"], c["tau"], c["sigma"] = None, None, None
    return c


def history_case(rng):
    """a call history: 2-4 solves that share the forward operator object (and G / prox / P objects whenever their
    specification coincides), with one or more options swept in sequence; sequential or interleaved"""
    base = gen_case(rng, force=dict(akind=rng.choice(["matmul", "matmul", "diag", "identity", "mul1", "reshape"])))
    base["alpha"], base["tau"], base["sigma"] = None, None, None
    sweep = rng.choice(["lam-up", "lam-up", "lam-down", "lam-mixed", "solver", "z", "y", "prox", "steps", "rho", "A"])
    k = rng.choice([2, 3, 3, 4])
    lams = [Fr(0), Fr(1, 8), Fr(1, 2), Fr(1), Fr(2), Fr(4), Fr(8), Fr(32)]
    if sweep == "lam-up":
        ls = sorted(rng.sample(lams, k))
    elif sweep == "lam-down":
        ls = sorted(rng.sample(lams, k), reverse=True)
    elif sweep == "lam-mixed":
        ls = [rng.choice(lams) for _ in range(k)]
    else:
        ls = [F(base["lam"])] * k
    if sweep.startswith("lam") and rng.random() < 0.6:
        # keep the solver that takes its step from the operator norm in the sweep
        base["solver"] = rng.choice(["GradientMethod", "PrimalDualHybridGradient", None])
        if base["solver"] == "GradientMethod":
            base["gkind"], base["G"] = None, None
    steps = []
    for i in range(k):
        c = json.loads(json.dumps(base))
        c["seed"] = rng.randint(0, 10 ** 6)
        c["lam"] = fs(ls[i])
        if sweep == "solver" and i > 0:
            c["solver"] = rng.choice([None] + SOLVERS)
            if c["solver"] == "ConjugateGradient":
                c["prox"] = None
            if c["solver"] == "GradientMethod":
                c["gkind"], c["G"] = None, None
        if sweep == "z" and i > 0:
            c["z"] = None if rng.random() < 0.3 else [fs(dy(rng, -3, 3, 2)) for _ in range(c["n"])]
            if c["lam"] == "0":
                c["lam"] = "1"
        if sweep == "y" and i > 0:
            c["y"] = [fs(dy(rng, -4, 4, 2)) for _ in c["y"]]
            if all(t == "0" for t in c["y"]):
                c["y"][0] = "1"
        if sweep == "prox" and i > 0:
            pk = rng.choice([None, "l1", "l2", "box"])
            c["prox"] = {None: None, "l1": ["l1", fs(rng.choice([Fr(1, 4), Fr(1)]))], "l2": ["l2", fs(rng.choice([Fr(1, 2), Fr(2)]))],
                         "box": ["box", "-1/2", "1/2"]}[pk]
            if c["solver"] == "ConjugateGradient" and c["prox"] is not None:
                c["solver"] = None
        if sweep == "steps" and i > 0:
            explicit_steps(c, rng, alpha=rng.random() < 0.5, tau=rng.random() < 0.5, sigma=rng.random() < 0.3)
        if sweep == "A" and i > 0:
            # another operator OBJECT of the same shape and class (nothing may be carried over by shape / repr)
            n_, m_ = c["n"], c["m"]
            f_ = rng.choice([1, 2, 3])
            if c["akind"] == "matmul":
                c["A"] = [[fs(f_ * t) for t in r] for r in gen_matrix(rng, m_, n_)]
            else:
                c["akind"] = "diag"
                d_ = [f_ * Fr(rng.choice([2, 3, 4, 5, 6]), 2) * rng.choice([1, -1]) for _ in range(n_)]
                c["A"] = [[fs(d_[a_] if a_ == b_ else Fr(0)) for b_ in range(n_)] for a_ in range(n_)]
        if sweep == "rho" and i > 0:
            c["rho"] = fs(rng.choice([Fr(1, 2), Fr(1), Fr(2), Fr(4)]))
            if rng.random() < 0.5:
                c["solver"] = "ADMM"
        if c["x0"] is not None and i > 0 and rng.random() < 0.5:
            c["x0"] = None
        steps.append(c)
    mode = rng.choice(["sequential", "sequential", "interleaved"])
    return dict(kind="history", sweep=sweep, mode=mode, warm=(mode == "sequential" and rng.random() < 0.4), steps=steps)


def search(ctx, budget):
    rng = ctx.rng
    # 1. the disagreeing cases first
    for d in ctx.disagreements[:40]:
        cc = d["case"]
        if "history" in cc:     # a set-up that differs from the model only after earlier set-ups on the same objects
            st = oracle_history(ctx, cc["history"], "disagreement")
            ctx.count("oracle:" + (st if st in ("ok", "fail") else "other"))
        elif "case" in cc:
            st = oracle(ctx, cc["case"], "disagreement")
            ctx.count("oracle:" + st)
    if any(d["stream"] == "power" for d in ctx.disagreements):
        # the power method disagrees with its model: the set-ups that divide by MaxEig's result (default alpha / tau)
        for i in range(int(40 * budget)):
            c = gen_case(rng, solver=["GradientMethod", "PrimalDualHybridGradient"][i % 2])
            c["alpha"], c["tau"], c["sigma"] = None, None, None
            if len(ctx.failures) >= 8:
                break
            st = oracle(ctx, c, "disagreement")
            ctx.count("oracle:" + st)
    observe_power_gap(ctx, int(12 * budget))
    # 2. budgeted search over the cross product
    n = int(300 * budget)
    for i in range(n):
        solver = ([None] + SOLVERS)[i % 5]
        if i % 12 == 11:
            c = cplx_case(rng)
            c["solver"] = solver
        else:
            c = gen_case(rng, solver=solver)
            if i % 3 == 0:   # operators whose .H returns its input, with lamda and z
                c2 = gen_case(rng, solver=solver, force=dict(akind=rng.choice(["identity", "reshape"]), n=c["n"]))
                c = c2
        r_ = rng.random()
        if not c.get("cplx"):
            explicit_steps(c, rng, alpha=rng.random() < 0.3, tau=r_ < 0.3, sigma=r_ < 0.2 or 0.3 <= r_ < 0.4)
        if len(ctx.failures) >= 8:
            ctx.notes.append("search stopped after 8 failing inputs")
            break
        st = oracle(ctx, c, "search")
        ctx.case(("oracle", json.dumps(c, sort_keys=True)), nontrivial=st not in ("rejected", "no-reference"))
        ctx.count("oracle:" + st)
        ctx.count("oracle-solver:%s" % c["solver"])
    # 3. the same oracle on neighbouring input classes: argument forms, memory layouts, dtypes, magnitudes, aliasing
    #    operator / prox / preconditioner objects (one focus per case, in turn, so every class is visited in every run)
    nw = int(WIDE_N * budget)
    for i in range(nw):
        if len(ctx.failures) >= 12:
            break
        focus = WIDE_FOCUS[i % len(WIDE_FOCUS)]
        solver = ([None] + SOLVERS)[(i // len(WIDE_FOCUS)) % 5]
        if focus == "dtype" and rng.random() < 0.4:
            c = cplx_case(rng)
            c["solver"] = solver
        else:
            c = gen_case(rng, solver=solver)
            if focus in ("P", "tau", "sigma", "tausigma", "perm") and c["akind"] != "matmul" and rng.random() < 0.8:
                c = gen_case(rng, solver=solver, force=dict(akind="matmul"))
        if c["solver"] == "ConjugateGradient":     # (the rejection table is the `sel` stream's business)
            c["prox"] = None
        if c["solver"] == "GradientMethod":
            c["gkind"], c["G"] = None, None
        c = widen(c, rng, focus)
        st = oracle(ctx, c, "search-wide")
        ctx.case(("oracle-wide", json.dumps(c, sort_keys=True)), nontrivial=st not in ("rejected", "no-reference"))
        ctx.count("oracle-wide:%s:%s" % (focus, st))
    # 4. call histories on shared objects
    nh = int(HISTORY_N * budget)
    for i in range(nh):
        if len(ctx.failures) >= 14:
            break
        h = history_case(rng)
        st = oracle_history(ctx, h, "search-history")
        ctx.case(("oracle-history", json.dumps(h, sort_keys=True)), nontrivial=st == "ok" or st == "fail")
        ctx.count("oracle-history:%s:%s:%s" % (h["sweep"], h["mode"], st if st in ("ok", "fail") else "other"))
    ctx.notes.append("oracle outcomes: " + ", ".join("%s=%d" % (k[7:], v) for k, v in sorted(ctx.counts.items()) if k.startswith("oracle:")))
    ctx.notes.append("widened oracle outcomes: " + ", ".join("%s=%d" % (k[12:], v) for k, v in sorted(ctx.counts.items()) if k.startswith("oracle-wide:")))
    ctx.notes.append("history oracle outcomes: " + ", ".join("%s=%d" % (k[15:], v) for k, v in sorted(ctx.counts.items()) if k.startswith("oracle-history:")))


WIDE_N = 156
HISTORY_N = 48


def replay(path):
    r = json.load(open(path))
    print(json.dumps(r, indent=1)[:4000])
    if r.get("kind") != "failing-input":
        return 0
    cc = r["case"]
    ctx = common.Ctx(PROPERTY, "quick", 0)
    if cc.get("kind") == "history":
        st = oracle_history(ctx, cc["history"], "replay")
    else:
        st = oracle(ctx, cc["case"], "replay")
    for f in ctx.failures:
        print("observed:", f["observed"])
        print("expected:", f["expected"])
    print("replay:", "property holds on this input" if st != "fail" else "property FAILS on this input (%s)" % ctx.failures[0]["what"])
    return 1 if st == "fail" else 0
